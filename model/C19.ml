(* model driver for C19 *)
open Common
let nn s = n_of_int (int_of_string s)
(* packets of every type from the wire-format universe (same generator as C05), as raw material for
   the 'declared but not supplied' probes *)
let rnd_list (seed : int) (n : int) : BinNums.coq_N list =
  let s = ref (seed * 0x9E3779B97F4A7C + 0x1234567) in
  let next () =
    s := !s + 0x1E3779B97F4A7C15;
    let z = ref !s in
    z := (!z lxor (!z lsr 30)) * 0xBF58476D1CE4E5B;
    z := (!z lxor (!z lsr 27)) * 0x94D049BB133111E;
    z := !z lxor (!z lsr 31);
    (!z lsr 8) land 0xFFFFFFFF in
  Stdlib.List.init n (fun _ -> n_of_int (next ()))

let handle = function
  | ["gen"; tag; seed] ->
    let f = Packets.body_fmt (nn tag) in
    let (v, _) = Fmt.gen f (rnd_list (int_of_string seed) 4000) in
    (match Wire.packet (nn tag) v with Some p -> hex_of_bytes p | None -> "NONE")
  | ["argon"; t; p; m] -> str_of_bool (Cost.argon2_allowed (nn t) (nn p) (nn m))
  | ["iter"; c] -> string_of_int (int_of_n (Kdf.decode_count (nn c)))
  | ["take"; size; chunks] ->
    let (l, c) = Cost.take_bytes (nn size) (ns_of chunks) in
    Printf.sprintf "%d %d" (int_of_n l) (int_of_n c)
  | ["mpi"; bits] -> str_of_bool (Cost.mpi_allowed (nn bits))
  | ["chunk"; cs] -> Printf.sprintf "%s %d" (str_of_bool (Cost.chunk_allowed (nn cs))) (if int_of_string cs <= 40 then int_of_n (Cost.aead_buffer (nn cs)) else 0)
  | _ -> "MODEL-ERROR unknown op"
let () = run handle
