(* model driver for C19 *)
open Common
let nn s = n_of_int (int_of_string s)
let handle = function
  | ["argon"; t; p; m] -> str_of_bool (Cost.argon2_allowed (nn t) (nn p) (nn m))
  | ["iter"; c] -> string_of_int (int_of_n (Kdf.decode_count (nn c)))
  | ["take"; size; chunks] ->
    let (l, c) = Cost.take_bytes (nn size) (ns_of chunks) in
    Printf.sprintf "%d %d" (int_of_n l) (int_of_n c)
  | ["mpi"; bits] -> str_of_bool (Cost.mpi_allowed (nn bits))
  | ["chunk"; cs] -> Printf.sprintf "%s %d" (str_of_bool (Cost.chunk_allowed (nn cs))) (if int_of_string cs <= 40 then int_of_n (Cost.aead_buffer (nn cs)) else 0)
  | _ -> "MODEL-ERROR unknown op"
let () = run handle
