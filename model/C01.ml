(* model driver for C01: the reader of Msg/Pipeline.v over the stack the harness describes *)
open Common
let nn s = n_of_int (int_of_string s)

let kv (cfg : string) : (string * string) list =
  Stdlib.List.filter_map (fun p -> match Stdlib.String.index_opt p '=' with
      | Some i -> Some (Stdlib.String.sub p 0 i, Stdlib.String.sub p (i + 1) (Stdlib.String.length p - i - 1))
      | None -> None) (Stdlib.String.split_on_char ';' cfg)

let rec nat_of_int i = if i <= 0 then Datatypes.O else Datatypes.S (nat_of_int (i - 1))

let mk_layer (dec : Byte.byte list -> Byte.byte list Res.res) : Pipeline.layer =
  { Pipeline.l_enc = (fun p -> p); Pipeline.l_dec = dec }

let handle = function
  | ["read"; cfg; msg] ->
    let c = kv cfg in
    let get k d = try Stdlib.List.assoc k c with Not_found -> d in
    let layers = ref [] in
    let add l = layers := !layers @ [l] in   (* innermost first *)
    (* literal (+ signature wrappers) *)
    add (mk_layer (Pipeline.literal_dec (nat_of_int (int_of_string (get "ops" "0"))) (nn (get "hl" "6")) (nat_of_int (int_of_string (get "sigs" "0")))));
    (* compression *)
    (match get "comp" "-" with
     | "-" -> ()
     | a -> add (mk_layer (Pipeline.compressed_dec (fun x -> if a = "0" then Some x else Prims.decompress (nn a) x) (nn a))));
    (* encryption *)
    (match get "enc" "0" with
     | "2" ->
       let hdr = bytes_of_hex (get "hdr" "-") in
       let sym = nn (get "sym" "7") and aead = nn (get "aead" "2") and cs = nn (get "cs" "6") in
       let salt = Octets.dropN (n_of_int 4) hdr in
       let (key, iv) = Seipd2.derive Prims.hkdf sym aead cs salt (bytes_of_hex (get "key" "-")) in
       let dec ct = Pipeline.res_of_option (Seipd2.seipd2_dec (Prims.aopen aead sym) (Seipd2.chunk_len cs) key iv (Seipd2.info_of sym aead cs) ct) in
       add (mk_layer (Pipeline.encrypted_dec (nat_of_int (int_of_string (get "esks" "0"))) hdr dec))
     | "1" ->
       let symi = int_of_string (get "sym" "7") in
       let bs = n_of_int (match symi with 7 | 8 | 9 | 10 | 11 | 12 | 13 -> 16 | _ -> 8) in
       let e = Prims.enc_block (n_of_int symi) (bytes_of_hex (get "key" "-")) in
       let dec ct = Cfb.seipd1_dec e bs (Prims.hash (n_of_int 2)) ct in
       add (mk_layer (Pipeline.encrypted_dec (nat_of_int (int_of_string (get "esks" "0"))) (bytes_of_hex "01") dec))
     | _ -> ());
    if get "arm" "0" = "1" then add (mk_layer Pipeline.armor_dec);
    (try
       (match Pipeline.read !layers (bytes_of_hex msg) with
        | Res.Ok p -> "OK " ^ hex_of_bytes p
        | Res.Err -> "ERR"
        | Res.Panic -> "PANIC")
     with Prims.Unsupported _ -> "UNSUPPORTED")
  | ["signgen"; k; payload; nsig; msg] ->
    (* split the library's octets into packets: n one-pass packets, the literal packet, n signature packets *)
    let m = bytes_of_hex msg in
    let n = int_of_string nsig in
    let raw_of whole rest = Octets.takeN (n_of_int (Stdlib.List.length whole - Stdlib.List.length rest)) whole in
    let rec take_packets cnt b acc =
      if cnt = 0 then Some (Stdlib.List.rev acc, b) else
        (match Framing.deframe b with
         | Res.Ok ((_, _), rest) -> take_packets (cnt - 1) rest (raw_of b rest :: acc)
         | _ -> None) in
    (match take_packets n m [] with
     | None -> "ERR one-pass packets"
     | Some (ops, after_ops) ->
       (match Framing.deframe after_ops with
        | Res.Ok ((_, body), after_lit) ->
          let h = Octets.takeN (n_of_int 6) body in
          (match take_packets n after_lit [] with
           | Some (sigs, []) ->
             let req (i : BinNums.coq_N) : BinNums.coq_N = n_of_int (1 + ((int_of_n i) * 7919) mod 4099) in
             let (mo, oc) = SignGen.sg_run (nn k) h (fun _ -> sigs) req ops (bytes_of_hex payload) in
             if oc = Emitter.EClean && mo = SignGen.sg_spec (nn k) h (fun _ -> sigs) ops (bytes_of_hex payload)
             then hex_of_bytes mo else "MODEL-SPLIT signgen machine /= specification"
           | _ -> "ERR signature packets")
        | _ -> "ERR literal packet"))
  | _ -> "MODEL-ERROR unknown op"
let () = run handle
