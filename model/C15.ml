(* model driver for C15 *)
open Common

let nn s = n_of_int (int_of_string s)
let container = function "sed" -> Rules.SED | "seipd1" -> Rules.SEIPD1 | "seipd2" -> Rules.SEIPD2 | _ -> Rules.GAEAD
let esk = function
  | "pk3" -> Rules.PK3 | "pk6" -> Rules.PK6 | "sk4" -> Rules.SK4 | "sk5" -> Rules.SK5 | "sk6" -> Rules.SK6
  | "skother" -> Rules.SKother | _ -> Rules.PKother
let nlist s = Stdlib.List.map (fun b -> Byte0.to_N b) (bytes_of_hex s)

let handle = function
  | ["decrypt"; c; legacy; gnupg; esks] ->
    let l = Stdlib.List.map (fun s ->
        match Stdlib.String.split_on_char ':' s with
        | [e; cred] -> (esk e, cred = "1")
        | _ -> (Rules.PKother, false)) (split_list esks) in
    str_of_bool (Rules.may_decrypt { Rules.legacy = bool_of legacy; Rules.gnupg = bool_of gnupg } (container c) l)
  | ["sig"; kv; sv; subs] ->
    let l = Stdlib.List.map (fun s ->
        match Stdlib.String.split_on_char ':' s with
        | [t; crit; fpv] -> ((nn t, crit = "1"), (if fpv = "-" then None else Some (nn fpv)))
        | _ -> ((nn "0", false), None)) (split_list subs) in
    str_of_bool (Rules.sig_admissible (nn kv) (nn sv) l)
  | ["ops"; t; h; a; i; s; t'; h'; a'; i'; s'] ->
    let mk t h a i s = { Rules.o_typ = nn t; Rules.o_hash = nn h; Rules.o_alg = nn a; Rules.o_issuer = nlist i; Rules.o_salt = nlist s } in
    str_of_bool (Rules.ops_matches (mk t h a i s) (mk t' h' a' i' s'))
  | ["opspair"; ov; sv] -> str_of_bool (Rules.ops_pair_ok (nn ov) (nn sv))
  | ["subkey"; pv; sv] -> str_of_bool (Rules.subkey_version_ok (nn pv) (nn sv))
  | ["binding"; bv; sc; bs] -> str_of_bool (Rules.binding_ok (bool_of bv) (bool_of sc) (bool_of bs))
  | _ -> "MODEL-ERROR unknown op"

let () = run handle
