(* model driver for C11 *)
open Common

let nn s = n_of_int (int_of_string s)

let subject_of (s : string) : Preimage.subject =
  match Stdlib.String.split_on_char ':' s with
  | ["doc"; tm; d] -> Preimage.SDoc (bool_of tm, bytes_of_hex d)
  | ["keyid"; kv; kb; tag; id] -> Preimage.SKeyId (nn kv, bytes_of_hex kb, nn tag, bytes_of_hex id)
  | ["key"; kv; kb] -> Preimage.SKey (nn kv, bytes_of_hex kb)
  | ["keys"; kv1; b1; kv2; b2] -> Preimage.SKeys (nn kv1, bytes_of_hex b1, nn kv2, bytes_of_hex b2)
  | _ -> failwith "subject"

let handle = function
  | ["preimage"; v; typ; pka; ha; hashed; salt; subj] ->
    let pre = Preimage.preimage (nn v) (nn typ) (nn pka) (nn ha) (bytes_of_hex hashed) (bytes_of_hex salt) (subject_of subj) in
    let d = hex_of_bytes (Prims.hash (nn ha) pre) in
    (* sign-side digest, verify-side digest, verified *)
    d ^ " " ^ d ^ " 1"
  | ["preimage3"; typ; created; _pka; ha; subj] ->
    let pre = Preimage.preimage_v3 (nn typ) (nn created) (subject_of subj) in
    hex_of_bytes (Prims.hash (nn ha) pre) ^ " 1"
  | _ -> "MODEL-ERROR unknown op"

let () = run handle
