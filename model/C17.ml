(* model driver for C17 *)
open Common

let show_len = function
  | Framing.PFixed n -> "F" ^ string_of_int (int_of_n n)
  | Framing.PPartial n -> "P" ^ string_of_int (int_of_n n)
  | Framing.PIndet -> "I"

let cls_of = function "1" -> Framing.L1 | "2" -> Framing.L2 | _ -> Framing.L5

let lit_h = bytes_of_hex "620000000000"

let handle = function
  | "deframe" :: b :: sched ->
    let bb = bytes_of_hex b in
    let show h body rest = Printf.sprintf "OK %s %d %s %s %s"
         (match h.Framing.hf with Framing.HNew -> "N" | Framing.HOld -> "O")
         (int_of_n h.Framing.htag) (show_len h.Framing.hlen) (hex_of_bytes body) (hex_of_bytes rest) in
    let spec = (match Framing.deframe bb with
     | Res.Ok ((h, body), rest) -> show h body rest
     | Res.Err -> "ERR"
     | Res.Panic -> "PANIC") in
    (match sched with
     | [consumer; reqs] ->
       (* the reader machine of C17_body_reader_machine_accepts / _rejects under the consumer's own request sizes *)
       let rl = if reqs = "_" || reqs = "" then [] else Stdlib.List.map int_of_string (Stdlib.String.split_on_char ',' reqs) in
       let ra = Array.of_list rl in
       let req (i : BinNums.coq_N) : BinNums.coq_N =
         if consumer = "0" || Array.length ra = 0 then n_of_int 65536
         else n_of_int (Stdlib.max (1 + Stdlib.List.length bb / 2000) (Stdlib.min 65536 ra.((int_of_n i) mod Array.length ra))) in
       let mach = (match Framing.dec_header bb with
         | Res.Ok (h, r) ->
           (match BodyReader.br_run req h r with
            | ((body, BodyReader.BrClean), rest) -> show h body rest
            | ((_, BodyReader.BrFailed), _) -> "ERR"
            | ((_, BodyReader.BrOutOfFuel), _) -> "FUEL")
         | Res.Err -> "ERR"
         | Res.Panic -> "PANIC") in
       if mach = spec then spec else "MODEL-SPLIT spec=" ^ Stdlib.String.sub spec 0 (Stdlib.min 60 (Stdlib.String.length spec)) ^ " machine=" ^ Stdlib.String.sub mach 0 (Stdlib.min 60 (Stdlib.String.length mach))
     | _ -> spec)
  | ["frame_new"; tag; ks; cls; body] ->
    hex_of_bytes (Framing.frame_new (n_of_int (int_of_string tag)) (ns_of ks) (cls_of cls) (bytes_of_hex body))
  | ["frame_old"; tag; lt; body] ->
    hex_of_bytes (Framing.frame_old (n_of_int (int_of_string tag)) (n_of_int (int_of_string lt)) (bytes_of_hex body))
  | ["enc_len"; n] -> hex_of_bytes (Framing.enc_new_len (n_of_int (int_of_string n)))
  | ["enc_hdr_new"; tag; n] -> hex_of_bytes (Framing.enc_header_new (n_of_int (int_of_string tag)) (n_of_int (int_of_string n)))
  | ["enc_hdr_old"; tag; n] -> hex_of_bytes (Framing.enc_header_old (n_of_int (int_of_string tag)) (n_of_int (int_of_string n)))
  | ["emit_lit"; k; data] ->
    let kk = n_of_int (int_of_string k) and d = bytes_of_hex data in
    let spec = Framing.emit_partial (n_of_int 11) kk lit_h d in
    (* the staged producer of C17_partial_writer_machine_is_spec, read with varying request sizes *)
    let req (i : BinNums.coq_N) : BinNums.coq_N = n_of_int (1 + ((int_of_n i) * 7919) mod 2039) in
    let (mo, oc) = PartialWriter.pw_run (n_of_int 11) kk lit_h req d in
    if oc = Emitter.EClean && mo = spec then hex_of_bytes spec else "MODEL-SPLIT emit_lit machine /= specification"
  | ["rewrite"; fmt; tag; indet; body] ->
    (* a packet read behind a header of this format (0 current, 1 legacy; indeterminate length or not) and written again *)
    let h = { Framing.hf = (if fmt = "1" then Framing.HOld else Framing.HNew); Framing.htag = n_of_int (int_of_string tag);
              Framing.hlen = (if indet = "1" then Framing.PIndet else Framing.PFixed (n_of_int 0)) } in
    hex_of_bytes (Rewrite.rewrite h (bytes_of_hex body))
  | ["litgen"; fixed; k; data; reqs] ->
    (* the two literal writers as machines, read with the harness's own request sizes (cycled) *)
    let d = bytes_of_hex data in
    let rl = if reqs = "_" || reqs = "" then [] else Stdlib.List.map int_of_string (Stdlib.String.split_on_char ',' reqs) in
    let ra = Array.of_list rl in
    let req (i : BinNums.coq_N) : BinNums.coq_N = if Array.length ra = 0 then n_of_int 65536 else n_of_int (Stdlib.max 1 (Stdlib.min 65536 ra.((int_of_n i) mod Array.length ra))) in
    let (mo, oc) = if fixed = "1" then FixedWriter.fw_run (n_of_int 11) lit_h req d else PartialWriter.pw_run (n_of_int 11) (n_of_int (int_of_string k)) lit_h req d in
    let spec = if fixed = "1" then Framing.emit_fixed (n_of_int 11) lit_h d else Framing.emit_partial (n_of_int 11) (n_of_int (int_of_string k)) lit_h d in
    if oc = Emitter.EClean && mo = spec then hex_of_bytes spec else "MODEL-SPLIT litgen machine /= specification"
  | ["emit_lit_fixed"; _; data] ->
    hex_of_bytes (Framing.emit_fixed (n_of_int 11) lit_h (bytes_of_hex data))
  | ["emit_lit_comp"; k; data] ->
    let kk = n_of_int (int_of_string k) in
    let inner = Framing.emit_partial (n_of_int 11) kk lit_h (bytes_of_hex data) in
    let spec = Framing.emit_partial (n_of_int 8) kk (bytes_of_hex "00") inner in
    (* CompressedDataPartialGenerator is the same staged producer with tag 8 and the algorithm octet as header,
       over the (uncompressed: algorithm 0) stream of the literal writer *)
    let req (i : BinNums.coq_N) : BinNums.coq_N = n_of_int (1 + ((int_of_n i) * 104729) mod 1531) in
    let (mi, oci) = PartialWriter.pw_run (n_of_int 11) kk lit_h req (bytes_of_hex data) in
    let (mo, oc) = PartialWriter.pw_run (n_of_int 8) kk (bytes_of_hex "00") req mi in
    if oci = Emitter.EClean && oc = Emitter.EClean && mo = spec then hex_of_bytes spec else "MODEL-SPLIT emit_lit_comp machine /= specification"
  | ["emit_lit_comp_fixed"; k; data] ->
    (* the compressed packet is always partial (its length is not known in
       advance); the literal packet inside is fixed when the source length is known *)
    hex_of_bytes (Framing.emit_partial (n_of_int 8) (n_of_int (int_of_string k)) (bytes_of_hex "00")
                    (Framing.emit_fixed (n_of_int 11) lit_h (bytes_of_hex data)))
  | _ -> "MODEL-ERROR unknown op"

let () = run handle
