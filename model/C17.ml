(* model driver for C17 *)
open Common

let show_len = function
  | Framing.PFixed n -> "F" ^ string_of_int (int_of_n n)
  | Framing.PPartial n -> "P" ^ string_of_int (int_of_n n)
  | Framing.PIndet -> "I"

let cls_of = function "1" -> Framing.L1 | "2" -> Framing.L2 | _ -> Framing.L5

let lit_h = bytes_of_hex "620000000000"

let handle = function
  | ["deframe"; b] ->
    (match Framing.deframe (bytes_of_hex b) with
     | Res.Ok ((h, body), rest) ->
       Printf.sprintf "OK %s %d %s %s %s"
         (match h.Framing.hf with Framing.HNew -> "N" | Framing.HOld -> "O")
         (int_of_n h.Framing.htag) (show_len h.Framing.hlen) (hex_of_bytes body) (hex_of_bytes rest)
     | Res.Err -> "ERR"
     | Res.Panic -> "PANIC")
  | ["frame_new"; tag; ks; cls; body] ->
    hex_of_bytes (Framing.frame_new (n_of_int (int_of_string tag)) (ns_of ks) (cls_of cls) (bytes_of_hex body))
  | ["frame_old"; tag; lt; body] ->
    hex_of_bytes (Framing.frame_old (n_of_int (int_of_string tag)) (n_of_int (int_of_string lt)) (bytes_of_hex body))
  | ["enc_len"; n] -> hex_of_bytes (Framing.enc_new_len (n_of_int (int_of_string n)))
  | ["enc_hdr_new"; tag; n] -> hex_of_bytes (Framing.enc_header_new (n_of_int (int_of_string tag)) (n_of_int (int_of_string n)))
  | ["enc_hdr_old"; tag; n] -> hex_of_bytes (Framing.enc_header_old (n_of_int (int_of_string tag)) (n_of_int (int_of_string n)))
  | ["emit_lit"; k; data] ->
    hex_of_bytes (Framing.emit_partial (n_of_int 11) (n_of_int (int_of_string k)) lit_h (bytes_of_hex data))
  | ["emit_lit_fixed"; _; data] ->
    hex_of_bytes (Framing.emit_fixed (n_of_int 11) lit_h (bytes_of_hex data))
  | ["emit_lit_comp"; k; data] ->
    let kk = n_of_int (int_of_string k) in
    hex_of_bytes (Framing.emit_partial (n_of_int 8) kk (bytes_of_hex "00")
                    (Framing.emit_partial (n_of_int 11) kk lit_h (bytes_of_hex data)))
  | ["emit_lit_comp_fixed"; k; data] ->
    (* the compressed packet is always partial (its length is not known in
       advance); the literal packet inside is fixed when the source length is known *)
    hex_of_bytes (Framing.emit_partial (n_of_int 8) (n_of_int (int_of_string k)) (bytes_of_hex "00")
                    (Framing.emit_fixed (n_of_int 11) lit_h (bytes_of_hex data)))
  | _ -> "MODEL-ERROR unknown op"

let () = run handle
