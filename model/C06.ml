(* model driver for C06: the canonical text every path must hash; the
   sign/verify matrix itself is the direct predicate *)
open Common
let handle = function
  | ["canon"; d] -> hex_of_bytes (Canon.canon (bytes_of_hex d))
  | _ -> "MODEL-ERROR unknown op"
let () = run handle
