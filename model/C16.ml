(* model driver for C16 *)
open Common

let sig_header = bytes_of_hex "2d2d2d2d2d424547494e20504750205349474e41545552452d2d2d2d2d0a"

let handle = function
  | ["escape"; t] -> hex_of_bytes (Cleartext.dash_escape (bytes_of_hex t))
  | ["signed"; t] -> hex_of_bytes (Cleartext.signed_form (bytes_of_hex t))
  | ["readback"; t] ->
    (* the text section as written, followed by the signature armor header;
       v0/v1: the fresh message verifies; the re-read one verifies iff its text
       (hence its signed form) is the one that was signed *)
    let tb = bytes_of_hex t in
    (match Cleartext.read_body (Stdlib.List.append (Cleartext.text_section tb) sig_header) with
     | Res.Ok (body, _) ->
       let same = (Cleartext.signed_form (Cleartext.unesc true body) = Cleartext.signed_form tb) in
       Printf.sprintf "OK %s v0=1 v1=%s" (hex_of_bytes body) (if same then "1" else "0")
     | Res.Err -> "ERR v0=1 v1=0"
     | Res.Panic -> "PANIC")
  | _ -> "MODEL-ERROR unknown op"

let () = run handle
