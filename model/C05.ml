(* model driver for C05 *)
open Common

(* SplitMix64-style stream in OCaml's 63-bit ints: only the model's generator consumes it *)
let rnd_list (seed : int) (n : int) : BinNums.coq_N list =
  let s = ref (seed * 0x9E3779B97F4A7C + 0x1234567) in
  let next () =
    s := !s + 0x1E3779B97F4A7C15;
    let z = ref !s in
    z := (!z lxor (!z lsr 30)) * 0xBF58476D1CE4E5B;
    z := (!z lxor (!z lsr 27)) * 0x94D049BB133111E;
    z := !z lxor (!z lsr 31);
    (!z lsr 8) land 0xFFFFFFFF in
  Stdlib.List.init n (fun _ -> n_of_int (next ()))

let tagn s = n_of_int (int_of_string s)

let handle = function
  | ["gen"; tag; seed] ->
    let f = Packets.body_fmt (tagn tag) in
    let (v, _) = Fmt.gen f (rnd_list (int_of_string seed) 4000) in
    (match Wire.packet (tagn tag) v with
     | Some p -> hex_of_bytes p
     | None -> "NONE")
  | ["dec"; tag; body] ->
    let b = bytes_of_hex body in
    (match Wire.parse_body (tagn tag) b with
     | Some v ->
       (match Fmt.enc (Packets.body_fmt (tagn tag)) v with
        | Some b' -> "OK " ^ hex_of_bytes b'
        | None -> "MODEL-ERROR re-encode failed")
     | None -> "REJ")
  | ["canon"; tag; body] ->
    (match Wire.parse_body (tagn tag) (bytes_of_hex body) with Some _ -> "1" | None -> "0")
  | _ -> "MODEL-ERROR unknown op"

let () = run handle
