(* model driver for C05 *)
open Common

(* SplitMix64-style stream in OCaml's 63-bit ints: only the model's generator consumes it *)
let rnd_list (seed : int) (n : int) : BinNums.coq_N list =
  let s = ref (seed * 0x9E3779B97F4A7C + 0x1234567) in
  let next () =
    s := !s + 0x1E3779B97F4A7C15;
    let z = ref !s in
    z := (!z lxor (!z lsr 30)) * 0xBF58476D1CE4E5B;
    z := (!z lxor (!z lsr 27)) * 0x94D049BB133111E;
    z := !z lxor (!z lsr 31);
    (!z lsr 8) land 0xFFFFFFFF in
  Stdlib.List.init n (fun _ -> n_of_int (next ()))

let tagn s = n_of_int (int_of_string s)

(* key flags through the API: start = "default" or the hex of a parsed field; combo = bit i set -> the i-th setter (true) *)
let kflags start combo =
  let f0 = if start = "default" then KeyFlagsObj.kf_default else KeyFlagsObj.kf_parse (bytes_of_hex start) in
  let setters = [(false, 1); (false, 2); (false, 4); (false, 8); (false, 16); (false, 32); (false, 128); (true, 4); (true, 8)] in
  let (f, _) = Stdlib.List.fold_left (fun (f, i) (second, mask) ->
      ((if combo land (1 lsl i) <> 0 then KeyFlagsObj.kf_set true second (n_of_int mask) true f else f), i + 1)) (f0, 0) setters in
  let w = KeyFlagsObj.kf_ser f in
  let back = KeyFlagsObj.kf_parse w in
  hex_of_bytes w ^ " " ^ string_of_int (int_of_n (KeyFlagsObj.kf_write_len f)) ^ " " ^ (if back = f then "1" else "0")
let handle = function
  | ["kflags"; start; combo] -> kflags start (int_of_string combo)
  | ["gen"; tag; seed] ->
    let f = Packets.body_fmt (tagn tag) in
    let (v, _) = Fmt.gen f (rnd_list (int_of_string seed) 4000) in
    (match Wire.packet (tagn tag) v with
     | Some p -> hex_of_bytes p
     | None -> "NONE")
  | ["dec"; tag; body] ->
    let b = bytes_of_hex body in
    (match Wire.parse_body (tagn tag) b with
     | Some v ->
       (match Fmt.enc (Packets.body_fmt (tagn tag)) v with
        | Some b' -> "OK " ^ hex_of_bytes b'
        | None -> "MODEL-ERROR re-encode failed")
     | None -> "REJ")
  | ["canon"; tag; body] ->
    (match Wire.parse_body (tagn tag) (bytes_of_hex body) with Some _ -> "1" | None -> "0")
  | _ -> "MODEL-ERROR unknown op"

let () = run handle
