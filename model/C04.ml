(* model driver for C04: outcome class of the modelled post-decryption logic *)
open Common
let nn s = n_of_int (int_of_string s)
let cls = function Res.Ok _ -> "ok" | Res.Err -> "err" | Res.Panic -> "PANIC"
let handle = function
  | ["skv3"; d] -> cls (Checked.session_key_v3 (bytes_of_hex d))
  | ["skv6"; d] -> cls (Checked.session_key_v6 (bytes_of_hex d))
  | ["skesk4"; d] -> cls (Checked.skesk4_plain (bytes_of_hex d))
  | ["kwlen"; n] -> cls (Checked.kw_out_len (nn n))
  | ["unpad"; d] -> cls (Checked.ecdh_unpad_checked (bytes_of_hex d))
  | ["aeadsetup"; sym; aead] -> cls (Checked.aead_setup (nn sym) (nn aead) (Stdlib.List.init 42 (fun _ -> byte_of_int 0)))
  | _ -> "MODEL-ERROR unknown op"
let () = run handle
