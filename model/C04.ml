(* model driver for C04: outcome class of the modelled post-decryption logic *)
open Common
let nn s = n_of_int (int_of_string s)
(* packets of every type from the wire-format universe (the generator of C05), as raw material for the
   'every length field at its extremes' sweep *)
let rnd_list (seed : int) (n : int) : BinNums.coq_N list =
  let s = ref (seed * 0x9E3779B97F4A7C + 0x1234567) in
  let next () =
    s := !s + 0x1E3779B97F4A7C15;
    let z = ref !s in
    z := (!z lxor (!z lsr 30)) * 0xBF58476D1CE4E5B;
    z := (!z lxor (!z lsr 27)) * 0x94D049BB133111E;
    z := !z lxor (!z lsr 31);
    (!z lsr 8) land 0xFFFFFFFF in
  Stdlib.List.init n (fun _ -> n_of_int (next ()))
let cls = function Res.Ok _ -> "ok" | Res.Err -> "err" | Res.Panic -> "PANIC"
let handle = function
  | ["skv3"; d] -> cls (Checked.session_key_v3 (bytes_of_hex d))
  | ["skv6"; d] -> cls (Checked.session_key_v6 (bytes_of_hex d))
  | ["skesk4"; d] -> cls (Checked.skesk4_plain (bytes_of_hex d))
  | ["kwlen"; n] -> cls (Checked.kw_out_len (nn n))
  | ["unpad"; d] -> cls (Checked.ecdh_unpad_checked (bytes_of_hex d))
  | ["aeadsetup"; sym; aead] -> cls (Checked.aead_setup (nn sym) (nn aead) (Stdlib.List.init 42 (fun _ -> byte_of_int 0)))
  | ["gen"; tag; seed] ->
    let f = Packets.body_fmt (nn tag) in
    let (v, _) = Fmt.gen f (rnd_list (int_of_string seed) 4000) in
    (match Wire.packet (nn tag) v with Some p -> hex_of_bytes p | None -> "NONE")
  | _ -> "MODEL-ERROR unknown op"
let () = run handle
