(* model driver for C12 *)
open Common

let nn s = n_of_int (int_of_string s)
let n8 = n_of_int 8
let dlen (h : BinNums.coq_N) : BinNums.coq_N =
  n_of_int (match int_of_n h with 1 -> 16 | 2 -> 20 | 3 -> 20 | 8 -> 32 | 9 -> 48 | 10 -> 64 | 11 -> 28 | 12 -> 32 | 14 -> 64 | _ -> 0)
let key_len sym = match sym with 1 | 3 | 4 | 7 | 11 -> 16 | 2 | 8 | 12 -> 24 | _ -> 32
let blk_len sym = match sym with 7 | 8 | 9 | 10 | 11 | 12 | 13 -> 16 | _ -> 8
let sha256 = Prims.hash n8
let sha512 = Prims.hash (n_of_int 10)
let hkdf256 = Kdf.hkdf sha256 (n_of_int 64) (n_of_int 32)
let hkdf512 = Kdf.hkdf sha512 (n_of_int 128) (n_of_int 64)
let take n l = Octets.takeN (n_of_int n) l
let ok_hex = function Res.Ok v -> "OK " ^ hex_of_bytes v | _ -> "ERR"

let s2k_of typ h salt coded =
  match typ with
  | "0" -> Kdf.S2kSimple h
  | "1" -> Kdf.S2kSalted (h, salt)
  | _ -> Kdf.S2kIterated (h, salt, coded)

(* S2K key; long iterated repetitions (> 2^16 octets) are hashed by the oracle
   (hashrep), with the count taken from the extracted decode_count *)
let s2k_key typ h salt coded pw ks =
  let count = int_of_n (Kdf.decode_count coded) in
  if typ = "3" && count > 65536 then begin
    let d = Stdlib.List.append salt pw in
    let dl = Stdlib.List.length d in
    let n = max count dl in
    let hl = int_of_n (dlen h) in
    if hl = 0 then Res.Err else begin
      let rounds = (ks + hl - 1) / hl in
      let rec go j acc = if j >= rounds then acc else
          go (j + 1) (Stdlib.List.append acc (Prims.hashrep h (Cfb.zeros_n (n_of_int j)) d (n_of_int n))) in
      Res.Ok (take ks (go 0 []))
    end
  end else Kdf.s2k_derive Prims.hash dlen (s2k_of typ h salt coded) pw (n_of_int ks)

let aes_e kek = Prims.enc_block (n_of_int (match Stdlib.List.length kek with 16 -> 7 | 24 -> 8 | _ -> 9)) kek
let aes_d kek = Prims.dec_block (n_of_int (match Stdlib.List.length kek with 16 -> 7 | 24 -> 8 | _ -> 9)) kek

let handle = function
  | ["s2k"; typ; h; salt; coded; pw; ks] ->
    (match s2k_key typ (nn h) (bytes_of_hex salt) (nn coded) (bytes_of_hex pw) (int_of_string ks) with
     | Res.Ok k -> hex_of_bytes k | _ -> "ERR")
  | ["argon2"; t; p; m; salt; pw; ks] ->
    let mi = int_of_string m in
    (try hex_of_bytes (Prims.argon2 (nn t) (nn p) (n_of_int (1 lsl mi)) (bytes_of_hex salt) (bytes_of_hex pw) (nn ks))
     with Prims.Unsupported _ -> "ERR")
  | ["kwwrap"; kek; data] ->
    let k = bytes_of_hex kek in
    (match Stdlib.List.length k with
     | 16 | 24 | 32 -> (match Kdf.kw_wrap (aes_e k) (bytes_of_hex data) with Res.Ok v -> hex_of_bytes v | _ -> "ERR")
     | _ -> "ERR")
  | ["kwunwrap"; kek; c] ->
    let k = bytes_of_hex kek in ok_hex (Kdf.kw_unwrap (aes_d k) (bytes_of_hex c))
  | ["ecdhparam"; oid; sym; hash; fp] -> hex_of_bytes (Kdf.ecdh_param (bytes_of_hex oid) (nn sym) (nn hash) (bytes_of_hex fp))
  | ["ecdhkdf"; hash; z; ks; param] -> hex_of_bytes (Kdf.ecdh_kdf (Prims.hash (nn hash)) (bytes_of_hex z) (nn ks) (bytes_of_hex param))
  | ["ecdhwrap"; oid; hash; sym; fp; z; plain; long; wrapped] ->
    (* the recipient's computation, from the RFC: param, KEK, unwrap, unpad;
       and for short padding also the sender's: pad, wrap = the octets given *)
    let symi = int_of_string sym in
    let param = Kdf.ecdh_param (bytes_of_hex oid) (nn sym) (nn hash) (bytes_of_hex fp) in
    let kek = Kdf.ecdh_kdf (Prims.hash (nn hash)) (bytes_of_hex z) (n_of_int (key_len symi)) param in
    let w = bytes_of_hex wrapped in
    let sender_ok =
      long = "1" ||
      (match Kdf.kw_wrap (aes_e kek) (Kdf.ecdh_pad (bytes_of_hex plain)) with Res.Ok v -> v = w | _ -> false) in
    if not sender_ok then "SENDER-MISMATCH"
    else (match Kdf.kw_unwrap (aes_d kek) w with
        | Res.Ok padded -> ok_hex (Kdf.ecdh_unpad padded)
        | _ -> "ERR")
  | ["x25519kdf"; e; r; z] ->
    hex_of_bytes (hkdf256 [] (Stdlib.List.concat [bytes_of_hex e; bytes_of_hex r; bytes_of_hex z]) (bytes_of_hex "4f70656e50475020583235353139") (n_of_int 16))
  | ["x448kdf"; e; r; z] ->
    hex_of_bytes (hkdf512 [] (Stdlib.List.concat [bytes_of_hex e; bytes_of_hex r; bytes_of_hex z]) (bytes_of_hex "4f70656e5047502058343438") (n_of_int 32))
  | ["x25519unwrap"; e; r; z; w] ->
    let kek = hkdf256 [] (Stdlib.List.concat [bytes_of_hex e; bytes_of_hex r; bytes_of_hex z]) (bytes_of_hex "4f70656e50475020583235353139") (n_of_int 16) in
    ok_hex (Kdf.kw_unwrap (aes_d kek) (bytes_of_hex w))
  | ["skesk4"; sym; typ; h; salt; coded; pw; sk] ->
    let symi = int_of_string sym in
    (match s2k_key typ (nn h) (bytes_of_hex salt) (nn coded) (bytes_of_hex pw) (key_len symi) with
     | Res.Ok key ->
       let bs = n_of_int (blk_len symi) in
       hex_of_bytes (Cfb.cfb_enc (Prims.enc_block (nn sym) key) bs (Cfb.zeros_n bs) (byte_of_int symi :: bytes_of_hex sk))
     | _ -> "ERR")
  | ["skesk6"; sym; aead; typ; h; salt; coded; pw; iv; sk] ->
    let symi = int_of_string sym in
    (match s2k_key typ (nn h) (bytes_of_hex salt) (nn coded) (bytes_of_hex pw) (key_len symi) with
     | Res.Ok ikm ->
       let info = Kdf.skesk6_info (nn sym) (nn aead) in
       let kek = hkdf256 [] ikm info (n_of_int (key_len symi)) in
       hex_of_bytes (Prims.seal (nn aead) (nn sym) kek (bytes_of_hex iv) info (bytes_of_hex sk))
     | _ -> "ERR")
  | ["lockaead"; tag; ver; sym; mode; spec; pw; nonce; pub; raw] ->
    (* AEAD-locked secret key: Lock.lock_aead with KEK = HKDF-SHA256(S2K key, Kdf.keylock_info) *)
    let symi = int_of_string sym in
    let pwb = bytes_of_hex pw in
    let derived = (match Stdlib.String.split_on_char ':' spec with
      | ["argon"; t; p; m; salt] ->
        (try Res.Ok (Prims.argon2 (nn t) (nn p) (n_of_int (1 lsl (int_of_string m))) (bytes_of_hex salt) pwb (n_of_int (key_len symi))) with Prims.Unsupported _ -> Res.Err)
      | [typ; h; salt; coded] -> s2k_key typ (nn h) (bytes_of_hex salt) (nn coded) pwb (key_len symi)
      | _ -> Res.Err) in
    (match derived with
     | Res.Ok d ->
       if Lock.aead_info (nn tag) (nn ver) (nn sym) (nn mode) <> Kdf.keylock_info (nn tag) (nn ver) (nn sym) (nn mode) then "MODEL-SPLIT info" else
       (try hex_of_bytes (Lock.lock_aead (fun k n ad m -> Prims.seal (nn mode) (nn sym) (take (key_len symi) k) n ad m)
                            (fun ikm info -> hkdf256 [] ikm info (n_of_int 32))
                            (nn tag) (nn ver) (nn sym) (nn mode) d (bytes_of_hex nonce) (bytes_of_hex pub) (bytes_of_hex raw))
        with Prims.Unsupported _ -> "ERR")
     | _ -> "ERR")
  | ["v1enc"; sym; key; prefix; data] ->
    let symi = int_of_string sym in
    let memo = Hashtbl.create 1024 in
    let e0 = Prims.enc_block (nn sym) (bytes_of_hex key) in
    let e b = match Hashtbl.find_opt memo b with Some r -> r | None -> let r = e0 b in Hashtbl.add memo b r; r in
    let bs = n_of_int (blk_len symi) in
    let sha1 = Prims.hash (n_of_int 2) in
    let spec = Cfb.seipd1_enc e bs sha1 (bytes_of_hex prefix) (bytes_of_hex data) in
    (* the staged producer of C12_v1_stream_encryptor_machine_is_spec, read with varying request sizes *)
    let req (i : BinNums.coq_N) : BinNums.coq_N = n_of_int (1 + ((int_of_n i) * 7919 + symi * 31) mod 9001) in
    let (mo, oc) = Seipd1EncMachine.enc_run e bs sha1 req (bytes_of_hex prefix) (bytes_of_hex data) in
    if oc = Emitter.EClean && mo = spec then hex_of_bytes spec else "MODEL-SPLIT v1enc machine /= specification"
  | ["v2enc"; sym; aead; cs; sk; salt; p] ->
    let sym = nn sym and aead = nn aead and cs = nn cs in
    let (key, iv) = Seipd2.derive hkdf256 sym aead cs (bytes_of_hex salt) (bytes_of_hex sk) in
    let c = Seipd2.chunk_len cs and info = Seipd2.info_of sym aead cs in
    let spec = Seipd2.seipd2_enc (Prims.seal aead sym) c key iv info (bytes_of_hex p) in
    (* the staged producer of C12_v2_stream_encryptor_machine_is_spec, read with varying request sizes *)
    let req (i : BinNums.coq_N) : BinNums.coq_N = n_of_int (1 + ((int_of_n i) * 104729) mod 777) in
    let (mo, oc) = Seipd2EncMachine.a2_run (Prims.seal aead sym) c key iv info req (bytes_of_hex p) in
    if oc = Emitter.EClean && mo = spec then hex_of_bytes spec else "MODEL-SPLIT v2enc machine /= specification"
  | _ -> "MODEL-ERROR unknown op"

let () = run handle
