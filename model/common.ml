(* common.ml -- glue shared by every model driver: conversions between the
   line protocol (hex strings, decimal numbers) and the extracted datatypes.
   Compiled together with the extracted modules of one property. *)

(* Byte.byte is an enumeration of 256 constant constructors X00..Xff; OCaml
   represents the k-th constant constructor as the immediate integer k. The
   self-test below checks that against the extracted Byte0.to_N. *)
let byte_of_int (i : int) : Byte.byte = Obj.magic (i land 255)
let int_of_byte (b : Byte.byte) : int = (Obj.magic b : int)

let rec int_of_pos (p : BinNums.positive) : int =
  match p with
  | BinNums.Coq_xH -> 1
  | BinNums.Coq_xO q -> 2 * int_of_pos q
  | BinNums.Coq_xI q -> 2 * int_of_pos q + 1

let int_of_n (n : BinNums.coq_N) : int =
  match n with BinNums.N0 -> 0 | BinNums.Npos p -> int_of_pos p

let rec pos_of_int (i : int) : BinNums.positive =
  if i <= 1 then BinNums.Coq_xH
  else if i land 1 = 0 then BinNums.Coq_xO (pos_of_int (i lsr 1))
  else BinNums.Coq_xI (pos_of_int (i lsr 1))

let n_of_int (i : int) : BinNums.coq_N =
  if i <= 0 then BinNums.N0 else BinNums.Npos (pos_of_int i)

let () =
  for i = 0 to 255 do
    if int_of_n (Byte0.to_N (byte_of_int i)) <> i then
      failwith "common.ml: Byte.byte representation assumption violated"
  done

let hexval c =
  match c with
  | '0' .. '9' -> Char.code c - 48
  | 'a' .. 'f' -> Char.code c - 87
  | 'A' .. 'F' -> Char.code c - 55
  | _ -> failwith "bad hex"

(* "-" is the empty string *)
let bytes_of_hex (s : string) : Byte.byte list =
  if s = "-" then []
  else begin
    let n = Stdlib.String.length s / 2 in
    let rec go i acc =
      if i < 0 then acc
      else go (i - 1) (byte_of_int (hexval s.[2 * i] * 16 + hexval s.[2 * i + 1]) :: acc)
    in
    go (n - 1) []
  end

let hex_of_bytes (l : Byte.byte list) : string =
  match l with
  | [] -> "-"
  | _ ->
    let b = Buffer.create 64 in
    Stdlib.List.iter (fun x -> Buffer.add_string b (Printf.sprintf "%02x" (int_of_byte x))) l;
    Buffer.contents b

(* "_" is the empty list; elements separated by ',' *)
let split_list (s : string) : string list =
  if s = "_" then [] else Stdlib.String.split_on_char ',' s

let chunks_of (s : string) : Byte.byte list list =
  Stdlib.List.map bytes_of_hex (split_list s)

let ints_of (s : string) : int list =
  Stdlib.List.map int_of_string (split_list s)

let ns_of (s : string) : BinNums.coq_N list =
  Stdlib.List.map (fun x -> n_of_int (int_of_string x)) (split_list s)

let bool_of (s : string) : bool = (s = "1" || s = "true")
let str_of_bool b = if b then "1" else "0"

(* main loop: one query per line, one answer per line *)
let run (handle : string list -> string) : unit =
  try
    while true do
      let line = input_line stdin in
      let parts = Stdlib.List.filter (fun x -> x <> "") (Stdlib.String.split_on_char ' ' line) in
      let ans =
        match parts with
        | [] -> ""
        | _ -> (try handle parts with
                | Failure m -> "MODEL-ERROR " ^ m
                | Not_found -> "MODEL-ERROR not_found"
                | Invalid_argument m -> "MODEL-ERROR " ^ m
                | Stack_overflow -> "MODEL-ERROR stack_overflow")
      in
      print_string ans; print_char '\n'
    done
  with End_of_file -> flush stdout
