(* model driver for C03 *)
open Common

let nn s = n_of_int (int_of_string s)

(* SEIPD v2 parameters -> (chunk length, message key, iv, info) *)
let v2_setup sym aead cs sk salt =
  let (key, iv) = Seipd2.derive Prims.hkdf sym aead cs salt sk in
  (Seipd2.chunk_len cs, key, iv, Seipd2.info_of sym aead cs)

(* packet 20 (GnuPG / LibrePGP OCB encrypted data): fields as read from the container *)
let gdec ver sym aead cs key iv ct sched =
  let symn = nn sym and aeadn = nn aead and csn = nn cs in
  let ks = int_of_n (Seipd2.key_size symn) and ns = int_of_n (Seipd2.nonce_size aeadn) in
  let keyb = bytes_of_hex key and ivb = bytes_of_hex iv and ctb = bytes_of_hex ct in
  (* what the library refuses before any decryption: version, a mode other than OCB, a cipher it does not know, chunk sizes above 4 MiB,
     a key or IV of the wrong size *)
  if ver <> "1" || aead <> "2" || ks = 0 || ns = 0 || int_of_string cs > 16 || Stdlib.List.length keyb <> ks || Stdlib.List.length ivb <> ns then "ERR -"
  else begin
    let (out, ok) = Gnupg.gnupg_stream_dec (Prims.aopen aeadn symn) symn aeadn csn keyb ivb ctb in
    let spec = (if ok then "OK " else "ERR ") ^ hex_of_bytes out in
    match sched with
    | [consumer; reqs] ->
      let rl = if reqs = "_" || reqs = "" then [] else Stdlib.List.map int_of_string (Stdlib.String.split_on_char ',' reqs) in
      let ra = Array.of_list rl in
      let floor = 1 + Stdlib.List.length ctb / 2000 in
      let req (i : BinNums.coq_N) : BinNums.coq_N =
        if consumer = "0" || Array.length ra = 0 then n_of_int 1048576
        else n_of_int (Stdlib.max floor (Stdlib.min 1048576 ra.((int_of_n i) mod Array.length ra))) in
      let (mo, oc) = Gnupg.gnupg_run (Prims.aopen aeadn symn) symn aeadn csn keyb ivb req ctb in
      let mach = (match oc with Seipd2Machine.AClean -> "OK " | Seipd2Machine.AFailed -> "ERR " | Seipd2Machine.AOutOfFuel -> "FUEL ") ^ hex_of_bytes mo in
      if mach = spec then spec else "MODEL-SPLIT spec=" ^ Stdlib.String.sub spec 0 (Stdlib.min 40 (Stdlib.String.length spec)) ^ " machine=" ^ Stdlib.String.sub mach 0 (Stdlib.min 40 (Stdlib.String.length mach))
    | _ -> spec
  end
let handle = function
  | "gdec" :: ver :: sym :: aead :: cs :: key :: iv :: ct :: sched -> gdec ver sym aead cs key iv ct sched
  | ["genc"; sym; aead; cs; key; iv; p] ->
    hex_of_bytes (Gnupg.gnupg_enc (Prims.seal (nn aead) (nn sym)) (nn sym) (nn aead) (nn cs) (bytes_of_hex key) (bytes_of_hex iv) (bytes_of_hex p))
  | ["v2enc"; sym; aead; cs; sk; salt; p] ->
    let sym = nn sym and aead = nn aead and cs = nn cs in
    let (c, key, iv, info) = v2_setup sym aead cs (bytes_of_hex sk) (bytes_of_hex salt) in
    hex_of_bytes (Seipd2.seipd2_enc (Prims.seal aead sym) c key iv info (bytes_of_hex p))
  | "v2dec" :: sym :: aead :: cs :: sk :: salt :: ct :: sched ->
    let sym = nn sym and aead = nn aead and cs = nn cs in
    let (c, key, iv, info) = v2_setup sym aead cs (bytes_of_hex sk) (bytes_of_hex salt) in
    let ctb = bytes_of_hex ct in
    let (out, ok) = Seipd2.seipd2_stream_dec (Prims.aopen aead sym) c key iv info ctb in
    let spec = (if ok then "OK " else "ERR ") ^ hex_of_bytes out in
    (match sched with
     | [consumer; reqs] ->
       let rl = if reqs = "_" || reqs = "" then [] else Stdlib.List.map int_of_string (Stdlib.String.split_on_char ',' reqs) in
       let ra = Array.of_list rl in
       (* the consumer's own request sizes, except that a long stream is not walked in more than ~2000 reads
          (each read costs the machine a pass over its buffer; the theorem makes the sizes irrelevant) *)
       let floor = 1 + Stdlib.List.length ctb / 2000 in
       let req (i : BinNums.coq_N) : BinNums.coq_N =
         if consumer = "0" || Array.length ra = 0 then n_of_int 1048576
         else n_of_int (Stdlib.max floor (Stdlib.min 1048576 ra.((int_of_n i) mod Array.length ra))) in
       let (mo, oc) = Seipd2Machine.a_run (Prims.aopen aead sym) c key iv info req ctb in
       let mach = (match oc with Seipd2Machine.AClean -> "OK " | Seipd2Machine.AFailed -> "ERR " | Seipd2Machine.AOutOfFuel -> "FUEL ") ^ hex_of_bytes mo in
       if mach = spec then spec else "MODEL-SPLIT spec=" ^ Stdlib.String.sub spec 0 (Stdlib.min 40 (Stdlib.String.length spec)) ^ " machine=" ^ Stdlib.String.sub mach 0 (Stdlib.min 40 (Stdlib.String.length mach))
     | _ -> spec)
  | "v1dec" :: sym :: key :: mode :: max :: ct :: sched ->
    let symn = nn sym in
    let k = bytes_of_hex key in
    let bs = n_of_int (match int_of_string sym with 7 | 8 | 9 | 10 | 11 | 12 | 13 -> 16 | _ -> 8) in
    (* the block cipher under this key, remembered per block: the specification and the machine both ask *)
    let memo = Hashtbl.create 4096 in
    let e b = match Hashtbl.find_opt memo b with Some r -> r | None -> let r = Prims.enc_block symn k b in Hashtbl.add memo b r; r in
    let sha1 = Prims.hash (n_of_int 2) in
    let ctb = bytes_of_hex ct in
    let (out, ok) =
      if mode = "0" then Cfb.seipd1_checkfirst e bs sha1 (nn max) ctb
      else Cfb.seipd1_streaming e bs sha1 ctb in
    let spec = (if ok then "OK " else "ERR ") ^ hex_of_bytes out in
    (match sched with
     | [consumer; reqs] ->
       (* the state machine of the theorems C03_v1_*_machine_is_spec under the consumer's own request sizes *)
       let rl = if reqs = "_" || reqs = "" then [] else Stdlib.List.map int_of_string (Stdlib.String.split_on_char ',' reqs) in
       let ra = Array.of_list rl in
       let floor = 1 + Stdlib.List.length ctb / 2000 in
       let req (i : BinNums.coq_N) : BinNums.coq_N =
         if consumer = "0" || Array.length ra = 0 then n_of_int 65536
         else n_of_int (Stdlib.max floor (Stdlib.min 65536 ra.((int_of_n i) mod Array.length ra))) in
       let m = if mode = "0" then Some (nn max) else None in
       let (mo, oc) = Seipd1Machine.run_machine e bs sha1 m req ctb in
       let mach = (match oc with Seipd1Machine.Clean -> "OK " | Seipd1Machine.Failed -> "ERR " | Seipd1Machine.OutOfFuel -> "FUEL ") ^ hex_of_bytes mo in
       if mach = spec then spec else "MODEL-SPLIT spec=" ^ Stdlib.String.sub spec 0 (Stdlib.min 40 (Stdlib.String.length spec)) ^ " machine=" ^ Stdlib.String.sub mach 0 (Stdlib.min 40 (Stdlib.String.length mach))
     | _ -> spec)
  | _ -> "MODEL-ERROR unknown op"

let () = run handle
