(* model driver for C03 *)
open Common

let nn s = n_of_int (int_of_string s)

(* SEIPD v2 parameters -> (chunk length, message key, iv, info) *)
let v2_setup sym aead cs sk salt =
  let (key, iv) = Seipd2.derive Prims.hkdf sym aead cs salt sk in
  (Seipd2.chunk_len cs, key, iv, Seipd2.info_of sym aead cs)

let handle = function
  | ["v2enc"; sym; aead; cs; sk; salt; p] ->
    let sym = nn sym and aead = nn aead and cs = nn cs in
    let (c, key, iv, info) = v2_setup sym aead cs (bytes_of_hex sk) (bytes_of_hex salt) in
    hex_of_bytes (Seipd2.seipd2_enc (Prims.seal aead sym) c key iv info (bytes_of_hex p))
  | ["v2dec"; sym; aead; cs; sk; salt; ct] ->
    let sym = nn sym and aead = nn aead and cs = nn cs in
    let (c, key, iv, info) = v2_setup sym aead cs (bytes_of_hex sk) (bytes_of_hex salt) in
    let (out, ok) = Seipd2.seipd2_stream_dec (Prims.aopen aead sym) c key iv info (bytes_of_hex ct) in
    (if ok then "OK " else "ERR ") ^ hex_of_bytes out
  | ["v1dec"; sym; key; mode; max; ct] ->
    let symn = nn sym in
    let k = bytes_of_hex key in
    let bs = n_of_int (match int_of_string sym with 7 | 8 | 9 | 10 | 11 | 12 | 13 -> 16 | _ -> 8) in
    let e = Prims.enc_block symn k in
    let sha1 = Prims.hash (n_of_int 2) in
    let (out, ok) =
      if mode = "0" then Cfb.seipd1_checkfirst e bs sha1 (nn max) (bytes_of_hex ct)
      else Cfb.seipd1_streaming e bs sha1 (bytes_of_hex ct) in
    (if ok then "OK " else "ERR ") ^ hex_of_bytes out
  | _ -> "MODEL-ERROR unknown op"

let () = run handle
