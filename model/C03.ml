(* model driver for C03 *)
open Common

let nn s = n_of_int (int_of_string s)

(* SEIPD v2 parameters -> (chunk length, message key, iv, info) *)
let v2_setup sym aead cs sk salt =
  let (key, iv) = Seipd2.derive Prims.hkdf sym aead cs salt sk in
  (Seipd2.chunk_len cs, key, iv, Seipd2.info_of sym aead cs)

let handle = function
  | ["v2enc"; sym; aead; cs; sk; salt; p] ->
    let sym = nn sym and aead = nn aead and cs = nn cs in
    let (c, key, iv, info) = v2_setup sym aead cs (bytes_of_hex sk) (bytes_of_hex salt) in
    hex_of_bytes (Seipd2.seipd2_enc (Prims.seal aead sym) c key iv info (bytes_of_hex p))
  | ["v2dec"; sym; aead; cs; sk; salt; ct] ->
    let sym = nn sym and aead = nn aead and cs = nn cs in
    let (c, key, iv, info) = v2_setup sym aead cs (bytes_of_hex sk) (bytes_of_hex salt) in
    let (out, ok) = Seipd2.seipd2_stream_dec (Prims.aopen aead sym) c key iv info (bytes_of_hex ct) in
    (if ok then "OK " else "ERR ") ^ hex_of_bytes out
  | _ -> "MODEL-ERROR unknown op"

let () = run handle
