(* model driver for C10 *)
open Common

let typ_of (s : string) : Armor.btype =
  match s with
  | "t0" -> Armor.PublicKey | "t1" -> Armor.PrivateKey | "t3" -> Armor.Message | "t4" -> Armor.Signature
  | "t5" -> Armor.File | "t6" -> Armor.Cleartext | "t7" -> Armor.RsaPublic | "t8" -> Armor.DsaPublic
  | "t9" -> Armor.EcPublic | "t10" -> Armor.Pkcs8Public | "t11" -> Armor.OpensshPublic
  | "t12" -> Armor.RsaPrivate | "t13" -> Armor.DsaPrivate | "t14" -> Armor.EcPrivate
  | "t15" -> Armor.Pkcs8Private | "t16" -> Armor.OpensshPrivate
  | _ ->
    (match Stdlib.String.split_on_char ':' s with
     | ["mp"; x; y] -> Armor.MultiPart (n_of_int (int_of_string x), n_of_int (int_of_string y))
     | _ -> failwith "type")

let show_typ = function
  | Armor.PublicKey -> "t0" | Armor.PrivateKey -> "t1"
  | Armor.MultiPart (x, y) -> Printf.sprintf "mp:%d:%d" (int_of_n x) (int_of_n y)
  | Armor.Message -> "t3" | Armor.Signature -> "t4" | Armor.File -> "t5" | Armor.Cleartext -> "t6"
  | Armor.RsaPublic -> "t7" | Armor.DsaPublic -> "t8" | Armor.EcPublic -> "t9" | Armor.Pkcs8Public -> "t10"
  | Armor.OpensshPublic -> "t11" | Armor.RsaPrivate -> "t12" | Armor.DsaPrivate -> "t13"
  | Armor.EcPrivate -> "t14" | Armor.Pkcs8Private -> "t15" | Armor.OpensshPrivate -> "t16"

let headers_of (s : string) =
  Stdlib.List.map (fun kv ->
      match Stdlib.String.split_on_char ':' kv with
      | [k; v] -> (bytes_of_hex k, bytes_of_hex v)
      | _ -> failwith "header") (split_list s)

(* the library keeps headers in a BTreeMap<String, Vec<String>>: keys sorted,
   values of one key in file order *)
let show_headers hs =
  let hs = Stdlib.List.stable_sort (fun (k1, _) (k2, _) -> compare (Stdlib.List.map int_of_byte k1) (Stdlib.List.map int_of_byte k2)) hs in
  match hs with
  | [] -> "_"
  | _ -> Stdlib.String.concat "," (Stdlib.List.map (fun (k, v) -> hex_of_bytes k ^ ":" ^ hex_of_bytes v) hs)

let show_crc = function
  | Armor.NoCrc -> "none"
  | Armor.CheckedOk c -> Printf.sprintf "ok:%d" (int_of_n c)
  | Armor.Unchecked c -> Printf.sprintf "unchecked:%d" (int_of_n c)

let show_res = function
  | Res.Ok d -> Printf.sprintf "OK %s %s %s %s" (show_typ d.Armor.d_type) (show_headers d.Armor.d_headers)
                  (hex_of_bytes d.Armor.d_data) (show_crc d.Armor.d_crc)
  | Res.Err -> "ERR"
  | Res.Panic -> "PANIC"

let handle = function
  | ["armor"; t; hs; data; ck] -> hex_of_bytes (Armor.armor (typ_of t) (headers_of hs) (bytes_of_hex data) (bool_of ck))
  | ["dearmor"; check; input] ->
    let i = bytes_of_hex input in
    let code = show_res (Armor.dearmor (bool_of check) i) in
    (* with checking enabled also print what RFC-conformant checking gives:
       the python side uses it to recognise the recorded finding *)
    if bool_of check then code ^ " | " ^ show_res (Armor.dearmor_spec true i) else code
  | ["dearmor_spec"; check; input] -> show_res (Armor.dearmor_spec (bool_of check) (bytes_of_hex input))
  | _ -> "MODEL-ERROR unknown op"

let () = run handle
