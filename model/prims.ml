(* prims.ml -- the primitive oracle as OCaml closures: each call is one line
   to the co-process /verif/.build/target/release/prims (RustCrypto crates,
   linked directly) and one line back. *)
open Common

let proc = lazy (
  let path = try Sys.getenv "VERIF_PRIMS" with Not_found -> "/verif/.build/target/release/prims" in
  Unix.open_process path)

let ask (line : string) : string =
  let (ic, oc) = Lazy.force proc in
  output_string oc line; output_char oc '\n'; flush oc;
  input_line ic

let hx = hex_of_bytes
let n2s n = string_of_int (int_of_n n)

exception Unsupported of string

let expect_hex (cmd : string) (ans : string) : Byte.byte list =
  if ans = "UNSUPPORTED" then raise (Unsupported cmd) else bytes_of_hex ans

let hash (id : BinNums.coq_N) (data : Byte.byte list) : Byte.byte list =
  let c = Printf.sprintf "hash %s %s" (n2s id) (hx data) in expect_hex c (ask c)

let enc_block (alg : BinNums.coq_N) (key : Byte.byte list) (b : Byte.byte list) : Byte.byte list =
  let c = Printf.sprintf "E %s %s %s" (n2s alg) (hx key) (hx b) in expect_hex c (ask c)

let dec_block (alg : BinNums.coq_N) (key : Byte.byte list) (b : Byte.byte list) : Byte.byte list =
  let c = Printf.sprintf "D %s %s %s" (n2s alg) (hx key) (hx b) in expect_hex c (ask c)

let seal (aead : BinNums.coq_N) (alg : BinNums.coq_N) key nonce ad pt : Byte.byte list =
  let c = Printf.sprintf "seal %s %s %s %s %s %s" (n2s aead) (n2s alg) (hx key) (hx nonce) (hx ad) (hx pt) in
  expect_hex c (ask c)

let aopen (aead : BinNums.coq_N) (alg : BinNums.coq_N) key nonce ad ct : Byte.byte list option =
  let c = Printf.sprintf "open %s %s %s %s %s %s" (n2s aead) (n2s alg) (hx key) (hx nonce) (hx ad) (hx ct) in
  let a = ask c in
  if a = "FAIL" || a = "UNSUPPORTED" then None
  else Some (bytes_of_hex (Stdlib.String.sub a 2 (Stdlib.String.length a - 2)))

let hkdf salt ikm info (len : BinNums.coq_N) : Byte.byte list =
  let c = Printf.sprintf "hkdf %s %s %s %s" (hx salt) (hx ikm) (hx info) (n2s len) in expect_hex c (ask c)

let argon2 t p m salt pw (len : BinNums.coq_N) : Byte.byte list =
  let c = Printf.sprintf "argon2 %s %s %s %s %s %s" (n2s t) (n2s p) (n2s m) (hx salt) (hx pw) (n2s len) in
  expect_hex c (ask c)

let compress (alg : BinNums.coq_N) data : Byte.byte list =
  let c = Printf.sprintf "z %s %s" (n2s alg) (hx data) in expect_hex c (ask c)

let decompress (alg : BinNums.coq_N) data : Byte.byte list option =
  let a = ask (Printf.sprintf "unz %s %s" (n2s alg) (hx data)) in
  if a = "FAIL" || a = "UNSUPPORTED" then None
  else Some (bytes_of_hex (Stdlib.String.sub a 2 (Stdlib.String.length a - 2)))

let hashrep (id : BinNums.coq_N) prefix unit (n : BinNums.coq_N) : Byte.byte list =
  let c = Printf.sprintf "hashrep %s %s %s %s" (n2s id) (hx prefix) (hx unit) (n2s n) in expect_hex c (ask c)
