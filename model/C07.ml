(* model driver for C07 *)
open Common
let nn s = n_of_int (int_of_string s)
let handle = function
  | ["flags"; certify; sign; enc; auth] ->
    let caps = (match enc with "comm" -> Flags.CapComm | "stor" -> Flags.CapStor | "all" -> Flags.CapAll | _ -> Flags.CapNone) in
    string_of_int (int_of_n (Flags.flags_octet { Flags.r_certify = (certify = "1"); Flags.r_sign = (sign = "1"); Flags.r_enc = caps; Flags.r_auth = (auth = "1") }))
  | ["mpi"; native] -> hex_of_bytes (Scalar.mpi_encode (bytes_of_hex native))
  | ["padstrip"; n; b] ->
    (match Scalar.pad_to (nn n) (Scalar.strip (bytes_of_hex b)) with Some v -> hex_of_bytes v | None -> "NONE")
  | ["mpidec"; w] ->
    (match Scalar.mpi_decode (bytes_of_hex w) with Some (v, r) -> hex_of_bytes v ^ " " ^ hex_of_bytes r | None -> "NONE")
  | _ -> "MODEL-ERROR unknown op"
let () = run handle
