(* model driver for C09 *)
open Common
let nn s = n_of_int (int_of_string s)
let events s = Stdlib.List.map (fun e ->
    if e = "f" then Fill.Fault else
      match Stdlib.String.split_on_char ':' e with
      | [_; h] -> Fill.Chunk (bytes_of_hex h)
      | _ -> Fill.Chunk []) (split_list s)
let handle = function
  | ["fill"; evs; need] ->
    (match Fill.fill (events evs) (nn need) [] with
     | (Res.Ok b, _) -> "OK " ^ hex_of_bytes b
     | (Res.Err, _) -> "ERR"
     | (Res.Panic, _) -> "PANIC")
  | ["serve"; out; reqs] -> Stdlib.String.concat "," (Stdlib.List.map hex_of_bytes (Fill.serve (bytes_of_hex out) (ns_of reqs)))
  | ["lwrun"; w; chunks] -> hex_of_bytes (LineWriter.lw_run (nn w) (chunks_of chunks))
  | ["rfb"; ahead; limit; pieces] ->
    (match Reassemble.rfb_line (nn ahead) (nn limit) (chunks_of pieces) with
     | (Some l, rest) -> "OK " ^ hex_of_bytes l ^ " " ^ hex_of_bytes rest
     | (None, _) -> "ERR")
  | ["crlf"; pieces] ->
    let cs = chunks_of pieces in
    let data = Stdlib.List.concat cs in
    let whole_l = CrLfCheck.ok_from false data and whole_u = Utf8Check.well_formed data in
    let run_l = (match CrLfCheck.crlf_run false cs with Some _ -> true | None -> false) and run_u = Utf8Check.utf8_run [] cs in
    if run_l <> whole_l || run_u <> whole_u then "MODEL-SPLIT" else if run_l && run_u then "OK" else "ERR"
  | ["msgread"; payload; reqs] ->
    (* the consumer of the harness: a read into an empty buffer before every read, request sizes taken in turn *)
    let p = bytes_of_hex payload in
    let rs = Stdlib.Array.of_list (ns_of reqs) in
    let k = Stdlib.List.length p + 2 in
    let rec build i acc = if i < 0 then acc else build (i - 1) (BinNums.N0 :: (if Stdlib.Array.length rs = 0 then n_of_int 65536 else rs.(i mod Stdlib.Array.length rs)) :: acc) in
    (match ReadEnd.consume (ReadEnd.msg_read true) (build (k - 1) []) p with
     | (out, Some true) -> "OK " ^ hex_of_bytes out
     | (_, Some false) -> "FAIL"
     | (_, None) -> "NOEND")
  | _ -> "MODEL-ERROR unknown op"
let () = run handle
