(* model driver for C09 *)
open Common
let nn s = n_of_int (int_of_string s)
let events s = Stdlib.List.map (fun e ->
    if e = "f" then Fill.Fault else
      match Stdlib.String.split_on_char ':' e with
      | [_; h] -> Fill.Chunk (bytes_of_hex h)
      | _ -> Fill.Chunk []) (split_list s)
let handle = function
  | ["fill"; evs; need] ->
    (match Fill.fill (events evs) (nn need) [] with
     | (Res.Ok b, _) -> "OK " ^ hex_of_bytes b
     | (Res.Err, _) -> "ERR"
     | (Res.Panic, _) -> "PANIC")
  | ["serve"; out; reqs] -> Stdlib.String.concat "," (Stdlib.List.map hex_of_bytes (Fill.serve (bytes_of_hex out) (ns_of reqs)))
  | ["lwrun"; w; chunks] -> hex_of_bytes (LineWriter.lw_run (nn w) (chunks_of chunks))
  | ["rfb"; ahead; limit; pieces] ->
    (match Reassemble.rfb_line (nn ahead) (nn limit) (chunks_of pieces) with
     | (Some l, rest) -> "OK " ^ hex_of_bytes l ^ " " ^ hex_of_bytes rest
     | (None, _) -> "ERR")
  | ["crlf"; pieces] ->
    let cs = chunks_of pieces in
    let data = Stdlib.List.concat cs in
    let whole_l = CrLfCheck.ok_from false data and whole_u = Utf8Check.well_formed data in
    let run_l = (match CrLfCheck.crlf_run false cs with Some _ -> true | None -> false) and run_u = Utf8Check.utf8_run [] cs in
    if run_l <> whole_l || run_u <> whole_u then "MODEL-SPLIT" else if run_l && run_u then "OK" else "ERR"
  | _ -> "MODEL-ERROR unknown op"
let () = run handle
