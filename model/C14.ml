(* model driver for C14 *)
open Common

let crlf = [Octets.coq_CR; Octets.coq_LF]
let rep_of = function
  | "0" -> [Octets.coq_LF]
  | "1" -> crlf
  | _ -> [Octets.coq_CR]

let handle = function
  | ["nh"; tm; chunks] -> hex_of_bytes (Canon.nh_run (bool_of tm) (chunks_of chunks))
  | ["nr"; lb; data] -> hex_of_bytes (Canon.nr_run (rep_of lb) (n_of_int 512) (bytes_of_hex data))
  | ["nl"; lb; data] -> hex_of_bytes (Canon.replace_newlines (rep_of lb) (bytes_of_hex data))
  | ["crlf"; chunks] -> str_of_bool (Canon.crlf_run false (chunks_of chunks))
  | ["canon"; data] -> hex_of_bytes (Canon.canon (bytes_of_hex data))
  | _ -> "MODEL-ERROR unknown op"

let () = run handle
