(* model driver for C08 *)
open Common

let nn s = n_of_int (int_of_string s)
let dlen (h : BinNums.coq_N) : BinNums.coq_N =
  n_of_int (match int_of_n h with 1 -> 16 | 2 -> 20 | 3 -> 20 | 8 -> 32 | 9 -> 48 | 10 -> 64 | 11 -> 28 | 12 -> 32 | 14 -> 64 | _ -> 0)
let key_len sym = match sym with 1 | 3 | 4 | 7 | 11 -> 16 | 2 | 8 | 12 -> 24 | _ -> 32
let blk_len sym = match sym with 7 | 8 | 9 | 10 | 11 | 12 | 13 -> 16 | _ -> 8
let sha1 = Prims.hash (n_of_int 2)
let sha256 = Prims.hash (n_of_int 8)
let take n l = Octets.takeN (n_of_int n) l

let s2k_of typ h salt coded =
  match typ with
  | "0" -> Kdf.S2kSimple h
  | "1" -> Kdf.S2kSalted (h, salt)
  | _ -> Kdf.S2kIterated (h, salt, coded)

(* the S2K-derived key; spec = typ:hash:salt:coded  or  argon:t:p:m:salt  or  legacy *)
let derive (spec : string) (pw : Byte.byte list) (ks : int) : Byte.byte list option =
  match Stdlib.String.split_on_char ':' spec with
  | ["legacy"] ->
    (match Kdf.s2k_derive Prims.hash dlen (Kdf.S2kSimple (n_of_int 1)) pw (n_of_int ks) with Res.Ok k -> Some k | _ -> None)
  | ["argon"; t; p; m; salt] ->
    (try Some (Prims.argon2 (nn t) (nn p) (n_of_int (1 lsl (int_of_string m))) (bytes_of_hex salt) pw (n_of_int ks))
     with Prims.Unsupported _ -> None)
  | [typ; h; salt; coded] ->
    let hn = nn h and sl = bytes_of_hex salt and cd = nn coded in
    let count = int_of_n (Kdf.decode_count cd) in
    if typ = "3" && count > 65536 then begin
      let d = Stdlib.List.append sl pw in
      let n = max count (Stdlib.List.length d) in
      let hl = int_of_n (dlen hn) in
      if hl = 0 then None else begin
        let rounds = (ks + hl - 1) / hl in
        let rec go j acc = if j >= rounds then acc else
            go (j + 1) (Stdlib.List.append acc (Prims.hashrep hn (Cfb.zeros_n (n_of_int j)) d (n_of_int n))) in
        Some (take ks (go 0 []))
      end
    end else
      (match Kdf.s2k_derive Prims.hash dlen (s2k_of typ hn sl cd) pw (n_of_int ks) with Res.Ok k -> Some k | _ -> None)
  | _ -> None

let hkdf256 = Kdf.hkdf sha256 (n_of_int 64) (n_of_int 32)
let okm derived info = hkdf256 [] derived info (n_of_int 32)

let ok_hex = function Res.Ok v -> "OK " ^ hex_of_bytes v | _ -> "ERR"

let handle = function
  (* CFB protection: usage 254 (sha1 tag) / 255 and legacy (16-bit sum) *)
  | ["lock"; usage; sym; spec; pw; iv; raw] ->
    let symi = int_of_string sym in
    (match derive spec (bytes_of_hex pw) (key_len symi) with
     | None -> "ERR"
     | Some key ->
       let e = Prims.enc_block (n_of_int symi) key in
       let bs = n_of_int (blk_len symi) in
       (try
          if usage = "254" then hex_of_bytes (Lock.lock_cfb e bs sha1 (bytes_of_hex iv) (bytes_of_hex raw))
          else hex_of_bytes (Lock.lock_sum e bs (bytes_of_hex iv) (bytes_of_hex raw))
        with Prims.Unsupported _ -> "ERR"))
  | ["unlock"; usage; sym; spec; pw; iv; ct] ->
    let symi = int_of_string sym in
    (match derive spec (bytes_of_hex pw) (key_len symi) with
     | None -> "ERR"
     | Some key ->
       let e = Prims.enc_block (n_of_int symi) key in
       let bs = n_of_int (blk_len symi) in
       (try
          if usage = "254" then ok_hex (Lock.unlock_cfb e bs sha1 (bytes_of_hex iv) (bytes_of_hex ct))
          else ok_hex (Lock.unlock_sum e bs (bytes_of_hex iv) (bytes_of_hex ct))
        with Prims.Unsupported _ -> "ERR"))
  (* AEAD protection: usage 253 *)
  | ["lockaead"; tag; ver; sym; mode; spec; pw; nonce; pub; raw] ->
    let symi = int_of_string sym in
    (match derive spec (bytes_of_hex pw) (key_len symi) with
     | None -> "ERR"
     | Some derived ->
       (try hex_of_bytes (Lock.lock_aead (fun k n ad m -> Prims.seal (nn mode) (nn sym) (take (key_len symi) k) n ad m) okm
                            (nn tag) (nn ver) (nn sym) (nn mode) derived (bytes_of_hex nonce) (bytes_of_hex pub) (bytes_of_hex raw))
        with Prims.Unsupported _ -> "ERR"))
  | ["unlockaead"; tag; ver; sym; mode; spec; pw; nonce; pub; ct] ->
    let symi = int_of_string sym in
    (match derive spec (bytes_of_hex pw) (key_len symi) with
     | None -> "ERR"
     | Some derived ->
       (try ok_hex (Lock.unlock_aead (fun k n ad c -> Prims.aopen (nn mode) (nn sym) (take (key_len symi) k) n ad c) okm
                      (nn tag) (nn ver) (nn sym) (nn mode) derived (bytes_of_hex nonce) (bytes_of_hex pub) (bytes_of_hex ct))
        with Prims.Unsupported _ -> "ERR"))
  | [("lockok" | "unlockok") as which; ver; var; s2k; weak] ->
    let v = (match var with "cfb" -> LockRules.PCfb | "malleable" -> LockRules.PMalleable | "legacy" -> LockRules.PLegacy | _ -> LockRules.PAead) in
    let t = (match s2k with "0" -> LockRules.TSimple | "1" -> LockRules.TSalted | "3" -> LockRules.TIterated | "4" -> LockRules.TArgon2 | _ -> LockRules.TOther) in
    let p = { LockRules.l_ver = nn ver; LockRules.l_var = v; LockRules.l_s2k = t; LockRules.l_weak = (weak = "1") } in
    if (if which = "lockok" then LockRules.lock_allowed p else LockRules.unlock_allowed p) then "1" else "0"
  | ["variant"; u] ->
    (match Lock.variant_of (nn u) with
     | Lock.VUnprotected -> "unprotected" | Lock.VLegacy s -> "legacy " ^ string_of_int (int_of_n s)
     | Lock.VAead -> "aead" | Lock.VCfb -> "cfb" | Lock.VMalleable -> "malleable")
  | _ -> "MODEL-ERROR unknown op"

let () = run handle
