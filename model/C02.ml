(* model driver for C02 *)
open Common
let handle = function
  | ["doc_same"; tm; d; d'] ->
    (* does the changed document have the same subject octets as the signed one? *)
    let s1 = Preimage.subject_bytes (n_of_int 4) (Preimage.SDoc (bool_of tm, bytes_of_hex d)) in
    let s2 = Preimage.subject_bytes (n_of_int 4) (Preimage.SDoc (bool_of tm, bytes_of_hex d')) in
    if s1 = s2 then "accept" else "reject"
  | _ -> "MODEL-ERROR unknown op"
let () = run handle
