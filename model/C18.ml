(* model driver for C18 *)
open Common

let nn s = n_of_int (int_of_string s)
let pairs s = if s = "-" || s = "" then [] else
    Stdlib.List.map (fun p -> match Stdlib.String.split_on_char '=' p with
        | [a; b] -> (nn a, nn b) | _ -> failwith "pair") (Stdlib.String.split_on_char ';' s)

let handle = function
  | ["decide"; ab; pks; sks; keys; pws; expl] ->
    let ps = Stdlib.List.map (fun s ->
        match Stdlib.String.split_on_char '/' s with
        | [id; tbl] -> { Recipients.p_id = (if id = "w" then None else Some (nn id)); Recipients.p_open = pairs tbl }
        | _ -> failwith "pkesk") (split_list pks) in
    let ss = Stdlib.List.map (fun s -> pairs s) (split_list sks) in
    (match Recipients.decide (bool_of ab) ps ss (ns_of keys) (ns_of pws) (ns_of expl) with
     | Recipients.Found k -> "F" ^ string_of_int (int_of_n k)
     | Recipients.Missing -> "M"
     | Recipients.Conflict -> "C")
  | _ -> "MODEL-ERROR unknown op"

let () = run handle
