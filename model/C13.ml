(* model driver for C13 *)
open Common
let nn s = n_of_int (int_of_string s)
let handle = function
  | ["fp"; kv; body] ->
    let kv = nn kv in
    let fp = Prims.hash (Fingerprint.fp_hash kv) (Fingerprint.fp_preimage kv (bytes_of_hex body)) in
    hex_of_bytes fp ^ " " ^ hex_of_bytes (Fingerprint.keyid kv fp)
  | ["fp3"; n; e] ->
    let fp = Prims.hash (n_of_int 1) (Fingerprint.fp_preimage_v3 (bytes_of_hex n) (bytes_of_hex e)) in
    hex_of_bytes fp ^ " " ^ hex_of_bytes (Fingerprint.keyid_v3 (bytes_of_hex n))
  | ["sigmatch"; kids; fps; kid; fp] ->
    str_of_bool (Identity.sig_match (chunks_of kids) (chunks_of fps) (bytes_of_hex kid) (bytes_of_hex fp))
  | ["eskmatch"; target; kid; fp] ->
    let t = match Stdlib.String.split_on_char ':' target with
      | ["k"; id] -> Identity.TKeyId (bytes_of_hex id)
      | ["f"; "_"] -> Identity.TFp None
      | ["f"; f] -> Identity.TFp (Some (bytes_of_hex f))
      | _ -> Identity.TOther in
    str_of_bool (Identity.esk_match t (bytes_of_hex kid) (bytes_of_hex fp))
  | _ -> "MODEL-ERROR unknown op"
let () = run handle
