#!/bin/bash
# keep_mutation.sh <worktree> <ID> <name> <caught-by text>: store a confirmed mutation under seeded/<ID>/<name>, remove the worktree
WT=$1; ID=$2; NAME=$3; CAUGHT=$4
D=/verif/seeded/$ID/$NAME
mkdir -p $D
cp $WT/MUTATION/patch.diff $D/patch.diff
cp $WT/MUTATION/mutation_demo.rs $D/mutation_demo.rs
cp $WT/MUTATION/README.md $D/agent_README.md 2>/dev/null
python3 - "$WT" "$ID" "$NAME" "$CAUGHT" <<'PY'
import sys,json
wt,pid,name,caught=sys.argv[1:5]
conf=open(wt+'/MUTATION/confirm.txt').read().strip().split('\n')
meta={"property":pid,"name":name,
 "needs_to_manifest":open(wt+'/MUTATION/README.md').read()[:1500],
 "confirmed_by_me":conf,
 "what_i_ran":["tools/confirm_mutation.sh %s  (demo with change, full suite with change, demo without change)"%wt,
               "tools/try_mutation.sh seeded/%s/%s/patch.diff %s"%(pid,name,pid)],
 "check_result":caught}
json.dump(meta,open('/verif/seeded/%s/%s/meta.json'%(pid,name),'w'),indent=1)
PY
git -C /repo worktree remove --force $WT && echo "kept $D, removed $WT"
