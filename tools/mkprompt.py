#!/usr/bin/env python3
"""mkprompt.py <ID> <worktree> [focus text]  -> prints the mutation-agent prompt"""
import sys, json
pid, wt = sys.argv[1], sys.argv[2]
focus = sys.argv[3] if len(sys.argv) > 3 else ""
p = next(json.loads(l) for l in open('/verif/properties.jsonl') if json.loads(l)['id'] == pid)
prop = "**%s**\n\n%s\n\nQuantified over: %s\n\nCode areas involved: %s" % (
    p['title'], p['statement'], p['quantifier']['text'], ", ".join(p['anchors']['files']))
t = open('/verif/tools/mutation_prompt.md').read()
print(t.replace('{WT}', wt).replace('{PROP}', prop).replace('{FOCUS}', focus))
