#!/bin/bash
# build_model.sh <ID>: extract the model of property <ID> to OCaml and build
# its driver  /verif/.build/model/<ID>/modelrun
set -e
ID=$1
V=/verif
D=$V/.build/model/$ID
mkdir -p "$D"
cd "$D"
# re-extract only when something is newer than the binary
if [ -x modelrun ] && [ -z "$(find $V/coq/theories $V/coq/extract/$ID.v $V/model/common.ml $V/model/prims.ml $V/model/$ID.ml -newer modelrun 2>/dev/null | head -1)" ]; then
  exit 0
fi
rm -f *.ml *.mli *.cm* *.o modelrun
cp $V/coq/extract/$ID.v Extract$ID.v
# the theories the extraction imports must be compiled (a clean rebuild of another property may have removed them)
VOS=$(grep 'Rpgp Require Import' Extract$ID.v | sed 's/.*Require Import//; s/\.$//' | tr ' ' '\n' | grep '\.' | sed 's#\.#/#g; s#^#theories/#; s#$#.vo#' | tr '\n' ' ')
( cd $V/coq && [ -f Makefile ] || coq_makefile -f _CoqProject -o Makefile >/dev/null; cd $V/coq && timeout 1500 make -j16 $VOS > $D/theories.log 2>&1 ) || { tail -5 $D/theories.log; exit 1; }
timeout 600 coqc -Q $V/coq/theories Rpgp Extract$ID.v > extract.log 2>&1 || { cat extract.log; exit 1; }
cp $V/model/common.ml common.ml
grep -q "Prims\." $V/model/$ID.ml && cp $V/model/prims.ml prims.ml
cp $V/model/$ID.ml driver_$ID.ml
FILES=$(ocamlfind ocamldep -sort *.mli *.ml)
timeout 600 ocamlfind ocamlopt -O2 -w -a -package unix -linkpkg $FILES -o modelrun 2> ocaml.log || \
timeout 600 ocamlfind ocamlopt -w -a -package unix -linkpkg $FILES -o modelrun 2> ocaml.log || { cat ocaml.log; exit 1; }
