#!/bin/bash
# setup: build everything from files on disk (offline): Coq development,
# extracted models, Rust harness.
set -e
cd /verif
export CARGO_NET_OFFLINE=true
( cd coq && coq_makefile -f _CoqProject -o Makefile >/dev/null && timeout 3000 make -j16 2>&1 | tail -5 )
IDS=$(python3 -c "import json;print(' '.join(c['property_id'] for c in json.load(open('MANIFEST.json'))['checks']))")
for id in $IDS; do
  tools/build_model.sh $id
done
( cd harness && timeout 3000 cargo build --offline --release --bins 2>&1 | tail -3 )
echo setup done
