#!/bin/bash
# try_mutation.sh <patch.diff> <ID> [<ID>...]: apply the patch to /repo, run the quick
# checks, undo the patch. Prints one line per check.
P=$1; shift
# hold the repo lock while the change is applied: checks started elsewhere wait at their build step
mkdir -p /verif/.build
exec 9>/verif/.build/repo.lock
flock 9
export VERIF_REPO_LOCK_HELD=1
cd /repo || exit 2
git diff --quiet || { echo "/repo has uncommitted changes"; exit 2; }
git apply "$P" || { echo "patch does not apply"; exit 2; }
cd /verif
for id in "$@"; do
  out=$(./check $id --tier quick 2>&1); rc=$?
  echo "== $id rc=$rc"; echo "$out" | grep -E "VIOLATION|KNOWN-FINDING|^$id " | head -5
  [ -f replays/$id/violation_1.json ] && [ $rc -ne 0 ] && python3 -c "
import json;b=json.load(open('replays/$id/violation_1.json'));print('   kind:',b['kind'],'argv:',str(b.get('replay_argv'))[:300]);print('   broken:',str(b.get('no_longer_checks') or b.get('broken'))[:300])"
done
git -C /repo checkout -- . && git -C /repo status --short | head -3
