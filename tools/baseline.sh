#!/bin/bash
# Runs the repository's pinned test suite with the verification guard OFF and
# compares the result with /root/.vp/BASELINE.json (all stable tests must pass).
set -u
cd /repo
export CARGO_NET_OFFLINE=true
unset RUSTFLAGS
LOG=${1:-/tmp/baseline.log}
cargo nextest run --workspace --no-fail-fast --tool-config-file pb:/w/lib/nextest.toml --profile pb --test-threads 8 --offline >"$LOG" 2>&1
rc=$?
J=/repo/target/nextest/pb/junit.xml
python3 - "$J" <<'PY'
import sys,json,xml.etree.ElementTree as ET
base=json.load(open('/root/.vp/BASELINE.json'))
want=set(base['stable_pass'])
t=ET.parse(sys.argv[1]).getroot()
passed=set(); failed=set()
for ts in t.iter('testsuite'):
    for tc in ts.iter('testcase'):
        name=tc.get('classname','')+'::'+tc.get('name','')
        bad=any(c.tag in('failure','error') for c in tc)
        (failed if bad else passed).add(name)
def norm(s): return s
missing=[w for w in want if w not in passed]
print(f"passed={len(passed)} failed={len(failed)} baseline={len(want)} baseline_missing={len(missing)}")
for m in missing[:20]: print("  MISSING", m)
for f in sorted(failed)[:20]: print("  FAILED", f)
sys.exit(1 if missing else 0)
PY
prc=$?
echo "nextest rc=$rc compare rc=$prc"
exit $prc
