#!/usr/bin/env python3
"""manifest_add.py <ID> <design_ref> <text> <note> [technique]: claim a property in MANIFEST.json"""
import sys, json
pid, design, text, note = sys.argv[1:5]
tech = sys.argv[5] if len(sys.argv) > 5 else "Coq proof over an executable Gallina model + extracted-model/implementation differential run"
m = json.load(open('/verif/MANIFEST.json'))
m['checks'] = [c for c in m['checks'] if c['property_id'] != pid]
m['checks'].append({"property_id": pid, "quick_cmd": "./check %s --tier quick" % pid, "thorough_cmd": "./check %s --tier thorough" % pid,
  "evidence_file": "/verif/evidence/%s.json" % pid, "replay_cmd_template": "./check %s --replay {path}" % pid, "engine": "coq-model",
  "level_claimed": {"category": "proof", "text": text, "design_ref": design}, "level_note": note, "technique": tech})
m['checks'].sort(key=lambda c: c['property_id'])
m['not_applicable'] = [n for n in m.get('not_applicable', []) if n['property_id'] != pid]
m['engines'][0]['serves_properties'] = [c['property_id'] for c in m['checks']]
json.dump(m, open('/verif/MANIFEST.json', 'w'), indent=1)
print("claimed:", [c['property_id'] for c in m['checks']])
