#!/bin/bash
# confirm_mutation.sh <worktree>: independently confirm a sub-agent's change:
#  demo fails with it, existing suite passes with it, demo passes without it.
WT=$1
cd $WT || exit 2
export CARGO_NET_OFFLINE=true
R=$WT/MUTATION/confirm.txt
: > $R
git diff -- src > /tmp/confirm_$$.diff
cmp -s /tmp/confirm_$$.diff MUTATION/patch.diff || echo "note: patch.diff differs from worktree diff" >> $R
cp MUTATION/mutation_demo.rs tests/mutation_demo.rs 2>/dev/null
cargo test --offline --test mutation_demo > /tmp/confirm_$$.log 2>&1; echo "demo_with_change rc=$? $(grep -E '^test result' /tmp/confirm_$$.log | head -1)" >> $R
cargo nextest run --workspace --no-fail-fast --test-threads 8 --offline -E 'not binary(mutation_demo)' > /tmp/confirm_$$.log 2>&1; echo "suite_with_change rc=$? $(grep -E 'Summary|tests run' /tmp/confirm_$$.log | tail -1)" >> $R
git checkout -- src
cargo test --offline --test mutation_demo > /tmp/confirm_$$.log 2>&1; echo "demo_without_change rc=$? $(grep -E '^test result' /tmp/confirm_$$.log | head -1)" >> $R
git apply /tmp/confirm_$$.diff
rm -f /tmp/confirm_$$.diff /tmp/confirm_$$.log
cat $R
