theories/Base/Octets.vo theories/Base/Octets.glob theories/Base/Octets.v.beautified theories/Base/Octets.required_vo: theories/Base/Octets.v 
theories/Base/Octets.vio: theories/Base/Octets.v 
theories/Base/Octets.vos theories/Base/Octets.vok theories/Base/Octets.required_vos: theories/Base/Octets.v 
theories/Text/Canon.vo theories/Text/Canon.glob theories/Text/Canon.v.beautified theories/Text/Canon.required_vo: theories/Text/Canon.v theories/Base/Octets.vo
theories/Text/Canon.vio: theories/Text/Canon.v theories/Base/Octets.vio
theories/Text/Canon.vos theories/Text/Canon.vok theories/Text/Canon.required_vos: theories/Text/Canon.v theories/Base/Octets.vos
theories/Text/CanonProofs.vo theories/Text/CanonProofs.glob theories/Text/CanonProofs.v.beautified theories/Text/CanonProofs.required_vo: theories/Text/CanonProofs.v theories/Base/Octets.vo theories/Text/Canon.vo
theories/Text/CanonProofs.vio: theories/Text/CanonProofs.v theories/Base/Octets.vio theories/Text/Canon.vio
theories/Text/CanonProofs.vos theories/Text/CanonProofs.vok theories/Text/CanonProofs.required_vos: theories/Text/CanonProofs.v theories/Base/Octets.vos theories/Text/Canon.vos
theories/Props/C14.vo theories/Props/C14.glob theories/Props/C14.v.beautified theories/Props/C14.required_vo: theories/Props/C14.v theories/Base/Octets.vo theories/Text/Canon.vo theories/Text/CanonProofs.vo
theories/Props/C14.vio: theories/Props/C14.v theories/Base/Octets.vio theories/Text/Canon.vio theories/Text/CanonProofs.vio
theories/Props/C14.vos theories/Props/C14.vok theories/Props/C14.required_vos: theories/Props/C14.v theories/Base/Octets.vos theories/Text/Canon.vos theories/Text/CanonProofs.vos
