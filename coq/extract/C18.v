From Coq Require Extraction ExtrOcamlBasic.
From Rpgp Require Import Base.Octets Rules.Recipients.
Extraction Language OCaml.
Separate Extraction Byte.to_N Byte.of_N Recipients.decide Recipients.all_found.
