From Coq Require Extraction ExtrOcamlBasic.
From Rpgp Require Import Base.Octets Base.Res Text.Canon Text.Cleartext.
Extraction Language OCaml.
Separate Extraction Byte.to_N Byte.of_N
  Cleartext.dash_escape Cleartext.esc Cleartext.unesc Cleartext.unescape_trim Cleartext.signed_form
  Cleartext.text_section Cleartext.read_body Cleartext.trim_lines Cleartext.ends_with_cr Canon.canon.
