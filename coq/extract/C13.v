From Coq Require Extraction ExtrOcamlBasic.
From Rpgp Require Import Base.Octets Base.Res Sig.Preimage Sig.Fingerprint Rules.Identity.
Extraction Language OCaml.
Separate Extraction Byte.to_N Byte.of_N Fingerprint.fp_preimage Fingerprint.fp_preimage_v3 Fingerprint.fp_hash Fingerprint.keyid Fingerprint.keyid_v3 Identity.sig_match Identity.esk_match.
