From Coq Require Extraction ExtrOcamlBasic.
From Rpgp Require Import Base.Octets Base.Res Sig.Preimage Sig.Fingerprint.
Extraction Language OCaml.
Separate Extraction Byte.to_N Byte.of_N Fingerprint.fp_preimage Fingerprint.fp_preimage_v3 Fingerprint.fp_hash Fingerprint.keyid Fingerprint.keyid_v3.
