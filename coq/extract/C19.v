From Coq Require Extraction ExtrOcamlBasic.
From Rpgp Require Import Base.Octets Kdf.Kdf Cost.Cost Wire.Fmt Wire.Packets Wire.Wire.
Extraction Language OCaml.
Separate Extraction Byte.to_N Byte.of_N
  Cost.take_bytes Cost.argon2_allowed Cost.mpi_allowed Cost.chunk_allowed Cost.aead_buffer Cost.subpacket_vec_cap Kdf.decode_count
  Fmt.gen Packets.body_fmt Wire.packet.
