From Coq Require Extraction ExtrOcamlBasic.
From Rpgp Require Import Base.Octets Base.Res Frame.Framing Wire.Fmt Wire.Packets Wire.Wire Wire.KeyFlagsObj.
Extraction Language OCaml.
Separate Extraction Byte.to_N Byte.of_N
  Fmt.enc Fmt.dec Fmt.gen Packets.body_fmt Packets.tags Wire.packet Wire.parse_body Wire.announced_len
  Framing.deframe Framing.enc_header_new
  KeyFlagsObj.kf_default KeyFlagsObj.kf_parse KeyFlagsObj.kf_set KeyFlagsObj.kf_ser KeyFlagsObj.kf_write_len.
