From Coq Require Extraction ExtrOcamlBasic.
From Rpgp Require Import Base.Octets Text.Canon.
Extraction Language OCaml.
Separate Extraction Byte.to_N Byte.of_N Octets.CR Octets.LF
  Canon.canon Canon.nh_run Canon.nh_run_legacy Canon.nr_run Canon.replace_newlines
  Canon.crlf_run Canon.to_lf Canon.to_crlf Canon.is_canon.
