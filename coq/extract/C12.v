From Coq Require Extraction ExtrOcamlBasic.
From Rpgp Require Import Base.Octets Base.Res Aead.Seipd2 Sym.Cfb Kdf.Kdf Key.Lock Io.Emitter Sym.Seipd1EncMachine Aead.Seipd2EncMachine.
Extraction Language OCaml.
Separate Extraction Byte.to_N Byte.of_N
  Seipd2.seipd2_enc Seipd2.seipd2_dec Seipd2.derive Seipd2.info_of Seipd2.chunk_len Seipd2.key_size Seipd2.nonce_size
  Cfb.cfb_enc Cfb.cfb_dec Cfb.seipd1_enc Cfb.seipd1_dec Cfb.zeros_n
  Kdf.decode_count Kdf.s2k_derive Kdf.s2k_iterated_code Kdf.s2k_preimage Kdf.hmac Kdf.hkdf Kdf.kw_wrap Kdf.kw_unwrap
  Kdf.ecdh_param Kdf.ecdh_kdf Kdf.ecdh_pad Kdf.ecdh_unpad Kdf.sum16 Kdf.pkesk_v3_plain
  Kdf.skesk6_info Kdf.keylock_info Lock.lock_aead Lock.aead_info Lock.aead_ad Seipd1EncMachine.enc_run Seipd2EncMachine.a2_run.
