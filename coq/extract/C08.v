From Coq Require Extraction ExtrOcamlBasic.
From Rpgp Require Import Base.Octets Base.Res Sym.Cfb Kdf.Kdf Key.Lock Key.LockRules.
Extraction Language OCaml.
Separate Extraction Byte.to_N Byte.of_N
  Cfb.cfb_enc Cfb.cfb_dec Cfb.zeros_n
  Kdf.decode_count Kdf.s2k_derive Kdf.hkdf Kdf.sum16
  Lock.lock_cfb Lock.unlock_cfb Lock.lock_sum Lock.unlock_sum Lock.lock_aead Lock.unlock_aead
  Lock.aead_info Lock.aead_ad Lock.usage_of Lock.variant_of Lock.variant_ok
  LockRules.lock_allowed LockRules.unlock_allowed.
