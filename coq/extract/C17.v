From Coq Require Extraction ExtrOcamlBasic.
From Rpgp Require Import Base.Octets Base.Res Frame.Framing Frame.BodyReader Io.Emitter Frame.PartialWriter Frame.FixedWriter Frame.Rewrite.
Extraction Language OCaml.
Separate Extraction Byte.to_N Byte.of_N
  Framing.deframe Framing.frame_new Framing.frame_old Framing.emit_partial Framing.emit_fixed
  Framing.legal_new Framing.legal_old Framing.dec_new_len Framing.enc_new_len Framing.enc_header_new Framing.enc_header_old Framing.dec_header
  BodyReader.br_run BodyReader.body_spec PartialWriter.pw_run FixedWriter.fw_run Rewrite.rewrite.
