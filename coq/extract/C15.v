From Coq Require Extraction ExtrOcamlBasic.
From Rpgp Require Import Base.Octets Rules.Rules.
Extraction Language OCaml.
Separate Extraction Byte.to_N Byte.of_N
  Rules.may_decrypt Rules.aligned Rules.usable Rules.container_allowed Rules.sig_admissible Rules.critical_ok
  Rules.known_subpacket Rules.fp_version_ok Rules.ops_matches Rules.ops_pair_ok Rules.subkey_version_ok Rules.binding_ok Rules.sigkey_aligned.
