From Coq Require Extraction ExtrOcamlBasic.
From Rpgp Require Import Base.Octets Base.Res Frame.Framing Aead.Seipd2 Sym.Cfb Armor.Armor Key.Lock Msg.Pipeline Io.Emitter Frame.PartialWriter Msg.SignGen.
Extraction Language OCaml.
Separate Extraction Byte.to_N Byte.of_N
  Pipeline.read Pipeline.build Pipeline.literal_dec Pipeline.compressed_dec Pipeline.encrypted_dec Pipeline.armor_dec
  Pipeline.res_of_option Seipd2.seipd2_dec Seipd2.derive Seipd2.info_of Seipd2.chunk_len Cfb.seipd1_dec Framing.deframe SignGen.sg_run SignGen.sg_spec.
