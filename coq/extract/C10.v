From Coq Require Extraction ExtrOcamlBasic.
From Rpgp Require Import Base.Octets Base.Res Armor.Base64 Armor.Armor.
Extraction Language OCaml.
Separate Extraction Byte.to_N Byte.of_N
  Armor.armor Armor.dearmor Armor.dearmor_spec Base64.b64_enc Base64.b64_dec Base64.crc24 Base64.wrap.
