From Coq Require Extraction ExtrOcamlBasic.
From Rpgp Require Import Base.Octets Key.Scalar Key.Flags.
Extraction Language OCaml.
Separate Extraction Byte.to_N Byte.of_N Scalar.strip Scalar.pad_to Scalar.mpi_encode Scalar.mpi_decode Flags.flags_octet.
