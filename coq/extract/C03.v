From Coq Require Extraction ExtrOcamlBasic.
From Rpgp Require Import Base.Octets Base.Res Aead.Seipd2 Aead.Seipd2Machine Aead.Gnupg Sym.Cfb Sym.Seipd1Machine.
Extraction Language OCaml.
Separate Extraction Byte.to_N Byte.of_N
  Seipd2.seipd2_enc Seipd2.seipd2_dec Seipd2.seipd2_stream_dec Seipd2.derive Seipd2.info_of Seipd2.chunk_len
  Cfb.cfb_enc Cfb.cfb_dec Cfb.seipd1_enc Cfb.seipd1_dec Cfb.seipd1_checkfirst Cfb.seipd1_streaming
  Seipd1Machine.run_machine Seipd2Machine.a_run
  Gnupg.gnupg_enc Gnupg.gnupg_stream_dec Gnupg.gnupg_run.
