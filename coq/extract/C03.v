From Coq Require Extraction ExtrOcamlBasic.
From Rpgp Require Import Base.Octets Base.Res Aead.Seipd2.
Extraction Language OCaml.
Separate Extraction Byte.to_N Byte.of_N
  Seipd2.seipd2_enc Seipd2.seipd2_dec Seipd2.seipd2_stream_dec Seipd2.derive Seipd2.info_of Seipd2.chunk_len.
