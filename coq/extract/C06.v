From Coq Require Extraction ExtrOcamlBasic.
From Rpgp Require Import Base.Octets Base.Res Text.Canon.
Extraction Language OCaml.
Separate Extraction Byte.to_N Byte.of_N Canon.canon.
