From Coq Require Extraction ExtrOcamlBasic.
From Rpgp Require Import Base.Octets Base.Res Msg.ReadEnd Io.Fill Io.Utf8Check Io.CrLfCheck Io.Reassemble Armor.Base64 Armor.LineWriter.
Extraction Language OCaml.
Separate Extraction Byte.to_N Byte.of_N Fill.fill Fill.serve Fill.pump Fill.data_of Reassemble.rfb_line CrLfCheck.crlf_run CrLfCheck.ok_from Utf8Check.utf8_run Utf8Check.well_formed ReadEnd.consume ReadEnd.msg_read LineWriter.lw_run Base64.wrap.
