From Coq Require Extraction ExtrOcamlBasic.
From Rpgp Require Import Base.Octets Base.Res Io.Fill Io.CrLfCheck Io.Reassemble Armor.Base64 Armor.LineWriter.
Extraction Language OCaml.
Separate Extraction Byte.to_N Byte.of_N Fill.fill Fill.serve Fill.pump Fill.data_of Reassemble.rfb_line CrLfCheck.crlf_run CrLfCheck.ok_from LineWriter.lw_run Base64.wrap.
