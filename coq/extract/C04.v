From Coq Require Extraction ExtrOcamlBasic.
From Rpgp Require Import Base.Octets Base.Res Kdf.Kdf Safe.Checked Wire.Fmt Wire.Packets Wire.Wire.
Extraction Language OCaml.
Separate Extraction Byte.to_N Byte.of_N
  Checked.session_key_v3 Checked.session_key_v6 Checked.skesk4_plain Checked.kw_out_len
  Checked.ecdh_unpad_checked Checked.aead_setup Checked.key_size
  Fmt.gen Packets.body_fmt Wire.packet.
