From Coq Require Extraction ExtrOcamlBasic.
From Rpgp Require Import Base.Octets Base.Res Text.Canon Sig.Preimage.
Extraction Language OCaml.
Separate Extraction Byte.to_N Byte.of_N Preimage.preimage Preimage.preimage_v3 Preimage.salt_len Preimage.subject_bytes.
