From Coq Require Extraction ExtrOcamlBasic.
From Rpgp Require Import Base.Octets Base.Res Text.Canon Sig.Preimage Sig.Verify.
Extraction Language OCaml.
Separate Extraction Byte.to_N Byte.of_N Preimage.subject_bytes Preimage.preimage Canon.canon.
