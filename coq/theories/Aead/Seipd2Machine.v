(* Aead/Seipd2Machine.v -- the SEIPD v2 stream decryptor as the state machine the code
   is (C03, C09): one buffer of two encrypted chunks, the chunk opened in place and
   moved behind the pending input, the running chunk index and octet count, the final
   tag, the consumer's requests.

   Mirrors src/crypto/aead/decryptor.rs: StreamDecryptor::{fill_inner, decrypt,
   decrypt_last, out_buffer, impl Read, impl BufRead} (RFC 9580 mode) and
   util::fill_buffer_bytes (fills until the buffer holds the wanted number of octets or
   the source ends; its independence of the source's own chunking is Io/Fill.v's theorem).

   Seipd2MachineProofs.v proves that for every sequence of request sizes the machine
   hands out and ends exactly as Seipd2.seipd2_stream_dec says. *)
From Rpgp Require Import Base.Octets Base.Res Aead.Seipd2.

Section Machine.

Variable open : bytes -> bytes -> bytes -> bytes -> option bytes.   (* key nonce ad ct *)

Variable c : N.                 (* chunk size *)
Variable key iv info : bytes.

Record ad := {
  failedb : bool;
  doneb : bool;       (* is_source_done *)
  inbuf : bytes;      (* buffer[..in_buffer_end]: encrypted, not yet opened *)
  outb : bytes;       (* out_buffer(): opened, not yet handed out *)
  asrc : bytes;       (* ciphertext not yet read *)
  idx : N;            (* chunk_index *)
  wr : N              (* written *)
}.

Definition a_fail (s : ad) : ad :=
  {| failedb := true; doneb := doneb s; inbuf := []; outb := []; asrc := asrc s; idx := idx s; wr := wr s |}.

Definition a_start (ct : bytes) : ad :=
  {| failedb := false; doneb := false; inbuf := []; outb := []; asrc := ct; idx := 0; wr := 0 |}.

Definition a_is_nil {A} (l : list A) : bool := match l with [] => true | _ => false end.

(* fill_inner *)
Definition a_fill (s : ad) : ad :=
  if failedb s then s
  else if negb (a_is_nil (outb s)) || doneb s then s
  else
    let ec := c + TAGLEN in
    let to_read := 2 * ec - lenN (inbuf s) in
    let piece := takeN to_read (asrc s) in
    let rest := dropN to_read (asrc s) in
    let buf := inbuf s ++ piece in
    if lenN piece <? to_read then
      (* the source is finished: decrypt_last *)
      if lenN buf <? TAGLEN then a_fail s
      else
        let body := takeN (lenN buf - TAGLEN) buf in
        let tag := dropN (lenN buf - TAGLEN) buf in
        match dec_pieces open (length body) c key iv info (idx s) body with
        | Some (pt, n) =>
            match open key (nonce_of iv n) (final_ad info (wr s + lenN pt)) tag with
            | Some _ => {| failedb := false; doneb := true; inbuf := []; outb := pt; asrc := rest; idx := n; wr := wr s + lenN pt |}
            | None => a_fail s
            end
        | None => a_fail s
        end
    else
      (* decrypt: one chunk *)
      match open key (nonce_of iv (idx s)) info (takeN ec buf) with
      | Some pt => {| failedb := false; doneb := false; inbuf := dropN ec buf; outb := pt; asrc := rest;
                      idx := idx s + 1; wr := wr s + lenN pt |}
      | None => a_fail s
      end.

(* read(buf of n octets); fill_buf + consume(min n (what fill_buf showed)) hands out the same octets *)
Definition a_take (n : N) (s : ad) : ad * res bytes :=
  let s1 := a_fill s in
  if failedb s1 then (s1, Err)
  else
    let k := N.min (lenN (outb s1)) n in
    ({| failedb := false; doneb := doneb s1; inbuf := inbuf s1; outb := dropN k (outb s1); asrc := asrc s1;
        idx := idx s1; wr := wr s1 |}, Ok (takeN k (outb s1))).

Inductive a_outcome := AClean | AFailed | AOutOfFuel.

Fixpoint a_drive (req : N -> N) (fuel : nat) (i : N) (s : ad) : bytes * a_outcome :=
  match fuel with
  | O => ([], AOutOfFuel)
  | S f =>
      match a_take (N.max 1 (req i)) s with
      | (_, Ok []) => ([], AClean)
      | (s', Ok o) => let '(r, oc) := a_drive req f (N.succ i) s' in (o ++ r, oc)
      | (_, _) => ([], AFailed)
      end
  end.

Definition a_run (req : N -> N) (ct : bytes) : bytes * a_outcome :=
  a_drive req (S (S (length ct))) 0 (a_start ct).

End Machine.
