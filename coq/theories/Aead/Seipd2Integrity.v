(* Aead/Seipd2Integrity.v -- SEIPD v2 integrity as a reduction (C03):
   if the one-shot decryptor accepts a stream, then either that stream is
   exactly what the encryptor wrote, or some AEAD triple (nonce, AD,
   ciphertext) opened that the encryptor never sealed.  The second event is
   the premise [INT] below, stated explicitly; nothing is assumed about the
   AEAD beyond open(seal) and the tag length. *)
From Rpgp Require Import Base.Octets Base.Res Aead.Seipd2 Aead.Seipd2Proofs.
From Coq Require Import ZifyBool ZifyN ZifyNat.

Section Integrity.

Variable seal : bytes -> bytes -> bytes -> bytes -> bytes.
Variable open : bytes -> bytes -> bytes -> bytes -> option bytes.
Hypothesis open_seal : forall k n ad p, open k n ad (seal k n ad p) = Some p.
Hypothesis seal_len : forall k n ad p, lenN (seal k n ad p) = lenN p + TAGLEN.

Variable c : N.
Variable key iv info : bytes.
Variable p : bytes.
Hypothesis c_pos : 1 <= c.

(* the plaintext chunks of p *)
Fixpoint pcs_fuel (fuel : nat) (p : bytes) : list bytes :=
  match fuel with
  | O => []
  | S f => match p with [] => [] | _ => takeN c p :: pcs_fuel f (dropN c p) end
  end.
Definition pcs : list bytes := pcs_fuel (length p) p.

(* what the encryptor sealed: (nonce, AD, plaintext) *)
Fixpoint honest_chunks (i : N) (l : list bytes) : list (bytes * bytes * bytes) :=
  match l with
  | [] => []
  | x :: r => (nonce_of iv i, info, x) :: honest_chunks (i + 1) r
  end.
Definition honest : list (bytes * bytes * bytes) :=
  honest_chunks 0 pcs ++ [(nonce_of iv (N.of_nat (length pcs)), final_ad info (lenN p), [])].

Fixpoint sealed_chunks (i : N) (l : list bytes) : bytes :=
  match l with
  | [] => []
  | x :: r => seal key (nonce_of iv i) info x ++ sealed_chunks (i + 1) r
  end.

Lemma enc_chunks_spec fuel i q :
  enc_chunks seal fuel c key iv info i q =
  (sealed_chunks i (pcs_fuel fuel q), i + N.of_nat (length (pcs_fuel fuel q))).
Proof.
  revert i q; induction fuel as [|f IH]; intros i q.
  - cbn. f_equal. lia.
  - cbn [Seipd2.enc_chunks pcs_fuel]. destruct q as [|x t].
    + cbn. f_equal. lia.
    + rewrite IH. cbn [sealed_chunks length]. f_equal. lia.
Qed.

Lemma enc_spec :
  seipd2_enc seal c key iv info p =
  sealed_chunks 0 pcs ++ seal key (nonce_of iv (N.of_nat (length pcs))) (final_ad info (lenN p)) [].
Proof. unfold seipd2_enc. rewrite enc_chunks_spec. reflexivity. Qed.

Lemma concat_pcs_fuel fuel q : (length q <= fuel)%nat -> concat (pcs_fuel fuel q) = q.
Proof.
  revert q; induction fuel as [|f IH]; intros q H.
  - destruct q; [reflexivity|cbn in H; lia].
  - cbn [pcs_fuel]. destruct q as [|x t] eqn:E; [reflexivity|]. rewrite <- E in *.
    cbn [concat]. rewrite IH; [apply takeN_dropN|].
    assert (lenN (dropN c q) < lenN q) by (rewrite lenN_dropN; subst q; rewrite lenN_cons; lia).
    unfold lenN in *. lia.
Qed.

(* ---- identifying honest triples ---- *)

Definition W : N := 18446744073709551616.   (* 2^64 *)

Lemma nonce_inj i j : i < W -> j < W -> nonce_of iv i = nonce_of iv j -> i = j.
Proof.
  unfold nonce_of, W. intros Hi Hj H. apply app_inv_head in H. apply be64_inj; assumption.
Qed.

Lemma info_ne_final t : info <> final_ad info t.
Proof.
  unfold final_ad. intros H. rewrite <- (app_nil_r info) in H at 1. apply app_inv_head in H.
  discriminate.
Qed.

Lemma in_honest_chunks i l n ad x :
  In (n, ad, x) (honest_chunks i l) ->
  exists k, (k < length l)%nat /\ n = nonce_of iv (i + N.of_nat k) /\ ad = info /\ nth_error l k = Some x.
Proof.
  revert i; induction l as [|y r IH]; intros i H; [destruct H|].
  cbn [honest_chunks] in H. destruct H as [H|H].
  - injection H as <- <- <-. exists 0%nat. cbn. repeat split; [lia|f_equal; lia].
  - destruct (IH _ H) as [k [Hk [Hn [Ha Hx]]]]. exists (S k). cbn [length nth_error].
    repeat split; [lia| |exact Ha|exact Hx]. rewrite Hn. f_equal. lia.
Qed.

(* a triple with AD = info that is honest is the chunk its nonce names *)
Lemma honest_chunk_at j x :
  In (nonce_of iv j, info, x) honest -> j < W -> N.of_nat (length pcs) < W ->
  nth_error pcs (N.to_nat j) = Some x.
Proof.
  unfold honest. intros H Hj Hn. apply in_app_or in H. destruct H as [H|H].
  - destruct (in_honest_chunks _ _ _ _ _ H) as [k [Hk [Hnn [_ Hx]]]].
    apply nonce_inj in Hnn; [|exact Hj|unfold W in *; lia]. subst j.
    replace (N.to_nat (0 + N.of_nat k)) with k by lia. exact Hx.
  - destruct H as [H|[]]. injection H as _ H _. exfalso. symmetry in H. exact (info_ne_final _ H).
Qed.

(* a triple whose AD is a final AD that is honest is the final tag *)
Lemma honest_final_at m t x :
  In (nonce_of iv m, final_ad info t, x) honest -> m < W -> N.of_nat (length pcs) < W ->
  t < W -> lenN p < W ->
  m = N.of_nat (length pcs) /\ t = lenN p /\ x = [].
Proof.
  unfold honest. intros H Hm Hn Ht Hp. apply in_app_or in H. destruct H as [H|H].
  - destruct (in_honest_chunks _ _ _ _ _ H) as [k [_ [_ [Ha _]]]].
    exfalso. symmetry in Ha. exact (info_ne_final _ Ha).
  - destruct H as [H|[]]. injection H as H1 H2 H3.
    apply nonce_inj in H1; [|unfold W in *; lia|exact Hm].
    unfold final_ad in H2. apply app_inv_head in H2. apply be64_inj in H2; [|exact Hp|exact Ht].
    repeat split; congruence.
Qed.

(* ---- the reduction ---- *)

(* the AEAD event excluded: every triple that opens under the message key was
   sealed by the encryptor, and its ciphertext is the sealed one *)
Hypothesis INT : forall n ad ct pt,
  open key n ad ct = Some pt -> In (n, ad, pt) honest /\ ct = seal key n ad pt.

Hypothesis p_small : lenN p < W.

Lemma pcs_len_small : N.of_nat (length pcs) < W.
Proof.
  assert (G : forall fuel q, (length (pcs_fuel fuel q) <= length q)%nat).
  { induction fuel as [|f IH]; intros q; [cbn; lia|].
    cbn [pcs_fuel]. destruct q as [|x t] eqn:E; [cbn; lia|]. rewrite <- E.
    cbn [length]. specialize (IH (dropN c q)).
    assert (lenN (dropN c q) < lenN q) by (rewrite lenN_dropN; subst q; rewrite lenN_cons; lia).
    unfold lenN in *. lia. }
  unfold pcs. specialize (G (length p) p). unfold lenN, W in *. lia.
Qed.

Lemma skipn_nth_cons {A} (l : list A) k x : nth_error l k = Some x -> skipn k l = x :: skipn (S k) l.
Proof.
  revert k; induction l as [|y r IH]; intros k H; [destruct k; discriminate|].
  destruct k; [cbn in H; injection H as ->; reflexivity|]. cbn [nth_error] in H. cbn [skipn]. apply IH. exact H.
Qed.

Lemma lenN_concat_firstn (l : list bytes) k : lenN (concat (firstn k l)) <= lenN (concat l).
Proof.
  revert k; induction l as [|x r IH]; intros k; [rewrite firstn_nil; reflexivity|].
  destruct k; [cbn; lia|]. cbn [firstn concat]. rewrite !lenN_app. specialize (IH k). lia.
Qed.

(* the pieces the decryptor opens, starting at chunk i, are the honest chunks
   i, i+1, ... in order, and the ciphertext it consumed is their sealed form *)
Lemma dec_pieces_honest fuel i body out m :
  (length body <= fuel)%nat -> (i <= length pcs)%nat -> N.of_nat i + lenN body < W ->
  dec_pieces open fuel c key iv info (N.of_nat i) body = Some (out, m) ->
  exists k, m = N.of_nat (i + k) /\ (i + k <= length pcs)%nat /\
            out = concat (firstn k (skipn i pcs)) /\
            body = sealed_chunks (N.of_nat i) (firstn k (skipn i pcs)).
Proof.
  revert i body out m; induction fuel as [|f IH]; intros i body out m Hf Hi Hb H.
  - destruct body; [|cbn in Hf; lia]. cbn in H. injection H as <- <-.
    exists 0%nat. cbn. repeat split; try lia; try (f_equal; lia).
  - cbn [Seipd2.dec_pieces] in H. destruct body as [|b0 bt] eqn:Eb.
    + injection H as <- <-. exists 0%nat. cbn. repeat split; try lia; try (f_equal; lia).
    + rewrite <- Eb in *.
      assert (Hbl : 1 <= lenN body) by (subst body; rewrite lenN_cons; lia).
      destruct (open key (nonce_of iv (N.of_nat i)) info (takeN (c + TAGLEN) body)) as [pt0|] eqn:Eo; [|discriminate].
      destruct (dec_pieces open f c key iv info (N.of_nat i + 1) (dropN (c + TAGLEN) body)) as [[rout m']|] eqn:Er; [|discriminate].
      injection H as <- <-.
      destruct (INT _ _ _ _ Eo) as [Hin Hct].
      assert (Hnth : nth_error pcs i = Some pt0).
      { pose proof (honest_chunk_at (N.of_nat i) pt0 Hin ltac:(unfold W in *; lia) pcs_len_small) as Q.
        rewrite Nnat.Nat2N.id in Q. exact Q. }
      assert (Hilt : (i < length pcs)%nat) by (apply nth_error_Some; congruence).
      replace (N.of_nat i + 1) with (N.of_nat (S i)) in Er by lia.
      assert (Hdl : lenN (dropN (c + TAGLEN) body) < lenN body) by (rewrite lenN_dropN; unfold TAGLEN; lia).
      destruct (IH (S i) (dropN (c + TAGLEN) body) rout m') as [k [Hm [Hk [Ho Hbd]]]].
      * unfold lenN in *. lia.
      * lia.
      * unfold W in *. lia.
      * exact Er.
      * exists (S k). repeat split.
        -- rewrite Hm. f_equal. lia.
        -- lia.
        -- rewrite (skipn_nth_cons _ _ _ Hnth). cbn [firstn concat]. rewrite Ho. reflexivity.
        -- rewrite (skipn_nth_cons _ _ _ Hnth). cbn [firstn sealed_chunks].
           replace (N.of_nat i + 1) with (N.of_nat (S i)) by lia.
           rewrite <- Hbd, <- Hct. symmetry. apply takeN_dropN.
Qed.

(* If the decryptor accepts a stream, that stream is the one the encryptor
   wrote and the plaintext returned is the original -- unless some AEAD triple
   opened that was never sealed (premise INT).  Hence bit flips, truncation,
   appended octets, dropped, duplicated or reordered chunks, and altered header
   octets (they change [info], hence every AD) all end in an error. *)
Theorem seipd2_accepts_only_honest ct out :
  lenN ct < W ->
  seipd2_dec open c key iv info ct = Some out ->
  ct = seipd2_enc seal c key iv info p /\ out = p.
Proof.
  intros Hct H. unfold Seipd2.seipd2_dec in H.
  destruct (N.ltb_spec (lenN ct) TAGLEN) as [|Hl]; [discriminate|].
  set (body := takeN (lenN ct - TAGLEN) ct) in *.
  set (tag := dropN (lenN ct - TAGLEN) ct) in *.
  destruct (dec_pieces open (length body) c key iv info 0 body) as [[pt n']|] eqn:Ed; [|discriminate].
  destruct (open key (nonce_of iv n') (final_ad info (lenN pt)) tag) as [x|] eqn:Eo; [|discriminate].
  injection H as <-.
  assert (Hbody : lenN body <= lenN ct) by (unfold body; rewrite lenN_takeN; lia).
  destruct (dec_pieces_honest (length body) 0 body pt n' (le_n _) ltac:(lia) ltac:(cbn; lia) Ed)
    as [k [Hn [Hk [Hpt Hb]]]].
  cbn [skipn plus] in *.
  destruct (INT _ _ _ _ Eo) as [Hin Htag].
  assert (Hptl : lenN pt <= lenN p).
  { rewrite Hpt. etransitivity; [apply lenN_concat_firstn|].
    unfold pcs. rewrite concat_pcs_fuel by lia. reflexivity. }
  destruct (honest_final_at n' (lenN pt) x Hin) as [Hn2 [Hl2 Hx]].
  - rewrite Hn. pose proof pcs_len_small. lia.
  - exact pcs_len_small.
  - lia.
  - exact p_small.
  - assert (Hkk : k = length pcs) by lia. subst k.
    rewrite firstn_all in Hpt, Hb.
    assert (Hp : pt = p) by (rewrite Hpt; unfold pcs; apply concat_pcs_fuel; lia).
    split; [|exact Hp].
    rewrite enc_spec. rewrite <- (takeN_dropN (lenN ct - TAGLEN) ct). fold body tag.
    rewrite Hb, Htag, Hn2, Hl2, Hx. reflexivity.
Qed.

End Integrity.
