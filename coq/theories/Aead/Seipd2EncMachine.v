(* Aead/Seipd2EncMachine.v -- the SEIPD v2 stream encryptor as the staged producer the code is
   (C01, C09, C12): one chunk of the source sealed per refill under the running chunk index, the
   final tag over the empty string with the octet count once the source gives nothing more;
   handed out through read().

   Mirrors src/crypto/aead/encryptor.rs: StreamEncryptor::{fill_buffer, create_final_auth_tag, read}
   (util::fill_buffer fills each chunk completely unless the source ends: Io/Fill.v).  read() there
   does not loop: a refill that produced nothing would read as the end of the stream; since a
   sealed chunk is 16 octets longer than its plaintext no refill produces nothing
   (Seipd2EncMachineProofs.stage_never_empty), so Emitter's read is the same function here.

   Seipd2EncMachineProofs.v: for every sequence of request sizes the consumer receives exactly
   Seipd2.seipd2_enc. *)
From Rpgp Require Import Base.Octets Base.Res Aead.Seipd2 Io.Emitter.

Section EncMachine2.

Variable seal : bytes -> bytes -> bytes -> bytes -> bytes.   (* key nonce ad pt *)
Variable c : N.
Variable key iv info : bytes.

(* source left, chunk index, octets read; None once the final tag is out *)
Inductive a2stage := A2 (src : bytes) (i : N) (nread : N) | A2Done.

Definition a2_is_nil {A} (l : list A) : bool := match l with [] => true | _ => false end.

Definition a2_advance (st : a2stage) : option (bytes * a2stage) :=
  match st with
  | A2 src i n =>
      let chunk := takeN c src in
      if a2_is_nil chunk
      then Some (seal key (nonce_of iv i) (final_ad info n) [], A2Done)
      else Some (seal key (nonce_of iv i) info chunk, A2 (dropN c src) (i + 1) (n + lenN chunk))
  | A2Done => None
  end.

Definition a2_run (req : N -> N) (p : bytes) : bytes * e_outcome :=
  let sf := S (S (S (length p))) in
  e_drive a2stage a2_advance sf req (length (seipd2_enc seal c key iv info p) + sf + 2) 0 [] (A2 p 0 0).

End EncMachine2.
