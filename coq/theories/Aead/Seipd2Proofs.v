(* Aead/Seipd2Proofs.v -- SEIPD v2: round trip, the streaming decryptor
   refines the one-shot one (C03, C01, C09). *)
From Rpgp Require Import Base.Octets Base.Res Aead.Seipd2.
From Coq Require Import ZifyBool ZifyN ZifyNat.

Section Proofs.

Variable seal : bytes -> bytes -> bytes -> bytes -> bytes.
Variable open : bytes -> bytes -> bytes -> bytes -> option bytes.

(* the only facts assumed of the AEAD primitive *)
Hypothesis open_seal : forall k n ad p, open k n ad (seal k n ad p) = Some p.
Hypothesis seal_len : forall k n ad p, lenN (seal k n ad p) = lenN p + TAGLEN.

Notation enc_chunks := (enc_chunks seal).
Notation dec_pieces := (dec_pieces open).
Notation seipd2_enc := (seipd2_enc seal).
Notation seipd2_dec := (seipd2_dec open).
Notation stream_dec := (stream_dec open).

Lemma takeN_app_exact {A} n (a b : list A) : lenN a = n -> takeN n (a ++ b) = a.
Proof. intros <-. apply takeN_app. Qed.
Lemma dropN_app_exact {A} n (a b : list A) : lenN a = n -> dropN n (a ++ b) = b.
Proof. intros <-. apply dropN_app. Qed.

(* decrypting what the encryptor wrote: every piece opens, in order *)
Lemma dec_enc_chunks fuel fuel' c key iv info i p :
  1 <= c -> (length p <= fuel)%nat ->
  forall chunks n, enc_chunks fuel c key iv info i p = (chunks, n) ->
  (length chunks <= fuel')%nat ->
  dec_pieces fuel' c key iv info i chunks = Some (p, n).
Proof.
  intros Hc. revert fuel' i p. induction fuel as [|f IH]; intros fuel' i p Hl chunks n He Hf.
  - destruct p; [|cbn in Hl; lia]. cbn in He. injection He as <- <-.
    destruct fuel'; reflexivity.
  - cbn [Seipd2.enc_chunks] in He. destruct p as [|x t] eqn:Ep.
    + injection He as <- <-. destruct fuel'; reflexivity.
    + rewrite <- Ep in *.
      destruct (enc_chunks f c key iv info (i + 1) (dropN c p)) as [rest n'] eqn:Er.
      injection He as <- <-.
      assert (Hf2 : (length (seal key (nonce_of iv i) info (takeN c p)) + length rest <= fuel')%nat)
        by (rewrite <- app_length; exact Hf).
      assert (Hpl : 1 <= lenN p) by (subst p; rewrite lenN_cons; lia).
      assert (Hpiece : lenN (takeN c p) = N.min c (lenN p)) by apply lenN_takeN.
      assert (Hsl : lenN (seal key (nonce_of iv i) info (takeN c p)) = lenN (takeN c p) + TAGLEN) by apply seal_len.
      destruct fuel' as [|f'].
      { exfalso. unfold lenN, TAGLEN in *. lia. }
      cbn [Seipd2.dec_pieces].
      destruct (seal key (nonce_of iv i) info (takeN c p) ++ rest) as [|b0 bt] eqn:Eb.
      { exfalso. apply (f_equal lenN) in Eb. rewrite lenN_app in Eb. unfold TAGLEN in *. cbn in Eb. lia. }
      rewrite <- Eb.
      (* the first piece of the ciphertext is exactly the sealed first chunk:
         either it has the full size c+16, or it is the last one *)
      destruct (N.leb_spec c (lenN p)) as [Hfull|Hshort].
      * assert (Hlen : lenN (seal key (nonce_of iv i) info (takeN c p)) = c + TAGLEN) by lia.
        rewrite (takeN_app_exact _ _ _ Hlen), (dropN_app_exact _ _ _ Hlen), open_seal.
        rewrite (IH f' (i + 1) (dropN c p)) with (chunks := rest) (n := n').
        -- rewrite takeN_dropN. reflexivity.
        -- assert (lenN (dropN c p) < lenN p) by (rewrite lenN_dropN; lia). unfold lenN in *. lia.
        -- exact Er.
        -- assert (1 <= lenN (seal key (nonce_of iv i) info (takeN c p))) by (unfold TAGLEN in *; lia).
           unfold lenN in *. lia.
      * (* last, short chunk: nothing follows *)
        assert (Hd : dropN c p = []) by (apply dropN_all; lia).
        rewrite Hd in Er. destruct f; cbn in Er; injection Er as <- <-.
        -- rewrite app_nil_r.
           rewrite takeN_all by (rewrite Hsl, Hpiece; unfold TAGLEN; lia).
           rewrite open_seal, dropN_all by (rewrite Hsl, Hpiece; unfold TAGLEN; lia).
           rewrite takeN_all by lia. destruct f'; cbn; rewrite app_nil_r; reflexivity.
        -- rewrite app_nil_r.
           rewrite takeN_all by (rewrite Hsl, Hpiece; unfold TAGLEN; lia).
           rewrite open_seal, dropN_all by (rewrite Hsl, Hpiece; unfold TAGLEN; lia).
           rewrite takeN_all by lia. destruct f'; cbn; rewrite app_nil_r; reflexivity.
Qed.

Theorem seipd2_roundtrip c key iv info p :
  1 <= c -> seipd2_dec c key iv info (seipd2_enc c key iv info p) = Some p.
Proof.
  intros Hc. unfold Seipd2.seipd2_enc, Seipd2.seipd2_dec.
  destruct (enc_chunks (length p) c key iv info 0 p) as [chunks n] eqn:E.
  set (tag := seal key (nonce_of iv n) (final_ad info (lenN p)) []).
  assert (Ht : lenN tag = TAGLEN) by (unfold tag; rewrite seal_len; reflexivity).
  rewrite lenN_app, Ht.
  destruct (N.ltb_spec (lenN chunks + TAGLEN) TAGLEN); [lia|].
  replace (lenN chunks + TAGLEN - TAGLEN) with (lenN chunks) by lia.
  rewrite takeN_app, dropN_app.
  rewrite (dec_enc_chunks (length p) (length chunks) c key iv info 0 p Hc (le_n _) chunks n E (le_n _)).
  unfold tag. rewrite open_seal. reflexivity.
Qed.

(* ------------------------------------------------ streaming = one-shot *)

Lemma dec_pieces_fuel_irrel fuel1 fuel2 c key iv info i body :
  (length body <= fuel1)%nat -> (length body <= fuel2)%nat -> 1 <= c ->
  dec_pieces fuel1 c key iv info i body = dec_pieces fuel2 c key iv info i body.
Proof.
  intros H1 H2 Hc. revert fuel2 i body H1 H2. induction fuel1 as [|f1 IH]; intros fuel2 i body H1 H2.
  - destruct body; [|cbn in H1; lia]. destruct fuel2; reflexivity.
  - destruct fuel2 as [|f2]; [destruct body; [reflexivity|cbn in H2; lia]|].
    cbn [Seipd2.dec_pieces]. destruct body as [|x t] eqn:E; [reflexivity|]. rewrite <- E in *.
    destruct (open key (nonce_of iv i) info (takeN (c + TAGLEN) body)); [|reflexivity].
    assert (Hd : (length (dropN (c + TAGLEN) body) < length body)%nat).
    { assert (lenN (dropN (c + TAGLEN) body) < lenN body).
      { rewrite lenN_dropN. subst body. rewrite lenN_cons. unfold TAGLEN. lia. }
      unfold lenN in *. lia. }
    rewrite (IH f2) by lia. reflexivity.
Qed.

(* The streaming decryptor read to its end ends cleanly exactly when the
   one-shot decryptor accepts, with the same plaintext; when it fails, what it
   released before is a prefix of ... whatever a longer run would have opened
   (see stream_released_prefix). [wr] = octets already released. *)
Lemma stream_dec_spec fuel c key iv info i wr ct out :
  1 <= c -> (length ct < fuel)%nat ->
  stream_dec fuel c key iv info i wr ct = (out, true) ->
  exists body tag n,
    ct = body ++ tag /\ lenN tag = TAGLEN /\
    dec_pieces (length body) c key iv info i body = Some (out, n) /\
    open key (nonce_of iv n) (final_ad info (wr + lenN out)) tag <> None.
Proof.
  intros Hc. revert i wr ct out. induction fuel as [|f IH]; intros i wr ct out Hf H; [lia|].
  cbn [Seipd2.stream_dec] in H.
  destruct (N.leb_spec (2 * (c + TAGLEN)) (lenN ct)) as [Hbig|Hsmall].
  - destruct (open key (nonce_of iv i) info (takeN (c + TAGLEN) ct)) as [pt|] eqn:Eo; [|discriminate].
    destruct (stream_dec f c key iv info (i + 1) (wr + lenN pt) (dropN (c + TAGLEN) ct)) as [o ok] eqn:Er.
    injection H as <- ->.
    assert (Hdl : (length (dropN (c + TAGLEN) ct) < f)%nat).
    { assert (lenN (dropN (c + TAGLEN) ct) < lenN ct) by (rewrite lenN_dropN; unfold TAGLEN in *; lia).
      unfold lenN in *. lia. }
    destruct (IH _ _ _ _ Hdl Er) as [body [tag [n [Hct [Htag [Hdp Hop]]]]]].
    exists (takeN (c + TAGLEN) ct ++ body), tag, n.
    assert (Htl : lenN (takeN (c + TAGLEN) ct) = c + TAGLEN) by (rewrite lenN_takeN; lia).
    split; [rewrite <- app_assoc, <- Hct; symmetry; apply takeN_dropN|].
    split; [exact Htag|]. split.
    + destruct (takeN (c + TAGLEN) ct ++ body) as [|b0 bt] eqn:Eb.
      { exfalso. apply (f_equal lenN) in Eb. rewrite lenN_app, Htl in Eb. unfold TAGLEN in *. cbn in Eb. lia. }
      rewrite <- Eb. rewrite app_length.
      replace (length (takeN (c + TAGLEN) ct) + length body)%nat
        with (S (length (takeN (c + TAGLEN) ct) + length body - 1))
        by (unfold lenN, TAGLEN in *; lia).
      cbn [Seipd2.dec_pieces]. rewrite Eb, <- Eb.
      rewrite (takeN_app_exact _ _ _ Htl), (dropN_app_exact _ _ _ Htl), Eo.
      assert (H1 : (length body <= length (takeN (c + TAGLEN) ct) + length body - 1)%nat)
        by (unfold lenN, TAGLEN in *; lia).
      rewrite (dec_pieces_fuel_irrel _ (length body) c key iv info (i + 1) body H1 (le_n _) Hc).
      rewrite Hdp. reflexivity.
    + rewrite lenN_app. replace (wr + (lenN pt + lenN o)) with (wr + lenN pt + lenN o) by lia. exact Hop.
  - destruct (N.ltb_spec (lenN ct) TAGLEN) as [Ht|Ht]; [discriminate|].
    destruct (dec_pieces (length (takeN (lenN ct - TAGLEN) ct)) c key iv info i (takeN (lenN ct - TAGLEN) ct))
      as [[pt n]|] eqn:Ed; [|discriminate].
    destruct (open key (nonce_of iv n) (final_ad info (wr + lenN pt)) (dropN (lenN ct - TAGLEN) ct)) eqn:Eo; [|discriminate].
    injection H as <-.
    exists (takeN (lenN ct - TAGLEN) ct), (dropN (lenN ct - TAGLEN) ct), n.
    split; [symmetry; apply takeN_dropN|]. split; [rewrite lenN_dropN; lia|].
    split; [exact Ed|]. rewrite Eo. discriminate.
Qed.

Theorem stream_clean_implies_oneshot c key iv info ct out :
  1 <= c ->
  seipd2_stream_dec open c key iv info ct = (out, true) ->
  seipd2_dec c key iv info ct = Some out.
Proof.
  intros Hc H. unfold seipd2_stream_dec in H.
  destruct (stream_dec_spec _ c key iv info 0 0 ct out Hc (Nat.lt_succ_diag_r _) H)
    as [body [tag [n [Hct [Htag [Hdp Hop]]]]]].
  unfold Seipd2.seipd2_dec. subst ct. rewrite lenN_app, Htag.
  destruct (N.ltb_spec (lenN body + TAGLEN) TAGLEN); [lia|].
  replace (lenN body + TAGLEN - TAGLEN) with (lenN body) by lia.
  rewrite takeN_app, dropN_app, Hdp. rewrite N.add_0_l in Hop.
  destruct (open key (nonce_of iv n) (final_ad info (lenN out)) tag); [reflexivity|congruence].
Qed.

End Proofs.
