(* Aead/GnupgProofs.v -- the theorems of the SEIPD v2 stream, for the packet-20 container. *)
From Coq Require Import Lia ZifyBool ZifyN ZifyNat.
From Rpgp Require Import Base.Octets Base.OctetsMore Base.Res Aead.Seipd2 Aead.Seipd2Proofs Aead.Seipd2Machine Aead.Seipd2MachineProofs Aead.Gnupg.

Section Proofs.
Variable seal : bytes -> bytes -> bytes -> bytes -> bytes.
Variable open : bytes -> bytes -> bytes -> bytes -> option bytes.

Lemma wrap_inverse :
  (forall k n ad p, open k n ad (seal k n ad p) = Some p) ->
  forall k n ad p, g_wrap open k n ad (g_wrap seal k n ad p) = Some p.
Proof. intros H k n ad p. unfold g_wrap. apply H. Qed.

Lemma wrap_seal_len :
  (forall k n ad p, lenN (seal k n ad p) = lenN p + TAGLEN) ->
  forall k n ad p, lenN (g_wrap seal k n ad p) = lenN p + TAGLEN.
Proof. intros H k n ad p. unfold g_wrap. apply H. Qed.

Lemma wrap_open_len :
  (forall k n a x pt, open k n a x = Some pt -> lenN pt + TAGLEN = lenN x) ->
  forall k n a x pt, g_wrap open k n a x = Some pt -> lenN pt + TAGLEN = lenN x.
Proof. intros H k n a x pt. unfold g_wrap. apply H. Qed.

Lemma chunk_len_pos cs : 1 <= chunk_len cs.
Proof. unfold chunk_len. pose proof (N.pow_nonzero 2 (cs + 6)). lia. Qed.

Theorem gnupg_roundtrip :
  (forall k n ad p, open k n ad (seal k n ad p) = Some p) ->
  (forall k n ad p, lenN (seal k n ad p) = lenN p + TAGLEN) ->
  forall sym aead cs key iv p, gnupg_dec open sym aead cs key iv (gnupg_enc seal sym aead cs key iv p) = Some p.
Proof.
  intros H1 H2 sym aead cs key iv p. unfold gnupg_dec, gnupg_enc.
  apply seipd2_roundtrip; [apply wrap_inverse, H1|apply wrap_seal_len, H2|apply chunk_len_pos].
Qed.

Theorem gnupg_stream_refines :
  (forall k n ad p, open k n ad (seal k n ad p) = Some p) ->
  (forall k n ad p, lenN (seal k n ad p) = lenN p + TAGLEN) ->
  forall sym aead cs key iv ct out,
    gnupg_stream_dec open sym aead cs key iv ct = (out, true) -> gnupg_dec open sym aead cs key iv ct = Some out.
Proof.
  intros H1 H2 sym aead cs key iv ct out. unfold gnupg_stream_dec, gnupg_dec.
  apply (stream_clean_implies_oneshot (g_wrap seal) (g_wrap open)); [apply wrap_inverse, H1|apply wrap_seal_len, H2|apply chunk_len_pos].
Qed.

Theorem gnupg_machine_is_spec :
  (forall k n a x pt, open k n a x = Some pt -> lenN pt + TAGLEN = lenN x) ->
  forall sym aead cs key iv (req : N -> N) ct,
    gnupg_run open sym aead cs key iv req ct =
    (fst (gnupg_stream_dec open sym aead cs key iv ct), oc_of2 (snd (gnupg_stream_dec open sym aead cs key iv ct))).
Proof.
  intros H sym aead cs key iv req ct. unfold gnupg_run, gnupg_stream_dec.
  apply a_machine_is_spec; [apply chunk_len_pos|apply wrap_open_len, H].
Qed.

End Proofs.

(* what the primitive is called with: every header field, the chunk index and (for the final tag) the
   total are in the associated data; the index is in the nonce *)
Lemma g_wrap_calls {X} (f : bytes -> bytes -> bytes -> bytes -> X) key iv sym aead cs i x :
  lenN iv >= 8 ->
  g_wrap f key (nonce_of iv i) (ginfo sym aead cs) x =
  f key (takeN (lenN iv - 8) iv ++ xor_bytes (dropN (lenN iv - 8) iv) (be64 i))
        ([xd4; x01; n2b sym; n2b aead; n2b cs] ++ be64 i) x.
Proof.
  intros Hl. unfold g_wrap, nonce_of, g_nonce, g_ad, ginfo.
  assert (Hb : lenN (be64 i) = 8) by (unfold lenN; rewrite length_be64; reflexivity).
  rewrite lenN_app, Hb. replace (lenN iv + 8 - 8) with (lenN iv) by lia.
  rewrite takeN_app_le by lia. rewrite dropN_app_ge by lia.
  replace (lenN iv - lenN iv) with 0 by lia.
  rewrite (takeN_all (lenN iv) iv) by lia. change (dropN 0 (be64 i)) with (be64 i).
  reflexivity.
Qed.
