(* Aead/Seipd2EncMachineProofs.v -- the SEIPD v2 stream encryptor machine produces Seipd2.seipd2_enc,
   whatever sizes the consumer reads with. *)
From Coq Require Import ZifyBool ZifyN ZifyNat.
From Rpgp Require Import Base.Octets Base.OctetsMore Base.Res Aead.Seipd2 Io.Emitter Io.EmitterProofs Aead.Seipd2EncMachine.
Ltac Zify.zify_post_hook ::= Z.div_mod_to_equations.

Section Proofs.

Variable seal : bytes -> bytes -> bytes -> bytes -> bytes.
Variable c : N.
Variable key iv info : bytes.
Hypothesis c_pos : 1 <= c.

Notation adv := (a2_advance seal c key iv info).
Notation wholeA := (whole a2stage adv).
Notation stagesA := (stages a2stage adv).

Lemma takeN_nil_any {A} (n : N) : takeN n (@nil A) = [].
Proof. rewrite takeN_firstn. apply firstn_nil. Qed.

Lemma enc_chunks_fuel g1 : forall g2 i p, 1 <= c -> (length p <= g1)%nat -> (length p <= g2)%nat ->
  enc_chunks seal g1 c key iv info i p = enc_chunks seal g2 c key iv info i p.
Proof.
  induction g1 as [|g1 IH]; intros g2 i p Hc H1 H2.
  - destruct p; [|cbn in H1; lia]. destruct g2; reflexivity.
  - destruct g2 as [|g2]; [destruct p; [reflexivity|cbn in H2; lia]|].
    cbn [enc_chunks]. destruct p as [|x t] eqn:Ep; [reflexivity|]. rewrite <- Ep in *.
    assert (Hd : (length (dropN c p) < length p)%nat).
    { assert (lenN (dropN c p) < lenN p) by (rewrite lenN_dropN; subst p; rewrite lenN_cons; lia). unfold lenN in *. lia. }
    rewrite (IH g2) by (try exact Hc; lia). reflexivity.
Qed.

Lemma done_stage f : stagesA (S f) A2Done = Some 0%nat /\ wholeA (S f) A2Done = [].
Proof. split; reflexivity. Qed.

(* from any point of the source: the remaining chunks, then the final tag over the total *)
Lemma chunks_whole f : forall src i n,
  (length src < f)%nat ->
  exists k, stagesA (S (S f)) (A2 src i n) = Some k /\
    wholeA (S (S f)) (A2 src i n) =
      fst (enc_chunks seal (length src) c key iv info i src) ++
      seal key (nonce_of iv (snd (enc_chunks seal (length src) c key iv info i src))) (final_ad info (n + lenN src)) [].
Proof.
  induction f as [|f IH]; intros src i n Hf; [lia|].
  destruct src as [|x t] eqn:Es.
  - exists 1%nat. split; [reflexivity|]. cbn [whole a2_advance takeN a2_is_nil enc_chunks fst snd length app].
    rewrite lenN_nil, N.add_0_r, app_nil_r. reflexivity.
  - rewrite <- Es in *. assert (Hl : 1 <= lenN src) by (rewrite Es, lenN_cons; lia).
    set (chunk := takeN c src). set (rest := dropN c src).
    assert (Hcn : a2_is_nil chunk = false).
    { destruct chunk eqn:Ec; [|reflexivity]. exfalso. assert (H0 : lenN (takeN c src) = 0) by (fold chunk; rewrite Ec; reflexivity).
      rewrite lenN_takeN in H0. lia. }
    assert (Hrl : (length rest < f)%nat).
    { assert (lenN rest < lenN src) by (unfold rest; rewrite lenN_dropN; lia). unfold lenN in *. lia. }
    destruct (IH rest (i + 1) (n + lenN chunk) Hrl) as (k & Hs & Hw).
    assert (Hadv : adv (A2 src i n) = Some (seal key (nonce_of iv i) info chunk, A2 rest (i + 1) (n + lenN chunk))).
    { cbn [a2_advance]. fold chunk rest. rewrite Hcn. reflexivity. }
    exists (S k). split.
    + change (stagesA (S (S (S f))) (A2 src i n)) with
        (match adv (A2 src i n) with None => Some 0%nat
         | Some (_, r') => match stagesA (S (S f)) r' with Some k => Some (S k) | None => None end end).
      rewrite Hadv, Hs. reflexivity.
    + change (wholeA (S (S (S f))) (A2 src i n)) with
        (match adv (A2 src i n) with None => [] | Some (b, r') => b ++ wholeA (S (S f)) r' end).
      rewrite Hadv, Hw.
      (* one step of enc_chunks on the right *)
      assert (Hfuel : exists g, length src = S g /\ (length rest <= g)%nat).
      { assert (Hdl : lenN rest < lenN src) by (unfold rest; rewrite lenN_dropN; lia).
        exists (length src - 1)%nat. unfold lenN in *. split; lia. }
      destruct Hfuel as (g & Hg & Hrg). rewrite Hg.
      assert (Hstep : enc_chunks seal (S g) c key iv info i src =
                      (seal key (nonce_of iv i) info chunk ++ fst (enc_chunks seal g c key iv info (i + 1) rest),
                       snd (enc_chunks seal g c key iv info (i + 1) rest))).
      { rewrite Es. cbn [enc_chunks]. rewrite <- Es. fold chunk rest.
        destruct (enc_chunks seal g c key iv info (i + 1) rest); reflexivity. }
      rewrite Hstep. cbn [fst snd].
      assert (Hirr : enc_chunks seal g c key iv info (i + 1) rest = enc_chunks seal (length rest) c key iv info (i + 1) rest).
      { apply enc_chunks_fuel; [exact c_pos|exact Hrg|lia]. }
      rewrite Hirr. rewrite <- !app_assoc.
      assert (Hsum : n + lenN chunk + lenN rest = n + lenN src).
      { unfold chunk, rest. rewrite lenN_takeN, lenN_dropN. lia. }
      rewrite Hsum. reflexivity.
Qed.

(* no refill produces nothing, given that sealing adds 16 octets *)
Lemma stage_never_empty :
  (forall k n a p, lenN (seal k n a p) = lenN p + TAGLEN) ->
  forall st b st', adv st = Some (b, st') -> b <> [].
Proof.
  intros Hsl st b st' H. destruct st as [src i n|]; [|discriminate]. cbn [a2_advance] in H.
  destruct (a2_is_nil (takeN c src)); injection H as <- _; intros Hx;
    apply (f_equal lenN) in Hx; rewrite Hsl in Hx; unfold TAGLEN in Hx; cbn in Hx; lia.
Qed.

(* for every sequence of request sizes: exactly the specified stream, then a clean end *)
Theorem a2_machine_is_spec req p :
  a2_run seal c key iv info req p = (seipd2_enc seal c key iv info p, EClean).
Proof.
  unfold a2_run.
  destruct (chunks_whole (S (length p)) p 0 0 ltac:(lia)) as (k & Hs & Hw).
  assert (Hspec : wholeA (S (S (S (length p)))) (A2 p 0 0) = seipd2_enc seal c key iv info p).
  { rewrite Hw. unfold seipd2_enc. rewrite N.add_0_l.
    destruct (enc_chunks seal (length p) c key iv info 0 p) as [chunks n]. reflexivity. }
  pose proof (stages_lt _ _ _ _ _ Hs) as Hk.
  rewrite (drive_whole a2stage adv _ req _ 0 [] (A2 p 0 0) k Hs).
  - cbn [app]. rewrite Hspec. reflexivity.
  - rewrite Hspec. cbn [length]. lia.
Qed.

Theorem a2_request_independent req1 req2 p :
  a2_run seal c key iv info req1 p = a2_run seal c key iv info req2 p.
Proof. rewrite !a2_machine_is_spec. reflexivity. Qed.

End Proofs.
