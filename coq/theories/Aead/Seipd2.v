(* Aead/Seipd2.v -- SEIPD v2 (RFC 9580 5.13.2): chunked AEAD stream with a
   final authentication tag, as the encryptor writes it and the decryptor
   accepts it (C03, C12, C01).

   Mirrors:
     src/crypto/aead.rs            aead_setup_rfc9580
     src/crypto/aead/encryptor.rs  StreamEncryptor::{fill_buffer, create_final_auth_tag, read}
     src/crypto/aead/decryptor.rs  StreamDecryptor::{fill_inner, decrypt, decrypt_last, read}

   The AEAD primitive is a parameter: [seal key nonce ad pt] and
   [open key nonce ad ct] (None = authentication failure). *)
From Rpgp Require Import Base.Octets Base.Res.

Section Seipd2.

Variable seal : bytes -> bytes -> bytes -> bytes -> bytes.
Variable open : bytes -> bytes -> bytes -> bytes -> option bytes.

Definition TAGLEN : N := 16.

(* nonce for chunk i: the derived IV followed by the 64-bit chunk index *)
Definition nonce_of (iv : bytes) (i : N) : bytes := iv ++ be64 i.

(* associated data: 0xD2, version 2, cipher, AEAD mode, chunk-size octet *)
Definition info_of (sym aead cs : N) : bytes := [xd2; x02; n2b sym; n2b aead; n2b cs].

Definition chunk_len (cs : N) : N := 2 ^ (cs + 6).

(* ------------------------------------------------ encryptor *)

(* chunks of [c] octets (the last one shorter, never empty), then the final
   tag over the empty string with the total length appended to the AD *)
Fixpoint enc_chunks (fuel : nat) (c : N) (key iv info : bytes) (i : N) (p : bytes) : bytes * N :=
  match fuel with
  | O => ([], i)
  | S f =>
      match p with
      | [] => ([], i)
      | _ =>
          let piece := takeN c p in
          let (rest, n) := enc_chunks f c key iv info (i + 1) (dropN c p) in
          (seal key (nonce_of iv i) info piece ++ rest, n)
      end
  end.

Definition final_ad (info : bytes) (total : N) : bytes := info ++ be64 total.

Definition seipd2_enc (c : N) (key iv info : bytes) (p : bytes) : bytes :=
  let (chunks, n) := enc_chunks (length p) c key iv info 0 p in
  chunks ++ seal key (nonce_of iv n) (final_ad info (lenN p)) [].

(* ------------------------------------------------ decryptor, as a function *)

(* open successive pieces of c+16 octets (the last one shorter) *)
Fixpoint dec_pieces (fuel : nat) (c : N) (key iv info : bytes) (i : N) (body : bytes)
  : option (bytes * N) :=
  match fuel with
  | O => match body with [] => Some ([], i) | _ => None end
  | S f =>
      match body with
      | [] => Some ([], i)
      | _ =>
          match open key (nonce_of iv i) info (takeN (c + TAGLEN) body) with
          | Some pt =>
              match dec_pieces f c key iv info (i + 1) (dropN (c + TAGLEN) body) with
              | Some (rest, n) => Some (pt ++ rest, n)
              | None => None
              end
          | None => None
          end
      end
  end.

(* L0: the whole stream at once *)
Definition seipd2_dec (c : N) (key iv info : bytes) (ct : bytes) : option bytes :=
  if lenN ct <? TAGLEN then None
  else
    let body := takeN (lenN ct - TAGLEN) ct in
    let tag := dropN (lenN ct - TAGLEN) ct in
    match dec_pieces (length body) c key iv info 0 body with
    | Some (pt, n) =>
        match open key (nonce_of iv n) (final_ad info (lenN pt)) tag with
        | Some _ => Some pt
        | None => None
        end
    | None => None
    end.

(* L1: the streaming decryptor read to its end.  While at least two encrypted
   chunks' worth of input remains, one chunk is opened and released; once
   fewer remain the source is exhausted: the last 16 octets are the final tag,
   everything before it is opened piece by piece, the final tag is checked, and
   only then is the rest released.  Returns (octets released, clean end?). *)
Fixpoint stream_dec (fuel : nat) (c : N) (key iv info : bytes) (i : N) (written : N) (ct : bytes)
  : bytes * bool :=
  match fuel with
  | O => ([], false)
  | S f =>
      let ec := c + TAGLEN in
      if 2 * ec <=? lenN ct then
        match open key (nonce_of iv i) info (takeN ec ct) with
        | Some pt =>
            let (out, ok) := stream_dec f c key iv info (i + 1) (written + lenN pt) (dropN ec ct) in
            (pt ++ out, ok)
        | None => ([], false)
        end
      else if lenN ct <? TAGLEN then ([], false)
      else
        let body := takeN (lenN ct - TAGLEN) ct in
        let tag := dropN (lenN ct - TAGLEN) ct in
        match dec_pieces (length body) c key iv info i body with
        | Some (pt, n) =>
            match open key (nonce_of iv n) (final_ad info (written + lenN pt)) tag with
            | Some _ => (pt, true)
            | None => ([], false)
            end
        | None => ([], false)
        end
  end.

Definition seipd2_stream_dec (c : N) (key iv info : bytes) (ct : bytes) : bytes * bool :=
  stream_dec (S (length ct)) c key iv info 0 0 ct.

End Seipd2.

(* key and IV from the session key: HKDF-SHA256 (salt, ikm = session key,
   info), 42 octets, message key first; [hkdf] is a parameter here and is
   built from HMAC in Kdf/Hkdf.v *)
Definition nonce_size (aead : N) : N :=
  if aead =? 1 then 16 else if aead =? 2 then 15 else if aead =? 3 then 12 else 0.

Definition key_size (sym : N) : N :=
  if sym =? 7 then 16 else if sym =? 8 then 24 else if sym =? 9 then 32 else 0.

Definition derive (hkdf : bytes -> bytes -> bytes -> N -> bytes) (sym aead cs : N) (salt sk : bytes)
  : bytes * bytes :=
  let okm := hkdf salt sk (info_of sym aead cs) 42 in
  let ks := key_size sym in
  (takeN ks okm, takeN (nonce_size aead - 8) (dropN ks okm)).
