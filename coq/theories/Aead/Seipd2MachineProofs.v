(* Aead/Seipd2MachineProofs.v -- the SEIPD v2 stream decryptor machine hands out and ends,
   for every sequence of request sizes, exactly as Seipd2.seipd2_stream_dec says. *)
From Coq Require Import ZifyBool ZifyN ZifyNat.
From Rpgp Require Import Base.Octets Base.OctetsMore Base.Res Aead.Seipd2 Aead.Seipd2Proofs Aead.Seipd2Machine.
Ltac Zify.zify_post_hook ::= Z.div_mod_to_equations.

Section MachineProofs.

Variable open : bytes -> bytes -> bytes -> bytes -> option bytes.
Variable c : N.
Variable key iv info : bytes.

Hypothesis c_pos : 1 <= c.
(* the only fact assumed of the AEAD primitive: what it opens is 16 octets shorter than what it was given *)
Hypothesis open_len : forall k n a x pt, open k n a x = Some pt -> lenN pt + TAGLEN = lenN x.

Notation stream_dec := (stream_dec open).
Notation dec_pieces := (dec_pieces open).
Notation fillA := (a_fill open c key iv info).
Notation takeA := (a_take open c key iv info).
Notation driveA := (a_drive open c key iv info).

Definition oc_of2 (b : bool) : a_outcome := if b then AClean else AFailed.

Lemma stream_dec_fuel f1 : forall f2 i w ct,
  (length ct < f1)%nat -> (length ct < f2)%nat ->
  stream_dec f1 c key iv info i w ct = stream_dec f2 c key iv info i w ct.
Proof.
  induction f1 as [|f1 IH]; intros f2 i w ct H1 H2; [lia|].
  destruct f2 as [|f2]; [lia|]. cbn [Seipd2.stream_dec].
  destruct (N.leb_spec (2 * (c + TAGLEN)) (lenN ct)) as [Hbig|Hsmall]; [|reflexivity].
  destruct (open key (nonce_of iv i) info (takeN (c + TAGLEN) ct)) as [pt|]; [|reflexivity].
  assert (Hd : (length (dropN (c + TAGLEN) ct) < length ct)%nat).
  { assert (lenN (dropN (c + TAGLEN) ct) < lenN ct) by (rewrite lenN_dropN; unfold TAGLEN in *; lia).
    unfold lenN in *. lia. }
  rewrite (IH f2) by lia. reflexivity.
Qed.

Lemma dec_pieces_len f : forall i body pt n,
  dec_pieces f c key iv info i body = Some (pt, n) -> lenN pt <= lenN body.
Proof.
  induction f as [|f IH]; intros i body pt n H.
  - cbn [Seipd2.dec_pieces] in H. destruct body; [injection H as <- _; cbn; lia|discriminate].
  - cbn [Seipd2.dec_pieces] in H. destruct body as [|b0 bt] eqn:Eb; [injection H as <- _; cbn; lia|].
    rewrite <- Eb in *.
    destruct (open key (nonce_of iv i) info (takeN (c + TAGLEN) body)) as [p1|] eqn:Eo; [|discriminate].
    destruct (dec_pieces f c key iv info (i + 1) (dropN (c + TAGLEN) body)) as [[r m]|] eqn:Ed; [|discriminate].
    injection H as <- _. pose proof (open_len _ _ _ _ _ Eo) as Hl. pose proof (IH _ _ _ _ Ed) as Hr.
    rewrite lenN_app. rewrite lenN_takeN in Hl. rewrite lenN_dropN in Hr. unfold TAGLEN in *. lia.
Qed.

(* reachable states *)
Definition InvA (s : ad) : Prop :=
  failedb s = false /\ lenN (inbuf s) <= c + TAGLEN.

(* what is still to come from a state, once its pending output is handed out *)
Definition todo (f : nat) (s : ad) : bytes * bool :=
  if doneb s then ([], true) else stream_dec f c key iv info (idx s) (wr s) (inbuf s ++ asrc s).

Definition meas (s : ad) : nat := (length (outb s) + (if doneb s then 0 else length (inbuf s ++ asrc s)))%nat.

Lemma a_take_fill n s : fillA (fillA s) = fillA s -> takeA n s = takeA n (fillA s).
Proof. intros H. unfold a_take. rewrite H. reflexivity. Qed.

Lemma a_drive_fill req fuel i s : fillA (fillA s) = fillA s -> driveA req fuel i s = driveA req fuel i (fillA s).
Proof. intros H. destruct fuel; [reflexivity|]. cbn [a_drive]. rewrite (a_take_fill _ s H). reflexivity. Qed.

Lemma fill_ready s : failedb s = false -> (outb s <> [] \/ doneb s = true) -> fillA s = s.
Proof.
  intros Hf [Ho|Hd]; unfold a_fill; rewrite Hf.
  - destruct (outb s); [congruence|]. reflexivity.
  - rewrite Hd, orb_true_r. reflexivity.
Qed.

(* the refill of a state with nothing pending *)
Lemma fill_step s f :
  InvA s -> outb s = [] -> doneb s = false -> (length (inbuf s ++ asrc s) < f)%nat ->
  (failedb (fillA s) = true /\ todo f s = ([], false)) \/
  (InvA (fillA s) /\ (outb (fillA s) <> [] \/ doneb (fillA s) = true) /\
   (meas (fillA s) <= meas s)%nat /\
   exists f1, (if doneb (fillA s) then True else (length (inbuf (fillA s) ++ asrc (fillA s)) < f1)%nat) /\
              todo f s = (outb (fillA s) ++ fst (todo f1 (fillA s)), snd (todo f1 (fillA s)))).
Proof.
  intros (Hnf & Hil) Ho Hd Hf.
  destruct f as [|f0]; [lia|].
  assert (Ht0 : todo (S f0) s = stream_dec (S f0) c key iv info (idx s) (wr s) (inbuf s ++ asrc s))
    by (unfold todo; rewrite Hd; reflexivity).
  rewrite Ht0. clear Ht0.
  unfold a_fill. rewrite Hnf, Ho, Hd. cbn [a_is_nil negb orb].
  set (ec := c + TAGLEN). set (ct := inbuf s ++ asrc s) in *.
  assert (Hct : lenN ct = lenN (inbuf s) + lenN (asrc s)) by (unfold ct; apply lenN_app).
  cbn [Seipd2.stream_dec]. fold ec.
  destruct (N.leb_spec (2 * ec) (lenN ct)) as [Hbig|Hsmall].
  - (* two chunks' worth is there: open one *)
    set (to_read := 2 * ec - lenN (inbuf s)).
    assert (Hpl : lenN (takeN to_read (asrc s)) = to_read) by (rewrite lenN_takeN; unfold to_read, ec in *; lia).
    replace (lenN (takeN to_read (asrc s)) <? to_read) with false by (symmetry; apply N.ltb_ge; lia).
    set (buf := inbuf s ++ takeN to_read (asrc s)).
    assert (Hbl : lenN buf = 2 * ec) by (unfold buf; rewrite lenN_app, Hpl; unfold to_read, ec in *; lia).
    assert (Hctb : ct = buf ++ dropN to_read (asrc s)).
    { unfold ct, buf. rewrite <- app_assoc, takeN_dropN. reflexivity. }
    assert (Hpre : takeN ec ct = takeN ec buf) by (rewrite Hctb; apply takeN_app_le; lia).
    rewrite Hpre.
    destruct (open key (nonce_of iv (idx s)) info (takeN ec buf)) as [pt|] eqn:Eo.
    + right. pose proof (open_len _ _ _ _ _ Eo) as Hptl. rewrite lenN_takeN in Hptl.
      assert (Hptc : lenN pt = c) by (unfold ec, TAGLEN in *; lia).
      assert (Hdrop : dropN ec buf ++ dropN to_read (asrc s) = dropN ec ct).
      { rewrite Hctb. symmetry. apply dropN_app_le. lia. }
      unfold InvA. cbn [failedb doneb inbuf outb asrc idx wr].
      repeat split.
      * rewrite lenN_dropN. unfold ec in *. lia.
      * left. intros Hx. rewrite Hx in Hptc. cbn in Hptc. lia.
      * unfold meas. cbn [outb doneb inbuf asrc]. rewrite Hd. rewrite Ho. cbn [length].
        rewrite Hdrop. fold ct.
        assert (Hdl : lenN (dropN ec ct) = lenN ct - ec) by apply lenN_dropN.
        unfold lenN in Hdl, Hptc, Hbig. unfold ec, TAGLEN in *. lia.
      * exists f0. split.
        -- rewrite Hdrop. assert (Hdl : lenN (dropN ec ct) = lenN ct - ec) by apply lenN_dropN.
           unfold lenN in Hdl, Hbig. unfold ec, TAGLEN in *. lia.
        -- unfold todo. cbn [doneb idx wr inbuf asrc outb]. rewrite Hdrop.
           destruct (stream_dec f0 c key iv info (idx s + 1) (wr s + lenN pt) (dropN ec ct)) as [o ok]. reflexivity.
    + left. split; reflexivity.
  - (* the source ends in this refill *)
    set (to_read := 2 * ec - lenN (inbuf s)).
    assert (Hshort : lenN (asrc s) < to_read) by (unfold to_read; lia).
    rewrite (takeN_all to_read (asrc s)) by lia. rewrite (dropN_all to_read (asrc s)) by lia.
    replace (lenN (asrc s) <? to_read) with true by (symmetry; apply N.ltb_lt; lia).
    fold ct.
    destruct (N.ltb_spec (lenN ct) TAGLEN) as [Ht|Ht]; [left; split; reflexivity|].
    destruct (dec_pieces (length (takeN (lenN ct - TAGLEN) ct)) c key iv info (idx s) (takeN (lenN ct - TAGLEN) ct))
      as [[pt n]|] eqn:Ed; [|left; split; reflexivity].
    destruct (open key (nonce_of iv n) (final_ad info (wr s + lenN pt)) (dropN (lenN ct - TAGLEN) ct)) as [x|] eqn:Eo;
      [|left; split; reflexivity].
    right. unfold InvA. cbn [failedb doneb inbuf outb asrc idx wr]. repeat split.
    + cbn. lia.
    + right. reflexivity.
    + unfold meas. cbn [outb doneb]. rewrite Hd, Ho. cbn [length].
      pose proof (dec_pieces_len _ _ _ _ _ Ed) as Hl. rewrite lenN_takeN in Hl. fold ct. unfold lenN in *. lia.
    + exists 0%nat. split; [exact I|]. unfold todo. cbn [doneb outb fst snd]. rewrite app_nil_r. reflexivity.
Qed.

(* one step from a state that has something to hand out or is done *)
Lemma drive_ready req fd
  (IH : forall i s f, InvA s -> (if doneb s then True else (length (inbuf s ++ asrc s) < f)%nat) ->
        (meas s + 2 <= fd)%nat ->
        driveA req fd i s = (outb s ++ fst (todo f s), oc_of2 (snd (todo f s)))) :
  forall i s f, InvA s -> (outb s <> [] \/ doneb s = true) ->
    (if doneb s then True else (length (inbuf s ++ asrc s) < f)%nat) -> (meas s + 1 <= fd)%nat ->
    driveA req (S fd) i s = (outb s ++ fst (todo f s), oc_of2 (snd (todo f s))).
Proof.
  intros i s f HI Hr Hf Hm. destruct HI as (Hnf & Hil).
  cbn [a_drive]. unfold a_take. rewrite (fill_ready s Hnf Hr), Hnf.
  set (k := N.min (lenN (outb s)) (N.max 1 (req i))).
  destruct (N.eqb_spec (lenN (outb s)) 0) as [H0|H0].
  - (* nothing pending: the source is done *)
    apply lenN_0_nil in H0.
    destruct Hr as [Hx|Hdone]; [congruence|].
    replace k with 0 by (unfold k; rewrite H0; cbn; lia). rewrite H0. cbn [takeN app]. unfold todo. rewrite Hdone. reflexivity.
  - assert (Hl : 1 <= lenN (outb s)) by lia.
    assert (Hk : 1 <= k) by (unfold k; lia).
    destruct (takeN k (outb s)) as [|t0 tt] eqn:Et; [exfalso; exact (takeN_pos_ne k (outb s) Hk Hl Et)|].
    rewrite <- Et.
    set (s' := {| failedb := false; doneb := doneb s; inbuf := inbuf s; outb := dropN k (outb s); asrc := asrc s; idx := idx s; wr := wr s |}).
    assert (Hd : (length (dropN k (outb s)) < length (outb s))%nat).
    { pose proof (lenN_dropN k (outb s)) as Hx. unfold lenN in *. lia. }
    assert (HI' : InvA s') by (split; cbn [failedb inbuf]; [reflexivity|exact Hil]).
    assert (Hm' : (meas s' + 2 <= fd)%nat).
    { unfold meas in *. unfold s'. cbn [outb doneb inbuf asrc]. lia. }
    rewrite (IH (N.succ i) s' f HI' Hf Hm').
    assert (Htodo : todo f s' = todo f s) by reflexivity.
    rewrite Htodo. unfold s'. cbn [outb]. rewrite app_assoc, takeN_dropN. reflexivity.
Qed.

Lemma drive_all req fd : forall i s f,
  InvA s -> (if doneb s then True else (length (inbuf s ++ asrc s) < f)%nat) -> (meas s + 2 <= fd)%nat ->
  driveA req fd i s = (outb s ++ fst (todo f s), oc_of2 (snd (todo f s))).
Proof.
  induction fd as [|fd IH]; intros i s f HI Hf Hm; [lia|].
  destruct (outb s) as [|o0 ot] eqn:Eo.
  - destruct (doneb s) eqn:Ed.
    + rewrite <- Eo. apply (drive_ready req fd IH); try assumption.
      * right; exact Ed.
      * rewrite Ed. exact I.
      * lia.
    + (* refill first *)
      destruct (fill_step s f HI Eo Ed Hf) as [(Hfl & Ht)|(HI1 & Hr1 & Hm1 & f1 & Hf1 & Ht)].
      * cbn [a_drive]. unfold a_take. rewrite Hfl, Ht. reflexivity.
      * assert (Hidem : fillA (fillA s) = fillA s) by (apply fill_ready; [exact (proj1 HI1)|exact Hr1]).
        rewrite (a_drive_fill req (S fd) i s Hidem).
        rewrite (drive_ready req fd IH i (fillA s) f1 HI1 Hr1 Hf1 ltac:(lia)).
        rewrite Ht. reflexivity.
  - rewrite <- Eo. apply (drive_ready req fd IH); try assumption.
    + left. rewrite Eo. discriminate.
    + lia.
Qed.

(* for every sequence of request sizes: what Seipd2.seipd2_stream_dec says *)
Theorem a_machine_is_spec req ct :
  a_run open c key iv info req ct =
  (fst (seipd2_stream_dec open c key iv info ct), oc_of2 (snd (seipd2_stream_dec open c key iv info ct))).
Proof.
  unfold a_run, seipd2_stream_dec.
  assert (HI : InvA (a_start ct)).
  { split; cbn [failedb inbuf a_start]; [reflexivity|cbn; unfold TAGLEN; lia]. }
  rewrite (drive_all req (S (S (length ct))) 0 (a_start ct) (S (length ct)) HI).
  - unfold todo. cbn [doneb a_start inbuf asrc idx wr outb app]. reflexivity.
  - cbn [doneb a_start inbuf asrc app]. lia.
  - unfold meas. cbn [doneb a_start inbuf asrc outb app length]. lia.
Qed.

Theorem a_request_independent req1 req2 ct :
  a_run open c key iv info req1 ct = a_run open c key iv info req2 ct.
Proof. rewrite !a_machine_is_spec. reflexivity. Qed.

(* memory: pending input and pending output together never exceed two encrypted chunks, however long the stream is *)
Lemma a_fill_bound s :
  lenN (inbuf s) + lenN (outb s) <= 2 * (c + TAGLEN) ->
  lenN (inbuf (fillA s)) + lenN (outb (fillA s)) <= 2 * (c + TAGLEN).
Proof.
  intros Hb. unfold a_fill. destruct (failedb s); [exact Hb|].
  destruct (negb (a_is_nil (outb s)) || doneb s) eqn:Eskip; [exact Hb|].
  assert (Ho : outb s = []).
  { destruct (outb s); [reflexivity|]. cbn in Eskip. discriminate. }
  rewrite Ho, lenN_nil in Hb.
  set (ec := c + TAGLEN) in *. set (to_read := 2 * ec - lenN (inbuf s)).
  set (piece := takeN to_read (asrc s)). set (bufx := inbuf s ++ piece).
  assert (Hbl : lenN bufx <= 2 * ec).
  { unfold bufx. rewrite lenN_app. unfold piece. rewrite lenN_takeN. unfold to_read. lia. }
  destruct (lenN piece <? to_read).
  - destruct (lenN bufx <? TAGLEN); [cbn; lia|].
    destruct (dec_pieces (length (takeN (lenN bufx - TAGLEN) bufx)) c key iv info (idx s) (takeN (lenN bufx - TAGLEN) bufx)) as [[pt n]|] eqn:Ed; [|cbn; lia].
    destruct (open key (nonce_of iv n) (final_ad info (wr s + lenN pt)) (dropN (lenN bufx - TAGLEN) bufx)); [|cbn; lia].
    cbn [inbuf outb]. pose proof (dec_pieces_len _ _ _ _ _ Ed) as Hl. rewrite lenN_takeN in Hl. cbn. lia.
  - destruct (open key (nonce_of iv (idx s)) info (takeN ec bufx)) as [pt|] eqn:Eo; [|cbn; lia].
    cbn [inbuf outb]. pose proof (open_len _ _ _ _ _ Eo) as Hl. rewrite lenN_takeN in Hl.
    rewrite lenN_dropN. unfold TAGLEN in *. lia.
Qed.

Theorem a_take_bound n s :
  lenN (inbuf s) + lenN (outb s) <= 2 * (c + TAGLEN) ->
  lenN (inbuf (fst (takeA n s))) + lenN (outb (fst (takeA n s))) <= 2 * (c + TAGLEN).
Proof.
  intros Hb. pose proof (a_fill_bound s Hb) as Hf. unfold a_take.
  destruct (failedb (fillA s)); cbn [fst inbuf outb]; [exact Hf|]. rewrite lenN_dropN. lia.
Qed.

End MachineProofs.
