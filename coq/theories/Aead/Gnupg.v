(* Aead/Gnupg.v -- the GnuPG / LibrePGP "OCB encrypted data" container (packet 20), which the
   library reads when the caller opts in (C03): the same chunked stream as SEIPD v2, but the
   session key is used directly, the nonce of chunk i is the IV with its low eight octets XORed
   with the chunk index, and the chunk index is part of the associated data
       0xD4, version 1, cipher, AEAD mode, chunk-size octet, index (8)   [, total (8) for the final tag].

   Mirrors src/crypto/aead/decryptor.rs: aead_setup_gnupg, StreamDecryptor::new_gnupg, the
   ModeData::Gnupg arm of decrypt.

   Instead of a second copy of the stream functions and machines, the difference is put where it
   lives: in the primitive.  [g_wrap f] is the AEAD the stream functions of Aead/Seipd2.v see; it
   receives the RFC-shaped nonce (IV ++ index) and associated data (info [++ total]) and calls the
   real primitive with the GnuPG-shaped ones.  Every theorem of Seipd2 / Seipd2Machine is stated
   for an arbitrary primitive, so it holds for this one. *)
From Rpgp Require Import Base.Octets Base.Res Aead.Seipd2 Aead.Seipd2Machine.

Definition bxor (a b : byte) : byte := n2b (N.lxor (b2n a) (b2n b)).

Fixpoint xor_bytes (a b : bytes) : bytes :=
  match a, b with
  | x :: a', y :: b' => bxor x y :: xor_bytes a' b'
  | _, _ => a
  end.

(* the IV with its low eight octets XORed with the index octets *)
Definition g_nonce (iv idx : bytes) : bytes :=
  takeN (lenN iv - 8) iv ++ xor_bytes (dropN (lenN iv - 8) iv) idx.

(* info ++ index [++ total] *)
Definition g_ad (ad idx : bytes) : bytes := takeN 5 ad ++ idx ++ dropN 5 ad.

Definition g_wrap {X} (f : bytes -> bytes -> bytes -> bytes -> X) (key nonce ad x : bytes) : X :=
  let iv := takeN (lenN nonce - 8) nonce in
  let idx := dropN (lenN nonce - 8) nonce in
  f key (g_nonce iv idx) (g_ad ad idx) x.

Definition ginfo (sym aead cs : N) : bytes := [xd4; x01; n2b sym; n2b aead; n2b cs].

Section Gnupg.
Variable seal : bytes -> bytes -> bytes -> bytes -> bytes.
Variable open : bytes -> bytes -> bytes -> bytes -> option bytes.

Definition gnupg_enc (sym aead cs : N) (key iv p : bytes) : bytes :=
  seipd2_enc (g_wrap seal) (chunk_len cs) key iv (ginfo sym aead cs) p.

Definition gnupg_dec (sym aead cs : N) (key iv ct : bytes) : option bytes :=
  seipd2_dec (g_wrap open) (chunk_len cs) key iv (ginfo sym aead cs) ct.

Definition gnupg_stream_dec (sym aead cs : N) (key iv ct : bytes) : bytes * bool :=
  seipd2_stream_dec (g_wrap open) (chunk_len cs) key iv (ginfo sym aead cs) ct.

Definition gnupg_run (sym aead cs : N) (key iv : bytes) (req : N -> N) (ct : bytes) : bytes * a_outcome :=
  a_run (g_wrap open) (chunk_len cs) key iv (ginfo sym aead cs) req ct.
End Gnupg.
