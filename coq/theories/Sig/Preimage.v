(* Sig/Preimage.v -- what a signature hashes (RFC 9580 5.2.4), transcribed from
   the RFC (C11, C02, C06, C13).

   Compared with: src/packet/signature/config.rs (into_hasher, sign_*,
   hash_signature_data, trailer), src/packet/signature/types.rs (verify*,
   serialize_for_hashing), src/composed/message/reader/signed_many.rs. *)
From Rpgp Require Import Base.Octets Base.Res Text.Canon.

(* the subject of a signature, by kind *)
Inductive subject :=
| SDoc (text_mode : bool) (d : bytes)                (* 0x00 / 0x01 *)
| SKeyId (kv : N) (kbody : bytes) (idtag : N) (id : bytes)
                                                     (* 0x10..0x13, 0x30: key + user id (tag 13) / attribute (17) *)
| SKey (kv : N) (kbody : bytes)                      (* 0x1F, 0x20 *)
| SKeys (kv1 : N) (b1 : bytes) (kv2 : N) (b2 : bytes). (* 0x18, 0x28, 0x19: primary then subkey *)

(* a key is hashed as an old-style public-key packet: 0x99 + 2-octet length for
   key versions up to 4, 0x9B + 4-octet length for version 6 *)
Definition key_frame (kv : N) (body : bytes) : bytes :=
  if kv =? 6 then x9b :: be32 (lenN body) ++ body
  else x99 :: be16 (lenN body) ++ body.

Definition id_prefix (idtag : N) : byte := if idtag =? 13 then xb4 else xd1.

Definition subject_bytes (sigv : N) (s : subject) : bytes :=
  match s with
  | SDoc tm d => if tm then canon d else d
  | SKeyId kv kb idtag id =>
      key_frame kv kb ++
      (if 4 <=? sigv then id_prefix idtag :: be32 (lenN id) else []) ++ id
  | SKey kv kb => key_frame kv kb
  | SKeys kv1 b1 kv2 b2 => key_frame kv1 b1 ++ key_frame kv2 b2
  end.

(* version, type, public-key algorithm, hash algorithm, hashed-area length
   (2 octets for v4, 4 for v6), hashed area *)
Definition sig_fields (v typ pka ha : N) (hashed : bytes) : bytes :=
  [n2b v; n2b typ; n2b pka; n2b ha] ++
  (if v =? 6 then be32 (lenN hashed) else be16 (lenN hashed)) ++ hashed.

Definition sig_trailer (v n : N) : bytes := [n2b v; xff] ++ be32 (n mod 4294967296).

(* salt length of a v6 signature, by hash algorithm (RFC 9580 9.5) *)
Definition salt_len (ha : N) : N :=
  if (ha =? 8) || (ha =? 12) then 16          (* SHA2-256, SHA3-256 *)
  else if ha =? 9 then 24                     (* SHA2-384 *)
  else if (ha =? 10) || (ha =? 14) then 32    (* SHA2-512, SHA3-512 *)
  else if ha =? 11 then 16                    (* SHA2-224 *)
  else 0.

(* v4 / v6 *)
Definition preimage (v typ pka ha : N) (hashed salt : bytes) (s : subject) : bytes :=
  (if v =? 6 then salt else []) ++ subject_bytes v s ++
  sig_fields v typ pka ha hashed ++ sig_trailer v (lenN (sig_fields v typ pka ha hashed)).

(* v2 / v3: subject, then type and creation time; no trailer *)
Definition preimage_v3 (typ created : N) (s : subject) : bytes :=
  subject_bytes 3 s ++ [n2b typ] ++ be32 created.

(* well-formedness of the parameters the injectivity theorem needs *)
Definition params_ok (v ha : N) (hashed salt : bytes) : Prop :=
  (v = 4 \/ v = 6) /\
  (v = 4 -> lenN hashed < 65536 /\ salt = []) /\
  (v = 6 -> lenN hashed < 4294967288 /\ lenN salt = salt_len ha) /\
  ha < 256.
