(* Sig/PreimageProofs.v -- the pre-image determines everything that was signed
   (C02, C11). *)
From Rpgp Require Import Base.Octets Base.Res Text.Canon Sig.Preimage.
From Coq Require Import ZifyBool ZifyN ZifyNat.

Lemma app_inj_tail_len {A} (a b c d : list A) :
  lenN b = lenN d -> a ++ b = c ++ d -> a = c /\ b = d.
Proof.
  intros Hl H. apply app_inj_len; [|exact H].
  apply (f_equal lenN) in H. rewrite !lenN_app in H. lia.
Qed.

Lemma lenN_be16 n : lenN (be16 n) = 2. Proof. reflexivity. Qed.
Lemma lenN_be32 n : lenN (be32 n) = 4. Proof. reflexivity. Qed.

Lemma be16_inj n m : n < 65536 -> m < 65536 -> be16 n = be16 m -> n = m.
Proof.
  intros Hn Hm H. unfold be16 in H. injection H as H1 H2.
  rewrite <- (de16_be16 n Hn), <- (de16_be16 m Hm). congruence.
Qed.

Lemma n2b_inj n m : n < 256 -> m < 256 -> n2b n = n2b m -> n = m.
Proof.
  intros Hn Hm H. apply (f_equal b2n) in H. rewrite !b2n_n2b in H.
  rewrite !N.mod_small in H by assumption. exact H.
Qed.

Lemma sig_fields_len v typ pka ha hashed :
  lenN (sig_fields v typ pka ha hashed) = 4 + (if v =? 6 then 4 else 2) + lenN hashed.
Proof.
  unfold sig_fields. rewrite !lenN_app.
  change (lenN [n2b v; n2b typ; n2b pka; n2b ha]) with 4.
  destruct (v =? 6); [rewrite lenN_be32|rewrite lenN_be16]; lia.
Qed.

Ltac red_v := repeat (change (4 =? 6) with false in * || change (6 =? 6) with true in * ); cbv iota in *.

(* Two signatures with the same pre-image have the same version, type,
   algorithms, hashed area, salt and subject octets. *)
Theorem preimage_injective v typ pka ha hashed salt s v' typ' pka' ha' hashed' salt' s' :
  params_ok v ha hashed salt -> params_ok v' ha' hashed' salt' ->
  typ < 256 -> typ' < 256 -> pka < 256 -> pka' < 256 ->
  preimage v typ pka ha hashed salt s = preimage v' typ' pka' ha' hashed' salt' s' ->
  v = v' /\ typ = typ' /\ pka = pka' /\ ha = ha' /\ hashed = hashed' /\ salt = salt' /\
  subject_bytes v s = subject_bytes v' s'.
Proof.
  intros [Hv [H4 [H6 Hha]]] [Hv' [H4' [H6' Hha']]] Ht Ht' Hp Hp' H.
  unfold preimage in H.
  (* 1. the trailer: six octets at the end; its first octet is the version *)
  rewrite !app_assoc in H.
  apply app_inj_tail_len in H; [|reflexivity]. destruct H as [H HT].
  unfold sig_trailer in HT.
  apply app_inj_len in HT; [|reflexivity]. destruct HT as [HT1 HT2].
  assert (Ev : v = v').
  { injection HT1 as Hvb. destruct Hv as [-> | ->], Hv' as [-> | ->]; try reflexivity; discriminate. }
  subst v'. clear HT1 Hv'.
  assert (HFl : lenN (sig_fields v typ pka ha hashed) < 4294967296 /\
                lenN (sig_fields v typ' pka' ha' hashed') < 4294967296).
  { rewrite !sig_fields_len. destruct Hv as [-> | ->]; red_v.
    - destruct (H4 eq_refl), (H4' eq_refl). clear - H0 H2. split; lia.
    - destruct (H6 eq_refl) as [Q1 _], (H6' eq_refl) as [Q2 _]. clear - Q1 Q2. split; lia. }
  destruct HFl as [HFl HFl'].
  assert (Hlen : lenN (sig_fields v typ pka ha hashed) = lenN (sig_fields v typ' pka' ha' hashed')).
  { apply be32_inj in HT2; [|lia|lia]. rewrite !N.mod_small in HT2 by assumption. exact HT2. }
  (* 2. the field block *)
  apply app_inj_tail_len in H; [|exact Hlen]. destruct H as [H HF].
  unfold sig_fields in HF.
  apply app_inj_len in HF; [|reflexivity]. destruct HF as [HF1 HF2].
  injection HF1 as Htyp Hpka Hhab.
  apply n2b_inj in Htyp; [|assumption|assumption].
  apply n2b_inj in Hpka; [|assumption|assumption].
  apply n2b_inj in Hhab; [|assumption|assumption].
  subst typ' pka' ha'.
  assert (Hh : hashed = hashed').
  { destruct Hv as [-> | ->]; red_v; apply app_inj_len in HF2; try reflexivity; apply HF2. }
  subst hashed'.
  (* 3. salt, then subject *)
  destruct Hv as [-> | ->]; red_v.
  - destruct (H4 eq_refl) as [_ ->]. destruct (H4' eq_refl) as [_ ->]. cbn [app] in H.
    repeat split; try reflexivity. exact H.
  - destruct (H6 eq_refl) as [_ Hs]. destruct (H6' eq_refl) as [_ Hs'].
    apply app_inj_len in H; [|rewrite Hs, Hs'; reflexivity]. destruct H as [-> Hsub].
    repeat split; try reflexivity. exact Hsub.
Qed.

(* ---- the subject octets determine the subject, within one kind ---- *)

Lemma framed_inj (L L' b b' r r' : bytes) (x : byte) :
  lenN L = lenN L' -> (L = L' -> lenN b = lenN b') ->
  (x :: L ++ b) ++ r = (x :: L' ++ b') ++ r' -> L = L' /\ b = b' /\ r = r'.
Proof.
  intros HL Hb H. rewrite <- !app_comm_cons in H. injection H as H.
  rewrite <- !app_assoc in H. apply app_inj_len in H; [|exact HL]. destruct H as [-> H].
  apply app_inj_len in H; [|apply Hb; reflexivity]. destruct H as [-> ->]. auto.
Qed.

Lemma key_frame_inj kv b kv' b' r r' :
  (kv = 6 -> lenN b < 4294967296) -> (kv <> 6 -> lenN b < 65536) ->
  (kv' = 6 -> lenN b' < 4294967296) -> (kv' <> 6 -> lenN b' < 65536) ->
  key_frame kv b ++ r = key_frame kv' b' ++ r' ->
  (kv =? 6) = (kv' =? 6) /\ b = b' /\ r = r'.
Proof.
  intros H6 Hn6 H6' Hn6' H. unfold key_frame in H.
  destruct (N.eqb_spec kv 6) as [E|E], (N.eqb_spec kv' 6) as [E'|E'].
  - apply framed_inj in H; [|reflexivity|].
    + destruct H as [_ [-> ->]]. auto.
    + intros Q. apply be32_inj in Q; auto.
  - exfalso. rewrite <- !app_comm_cons in H. discriminate.
  - exfalso. rewrite <- !app_comm_cons in H. discriminate.
  - apply framed_inj in H; [|reflexivity|].
    + destruct H as [_ [-> ->]]. auto.
    + intros Q. apply be16_inj in Q; auto.
Qed.

(* documents: binary signatures bind the octets, text signatures the canonical text *)
Theorem subject_doc_inj sigv tm d d' :
  subject_bytes sigv (SDoc tm d) = subject_bytes sigv (SDoc tm d') ->
  if tm then canon d = canon d' else d = d'.
Proof. cbn [subject_bytes]. destruct tm; auto. Qed.

(* key + user id / attribute: key body, kind and id are all determined *)
Theorem subject_keyid_inj sigv kv kb idtag id kv' kb' idtag' id' :
  4 <= sigv ->
  (kv = 6 -> lenN kb < 4294967296) -> (kv <> 6 -> lenN kb < 65536) ->
  (kv' = 6 -> lenN kb' < 4294967296) -> (kv' <> 6 -> lenN kb' < 65536) ->
  lenN id < 4294967296 -> lenN id' < 4294967296 ->
  subject_bytes sigv (SKeyId kv kb idtag id) = subject_bytes sigv (SKeyId kv' kb' idtag' id') ->
  (kv =? 6) = (kv' =? 6) /\ kb = kb' /\ id_prefix idtag = id_prefix idtag' /\ id = id'.
Proof.
  intros Hs H1 H2 H3 H4 Hi Hi' H. cbn [subject_bytes] in H.
  destruct (N.leb_spec 4 sigv); [|lia].
  apply key_frame_inj in H; auto. destruct H as [Hk [Hb H]].
  change (id_prefix idtag :: be32 (lenN id)) with ([id_prefix idtag] ++ be32 (lenN id)) in H.
  change (id_prefix idtag' :: be32 (lenN id')) with ([id_prefix idtag'] ++ be32 (lenN id')) in H.
  rewrite <- !app_assoc in H.
  apply app_inj_len in H; [|reflexivity]. destruct H as [Hp H]. injection Hp as Hp.
  apply app_inj_len in H; [|reflexivity]. destruct H as [_ ->].
  auto.
Qed.

Theorem subject_keys_inj sigv kv1 b1 kv2 b2 kv1' b1' kv2' b2' :
  (kv1 = 6 -> lenN b1 < 4294967296) -> (kv1 <> 6 -> lenN b1 < 65536) ->
  (kv1' = 6 -> lenN b1' < 4294967296) -> (kv1' <> 6 -> lenN b1' < 65536) ->
  (kv2 = 6 -> lenN b2 < 4294967296) -> (kv2 <> 6 -> lenN b2 < 65536) ->
  (kv2' = 6 -> lenN b2' < 4294967296) -> (kv2' <> 6 -> lenN b2' < 65536) ->
  subject_bytes sigv (SKeys kv1 b1 kv2 b2) = subject_bytes sigv (SKeys kv1' b1' kv2' b2') ->
  b1 = b1' /\ b2 = b2'.
Proof.
  intros A1 A2 A3 A4 A5 A6 A7 A8 H. cbn [subject_bytes] in H.
  apply key_frame_inj in H; auto. destruct H as [_ [-> H]].
  rewrite <- (app_nil_r (key_frame kv2 b2)), <- (app_nil_r (key_frame kv2' b2')) in H.
  apply key_frame_inj in H; auto. destruct H as [_ [-> _]]. auto.
Qed.
