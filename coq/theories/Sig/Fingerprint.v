(* Sig/Fingerprint.v -- fingerprints and key ids (RFC 9580 5.5.4) (C13). *)
From Rpgp Require Import Base.Octets Base.Res Sig.Preimage.

(* what is hashed: v4: 0x99, 2-octet length, key packet body (SHA-1);
   v6: 0x9B, 4-octet length, body (SHA-256); the same framing a signature over
   the key uses *)
Definition fp_preimage (kv : N) (body : bytes) : bytes := key_frame kv body.

(* v3: the magnitudes of n and e, without their 2-octet bit counts (MD5) *)
Definition fp_preimage_v3 (n_mag e_mag : bytes) : bytes := n_mag ++ e_mag.

(* OpenPGP hash ids: v6 -> 8 (SHA2-256), v4 -> 2 (SHA-1), v3 -> 1 (MD5) *)
Definition fp_hash (kv : N) : N := if kv =? 6 then 8 else if kv =? 4 then 2 else 1.

(* key id: v6 the first 8 octets of the fingerprint, v4 the last 8 *)
Definition keyid (kv : N) (fp : bytes) : bytes :=
  if kv =? 6 then takeN 8 fp else dropN (lenN fp - 8) fp.

(* v3: the low 64 bits of the modulus (left-padded with zeros when shorter) *)
Definition keyid_v3 (n_mag : bytes) : bytes :=
  if 8 <=? lenN n_mag then dropN (lenN n_mag - 8) n_mag
  else repeat x00 (N.to_nat (8 - lenN n_mag)) ++ n_mag.

Lemma keyid_len kv fp : 8 <= lenN fp -> lenN (keyid kv fp) = 8.
Proof.
  intros H. unfold keyid. destruct (kv =? 6); [rewrite lenN_takeN|rewrite lenN_dropN]; lia.
Qed.

Lemma keyid_v3_len n : lenN (keyid_v3 n) = 8.
Proof.
  unfold keyid_v3. destruct (N.leb_spec 8 (lenN n)).
  - rewrite lenN_dropN. lia.
  - rewrite lenN_app. unfold lenN at 1. rewrite repeat_length. lia.
Qed.

(* fingerprint framing = signature framing of the same key *)
Lemma fp_frame_is_sig_frame kv body sigv : fp_preimage kv body = subject_bytes sigv (SKey kv body).
Proof. reflexivity. Qed.
