(* Sig/Complete.v -- completeness (C06): what any signing path signs, every
   verifying path accepts.  The signing paths hash the document through the
   streaming hasher (any chunking) or the cleartext framework; the verifying
   paths through the normalising reader, the in-memory normaliser or the
   message reader's hasher.  All of them compute the same subject octets, and
   the rest of the pre-image is a function of the signature packet. *)
From Rpgp Require Import Base.Octets Base.Res Text.Canon Text.CanonProofs Text.Cleartext Text.CleartextProofs
  Sig.Preimage Sig.PreimageProofs Sig.Verify.

Section Complete.

Variable H : bytes -> bytes.
Variable sign : bytes -> bytes.                  (* sign digest, under the secret key *)
Variable vrfy : bytes -> bytes -> bool.          (* vrfy digest value, under the public key *)
Hypothesis vrfy_sign : forall d, vrfy d (sign d) = true.

(* the signature packet content made over a pre-image *)
Definition make_prefix (pre : bytes) : bytes := takeN 2 (H pre).
Definition make_value (pre : bytes) : bytes := sign (H pre).

Theorem sign_then_verify pre : accepts H vrfy pre (make_prefix pre) (make_value pre) = true.
Proof.
  unfold accepts, make_prefix, make_value. rewrite vrfy_sign.
  destruct (list_eq_dec Byte.byte_eq_dec (takeN 2 (H pre)) (takeN 2 (H pre))); [reflexivity|congruence].
Qed.

(* any verifying path that computes the same subject octets accepts *)
Theorem complete v typ pka ha hashed salt s s' :
  subject_bytes v s' = subject_bytes v s ->
  accepts H vrfy (preimage v typ pka ha hashed salt s')
          (make_prefix (preimage v typ pka ha hashed salt s))
          (make_value (preimage v typ pka ha hashed salt s)) = true.
Proof.
  intros E. unfold preimage. rewrite E. apply sign_then_verify.
Qed.

End Complete.

(* the document octets every path feeds to the hash, text mode:
   signer through the streaming hasher under any chunking;
   verifier through the normalising reader (any window), through the in-memory
   normaliser, or again through the streaming hasher (message reader) *)
Theorem text_paths_agree chunks chunks' w :
  1 <= w -> concat chunks' = concat chunks ->
  nh_run true chunks = nr_run [CR; LF] w (concat chunks) /\
  nh_run true chunks = replace_newlines [CR; LF] (concat chunks) /\
  nh_run true chunks = nh_run true chunks'.
Proof.
  intros Hw E. rewrite !nh_run_canon, nr_run_canon by exact Hw. rewrite replace_is_canon, E. auto.
Qed.

Theorem binary_paths_agree chunks chunks' :
  concat chunks' = concat chunks -> nh_run false chunks = nh_run false chunks'.
Proof. intros E. rewrite !nh_run_binary, E. reflexivity. Qed.

(* cleartext framework: what is signed for text t is what verification hashes
   after the armored form has been written and read back (text not ending in a
   lone CR, see C16) *)
Theorem cleartext_paths_agree t S body :
  is_prefix five_dashes S = true -> ends_with_cr t = false ->
  read_body (text_section t ++ S) = Ok (body, S) ->
  canon (unescape_trim body) = sign_input t.
Proof.
  intros HS Hcr Hr. destruct (text_survives t S HS Hcr) as [Hr' _].
  rewrite Hr' in Hr. injection Hr as <-. reflexivity.
Qed.
