(* Sig/Verify.v -- what acceptance of a signature implies (C02), as a reduction
   to two explicit events; and the verifier's checks as a decision function.

   Mirrors src/packet/signature/types.rs: verify, verify_certification, ... :
   version alignment, issuer match, (v6, data signatures) salt length, the
   16-bit check, then the public-key primitive over the digest of the
   pre-image. *)
From Rpgp Require Import Base.Octets Base.Res Text.Canon Text.CanonProofs Sig.Preimage Sig.PreimageProofs.

Section Soundness.

Variable H : bytes -> bytes.                     (* the hash named in the signature *)
Variable vrfy : bytes -> bytes -> bool.          (* vrfy digest value, under the verifying key *)

(* the signed 16-bit prefix and the signature value must fit the digest *)
Definition accepts (pre : bytes) (prefix value : bytes) : bool :=
  (if list_eq_dec Byte.byte_eq_dec (takeN 2 (H pre)) prefix then true else false) && vrfy (H pre) value.

(* the two events the soundness of signatures rests on *)
Definition Collision (p p' : bytes) : Prop := p <> p' /\ H p = H p'.
Definition Forged (d d' value : bytes) : Prop := d <> d' /\ vrfy d' value = true.

(* A signature whose value was made over the digest of [pre] (so vrfy accepts
   it there) and that is accepted for [pre'] : either the two pre-images are
   the same octets, or one of the two events happened. *)
Theorem accept_implies pre pre' prefix value :
  accepts pre' prefix value = true ->
  pre = pre' \/ Collision pre pre' \/ Forged (H pre) (H pre') value.
Proof.
  unfold accepts. intros Hacc. apply andb_true_iff in Hacc. destruct Hacc as [_ Hv].
  destruct (list_eq_dec Byte.byte_eq_dec pre pre') as [E|N]; [left; exact E|].
  destruct (list_eq_dec Byte.byte_eq_dec (H pre) (H pre')) as [Eh|Nh].
  - right. left. split; assumption.
  - right. right. split; assumption.
Qed.

(* combined with the unambiguity of the pre-image: acceptance means every
   signed component is the one that was signed, or an event happened *)
Theorem accept_binds v typ pka ha hashed salt s v' typ' pka' ha' hashed' salt' s' prefix value :
  params_ok v ha hashed salt -> params_ok v' ha' hashed' salt' ->
  typ < 256 -> typ' < 256 -> pka < 256 -> pka' < 256 ->
  accepts (preimage v' typ' pka' ha' hashed' salt' s') prefix value = true ->
  (v = v' /\ typ = typ' /\ pka = pka' /\ ha = ha' /\ hashed = hashed' /\ salt = salt' /\
   subject_bytes v s = subject_bytes v' s')
  \/ Collision (preimage v typ pka ha hashed salt s) (preimage v' typ' pka' ha' hashed' salt' s')
  \/ Forged (H (preimage v typ pka ha hashed salt s)) (H (preimage v' typ' pka' ha' hashed' salt' s')) value.
Proof.
  intros P P' T T' A A' Hacc.
  destruct (accept_implies (preimage v typ pka ha hashed salt s) _ _ _ Hacc) as [E|[C|F]].
  - left. apply (preimage_injective _ _ _ _ _ _ _ _ _ _ _ _ _ _ P P' T T' A A' E).
  - right. left. exact C.
  - right. right. exact F.
Qed.

(* the 16-bit check alone already rejects when it does not fit *)
Theorem prefix_mismatch_rejects pre prefix value :
  takeN 2 (H pre) <> prefix -> accepts pre prefix value = false.
Proof.
  intros Hn. unfold accepts. destruct (list_eq_dec Byte.byte_eq_dec (takeN 2 (H pre)) prefix); [contradiction|reflexivity].
Qed.

End Soundness.

(* documents: what may change without changing the subject octets *)
Theorem text_doc_change_visible d d' :
  to_lf d <> to_lf d' -> subject_bytes 4 (SDoc true d) <> subject_bytes 4 (SDoc true d').
Proof. cbn [subject_bytes]. intros Hn E. apply Hn. apply canon_eq_to_lf_eq. exact E. Qed.

Theorem binary_doc_change_visible d d' :
  d <> d' -> subject_bytes 4 (SDoc false d) <> subject_bytes 4 (SDoc false d').
Proof. cbn [subject_bytes]. auto. Qed.

(* the verifier's gate before any hashing: key/signature version alignment *)
Definition aligned (keyv sigv : N) : bool :=
  negb ((keyv =? 6) && negb (sigv =? 6)) && negb ((sigv =? 6) && negb (keyv =? 6)).

Lemma aligned_v6 keyv sigv : aligned keyv sigv = true -> ((keyv = 6) <-> (sigv = 6)).
Proof.
  unfold aligned. destruct (N.eqb_spec keyv 6), (N.eqb_spec sigv 6); cbn; intros H; try discriminate; split; intros; try assumption; contradiction.
Qed.
