(* Frame/PartialWriter.v -- the streamed literal-data writer as the staged producer the code is
   (C17, C09, C01): one serialised piece per refill -- the first with the packet tag, a length and the
   literal header, the later ones with a length only; Partial(2^k) while a whole chunk could be read,
   a final Fixed piece (possibly empty) -- handed out through read().

   Mirrors src/packet/literal_data.rs: LiteralDataPartialGenerator::read (util::fill_buffer fills
   each chunk completely unless the source ends: Io/Fill.v).  read() there does not loop; no piece
   is empty (it carries at least its length octet), so Emitter's read is the same function here
   (PartialWriterProofs.piece_never_empty).

   PartialWriterProofs.v: for every sequence of request sizes the consumer receives exactly
   Framing.emit_partial. *)
From Rpgp Require Import Base.Octets Base.Res Frame.Framing Io.Emitter.

Section PartialWriter.

Variable tag k : N.       (* packet type; chunk size 2^k *)
Variable h : bytes.       (* the packet-specific header inside the first chunk *)

(* source left, is_first, is_done && is_fixed_emitted *)
Record pw := { psrc : bytes; pfirst : bool; pfinished : bool }.

Definition pw_advance (s : pw) : option (bytes * pw) :=
  if pfinished s then None
  else
    let c := 2 ^ k in
    let cs := if pfirst s then c - lenN h else c in
    let piece := takeN cs (psrc s) in
    let rest := dropN cs (psrc s) in
    let n := lenN piece in
    if pfirst s && (n <? cs) then
      (* all data fits into a single packet *)
      Some (n2b (192 + tag) :: enc_new_len (n + lenN h) ++ h ++ piece, {| psrc := rest; pfirst := false; pfinished := true |})
    else if n =? cs then
      Some ((if pfirst s then n2b (192 + tag) :: enc_partial k ++ h else enc_partial k) ++ piece,
            {| psrc := rest; pfirst := false; pfinished := false |})
    else
      (* final piece, possibly of length 0 *)
      Some (enc_new_len n ++ piece, {| psrc := rest; pfirst := false; pfinished := true |}).

Definition pw_run (req : N -> N) (data : bytes) : bytes * e_outcome :=
  let sf := S (S (S (length data))) in
  e_drive pw pw_advance sf req (length (emit_partial tag k h data) + sf + 2) 0 []
    {| psrc := data; pfirst := true; pfinished := false |}.

End PartialWriter.
