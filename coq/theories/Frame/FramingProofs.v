(* Frame/FramingProofs.v -- proofs about Frame/Framing.v (C17). *)
From Rpgp Require Import Base.Octets Base.Res Frame.Framing.
From Coq Require Import ZifyBool ZifyN ZifyNat.

(* ------------------------------------------------ small facts *)

Lemma b2n_n2b_small n : n < 256 -> b2n (n2b n) = n.
Proof. intros H. rewrite b2n_n2b. apply N.mod_small. exact H. Qed.

Lemma pow2_pos k : 0 < 2 ^ k.
Proof. apply N.neq_0_lt_0. apply N.pow_nonzero. discriminate. Qed.

Lemma pow2_le_30 k : k <= 30 -> 2 ^ k <= 1073741824.
Proof.
  intros H. change 1073741824 with (2 ^ 30). apply N.pow_le_mono_r; [discriminate|exact H].
Qed.

Lemma pow2_ge_9 k : 9 <= k -> 512 <= 2 ^ k.
Proof.
  intros H. change 512 with (2 ^ 9). apply N.pow_le_mono_r; [discriminate|exact H].
Qed.

Lemma takeN_app_le {A} n (a b : list A) : n <= lenN a -> takeN n (a ++ b) = takeN n a.
Proof.
  intros H. rewrite !takeN_firstn. unfold lenN in H.
  rewrite firstn_app. replace (N.to_nat n - length a)%nat with 0%nat by lia.
  rewrite firstn_O, app_nil_r. reflexivity.
Qed.

Lemma dropN_app_le {A} n (a b : list A) : n <= lenN a -> dropN n (a ++ b) = dropN n a ++ b.
Proof.
  intros H. rewrite !dropN_skipn. unfold lenN in H.
  rewrite skipn_app. replace (N.to_nat n - length a)%nat with 0%nat by lia.
  reflexivity.
Qed.

Lemma takeN_app_exact {A} n (a b : list A) : lenN a = n -> takeN n (a ++ b) = a.
Proof. intros <-. apply takeN_app. Qed.
Lemma dropN_app_exact {A} n (a b : list A) : lenN a = n -> dropN n (a ++ b) = b.
Proof. intros <-. apply dropN_app. Qed.

(* ------------------------------------------------ length encodings *)

Lemma dec_enc_len1 n r : n < 192 -> dec_new_len (enc_len1 n ++ r) = Ok (PFixed n, r).
Proof.
  intros H. unfold enc_len1, dec_new_len. cbn [app].
  rewrite b2n_n2b_small by lia.
  destruct (N.ltb_spec n 192); [reflexivity|lia].
Qed.

Lemma dec_enc_len2 n r : 192 <= n -> n < 8384 -> dec_new_len (enc_len2 n ++ r) = Ok (PFixed n, r).
Proof.
  intros H1 H2. unfold enc_len2, dec_new_len. cbn [app].
  rewrite b2n_n2b_small by lia.
  destruct (N.ltb_spec ((n - 192) / 256 + 192) 192); [lia|].
  destruct (N.ltb_spec ((n - 192) / 256 + 192) 224); [|lia].
  rewrite b2n_n2b_small by lia. do 3 f_equal. lia.
Qed.

Lemma dec_enc_len5 n r : n < 4294967296 -> dec_new_len (enc_len5 n ++ r) = Ok (PFixed n, r).
Proof.
  intros H. unfold enc_len5, dec_new_len, be32. cbn [app].
  change (b2n xff) with 255. cbn [N.ltb].
  replace (255 <? 192) with false by reflexivity.
  replace (255 <? 224) with false by reflexivity.
  replace (255 <? 255) with false by reflexivity.
  rewrite de32_be32 by exact H. reflexivity.
Qed.

Lemma dec_enc_partial k r : k <= 30 -> dec_new_len (enc_partial k ++ r) = Ok (PPartial (2 ^ k), r).
Proof.
  intros H. unfold enc_partial, dec_new_len. cbn [app].
  rewrite b2n_n2b_small by lia.
  destruct (N.ltb_spec (224 + k) 192); [lia|].
  destruct (N.ltb_spec (224 + k) 224); [lia|].
  destruct (N.ltb_spec (224 + k) 255); [|lia].
  replace ((224 + k) mod 32) with k by lia. reflexivity.
Qed.

Definition class_of (n : N) : lcls :=
  if n <? 192 then L1 else if n <? 8384 then L2 else L5.

Lemma enc_new_len_class n : enc_new_len n = enc_fixed (class_of n) n.
Proof.
  unfold enc_new_len, class_of.
  destruct (n <? 192); [reflexivity|]. destruct (n <? 8384); reflexivity.
Qed.

Lemma cls_ok_class n : n < 4294967296 -> cls_ok (class_of n) n = true.
Proof.
  intros H. unfold class_of.
  destruct (N.ltb_spec n 192) as [H1|H1]; [cbn [cls_ok]; lia|].
  destruct (N.ltb_spec n 8384) as [H2|H2]; cbn [cls_ok]; lia.
Qed.

Lemma dec_enc_fixed c n r : cls_ok c n = true -> dec_new_len (enc_fixed c n ++ r) = Ok (PFixed n, r).
Proof.
  destruct c; cbn [cls_ok enc_fixed]; intros H.
  - apply dec_enc_len1. lia.
  - apply dec_enc_len2; lia.
  - apply dec_enc_len5. lia.
Qed.

Lemma dec_enc_new_len n r : n < 4294967296 -> dec_new_len (enc_new_len n ++ r) = Ok (PFixed n, r).
Proof.
  intros H. rewrite enc_new_len_class. apply dec_enc_fixed. apply cls_ok_class. exact H.
Qed.

Lemma length_enc_new_len n : lenN (enc_new_len n) = fixed_encoding_len n.
Proof.
  unfold enc_new_len, fixed_encoding_len.
  destruct (n <? 192); [reflexivity|]. destruct (n <? 8384); reflexivity.
Qed.

(* the class thresholds are exact *)
Lemma thresholds :
  fixed_encoding_len 191 = 1 /\ fixed_encoding_len 192 = 2 /\
  fixed_encoding_len 8383 = 2 /\ fixed_encoding_len 8384 = 5 /\
  header_len_old 255 = 2 /\ header_len_old 256 = 3 /\
  header_len_old 65535 = 3 /\ header_len_old 65536 = 5.
Proof. repeat split; reflexivity. Qed.

Lemma length_enc_header_new tag n : lenN (enc_header_new tag n) = header_len_new n.
Proof.
  unfold enc_header_new, header_len_new. rewrite lenN_cons, length_enc_new_len. reflexivity.
Qed.

Lemma length_enc_header_old tag n : lenN (enc_header_old tag n) = header_len_old n.
Proof.
  unfold enc_header_old, header_len_old.
  destruct (n <? 256); [reflexivity|]. destruct (n <? 65536); reflexivity.
Qed.

(* ------------------------------------------------ chunks *)

Lemma frame_chunks_length ks c body : (length ks < length (frame_chunks ks c body))%nat.
Proof.
  revert body; induction ks as [|k ks IH]; intros body; cbn [frame_chunks].
  - rewrite app_length. destruct c; cbn; lia.
  - unfold enc_partial. cbn [app length]. rewrite app_length.
    specialize (IH (dropN (2 ^ k) body)). lia.
Qed.

Lemma partial_tail_chunks ks c body rest fuel :
  forallb (fun k => k <=? 30) ks = true ->
  sum_pow ks <= lenN body ->
  cls_ok c (lenN body - sum_pow ks) = true ->
  (length ks < fuel)%nat ->
  partial_tail fuel (frame_chunks ks c body ++ rest) = Ok (body, rest).
Proof.
  revert body fuel; induction ks as [|k ks IH]; intros body fuel Hk Hs Hc Hf.
  - destruct fuel as [|f]; [cbn in Hf; lia|].
    cbn [frame_chunks partial_tail sum_pow] in *.
    rewrite <- app_assoc, dec_enc_fixed by (rewrite N.sub_0_r in Hc; exact Hc).
    rewrite lenN_app. destruct (N.leb_spec (lenN body) (lenN body + lenN rest)); [|lia].
    rewrite takeN_app, dropN_app. reflexivity.
  - destruct fuel as [|f]; [cbn in Hf; lia|].
    cbn [frame_chunks partial_tail sum_pow forallb] in *.
    apply andb_true_iff in Hk. destruct Hk as [Hk1 Hk].
    rewrite <- app_assoc, dec_enc_partial by lia.
    pose proof (pow2_pos k) as Hp.
    remember (2 ^ k) as cN eqn:HcN.
    assert (Hl : lenN (takeN cN body) = cN) by (rewrite lenN_takeN; lia).
    rewrite <- app_assoc.
    rewrite lenN_app, Hl.
    destruct (N.leb_spec cN (cN + lenN (frame_chunks ks c (dropN cN body) ++ rest))); [|lia].
    rewrite (takeN_app_exact cN _ _ Hl), (dropN_app_exact cN _ _ Hl).
    rewrite IH.
    + rewrite takeN_dropN. reflexivity.
    + exact Hk.
    + rewrite lenN_dropN. lia.
    + rewrite lenN_dropN. replace (lenN body - cN - sum_pow ks) with (lenN body - (cN + sum_pow ks)) by lia.
      exact Hc.
    + cbn in Hf. lia.
Qed.

(* ------------------------------------------------ reader accepts legal framings *)

Definition first_len (ks : list N) (c : lcls) (body : bytes) : plen :=
  match ks with [] => PFixed (lenN body) | k :: _ => PPartial (2 ^ k) end.

Theorem deframe_frame_new tag ks c body rest :
  legal_new tag ks c body = true ->
  deframe (frame_new tag ks c body ++ rest) =
  Ok ({| hf := HNew; htag := tag; hlen := first_len ks c body |}, body, rest).
Proof.
  unfold legal_new. intros H.
  repeat (apply andb_true_iff in H; destruct H as [H ?]).
  match goal with H1 : (tag <? 64) = true |- _ => rename H1 into Htag end.
  match goal with H1 : (sum_pow ks <=? lenN body) = true |- _ => rename H1 into Hsum end.
  match goal with H1 : cls_ok _ _ = true |- _ => rename H1 into Hcls end.
  match goal with H1 : forallb _ _ = true |- _ => rename H1 into Hall end.
  unfold deframe, frame_new, dec_header. cbn [app].
  rewrite b2n_n2b_small by lia.
  destruct (N.leb_spec 192 (192 + tag)); [|lia].
  replace ((192 + tag) mod 64) with tag by lia.
  destruct ks as [|k ks'].
  - cbn [frame_chunks sum_pow first_len] in *. rewrite N.sub_0_r in Hcls.
    rewrite <- app_assoc, dec_enc_fixed by exact Hcls. cbn [hlen].
    rewrite lenN_app. destruct (N.leb_spec (lenN body) (lenN body + lenN rest)); [|lia].
    rewrite takeN_app, dropN_app. reflexivity.
  - cbn [frame_chunks sum_pow first_len forallb] in *.
    match goal with H1 : (data_tag tag && (9 <=? k)) = true |- _ =>
      apply andb_true_iff in H1; destruct H1 as [Hdt Hk9] end.
    apply andb_true_iff in Hall. destruct Hall as [Hk30 Hall].
    rewrite <- app_assoc, dec_enc_partial by lia. cbn [hlen htag].
    rewrite Hdt. pose proof (pow2_ge_9 k ltac:(lia)) as H512.
    remember (2 ^ k) as cN eqn:HcN.
    destruct (N.leb_spec 512 cN); [|lia]. cbn [andb].
    assert (Hl : lenN (takeN cN body) = cN) by (rewrite lenN_takeN; lia).
    rewrite <- app_assoc, lenN_app, Hl.
    destruct (N.leb_spec cN (cN + lenN (frame_chunks ks' c (dropN cN body) ++ rest))); [|lia].
    rewrite (takeN_app_exact cN _ _ Hl), (dropN_app_exact cN _ _ Hl).
    rewrite partial_tail_chunks.
    + rewrite takeN_dropN. reflexivity.
    + exact Hall.
    + rewrite lenN_dropN. lia.
    + rewrite lenN_dropN. replace (lenN body - cN - sum_pow ks') with (lenN body - (cN + sum_pow ks')) by lia.
      exact Hcls.
    + rewrite !app_length. pose proof (frame_chunks_length ks' c (dropN cN body)). lia.
Qed.

Theorem deframe_frame_old tag lt body rest :
  legal_old tag lt body = true ->
  (lt = 3 -> rest = []) ->
  deframe (frame_old tag lt body ++ rest) =
  Ok ({| hf := HOld; htag := tag; hlen := if lt =? 3 then PIndet else PFixed (lenN body) |}, body, rest).
Proof.
  unfold legal_old. intros H Hrest.
  apply andb_true_iff in H. destruct H as [Htag H].
  assert (Hlt : lt <= 3).
  { destruct (N.eqb_spec lt 0); [lia|]. destruct (N.eqb_spec lt 1); [lia|].
    destruct (N.eqb_spec lt 2); [lia|]. lia. }
  unfold deframe, frame_old, dec_header. cbn [app].
  rewrite b2n_n2b_small by lia.
  destruct (N.leb_spec 192 (128 + tag * 4 + lt)); [lia|].
  destruct (N.leb_spec 128 (128 + tag * 4 + lt)); [|lia].
  replace ((128 + tag * 4 + lt) / 4 mod 16) with tag by lia.
  replace ((128 + tag * 4 + lt) mod 4) with lt by lia.
  destruct (N.eqb_spec lt 0) as [E0|E0].
  { subst lt. cbn [app]. rewrite b2n_n2b_small by lia. cbn [hlen].
    replace (0 =? 3) with false by reflexivity.
    rewrite lenN_app. destruct (N.leb_spec (lenN body) (lenN body + lenN rest)); [|lia].
    rewrite takeN_app, dropN_app. reflexivity. }
  destruct (N.eqb_spec lt 1) as [E1|E1].
  { subst lt. unfold be16. cbn [app]. rewrite de16_be16 by lia. cbn [hlen].
    replace (1 =? 3) with false by reflexivity.
    rewrite lenN_app. destruct (N.leb_spec (lenN body) (lenN body + lenN rest)); [|lia].
    rewrite takeN_app, dropN_app. reflexivity. }
  destruct (N.eqb_spec lt 2) as [E2|E2].
  { subst lt. unfold be32. cbn [app]. rewrite de32_be32 by lia. cbn [hlen].
    replace (2 =? 3) with false by reflexivity.
    rewrite lenN_app. destruct (N.leb_spec (lenN body) (lenN body + lenN rest)); [|lia].
    rewrite takeN_app, dropN_app. reflexivity. }
  assert (lt = 3) by lia. subst lt. rewrite (Hrest eq_refl), app_nil_r. cbn [app hlen].
  reflexivity.
Qed.

(* ------------------------------------------------ reader rejects illegal framings *)

Theorem deframe_rejects_partial_nondata b h r n :
  dec_header b = Ok (h, r) -> hlen h = PPartial n -> data_tag (htag h) = false ->
  deframe b = Err.
Proof. intros H1 H2 H3. unfold deframe. rewrite H1, H2, H3. reflexivity. Qed.

Theorem deframe_rejects_short_first_partial b h r n :
  dec_header b = Ok (h, r) -> hlen h = PPartial n -> n < 512 -> deframe b = Err.
Proof.
  intros H1 H2 H3. unfold deframe. rewrite H1, H2.
  destruct (N.leb_spec 512 n); [lia|]. rewrite andb_false_r. reflexivity.
Qed.

Theorem deframe_rejects_short_fixed b h r n :
  dec_header b = Ok (h, r) -> hlen h = PFixed n -> lenN r < n -> deframe b = Err.
Proof.
  intros H1 H2 H3. unfold deframe. rewrite H1, H2.
  destruct (N.leb_spec n (lenN r)); [lia|reflexivity].
Qed.

Theorem deframe_rejects_short_partial b h r n :
  dec_header b = Ok (h, r) -> hlen h = PPartial n -> lenN r < n -> deframe b = Err.
Proof.
  intros H1 H2 H3. unfold deframe. rewrite H1, H2.
  destruct (data_tag (htag h) && (512 <=? n)); [|reflexivity].
  destruct (N.leb_spec n (lenN r)); [lia|reflexivity].
Qed.

(* whatever is accepted accounts for every octet: nothing is silently dropped
   or mis-split.  [overhead] = header and length octets. *)
Lemma partial_tail_accounts fuel b x rest :
  partial_tail fuel b = Ok (x, rest) -> lenN x + lenN rest < lenN b.
Proof.
  revert b x rest; induction fuel as [|f IH]; intros b x rest H; [discriminate|].
  cbn [partial_tail] in H.
  destruct (dec_new_len b) as [[l r]| |] eqn:E; try discriminate.
  assert (Hr : lenN r < lenN b).
  { unfold dec_new_len in E. destruct b as [|o t]; [discriminate|].
    rewrite lenN_cons.
    destruct (b2n o <? 192); [injection E as _ <-; lia|].
    destruct (b2n o <? 224).
    { destruct t as [|a t']; [discriminate|]. injection E as _ <-. rewrite lenN_cons. lia. }
    destruct (b2n o <? 255); [injection E as _ <-; lia|].
    destruct t as [|a [|b0 [|c [|d t']]]]; try discriminate.
    injection E as _ <-. rewrite !lenN_cons. lia. }
  destruct l as [n|n|]; try discriminate.
  - destruct (N.leb_spec n (lenN r)); [|discriminate].
    injection H as <- <-. rewrite lenN_takeN, lenN_dropN. lia.
  - destruct (N.leb_spec n (lenN r)); [|discriminate].
    destruct (partial_tail f (dropN n r)) as [[x' rest']| |] eqn:E2; try discriminate.
    injection H as <- <-. apply IH in E2. rewrite lenN_dropN in E2.
    rewrite lenN_app, lenN_takeN. lia.
Qed.

(* ------------------------------------------------ writer emits only legal framings *)

Lemma sum_pow_repeat k m : sum_pow (repeat k m) = N.of_nat m * 2 ^ k.
Proof.
  induction m as [|m IH]; [reflexivity|]. cbn [repeat sum_pow]. rewrite IH. lia.
Qed.

Lemma forallb_repeat k m : k <= 30 -> forallb (fun k => k <=? 30) (repeat k m) = true.
Proof.
  intros H. induction m as [|m IH]; [reflexivity|]. cbn [repeat forallb]. rewrite IH.
  destruct (N.leb_spec k 30); [reflexivity|lia].
Qed.

Lemma emit_rest_spec fuel k data :
  (length data < fuel)%nat ->
  exists m, emit_rest fuel k data =
            frame_chunks (repeat k m) (class_of (lenN data - N.of_nat m * 2 ^ k)) data
            /\ N.of_nat m * 2 ^ k <= lenN data /\ lenN data - N.of_nat m * 2 ^ k < 2 ^ k.
Proof.
  pose proof (pow2_pos k) as Hp. remember (2 ^ k) as c eqn:Hc.
  revert data; induction fuel as [|f IH]; intros data Hf; [lia|].
  cbn [emit_rest]. rewrite <- Hc.
  destruct (N.eqb_spec (lenN (takeN c data)) c) as [E|E].
  - assert (Hle : c <= lenN data) by (rewrite lenN_takeN in E; lia).
    destruct (IH (dropN c data)) as [m [H1 [H2 H3]]].
    { assert (lenN (dropN c data) < lenN data) by (rewrite lenN_dropN; lia).
      unfold lenN in *. lia. }
    exists (S m). rewrite lenN_dropN in *. cbn [repeat frame_chunks]. rewrite <- Hc.
    rewrite H1. replace (lenN data - c - N.of_nat m * c) with (lenN data - N.of_nat (S m) * c) by lia.
    split; [reflexivity|]. split; lia.
  - assert (Hlt : lenN data < c) by (rewrite lenN_takeN in E; lia).
    exists 0%nat. cbn [repeat frame_chunks]. rewrite takeN_all by lia.
    replace (lenN data - N.of_nat 0 * c) with (lenN data) by lia.
    rewrite enc_new_len_class. split; [reflexivity|]. split; lia.
Qed.

Theorem emit_partial_is_legal_frame tag k h data :
  data_tag tag = true -> 9 <= k -> k <= 30 -> lenN h <= 2 ^ k ->
  exists ks c, emit_partial tag k h data = frame_new tag ks c (h ++ data)
               /\ legal_new tag ks c (h ++ data) = true.
Proof.
  intros Hdt Hk9 Hk30 Hh.
  assert (Htag : tag < 64).
  { unfold data_tag in Hdt. lia. }
  pose proof (pow2_ge_9 k Hk9) as H512. pose proof (pow2_le_30 k Hk30) as Hmax.
  unfold emit_partial.
  remember (2 ^ k) as c eqn:Hc.
  destruct (N.ltb_spec (lenN (takeN (c - lenN h) data)) (c - lenN h)) as [Hshort|Hfull].
  - (* everything fits into one fixed packet *)
    assert (Hall : takeN (c - lenN h) data = data).
    { apply takeN_all. rewrite lenN_takeN in Hshort. lia. }
    rewrite Hall in *.
    exists [], (class_of (lenN data + lenN h)).
    unfold frame_new. cbn [frame_chunks].
    rewrite lenN_app, (N.add_comm (lenN h)), <- enc_new_len_class.
    split; [reflexivity|].
    unfold legal_new. cbn [sum_pow forallb]. rewrite N.sub_0_r, lenN_app, (N.add_comm (lenN h)).
    rewrite cls_ok_class by lia.
    destruct (N.ltb_spec tag 64); [|lia].
    destruct (N.leb_spec 0 (lenN data + lenN h)); [reflexivity|lia].
  - (* first chunk is a full partial chunk *)
    assert (Hlen1 : lenN (takeN (c - lenN h) data) = c - lenN h) by (rewrite lenN_takeN in *; lia).
    assert (Hdl : c - lenN h <= lenN data) by (rewrite lenN_takeN in Hlen1; lia).
    destruct (emit_rest_spec (S (length data)) k (dropN (c - lenN h) data)) as [m [H1 [H2 H3]]].
    { assert (lenN (dropN (c - lenN h) data) <= lenN data) by (rewrite lenN_dropN; lia).
      unfold lenN in *. lia. }
    rewrite <- Hc in *. rewrite lenN_dropN in *.
    exists (k :: repeat k m), (class_of (lenN data - (c - lenN h) - N.of_nat m * c)).
    split.
    + unfold frame_new. cbn [frame_chunks]. rewrite <- Hc. f_equal. f_equal.
      assert (Ht : takeN c (h ++ data) = h ++ takeN (c - lenN h) data).
      { rewrite !takeN_firstn. rewrite firstn_app. unfold lenN.
        rewrite (firstn_all2 h) by (unfold lenN in Hh; lia).
        do 2 f_equal. unfold lenN. lia. }
      assert (Hd : dropN c (h ++ data) = dropN (c - lenN h) data).
      { rewrite !dropN_skipn. rewrite skipn_app. unfold lenN.
        rewrite (skipn_all2 h) by (unfold lenN in Hh; lia).
        cbn [app]. f_equal. unfold lenN. lia. }
      rewrite Ht, Hd, H1, <- app_assoc. reflexivity.
    + unfold legal_new. cbn [sum_pow forallb]. rewrite <- Hc.
      rewrite sum_pow_repeat, <- Hc, lenN_app, Hdt.
      rewrite forallb_repeat by exact Hk30.
      replace (lenN h + lenN data - (c + N.of_nat m * c))
        with (lenN data - (c - lenN h) - N.of_nat m * c) by lia.
      rewrite cls_ok_class by lia.
      destruct (N.ltb_spec tag 64); [|lia].
      destruct (N.leb_spec (c + N.of_nat m * c) (lenN h + lenN data)); [|lia].
      destruct (N.leb_spec k 30); [|lia].
      destruct (N.leb_spec 9 k); [|lia].
      reflexivity.
Qed.

Theorem deframe_emit_partial tag k h data rest :
  data_tag tag = true -> 9 <= k -> k <= 30 -> lenN h <= 2 ^ k ->
  exists l, deframe (emit_partial tag k h data ++ rest) =
            Ok ({| hf := HNew; htag := tag; hlen := l |}, h ++ data, rest).
Proof.
  intros Hdt Hk9 Hk30 Hh.
  destruct (emit_partial_is_legal_frame tag k h data Hdt Hk9 Hk30 Hh) as [ks [c [E L]]].
  rewrite E. eexists. apply deframe_frame_new. exact L.
Qed.

Theorem deframe_emit_fixed tag h data rest :
  tag < 64 -> lenN h + lenN data < 4294967296 ->
  deframe (emit_fixed tag h data ++ rest) =
  Ok ({| hf := HNew; htag := tag; hlen := PFixed (lenN h + lenN data) |}, h ++ data, rest).
Proof.
  intros Htag Hlen.
  assert (E : emit_fixed tag h data = frame_new tag [] (class_of (lenN (h ++ data))) (h ++ data)).
  { unfold emit_fixed, enc_header_new, frame_new. cbn [frame_chunks app].
    rewrite <- enc_new_len_class, lenN_app. reflexivity. }
  rewrite E, deframe_frame_new.
  - cbn [first_len]. rewrite lenN_app. reflexivity.
  - unfold legal_new. cbn [sum_pow forallb]. rewrite N.sub_0_r, lenN_app.
    rewrite cls_ok_class by lia.
    destruct (N.ltb_spec tag 64); [|lia].
    destruct (N.leb_spec 0 (lenN h + lenN data)); [reflexivity|lia].
Qed.
