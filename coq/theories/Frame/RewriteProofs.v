From Coq Require Import Lia ZifyBool ZifyN ZifyNat.
From Rpgp Require Import Base.Octets Base.Res Frame.Framing Frame.FramingProofs Frame.Rewrite.

Lemma min_old_legal tag body : tag < 16 -> lenN body < 4294967296 -> legal_old tag (min_old_lt (lenN body)) body = true.
Proof.
  intros Ht Hl. unfold legal_old, min_old_lt. apply andb_true_iff. split; [lia|].
  destruct (N.ltb_spec (lenN body) 256) as [H|H].
  - change (0 =? 0) with true. cbv iota. lia.
  - destruct (N.ltb_spec (lenN body) 65536) as [H2|H2].
    + change (1 =? 0) with false. change (1 =? 1) with true. cbv iota. lia.
    + change (2 =? 0) with false. change (2 =? 1) with false. change (2 =? 2) with true. cbv iota. lia.
Qed.

(* what was read from any header is written as a legal framing of the body now held *)
Theorem rewrite_deframes h body rest :
  tag_fits h = true -> lenN body < 4294967296 -> (hlen h = PIndet -> hf h = HOld /\ rest = []) ->
  exists h', deframe (rewrite h body ++ rest) = Ok (h', body, rest) /\ hf h' = hf h /\ htag h' = htag h /\
             (hlen h <> PIndet -> hlen h' = PFixed (lenN body)).
Proof.
  intros Ht Hl Hi. unfold rewrite, tag_fits in *.
  destruct (hlen h) as [n|n|] eqn:El.
  -
    destruct (hf h) eqn:Ef.
    + exists {| hf := HNew; htag := htag h; hlen := PFixed (lenN (@nil byte) + lenN body) |}.
      rewrite deframe_emit_fixed by (rewrite ?lenN_nil; lia). cbn [app hf htag hlen]. rewrite lenN_nil. repeat split; intros; f_equal; lia.
    + eexists. rewrite deframe_frame_old; [|apply min_old_legal; lia|unfold min_old_lt; destruct (lenN body <? 256), (lenN body <? 65536); discriminate].
      cbn [hf htag hlen]. repeat split.
      intros _. unfold min_old_lt. destruct (lenN body <? 256), (lenN body <? 65536); reflexivity.
  -
    destruct (hf h) eqn:Ef.
    + exists {| hf := HNew; htag := htag h; hlen := PFixed (lenN (@nil byte) + lenN body) |}.
      rewrite deframe_emit_fixed by (rewrite ?lenN_nil; lia). cbn [app hf htag hlen]. rewrite lenN_nil. repeat split; intros; f_equal; lia.
    + eexists. rewrite deframe_frame_old; [|apply min_old_legal; lia|unfold min_old_lt; destruct (lenN body <? 256), (lenN body <? 65536); discriminate].
      cbn [hf htag hlen]. repeat split.
      intros _. unfold min_old_lt. destruct (lenN body <? 256), (lenN body <? 65536); reflexivity.
  - destruct (Hi eq_refl) as [Ef ->]. rewrite Ef in Ht.
    exists {| hf := HOld; htag := htag h; hlen := PIndet |}.
    rewrite deframe_frame_old; [|unfold legal_old; apply andb_true_iff; split; [lia|reflexivity]|reflexivity].
    change (3 =? 3) with true. cbn [hf htag hlen]. rewrite Ef. repeat split. intros H; congruence.
Qed.

(* written, read and written again: the same octets (the header that is read back rebuilds itself) *)
Theorem rewrite_fixed_point h h' body :
  hf h' = hf h -> htag h' = htag h -> (hlen h = PIndet <-> hlen h' = PIndet) -> rewrite h' body = rewrite h body.
Proof.
  intros Ef Et Ei. unfold rewrite. rewrite Ef, Et.
  destruct (hlen h) as [n|n|], (hlen h') as [m|m|]; try reflexivity;
    try (exfalso; destruct Ei as [A B]; (discriminate (A eq_refl) || discriminate (B eq_refl))).
Qed.
