From Coq Require Import Lia ZifyBool ZifyN ZifyNat.
From Rpgp Require Import Base.Octets Base.Res Frame.Framing Io.Emitter Io.EmitterProofs Frame.FixedWriter.

Theorem fw_machine_is_spec tag h (req : N -> N) data :
  fw_run tag h req data = (emit_fixed tag h data, EClean).
Proof.
  unfold fw_run.
  destruct (whole_list (fw_stages tag h data)) as (Hw & Hs). cbn [fw_stages length] in Hw, Hs.
  rewrite (drive_whole (list bytes) adv_list 3 req _ 0 [] (fw_stages tag h data) 2 Hs).
  - cbn [app]. rewrite Hw. unfold fw_stages. cbn [concat]. rewrite app_nil_r. unfold emit_fixed. rewrite <- app_assoc. reflexivity.
  - rewrite Hw. unfold fw_stages. cbn [concat length]. rewrite app_nil_r.
    unfold emit_fixed. rewrite !app_length. lia.
Qed.

Corollary fw_request_independent tag h (req1 req2 : N -> N) data :
  fw_run tag h req1 data = fw_run tag h req2 data.
Proof. rewrite !fw_machine_is_spec. reflexivity. Qed.
