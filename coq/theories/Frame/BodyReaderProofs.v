(* Frame/BodyReaderProofs.v -- the PacketBodyReader machine delivers Framing.deframe's body,
   for every sequence of request sizes. *)
From Coq Require Import ZifyBool ZifyN ZifyNat.
From Rpgp Require Import Base.Octets Base.OctetsMore Base.Res Frame.Framing Frame.BodyReader.
Ltac Zify.zify_post_hook ::= Z.div_mod_to_equations.

Lemma deframe_body b :
  deframe b =
  match dec_header b with
  | Ok (h, r) => match body_spec h r with Ok (x, rest) => Ok (h, x, rest) | Err => Err | Panic => Panic end
  | Err => Err
  | Panic => Panic
  end.
Proof.
  unfold deframe, body_spec. destruct (dec_header b) as [[h r]| |]; try reflexivity.
  destruct (hlen h) as [n|n|]; try reflexivity.
  - destruct (n <=? lenN r); reflexivity.
  - destruct (data_tag (htag h) && (512 <=? n)); [|reflexivity].
    destruct (n <=? lenN r); [|reflexivity].
    destruct (partial_tail (S (length r)) (dropN n r)) as [[x rest]| |]; reflexivity.
Qed.

Lemma dec_new_len_shorter b p r : dec_new_len b = Ok (p, r) -> (length r < length b)%nat.
Proof.
  unfold dec_new_len. destruct b as [|o t]; [discriminate|].
  destruct (b2n o <? 192); [intros H; injection H as _ <-; cbn; lia|].
  destruct (b2n o <? 224).
  { destruct t as [|a t']; [discriminate|]. intros H; injection H as _ <-. cbn. lia. }
  destruct (b2n o <? 255); [intros H; injection H as _ <-; cbn; lia|].
  destruct t as [|a [|b0 [|c [|d t']]]]; try discriminate. intros H; injection H as _ <-. cbn. lia.
Qed.

Lemma dec_new_len_not_indet b r : dec_new_len b <> Ok (PIndet, r).
Proof.
  unfold dec_new_len. destruct b as [|o t]; [discriminate|].
  destruct (b2n o <? 192); [discriminate|].
  destruct (b2n o <? 224); [destruct t; discriminate|].
  destruct (b2n o <? 255); [discriminate|].
  destruct t as [|a [|b0 [|c [|d t']]]]; discriminate.
Qed.

(* what is still to be delivered from a state with an empty buffer *)
Definition rest_spec (f : nat) (lim : limit) (src : bytes) : res (bytes * bytes) :=
  match lim with
  | LFixed n => if n <=? lenN src then Ok (takeN n src, dropN n src) else Err
  | LIndet => Ok (src, [])
  | LPartial n =>
      if n <=? lenN src then
        match partial_tail f (dropN n src) with
        | Ok (x, rest) => Ok (takeN n src ++ x, rest)
        | Err => Err
        | Panic => Panic
        end
      else Err
  end.

Lemma body_spec_rest h r :
  bph (br_new h r) = BBody -> body_spec h r = rest_spec (S (length r)) (blim (br_new h r)) (bsrc (br_new h r)).
Proof.
  unfold br_new, body_spec. destruct (hlen h) as [n|n|]; cbn [bph blim bsrc rest_spec]; try reflexivity.
  destruct (data_tag (htag h) && (512 <=? n)); cbn [bph blim bsrc rest_spec]; [reflexivity|discriminate].
Qed.

(* reading k octets through the limit *)
Lemma rest_spec_advance_ok f lim src k x rest :
  1 <= k -> k <= avail lim src -> rest_spec f lim src = Ok (x, rest) ->
  exists x', rest_spec f (lim_sub lim k) (dropN k src) = Ok (x', rest) /\ x = takeN k src ++ x'.
Proof.
  intros Hk Ha. destruct lim as [n| |n]; cbn [rest_spec lim_sub avail] in *.
  - destruct (N.leb_spec n (lenN src)) as [Hn|Hn]; [|discriminate]. intros H; injection H as <- <-.
    rewrite lenN_dropN. replace (n - k <=? lenN src - k) with true by (symmetry; apply N.leb_le; lia).
    eexists. split; [|apply (takeN_split k n src); lia].
    rewrite dropN_dropN. replace (k + (n - k)) with n by lia. reflexivity.
  - intros H; injection H as <- <-. exists (dropN k src). split; [reflexivity|]. symmetry. apply takeN_dropN.
  - destruct (N.leb_spec n (lenN src)) as [Hn|Hn]; [|discriminate].
    rewrite lenN_dropN. replace (n - k <=? lenN src - k) with true by (symmetry; apply N.leb_le; lia).
    rewrite dropN_dropN. replace (k + (n - k)) with n by lia.
    destruct (partial_tail f (dropN n src)) as [[y r]| |]; try discriminate.
    intros H; injection H as <- <-. eexists. split; [reflexivity|].
    rewrite (takeN_split k n src) by lia. rewrite <- app_assoc. reflexivity.
Qed.

Lemma rest_spec_advance_err f lim src k :
  1 <= k -> k <= avail lim src -> rest_spec f lim src = Err ->
  rest_spec f (lim_sub lim k) (dropN k src) = Err.
Proof.
  intros Hk Ha. destruct lim as [n| |n]; cbn [rest_spec lim_sub avail] in *.
  - destruct (N.leb_spec n (lenN src)) as [Hn|Hn]; [discriminate|]. intros _.
    rewrite lenN_dropN. replace (n - k <=? lenN src - k) with false by (symmetry; apply N.leb_gt; lia). reflexivity.
  - discriminate.
  - rewrite lenN_dropN. destruct (N.leb_spec n (lenN src)) as [Hn|Hn].
    + replace (n - k <=? lenN src - k) with true by (symmetry; apply N.leb_le; lia).
      rewrite dropN_dropN. replace (k + (n - k)) with n by lia.
      destruct (partial_tail f (dropN n src)) as [[y r]| |]; try discriminate. reflexivity.
    + intros _. replace (n - k <=? lenN src - k) with false by (symmetry; apply N.leb_gt; lia). reflexivity.
Qed.

Lemma dec_new_len_no_panic b : dec_new_len b <> Panic.
Proof.
  unfold dec_new_len. destruct b as [|o t]; [discriminate|].
  destruct (b2n o <? 192); [discriminate|].
  destruct (b2n o <? 224); [destruct t; discriminate|].
  destruct (b2n o <? 255); [discriminate|].
  destruct t as [|a [|b0 [|c [|d t']]]]; discriminate.
Qed.

Lemma partial_tail_no_panic f b : partial_tail f b <> Panic.
Proof.
  revert b; induction f as [|f IH]; intros b; cbn [partial_tail]; [discriminate|].
  pose proof (dec_new_len_no_panic b) as Hnp.
  destruct (dec_new_len b) as [[[n|n|] r]| |]; try discriminate; try congruence.
  - destruct (n <=? lenN r); discriminate.
  - destruct (n <=? lenN r); [|discriminate].
    specialize (IH (dropN n r)). destruct (partial_tail f (dropN n r)) as [[x rest]| |]; try discriminate. congruence.
Qed.

Lemma rest_spec_no_panic f lim src : rest_spec f lim src <> Panic.
Proof.
  destruct lim as [n| |n]; cbn [rest_spec]; try discriminate.
  - destruct (n <=? lenN src); discriminate.
  - destruct (n <=? lenN src); [|discriminate].
    pose proof (partial_tail_no_panic f (dropN n src)). destruct (partial_tail f (dropN n src)) as [[x rest]| |]; try discriminate. congruence.
Qed.

(* one refill from an empty buffer *)
Definition fresh (lim : limit) (src : bytes) : br := {| bph := BBody; bbuf := []; blim := lim; bsrc := src |}.

Definition after_fill_ok (s' : br) (src x rest : bytes) : Prop :=
  (x = [] /\ bph s' = BDone /\ bsrc s' = rest) \/
  (bph s' = BBody /\ bbuf s' <> [] /\
   exists f' x', (length (bsrc s') < f')%nat /\ rest_spec f' (blim s') (bsrc s') = Ok (x', rest) /\
                 x = bbuf s' ++ x' /\ (length (bsrc s') + length (bbuf s') <= length src)%nat).

Definition after_fill_err (s' : br) (src : bytes) : Prop :=
  bph s' = BErr \/
  (bph s' = BBody /\ bbuf s' <> [] /\
   exists f', (length (bsrc s') < f')%nat /\ rest_spec f' (blim s') (bsrc s') = Err /\
              (length (bsrc s') + length (bbuf s') <= length src)%nat).

Lemma fill_spec ff : forall lim src f,
  (length src < ff)%nat -> (length src < f)%nat ->
  match rest_spec f lim src with
  | Ok (x, rest) => after_fill_ok (br_fill ff (fresh lim src)) src x rest
  | Err => after_fill_err (br_fill ff (fresh lim src)) src
  | Panic => True
  end.
Proof.
  induction ff as [|ff IH]; intros lim src f Hff Hf; [lia|].
  cbn [br_fill fresh bph bbuf blim bsrc is_nilb negb].
  set (k := N.min BUFSZ (avail lim src)).
  destruct (N.ltb_spec 0 k) as [Hk|Hk].
  - (* octets arrive *)
    assert (Hka : k <= avail lim src) by (unfold k; lia).
    assert (Hks : k <= lenN src) by (destruct lim; cbn [avail] in Hka; lia).
    assert (Hne : takeN k src <> []) by (apply takeN_pos_ne; lia).
    assert (Hlen : (length (dropN k src) + length (takeN k src) <= length src)%nat).
    { rewrite <- (takeN_dropN k src) at 3. rewrite app_length. lia. }
    assert (Hf' : (length (dropN k src) < f)%nat).
    { pose proof (lenN_dropN k src) as Hd. unfold lenN in Hd. lia. }
    destruct (rest_spec f lim src) as [[x rest]| |] eqn:Es.
    + right. cbn [bph bbuf blim bsrc]. split; [reflexivity|]. split; [exact Hne|].
      destruct (rest_spec_advance_ok f lim src k x rest ltac:(lia) Hka Es) as (x' & Hx' & Hxx).
      exists f, x'. repeat split; assumption.
    + right. cbn [bph bbuf blim bsrc]. split; [reflexivity|]. split; [exact Hne|].
      exists f. repeat split; [exact Hf'| |exact Hlen].
      apply rest_spec_advance_err; [lia|exact Hka|exact Es].
    + exact I.
  - (* nothing more through the limit *)
    assert (Ha0 : avail lim src = 0) by (unfold k, BUFSZ in Hk; lia).
    destruct lim as [n| |n]; cbn [avail] in Ha0; cbn [rest_spec].
    + destruct (N.ltb_spec 0 n) as [Hn|Hn].
      * replace (n <=? lenN src) with false by (symmetry; apply N.leb_gt; lia). left. reflexivity.
      * replace n with 0 by lia. cbn [N.leb]. replace (0 <=? lenN src) with true by (symmetry; apply N.leb_le; lia).
        left. rewrite takeN_0, dropN_0. repeat split.
    + assert (Hs : src = []) by (apply lenN_0_nil; exact Ha0). subst src. left. repeat split.
    + (* the chunk is used up: the next length *)
      destruct (N.leb_spec n (lenN src)) as [Hn|Hn].
      * assert (Hn0 : n = 0 \/ src = []) by (destruct (N.eqb_spec n 0); [left; assumption|right; apply lenN_0_nil; lia]).
        assert (Hd : dropN n src = src).
        { destruct Hn0 as [->| ->]; [apply dropN_0|]. destruct n; reflexivity. }
        assert (Ht : takeN n src = []).
        { destruct Hn0 as [->| ->]; [apply takeN_0|]. destruct n; reflexivity. }
        rewrite Hd, Ht. destruct f as [|f0]; [lia|]. cbn [partial_tail app].
        destruct (dec_new_len src) as [[[m|m|] r]| |] eqn:Ed.
        -- pose proof (dec_new_len_shorter _ _ _ Ed) as Hsh.
           specialize (IH (LFixed m) r f0 ltac:(lia) ltac:(lia)). cbn [rest_spec] in IH. unfold fresh in IH.
           destruct (m <=? lenN r).
           ++ destruct IH as [IH|(Hp & Hb & f' & x' & H1 & H2 & H3 & H4)]; [left; exact IH|].
              right. split; [exact Hp|]. split; [exact Hb|]. exists f', x'. repeat split; try assumption. lia.
           ++ destruct IH as [IH|(Hp & Hb & f' & H1 & H2 & H4)]; [left; exact IH|].
              right. split; [exact Hp|]. split; [exact Hb|]. exists f'. repeat split; try assumption. lia.
        -- pose proof (dec_new_len_shorter _ _ _ Ed) as Hsh.
           specialize (IH (LPartial m) r f0 ltac:(lia) ltac:(lia)). cbn [rest_spec] in IH. unfold fresh in IH.
           destruct (m <=? lenN r).
           ++ destruct (partial_tail f0 (dropN m r)) as [[y rr]| |].
              ** destruct IH as [IH|(Hp & Hb & f' & x' & H1 & H2 & H3 & H4)]; [left; exact IH|].
                 right. split; [exact Hp|]. split; [exact Hb|]. exists f', x'. repeat split; try assumption. lia.
              ** destruct IH as [IH|(Hp & Hb & f' & H1 & H2 & H4)]; [left; exact IH|].
                 right. split; [exact Hp|]. split; [exact Hb|]. exists f'. repeat split; try assumption. lia.
              ** exact I.
           ++ destruct IH as [IH|(Hp & Hb & f' & H1 & H2 & H4)]; [left; exact IH|].
              right. split; [exact Hp|]. split; [exact Hb|]. exists f'. repeat split; try assumption. lia.
        -- exfalso. exact (dec_new_len_not_indet _ _ Ed).
        -- left. reflexivity.
        -- exact I.
      * (* the source ended inside the chunk *)
        assert (Hs : src = []) by (apply lenN_0_nil; lia). subst src.
        cbn [dec_new_len]. left. reflexivity.
Qed.


Lemma br_fill_nonempty ff s : bph s = BBody -> bbuf s <> [] -> br_fill ff s = s.
Proof.
  intros Hp Hb. destruct ff; cbn [br_fill]; rewrite Hp; destruct (bbuf s); try congruence; reflexivity.
Qed.

Lemma br_eta s : s = {| bph := bph s; bbuf := bbuf s; blim := blim s; bsrc := bsrc s |}.
Proof. destruct s; reflexivity. Qed.

(* handing out from a non-empty buffer *)
Lemma take_from_buffer n s :
  bph s = BBody -> bbuf s <> [] -> 1 <= n ->
  br_take n s = ({| bph := BBody; bbuf := dropN (N.min (lenN (bbuf s)) n) (bbuf s); blim := blim s; bsrc := bsrc s |},
                 Ok (takeN (N.min (lenN (bbuf s)) n) (bbuf s))).
Proof.
  intros Hp Hb Hn. unfold br_take. rewrite Hp. destruct (bbuf s) eqn:Eb; [congruence|]. rewrite Hp, Eb. reflexivity.
Qed.

(* every sequence of requests: what is buffered, then what the specification still owes *)
Lemma drive_body req fd : forall i s f,
  bph s = BBody -> (length (bsrc s) < f)%nat -> (length (bbuf s) + length (bsrc s) + 2 <= fd)%nat ->
  match rest_spec f (blim s) (bsrc s) with
  | Ok (x, rest) => br_drive req fd i s = (bbuf s ++ x, BrClean, rest)
  | Err => exists o r, br_drive req fd i s = (o, BrFailed, r)
  | Panic => True
  end.
Proof.
  induction fd as [|fd IH]; intros i s f Hp Hf Hfd; [lia|].
  assert (Hn : 1 <= N.max 1 (req i)) by lia.
  (* one step from a state whose buffer is not empty *)
  assert (Hstep : forall s1 f1, bph s1 = BBody -> bbuf s1 <> [] -> (length (bsrc s1) < f1)%nat ->
            (length (bbuf s1) + length (bsrc s1) + 1 <= fd)%nat ->
            br_take (N.max 1 (req i)) s = br_take (N.max 1 (req i)) s1 ->
            match rest_spec f1 (blim s1) (bsrc s1) with
            | Ok (x, rest) => br_drive req (S fd) i s = (bbuf s1 ++ x, BrClean, rest)
            | Err => exists o r, br_drive req (S fd) i s = (o, BrFailed, r)
            | Panic => True
            end).
  { intros s1 f1 Hp1 Hb1 Hf1 Hfd1 Heq. cbn [br_drive]. rewrite Heq, (take_from_buffer _ s1 Hp1 Hb1 Hn).
    set (k := N.min (lenN (bbuf s1)) (N.max 1 (req i))).
    assert (Hl1 : 1 <= lenN (bbuf s1)) by (destruct (bbuf s1); [congruence|rewrite lenN_cons; lia]).
    assert (Hk : 1 <= k) by (unfold k; lia).
    assert (Hd : (length (dropN k (bbuf s1)) < length (bbuf s1))%nat).
    { pose proof (lenN_dropN k (bbuf s1)) as Hx. unfold lenN in *. lia. }
    specialize (IH (N.succ i) {| bph := BBody; bbuf := dropN k (bbuf s1); blim := blim s1; bsrc := bsrc s1 |} f1 eq_refl Hf1). cbn [bbuf bsrc blim] in IH. specialize (IH ltac:(lia)).
    destruct (takeN k (bbuf s1)) as [|o0 ot] eqn:Et; [exfalso; exact (takeN_pos_ne k (bbuf s1) Hk Hl1 Et)|].
    rewrite <- Et.
    destruct (rest_spec f1 (blim s1) (bsrc s1)) as [[x rest]| |]; [| |exact I].
    - rewrite IH. rewrite app_assoc, takeN_dropN. reflexivity.
    - destruct IH as (o & r & ->). eexists _, _. reflexivity. }
  destruct (bbuf s) as [|b0 bt] eqn:Eb.
  - (* refill *)
    assert (Hs : s = fresh (blim s) (bsrc s)) by (rewrite (br_eta s) at 1; rewrite Hp, Eb; reflexivity).
    pose proof (fill_spec (S (length (bsrc s))) (blim s) (bsrc s) f ltac:(lia) Hf) as Hfill.
    set (s1 := br_fill (S (length (bsrc s))) (fresh (blim s) (bsrc s))) in *.
    assert (Hs1 : br_fill (S (length (bsrc s))) s = s1) by (unfold s1; rewrite <- Hs; reflexivity).
    cbn [app].
    destruct (rest_spec f (blim s) (bsrc s)) as [[x rest]| |] eqn:Es; [| |exact I].
    + destruct Hfill as [(Hx & Hpd & Hr)|(Hpb & Hbn & f' & x' & H1 & H2 & H3 & H4)].
      * cbn [br_drive]. unfold br_take. rewrite Hp, Eb, Hs1, Hpd, Hr, Hx. reflexivity.
      * pose proof (Hstep s1 f' Hpb Hbn H1 ltac:(lia)) as HS.
        rewrite H2 in HS. rewrite H3. apply HS.
        rewrite (take_from_buffer _ s1 Hpb Hbn Hn). unfold br_take. rewrite Hp, Eb, Hs1, Hpb. reflexivity.
    + destruct Hfill as [Hpe|(Hpb & Hbn & f' & H1 & H2 & H4)].
      * cbn [br_drive]. unfold br_take. rewrite Hp, Eb, Hs1, Hpe. eexists _, _. reflexivity.
      * pose proof (Hstep s1 f' Hpb Hbn H1 ltac:(lia)) as HS.
        rewrite H2 in HS. apply HS.
        rewrite (take_from_buffer _ s1 Hpb Hbn Hn). unfold br_take. rewrite Hp, Eb, Hs1, Hpb. reflexivity.
  - (* hand out what is buffered *)
    rewrite <- Eb in *. assert (Hbn : bbuf s <> []) by (rewrite Eb; discriminate).
    apply (Hstep s f Hp Hbn Hf); [lia|reflexivity].
Qed.

(* the machine against Framing's specification of the body behind a parsed header *)
Theorem br_machine_accepts req h r x rest :
  body_spec h r = Ok (x, rest) -> br_run req h r = (x, BrClean, rest).
Proof.
  intros Hb. unfold br_run.
  assert (Hp : bph (br_new h r) = BBody).
  { unfold br_new, body_spec in *. destruct (hlen h) as [n|n|]; try reflexivity.
    destruct (data_tag (htag h) && (512 <=? n)); [reflexivity|discriminate]. }
  rewrite (body_spec_rest h r Hp) in Hb.
  assert (Hsrc : bsrc (br_new h r) = r /\ bbuf (br_new h r) = []).
  { unfold br_new. destruct (hlen h) as [n|n|]; try (split; reflexivity).
    destruct (data_tag (htag h) && (512 <=? n)); split; reflexivity. }
  destruct Hsrc as (Hsr & Hbu).
  pose proof (drive_body req (S (S (length r))) 0 (br_new h r) (S (length r)) Hp) as HD.
  rewrite Hsr, Hbu in HD. specialize (HD ltac:(lia) ltac:(cbn [length]; lia)).
  rewrite Hsr in Hb. rewrite Hb in HD. exact HD.
Qed.

Theorem br_machine_rejects req h r :
  body_spec h r = Err -> exists o rest, br_run req h r = (o, BrFailed, rest).
Proof.
  intros Hb. unfold br_run.
  destruct (bph (br_new h r)) eqn:Hp.
  - rewrite (body_spec_rest h r Hp) in Hb.
    assert (Hsrc : bsrc (br_new h r) = r /\ bbuf (br_new h r) = []).
    { unfold br_new. destruct (hlen h) as [n|n|]; try (split; reflexivity).
      destruct (data_tag (htag h) && (512 <=? n)); split; reflexivity. }
    destruct Hsrc as (Hsr & Hbu).
    pose proof (drive_body req (S (S (length r))) 0 (br_new h r) (S (length r)) Hp) as HD.
    rewrite Hsr, Hbu in HD. specialize (HD ltac:(lia) ltac:(cbn [length]; lia)).
    rewrite Hsr in Hb. rewrite Hb in HD. exact HD.
  - exfalso. unfold br_new in Hp. destruct (hlen h) as [n|n|]; try discriminate.
    destruct (data_tag (htag h) && (512 <=? n)); discriminate.
  - (* refused at construction *)
    cbn [br_drive]. unfold br_take.
    assert (Hf : br_fill (S (length (bsrc (br_new h r)))) (br_new h r) = br_new h r).
    { cbn [br_fill]. rewrite Hp. reflexivity. }
    rewrite Hp, Hf, Hp. eexists _, _. reflexivity.
  - exfalso. unfold br_new in Hp. destruct (hlen h) as [n|n|]; try discriminate.
    destruct (data_tag (htag h) && (512 <=? n)); discriminate.
Qed.

Theorem br_request_independent req1 req2 h r :
  body_spec h r <> Err -> br_run req1 h r = br_run req2 h r.
Proof.
  intros Hne. destruct (body_spec h r) as [[x rest]| |] eqn:Eb.
  - rewrite (br_machine_accepts req1 h r x rest Eb), (br_machine_accepts req2 h r x rest Eb). reflexivity.
  - congruence.
  - exfalso. unfold body_spec in Eb. destruct (hlen h) as [n|n|]; try discriminate.
    + destruct (n <=? lenN r); discriminate.
    + destruct (data_tag (htag h) && (512 <=? n)); [|discriminate].
      destruct (n <=? lenN r); [|discriminate].
      pose proof (partial_tail_no_panic (S (length r)) (dropN n r)).
      destruct (partial_tail (S (length r)) (dropN n r)) as [[y rr]| |]; try discriminate. congruence.
Qed.

(* memory: the reader's buffer never holds more than 8192 octets, whatever lengths the packet declares *)
Lemma br_fill_bound ff : forall s, lenN (bbuf s) <= BUFSZ -> lenN (bbuf (br_fill ff s)) <= BUFSZ.
Proof.
  assert (Hnil : lenN (@nil byte) <= BUFSZ) by (cbn; unfold BUFSZ; lia).
  induction ff as [|ff IH]; intros s Hb; cbn [br_fill]; destruct (bph s); try exact Hb.
  - destruct (negb (is_nilb (bbuf s))); [exact Hb|].
    destruct (0 <? N.min BUFSZ (avail (blim s) (bsrc s))); [cbn [bbuf]; rewrite lenN_takeN; lia|].
    destruct (blim s) as [n| |n].
    + destruct (0 <? n); exact Hnil.
    + exact Hnil.
    + exact Hnil.
  - destruct (negb (is_nilb (bbuf s))); [exact Hb|].
    destruct (0 <? N.min BUFSZ (avail (blim s) (bsrc s))); [cbn [bbuf]; rewrite lenN_takeN; lia|].
    destruct (blim s) as [n| |n].
    + destruct (0 <? n); exact Hnil.
    + exact Hnil.
    + destruct (dec_new_len (bsrc s)) as [[[m|m|] r]| |]; try exact Hnil; apply IH; exact Hnil.
Qed.

Theorem br_take_bound n s : lenN (bbuf s) <= BUFSZ -> lenN (bbuf (fst (br_take n s))) <= BUFSZ.
Proof.
  intros Hb. unfold br_take.
  set (s1 := match bph s, bbuf s with BBody, _ :: _ => s | _, _ => br_fill (S (length (bsrc s))) s end).
  assert (H1 : lenN (bbuf s1) <= BUFSZ).
  { unfold s1. destruct (bph s); try (apply br_fill_bound; exact Hb). destruct (bbuf s) eqn:Eb; [apply br_fill_bound; rewrite Eb; cbn; unfold BUFSZ; lia|]. rewrite <- Eb in Hb. exact Hb. }
  destruct (bph s1); cbn [fst bbuf]; try exact H1. rewrite lenN_dropN. lia.
Qed.
