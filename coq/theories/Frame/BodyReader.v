(* Frame/BodyReader.v -- PacketBodyReader as the state machine the code is (C17, C09):
   the 8192-octet buffer, the Take-limited source (fixed / partial / indeterminate),
   the next partial length parsed when a chunk runs out, the consumer's requests.

   Mirrors src/composed/message/reader/packet_body.rs (new, fill_inner, impl Read,
   impl BufRead), reader/limited.rs and util::fill_buffer_bytes (which fills until the
   buffer holds the wanted number of octets or the limited source gives nothing; its
   independence of the source's own chunking is Io/Fill.v's theorem).

   BodyReaderProofs.v proves that for every sequence of request sizes the machine
   hands out exactly the body Framing.deframe specifies, leaves the source at the
   octets behind the packet, and never ends cleanly when deframe refuses. *)
From Rpgp Require Import Base.Octets Base.Res Frame.Framing.

Inductive limit := LFixed (n : N) | LIndet | LPartial (n : N).
Inductive brphase := BBody | BDone | BErr | BFuel.

Record br := { bph : brphase; bbuf : bytes; blim : limit; bsrc : bytes }.

Definition BUFSZ : N := 8192.

Definition br_err (s : br) : br := {| bph := BErr; bbuf := []; blim := blim s; bsrc := bsrc s |}.
Definition br_done (s : br) : br := {| bph := BDone; bbuf := []; blim := blim s; bsrc := bsrc s |}.

(* PacketBodyReader::new (an error at construction is the Error state here) *)
Definition br_new (h : hdr) (src : bytes) : br :=
  match hlen h with
  | PFixed n => {| bph := BBody; bbuf := []; blim := LFixed n; bsrc := src |}
  | PIndet => {| bph := BBody; bbuf := []; blim := LIndet; bsrc := src |}
  | PPartial n =>
      if data_tag (htag h) && (512 <=? n)
      then {| bph := BBody; bbuf := []; blim := LPartial n; bsrc := src |}
      else {| bph := BErr; bbuf := []; blim := LPartial n; bsrc := src |}
  end.

(* what io::Take lets through *)
Definition avail (lim : limit) (src : bytes) : N :=
  match lim with
  | LFixed n | LPartial n => N.min n (lenN src)
  | LIndet => lenN src
  end.

Definition lim_sub (lim : limit) (k : N) : limit :=
  match lim with
  | LFixed n => LFixed (n - k)
  | LPartial n => LPartial (n - k)
  | LIndet => LIndet
  end.

Definition is_nilb {A} (l : list A) : bool := match l with [] => true | _ => false end.

(* fill_inner: the loop runs again after a partial length was parsed; every
   round takes at least one octet of the source, [fuel] counts the rounds *)
Fixpoint br_fill (fuel : nat) (s : br) : br :=
  match bph s with
  | BBody =>
      if negb (is_nilb (bbuf s)) then s
      else
        let k := N.min BUFSZ (avail (blim s) (bsrc s)) in
        if 0 <? k then
          {| bph := BBody; bbuf := takeN k (bsrc s); blim := lim_sub (blim s) k; bsrc := dropN k (bsrc s) |}
        else
          match blim s with
          | LFixed n => if 0 <? n then br_err s else br_done s
          | LIndet => br_done s
          | LPartial _ =>
              match fuel with
              | O => {| bph := BFuel; bbuf := []; blim := blim s; bsrc := bsrc s |}
              | S f =>
                  match dec_new_len (bsrc s) with
                  | Ok (PFixed n, r) => br_fill f {| bph := BBody; bbuf := []; blim := LFixed n; bsrc := r |}
                  | Ok (PPartial n, r) => br_fill f {| bph := BBody; bbuf := []; blim := LPartial n; bsrc := r |}
                  | _ => br_err s
                  end
              end
          end
  | _ => s
  end.

(* read(buf of n octets); fill_buf + consume(min n (what fill_buf showed)) hands out the same octets *)
Definition br_take (n : N) (s : br) : br * res bytes :=
  (* (fill_inner returns at once when the buffer is not empty) *)
  let s1 := match bph s, bbuf s with
            | BBody, _ :: _ => s
            | _, _ => br_fill (S (length (bsrc s))) s
            end in
  match bph s1 with
  | BBody =>
      let k := N.min (lenN (bbuf s1)) n in
      ({| bph := BBody; bbuf := dropN k (bbuf s1); blim := blim s1; bsrc := bsrc s1 |}, Ok (takeN k (bbuf s1)))
  | BDone => (s1, Ok [])
  | BErr => (s1, Err)
  | BFuel => (s1, Panic)
  end.

Inductive br_outcome := BrClean | BrFailed | BrOutOfFuel.

(* a consumer that reads until it is handed nothing or an error; its i-th request
   asks for max 1 (req i) octets.  Result: the octets, how it ended, the source left *)
Fixpoint br_drive (req : N -> N) (fuel : nat) (i : N) (s : br) : bytes * br_outcome * bytes :=
  match fuel with
  | O => ([], BrOutOfFuel, bsrc s)
  | S f =>
      match br_take (N.max 1 (req i)) s with
      | (s', Ok []) => ([], BrClean, bsrc s')
      | (s', Ok o) => let '(r, oc, rest) := br_drive req f (N.succ i) s' in (o ++ r, oc, rest)
      | (s', Err) => ([], BrFailed, bsrc s')
      | (s', Panic) => ([], BrOutOfFuel, bsrc s')
      end
  end.

Definition br_run (req : N -> N) (h : hdr) (src : bytes) : bytes * br_outcome * bytes :=
  br_drive req (S (S (length src))) 0 (br_new h src).

(* the body part of Framing.deframe: what is read behind a parsed header *)
Definition body_spec (h : hdr) (r : bytes) : res (bytes * bytes) :=
  match hlen h with
  | PFixed n => if n <=? lenN r then Ok (takeN n r, dropN n r) else Err
  | PIndet => Ok (r, [])
  | PPartial n =>
      if data_tag (htag h) && (512 <=? n) then
        if n <=? lenN r then
          match partial_tail (S (length r)) (dropN n r) with
          | Ok (x, rest) => Ok (takeN n r ++ x, rest)
          | Err => Err
          | Panic => Panic
          end
        else Err
      else Err
  end.
