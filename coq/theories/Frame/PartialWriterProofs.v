(* Frame/PartialWriterProofs.v -- the streamed writer produces Framing.emit_partial, whatever sizes
   the consumer reads with. *)
From Coq Require Import ZifyBool ZifyN ZifyNat.
From Rpgp Require Import Base.Octets Base.OctetsMore Base.Res Frame.Framing Io.Emitter Io.EmitterProofs Frame.PartialWriter.
Ltac Zify.zify_post_hook ::= Z.div_mod_to_equations.

Section Proofs.

Variable tag k : N.
Variable h : bytes.
Hypothesis h_fits : lenN h < 2 ^ k.

Notation adv := (pw_advance tag k h).
Notation wholeP := (whole pw adv).
Notation stagesP := (stages pw adv).

Lemma pow_pos : 1 <= 2 ^ k.
Proof. pose proof (N.pow_nonzero 2 k ltac:(lia)). lia. Qed.

Lemma emit_rest_fuel f1 : forall f2 data, (length data < f1)%nat -> (length data < f2)%nat ->
  emit_rest f1 k data = emit_rest f2 k data.
Proof.
  pose proof pow_pos as Hp.
  induction f1 as [|f1 IH]; intros f2 data H1 H2; [lia|]. destruct f2 as [|f2]; [lia|].
  cbn [emit_rest]. destruct (N.eqb_spec (lenN (takeN (2 ^ k) data)) (2 ^ k)) as [He|He]; [|reflexivity].
  rewrite lenN_takeN in He.
  assert (Hd : (length (dropN (2 ^ k) data) < length data)%nat).
  { assert (lenN (dropN (2 ^ k) data) < lenN data) by (rewrite lenN_dropN; lia). unfold lenN in *. lia. }
  rewrite (IH f2) by lia. reflexivity.
Qed.

(* the pieces after the first *)
Lemma rest_whole f : forall src,
  (length src < f)%nat ->
  exists j, stagesP (S (S f)) {| psrc := src; pfirst := false; pfinished := false |} = Some j /\
            wholeP (S (S f)) {| psrc := src; pfirst := false; pfinished := false |} = emit_rest (S (length src)) k src.
Proof.
  pose proof pow_pos as Hp.
  induction f as [|f IH]; intros src Hf; [lia|].
  set (c := 2 ^ k) in *. set (piece := takeN c src). set (rest := dropN c src).
  destruct (N.eqb_spec (lenN piece) c) as [Hfull|Hshort].
  - (* a whole chunk: partial length, go on *)
    assert (Hrl : (length rest < f)%nat).
    { unfold piece in Hfull. rewrite lenN_takeN in Hfull.
      assert (lenN rest < lenN src) by (unfold rest; rewrite lenN_dropN; lia). unfold lenN in *. lia. }
    destruct (IH rest Hrl) as (j & Hs & Hw).
    assert (Hadv : adv {| psrc := src; pfirst := false; pfinished := false |} =
                   Some (enc_partial k ++ piece, {| psrc := rest; pfirst := false; pfinished := false |})).
    { unfold pw_advance. cbn [pfinished pfirst psrc andb]. fold c piece rest.
      replace (lenN piece =? c) with true by (symmetry; apply N.eqb_eq; exact Hfull). reflexivity. }
    exists (S j). split.
    + change (stagesP (S (S (S f))) {| psrc := src; pfirst := false; pfinished := false |}) with
        (match adv {| psrc := src; pfirst := false; pfinished := false |} with None => Some 0%nat
         | Some (_, r') => match stagesP (S (S f)) r' with Some j => Some (S j) | None => None end end).
      rewrite Hadv, Hs. reflexivity.
    + change (wholeP (S (S (S f))) {| psrc := src; pfirst := false; pfinished := false |}) with
        (match adv {| psrc := src; pfirst := false; pfinished := false |} with None => [] | Some (b, r') => b ++ wholeP (S (S f)) r' end).
      rewrite Hadv, Hw.
      assert (Hstep : emit_rest (S (length src)) k src = enc_partial k ++ piece ++ emit_rest (length src) k rest).
      { cbn [emit_rest]. fold c piece rest.
        replace (lenN piece =? c) with true by (symmetry; apply N.eqb_eq; exact Hfull). reflexivity. }
      rewrite Hstep, <- app_assoc. do 2 f_equal. apply emit_rest_fuel; [lia|].
      unfold piece in Hfull. rewrite lenN_takeN in Hfull.
      assert (lenN rest < lenN src) by (unfold rest; rewrite lenN_dropN; lia). unfold lenN in *. lia.
  - (* the final piece *)
    assert (Hadv : adv {| psrc := src; pfirst := false; pfinished := false |} =
                   Some (enc_new_len (lenN piece) ++ piece, {| psrc := rest; pfirst := false; pfinished := true |})).
    { unfold pw_advance. cbn [pfinished pfirst psrc andb]. fold c piece rest.
      replace (lenN piece =? c) with false by (symmetry; apply N.eqb_neq; exact Hshort). reflexivity. }
    exists 1%nat. split.
    + change (stagesP (S (S (S f))) {| psrc := src; pfirst := false; pfinished := false |}) with
        (match adv {| psrc := src; pfirst := false; pfinished := false |} with None => Some 0%nat
         | Some (_, r') => match stagesP (S (S f)) r' with Some j => Some (S j) | None => None end end).
      rewrite Hadv. reflexivity.
    + change (wholeP (S (S (S f))) {| psrc := src; pfirst := false; pfinished := false |}) with
        (match adv {| psrc := src; pfirst := false; pfinished := false |} with None => [] | Some (b, r') => b ++ wholeP (S (S f)) r' end).
      rewrite Hadv. cbn [whole pw_advance pfinished]. rewrite app_nil_r.
      assert (Hstep : emit_rest (S (length src)) k src = enc_new_len (lenN piece) ++ piece).
      { cbn [emit_rest]. fold c piece rest.
        replace (lenN piece =? c) with false by (symmetry; apply N.eqb_neq; exact Hshort). reflexivity. }
      rewrite Hstep. reflexivity.
Qed.

Lemma first_whole data :
  exists j, stagesP (S (S (S (length data)))) {| psrc := data; pfirst := true; pfinished := false |} = Some j /\
            wholeP (S (S (S (length data)))) {| psrc := data; pfirst := true; pfinished := false |} = emit_partial tag k h data.
Proof.
  pose proof pow_pos as Hp.
  set (c := 2 ^ k) in *. set (cs := c - lenN h). set (piece := takeN cs data). set (rest := dropN cs data).
  unfold emit_partial. fold c cs piece rest.
  destruct (N.ltb_spec (lenN piece) cs) as [Hshort|Hfull].
  - assert (Hadv : adv {| psrc := data; pfirst := true; pfinished := false |} =
                   Some (n2b (192 + tag) :: enc_new_len (lenN piece + lenN h) ++ h ++ piece, {| psrc := rest; pfirst := false; pfinished := true |})).
    { unfold pw_advance. cbn [pfinished pfirst psrc andb]. fold c cs piece rest.
      replace (lenN piece <? cs) with true by (symmetry; apply N.ltb_lt; exact Hshort). reflexivity. }
    exists 1%nat. split.
    + change (stagesP (S (S (S (length data)))) {| psrc := data; pfirst := true; pfinished := false |}) with
        (match adv {| psrc := data; pfirst := true; pfinished := false |} with None => Some 0%nat
         | Some (_, r') => match stagesP (S (S (length data))) r' with Some j => Some (S j) | None => None end end).
      rewrite Hadv. reflexivity.
    + change (wholeP (S (S (S (length data)))) {| psrc := data; pfirst := true; pfinished := false |}) with
        (match adv {| psrc := data; pfirst := true; pfinished := false |} with None => [] | Some (b, r') => b ++ wholeP (S (S (length data))) r' end).
      rewrite Hadv. cbn [whole pw_advance pfinished]. rewrite app_nil_r. reflexivity.
  - assert (Hpl : lenN piece = cs) by (unfold piece in *; rewrite lenN_takeN in *; lia).
    assert (Hadv : adv {| psrc := data; pfirst := true; pfinished := false |} =
                   Some ((n2b (192 + tag) :: enc_partial k ++ h) ++ piece, {| psrc := rest; pfirst := false; pfinished := false |})).
    { unfold pw_advance. cbn [pfinished pfirst psrc andb]. fold c cs piece rest.
      replace (lenN piece <? cs) with false by (symmetry; apply N.ltb_ge; exact Hfull).
      replace (lenN piece =? cs) with true by (symmetry; apply N.eqb_eq; exact Hpl). reflexivity. }
    assert (Hrl : (length rest < length data)%nat).
    { assert (lenN rest < lenN data).
      { unfold rest. rewrite lenN_dropN. unfold piece in Hpl. rewrite lenN_takeN in Hpl. unfold cs in *. lia. }
      unfold lenN in *. lia. }
    destruct (rest_whole (length data) rest Hrl) as (j & Hs & Hw).
    exists (S j). split.
    + change (stagesP (S (S (S (length data)))) {| psrc := data; pfirst := true; pfinished := false |}) with
        (match adv {| psrc := data; pfirst := true; pfinished := false |} with None => Some 0%nat
         | Some (_, r') => match stagesP (S (S (length data))) r' with Some j => Some (S j) | None => None end end).
      rewrite Hadv, Hs. reflexivity.
    + change (wholeP (S (S (S (length data)))) {| psrc := data; pfirst := true; pfinished := false |}) with
        (match adv {| psrc := data; pfirst := true; pfinished := false |} with None => [] | Some (b, r') => b ++ wholeP (S (S (length data))) r' end).
      rewrite Hadv, Hw. cbn [app]. rewrite <- !app_assoc. do 4 f_equal.
      apply emit_rest_fuel; [lia|]. assert (lenN rest <= lenN data) by (unfold rest; rewrite lenN_dropN; lia). unfold lenN in *. lia.
Qed.

(* no refill produces nothing: every piece carries at least its length octet *)
Lemma piece_never_empty s b s' : adv s = Some (b, s') -> b <> [].
Proof.
  unfold pw_advance. destruct (pfinished s); [discriminate|].
  destruct (pfirst s && _).
  - intros H; injection H as <- _. discriminate.
  - destruct (_ =? _).
    + intros H; injection H as <- _. destruct (pfirst s); [discriminate|]. unfold enc_partial. discriminate.
    + intros H; injection H as <- _. unfold enc_new_len, enc_len1, enc_len2, enc_len5.
      destruct (_ <? 192); [discriminate|]. destruct (_ <? 8384); discriminate.
Qed.

Theorem pw_machine_is_spec req data :
  pw_run tag k h req data = (emit_partial tag k h data, EClean).
Proof.
  unfold pw_run. destruct (first_whole data) as (j & Hs & Hw).
  pose proof (stages_lt _ _ _ _ _ Hs) as Hj.
  rewrite (drive_whole pw adv _ req _ 0 [] _ j Hs).
  - cbn [app]. rewrite Hw. reflexivity.
  - rewrite Hw. cbn [length]. lia.
Qed.

End Proofs.
