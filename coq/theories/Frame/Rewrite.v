(* Frame/Rewrite.v -- writing a packet that was read (C17, C05): the header is built again from the
   format and tag that were read and from the length of the body now held -- never copied from the
   wire -- except for a legacy header of indeterminate length, which has no length to rebuild.

   Mirrors src/packet/packet_sum.rs: to_writer_with_header / write_len_with_header (maybe_len() of the
   stored header: Some for fixed and partial lengths -> PacketHeader::from_parts(version, tag,
   Fixed(body length)); None for indeterminate -> the stored header), PacketHeader::to_writer. *)
From Rpgp Require Import Base.Octets Base.Res Frame.Framing.

Definition min_old_lt (n : N) : N := if n <? 256 then 0 else if n <? 65536 then 1 else 2.

Definition rewrite (h : hdr) (body : bytes) : bytes :=
  match hlen h, hf h with
  | PIndet, _ => frame_old (htag h) 3 body
  | _, HNew => emit_fixed (htag h) [] body
  | _, HOld => frame_old (htag h) (min_old_lt (lenN body)) body
  end.

Definition tag_fits (h : hdr) : bool := match hf h with HNew => htag h <? 64 | HOld => htag h <? 16 end.
