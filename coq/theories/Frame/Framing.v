(* Frame/Framing.v -- packet framing (C17): length encodings, headers, the
   body reader as a function on octet strings, an independent framer for every
   legal framing, and the partial-body emitter shared by the three writers.

   Mirrors:
     src/types/packet.rs   PacketLength::{try_from_reader, to_writer_new,
                           fixed_encoding_len}, PacketHeaderVersion::write_header
     src/packet/header.rs  PacketHeader::{try_from_reader, to_writer}
     src/composed/message/reader/packet_body.rs  PacketBodyReader::{new, fill_inner}
     src/packet/literal_data.rs LiteralDataPartialGenerator::read,
     src/packet/compressed_data.rs CompressedDataPartialGenerator,
     src/composed/message/builder.rs encrypt_write               (emit_partial) *)
From Rpgp Require Import Base.Octets Base.Res.

Inductive plen := PFixed (n : N) | PPartial (n : N) | PIndet.
Inductive hfmt := HNew | HOld.
Record hdr := { hf : hfmt; htag : N; hlen : plen }.

(* ------------------------------------------------ new-format lengths *)

Definition dec_new_len (b : bytes) : res (plen * bytes) :=
  match b with
  | [] => Err
  | o :: r =>
      let v := b2n o in
      if v <? 192 then Ok (PFixed v, r)
      else if v <? 224 then
        match r with
        | a :: r' => Ok (PFixed ((v - 192) * 256 + 192 + b2n a), r')
        | [] => Err
        end
      else if v <? 255 then Ok (PPartial (2 ^ (v mod 32)), r)
      else
        match r with
        | a :: b :: c :: d :: r' => Ok (PFixed (de32 a b c d), r')
        | _ => Err
        end
  end.

Definition enc_len1 (n : N) : bytes := [n2b n].
Definition enc_len2 (n : N) : bytes := [n2b ((n - 192) / 256 + 192); n2b ((n - 192) mod 256)].
Definition enc_len5 (n : N) : bytes := xff :: be32 n.
Definition enc_partial (k : N) : bytes := [n2b (224 + k)].

(* PacketLength::to_writer_new for Fixed: the shortest form *)
Definition enc_new_len (n : N) : bytes :=
  if n <? 192 then enc_len1 n else if n <? 8384 then enc_len2 n else enc_len5 n.

Definition fixed_encoding_len (n : N) : N :=
  if n <? 192 then 1 else if n <? 8384 then 2 else 5.

(* ------------------------------------------------ headers *)

Definition dec_header (b : bytes) : res (hdr * bytes) :=
  match b with
  | [] => Err
  | o :: r =>
      let v := b2n o in
      if 192 <=? v then
        match dec_new_len r with
        | Ok (l, r') => Ok ({| hf := HNew; htag := v mod 64; hlen := l |}, r')
        | Err => Err
        | Panic => Panic
        end
      else if 128 <=? v then
        let tag := (v / 4) mod 16 in
        let lt := v mod 4 in
        if lt =? 0 then
          match r with
          | a :: r' => Ok ({| hf := HOld; htag := tag; hlen := PFixed (b2n a) |}, r')
          | _ => Err
          end
        else if lt =? 1 then
          match r with
          | a :: b :: r' => Ok ({| hf := HOld; htag := tag; hlen := PFixed (de16 a b) |}, r')
          | _ => Err
          end
        else if lt =? 2 then
          match r with
          | a :: b :: c :: d :: r' =>
              Ok ({| hf := HOld; htag := tag; hlen := PFixed (de32 a b c d) |}, r')
          | _ => Err
          end
        else Ok ({| hf := HOld; htag := tag; hlen := PIndet |}, r)
      else Err
  end.

(* PacketHeaderVersion::write_header (shortest length form of each format) *)
Definition enc_header_new (tag n : N) : bytes := n2b (192 + tag) :: enc_new_len n.
Definition enc_header_old (tag n : N) : bytes :=
  if n <? 256 then [n2b (128 + tag * 4); n2b n]
  else if n <? 65536 then n2b (128 + tag * 4 + 1) :: be16 n
  else n2b (128 + tag * 4 + 2) :: be32 n.

Definition header_len_new (n : N) : N := 1 + fixed_encoding_len n.
Definition header_len_old (n : N) : N :=
  if n <? 256 then 2 else if n <? 65536 then 3 else 5.

(* ------------------------------------------------ body reader (L0) *)

(* data packets: literal, compressed, SED, SEIPD, GnuPG AEAD *)
Definition data_tag (t : N) : bool :=
  (t =? 8) || (t =? 9) || (t =? 11) || (t =? 18) || (t =? 20).

(* what follows a partial chunk: a new-format length, then that many octets;
   repeat while the length is partial.  Returns (body part, rest of input). *)
Fixpoint partial_tail (fuel : nat) (b : bytes) : res (bytes * bytes) :=
  match fuel with
  | O => Err
  | S f =>
      match dec_new_len b with
      | Ok (PFixed n, r) =>
          if n <=? lenN r then Ok (takeN n r, dropN n r) else Err
      | Ok (PPartial n, r) =>
          if n <=? lenN r then
            match partial_tail f (dropN n r) with
            | Ok (x, rest) => Ok (takeN n r ++ x, rest)
            | Err => Err
            | Panic => Panic
            end
          else Err
      | Ok (PIndet, _) => Err
      | Err => Err
      | Panic => Panic
      end
  end.

(* PacketHeader::try_from_reader, PacketBodyReader::new, then the body read to
   its end: (header, body, octets after the packet) *)
Definition deframe (b : bytes) : res (hdr * bytes * bytes) :=
  match dec_header b with
  | Ok (h, r) =>
      match hlen h with
      | PFixed n => if n <=? lenN r then Ok (h, takeN n r, dropN n r) else Err
      | PIndet => Ok (h, r, [])
      | PPartial n =>
          if data_tag (htag h) && (512 <=? n) then
            if n <=? lenN r then
              match partial_tail (S (length r)) (dropN n r) with
              | Ok (x, rest) => Ok (h, takeN n r ++ x, rest)
              | Err => Err
              | Panic => Panic
              end
            else Err
          else Err
      end
  | Err => Err
  | Panic => Panic
  end.

(* ------------------------------------------------ an independent framer *)

Inductive lcls := L1 | L2 | L5.

Definition enc_fixed (c : lcls) (n : N) : bytes :=
  match c with L1 => enc_len1 n | L2 => enc_len2 n | L5 => enc_len5 n end.

Definition cls_ok (c : lcls) (n : N) : bool :=
  match c with
  | L1 => n <? 192
  | L2 => (192 <=? n) && (n <? 8384)
  | L5 => n <? 4294967296
  end.

(* partial chunks with exponents [ks], then a final fixed piece in class [c] *)
Fixpoint frame_chunks (ks : list N) (c : lcls) (body : bytes) : bytes :=
  match ks with
  | [] => enc_fixed c (lenN body) ++ body
  | k :: ks' =>
      enc_partial k ++ takeN (2 ^ k) body ++ frame_chunks ks' c (dropN (2 ^ k) body)
  end.

Definition frame_new (tag : N) (ks : list N) (c : lcls) (body : bytes) : bytes :=
  n2b (192 + tag) :: frame_chunks ks c body.

Fixpoint sum_pow (ks : list N) : N :=
  match ks with [] => 0 | k :: ks' => 2 ^ k + sum_pow ks' end.

Definition legal_new (tag : N) (ks : list N) (c : lcls) (body : bytes) : bool :=
  (tag <? 64) &&
  (sum_pow ks <=? lenN body) &&
  cls_ok c (lenN body - sum_pow ks) &&
  forallb (fun k => k <=? 30) ks &&
  match ks with
  | [] => true
  | k :: _ => data_tag tag && (9 <=? k)
  end.

(* old format: length type 0,1,2 = 1,2,4 octets; 3 = indeterminate *)
Definition frame_old (tag lt : N) (body : bytes) : bytes :=
  n2b (128 + tag * 4 + lt) ::
  (if lt =? 0 then [n2b (lenN body)]
   else if lt =? 1 then be16 (lenN body)
   else if lt =? 2 then be32 (lenN body)
   else []) ++ body.

Definition legal_old (tag lt : N) (body : bytes) : bool :=
  (tag <? 16) &&
  (if lt =? 0 then lenN body <? 256
   else if lt =? 1 then lenN body <? 65536
   else if lt =? 2 then lenN body <? 4294967296
   else lt =? 3).

(* ------------------------------------------------ the partial emitter *)

(* chunks after the first: Partial(c) while a whole chunk was read, then a
   final Fixed piece (possibly empty) *)
Fixpoint emit_rest (fuel : nat) (k : N) (data : bytes) : bytes :=
  match fuel with
  | O => []
  | S f =>
      let c := 2 ^ k in
      let piece := takeN c data in
      if lenN piece =? c then enc_partial k ++ piece ++ emit_rest f k (dropN c data)
      else enc_new_len (lenN piece) ++ piece
  end.

(* [h]: the packet-specific header octets that go inside the first chunk
   (literal header / compression algorithm / SEIPD version and parameters) *)
Definition emit_partial (tag k : N) (h data : bytes) : bytes :=
  let c := 2 ^ k in
  let first_size := c - lenN h in
  let first := takeN first_size data in
  if lenN first <? first_size then
    n2b (192 + tag) :: enc_new_len (lenN first + lenN h) ++ h ++ first
  else
    n2b (192 + tag) :: enc_partial k ++ h ++ first
      ++ emit_rest (S (length data)) k (dropN first_size data).

(* known total length: one fixed packet *)
Definition emit_fixed (tag : N) (h data : bytes) : bytes :=
  enc_header_new tag (lenN h + lenN data) ++ h ++ data.
