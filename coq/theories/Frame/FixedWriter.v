(* Frame/FixedWriter.v -- the literal-data writer for a source of known length as the staged producer
   the code is (C01, C17, C09): the serialised header (packet tag, fixed length, literal header), handed
   out from where the last read stopped, then the source, through read() with any request sizes.

   Mirrors src/packet/literal_data.rs: LiteralDataFixedGenerator::{new, read} (header, header_written).
   It is Io/Emitter's producer over two stages: the header octets, then the data (read(n) on a source that
   holds all its data hands out min n of what is left, which is what the buffered stage does).

   FixedWriterProofs.v: for every sequence of request sizes the consumer receives Framing.emit_fixed. *)
From Rpgp Require Import Base.Octets Base.Res Frame.Framing Io.Emitter.

Definition fw_stages (tag : N) (h data : bytes) : list bytes :=
  [enc_header_new tag (lenN h + lenN data) ++ h; data].

Definition fw_run (tag : N) (h : bytes) (req : N -> N) (data : bytes) : bytes * e_outcome :=
  e_drive (list bytes) adv_list 3 req (length (emit_fixed tag h data) + 5) 0 [] (fw_stages tag h data).
