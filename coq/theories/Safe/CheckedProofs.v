From Coq Require Import List NArith ZArith Lia Bool.
From Rpgp Require Import Base.Octets Base.Res Kdf.Kdf Safe.Checked.
Import ListNotations.
Open Scope N_scope.

Lemma index_ok d i : i < lenN d -> exists x, index d i = Ok x.
Proof.
  intros H. unfold index. pose proof (lenN_dropN i d) as L.
  destruct (dropN i d) as [|x r] eqn:E.
  - rewrite lenN_nil in L. lia.
  - exists x. apply N.ltb_lt in H. rewrite H. reflexivity.
Qed.

Lemma slice_ok d a b : a <= b -> b <= lenN d -> exists s, slice d a b = Ok s /\ lenN s = b - a.
Proof.
  intros H1 H2. unfold slice.
  apply N.leb_le in H1 as E1. apply N.leb_le in H2 as E2. rewrite E1, E2. cbn.
  eexists; split; [reflexivity|]. rewrite lenN_takeN, lenN_dropN. lia.
Qed.

Lemma sub_ok a b : b <= a -> sub a b = Ok (a - b).
Proof. intros H. unfold sub. apply N.leb_le in H. rewrite H. reflexivity. Qed.

Lemma key_size_le alg : key_size alg <= 32.
Proof.
  unfold key_size. destruct alg as [|p]; [lia|].
  do 5 (destruct p as [p|p|]; try lia).
Qed.

Ltac done_np := first [discriminate | congruence].

Theorem session_key_v3_never_panics d : session_key_v3 d <> Panic.
Proof.
  unfold session_key_v3.
  destruct (lenN d =? 0) eqn:E0; [done_np|]. apply N.eqb_neq in E0.
  destruct (index_ok d 0) as [a Ha]; [lia|]. rewrite Ha. cbn [bind].
  destruct (b2n a =? 0); [done_np|].
  destruct (lenN d =? key_size (b2n a) + 3) eqn:EL; cbn [negb]; [|done_np].
  apply N.eqb_eq in EL.
  destruct (slice_ok d 1 (key_size (b2n a) + 1)) as [k [Hk _]]; [lia|lia|]. rewrite Hk. cbn [bind].
  destruct (slice_ok d (key_size (b2n a) + 1) (key_size (b2n a) + 3)) as [c [Hc _]]; [lia|lia|].
  rewrite Hc. cbn [bind]. destruct (checksum_ok k c); done_np.
Qed.

(* before the repair the empty plaintext panicked *)
Example session_key_v3_unrepaired_refuted : exists d, session_key_v3_unrepaired d = Panic.
Proof. exists []. reflexivity. Qed.

Theorem session_key_v6_never_panics d : session_key_v6 d <> Panic.
Proof.
  unfold session_key_v6. destruct (lenN d <? 2) eqn:E; [done_np|]. apply N.ltb_ge in E.
  rewrite sub_ok by lia. cbn [bind].
  destruct (slice_ok d 0 (lenN d - 2)) as [k [Hk _]]; [lia|lia|]. rewrite Hk. cbn [bind].
  destruct (slice_ok d (lenN d - 2) (lenN d)) as [c [Hc _]]; [lia|lia|]. rewrite Hc. cbn [bind].
  destruct (checksum_ok k c); done_np.
Qed.

Theorem skesk4_plain_never_panics d : skesk4_plain d <> Panic.
Proof.
  unfold skesk4_plain. destruct (lenN d =? 0) eqn:E0; [done_np|]. apply N.eqb_neq in E0.
  destruct (index_ok d 0) as [a Ha]; [lia|]. rewrite Ha. cbn [bind].
  destruct (slice_ok d 1 (lenN d)) as [k [Hk _]]; [lia|lia|]. rewrite Hk. cbn [bind].
  destruct (key_size (b2n a) =? 0); [done_np|]. destruct (negb _); done_np.
Qed.

Theorem kw_out_len_never_panics n : kw_out_len n <> Panic.
Proof.
  unfold kw_out_len. destruct (n <? 8) eqn:E; [done_np|]. apply N.ltb_ge in E.
  rewrite sub_ok by lia. done_np.
Qed.

Example kw_out_len_unrepaired_refuted : exists n, kw_out_len_unrepaired n = Panic.
Proof. exists 7. reflexivity. Qed.

Theorem ecdh_unpad_never_panics p : ecdh_unpad_checked p <> Panic.
Proof.
  unfold ecdh_unpad_checked.
  destruct (negb (lenN p mod 8 =? 0)); [done_np|].
  destruct (lenN p =? 0) eqn:E0; [done_np|]. apply N.eqb_neq in E0.
  destruct (index_ok p (lenN p - 1)) as [l Hl]; [lia|]. rewrite Hl. cbn [bind].
  destruct (lenN p <? b2n l) eqn:EP; [done_np|]. apply N.ltb_ge in EP.
  rewrite sub_ok by lia. cbn [bind].
  destruct (slice_ok p (lenN p - b2n l) (lenN p)) as [t [Ht _]]; [lia|lia|]. rewrite Ht. cbn [bind].
  destruct (negb (forallb _ t)); [done_np|].
  destruct (slice_ok p 0 (lenN p - b2n l)) as [o [Ho _]]; [lia|lia|]. rewrite Ho. cbn [bind].
  destruct (lenN o =? 0); done_np.
Qed.

(* the HKDF output used by the SEIPD v2 set-up is 42 octets *)
Theorem aead_setup_never_panics sym aead okm : lenN okm = 42 -> aead_setup sym aead okm <> Panic.
Proof.
  intros L. unfold aead_setup. destruct (tag_known aead) eqn:T; cbn [negb]; [|done_np].
  pose proof (key_size_le sym) as K.
  destruct (slice_ok okm 0 (key_size sym)) as [mk [Hm _]]; [lia|lia|]. rewrite Hm. cbn [bind].
  assert (N8 : 8 <= nonce_size aead /\ nonce_size aead <= 16).
  { unfold tag_known in T. unfold nonce_size.
    destruct aead as [|[[|[]|]|[|[]|]|]]; try discriminate; lia. }
  rewrite sub_ok by lia. cbn [bind].
  destruct (slice_ok okm (key_size sym) (key_size sym + (nonce_size aead - 8))) as [iv [Hi _]]; [lia|lia|].
  rewrite Hi. done_np.
Qed.

Example aead_setup_unrepaired_refuted : exists sym aead okm, lenN okm = 42 /\ aead_setup_unrepaired sym aead okm = Panic.
Proof. exists 7, 0, (repeat x00 42). split; reflexivity. Qed.
