(* The post-decryption plausibility logic of the library, transcribed with Rust's panicking
   operations made explicit: indexing and slicing out of bounds and unsigned subtraction below
   zero yield [Panic].  C04 for this logic is "the result is never [Panic]". *)
From Coq Require Import List NArith Lia Bool.
From Rpgp Require Import Base.Octets Base.Res Kdf.Kdf.
Import ListNotations.
Open Scope N_scope.

Definition index (d : bytes) (i : N) : res byte :=
  match dropN i d with x :: _ => if i <? lenN d then Ok x else Panic | [] => Panic end.
Definition slice (d : bytes) (a b : N) : res bytes :=          (* d[a..b] *)
  if (a <=? b) && (b <=? lenN d) then Ok (takeN (b - a) (dropN a d)) else Panic.
Definition sub (a b : N) : res N := if b <=? a then Ok (a - b) else Panic.

(* 9.3 key sizes; 0 = unknown algorithm *)
Definition key_size (alg : N) : N :=
  match alg with
  | 1 | 3 | 4 | 7 | 11 => 16 | 2 | 8 | 12 => 24 | 9 | 10 | 13 => 32 | _ => 0
  end.

Definition checksum_ok (key ck : bytes) : bool :=
  match ck with [a; b] => de16 a b =? sum16 key | _ => false end.

(* types/params/plain_secret.rs decrypt, EskType::V3_4 arm *)
Definition session_key_v3 (d : bytes) : res (N * bytes) :=
  if lenN d =? 0 then Err else
  do a <- index d 0;
  let alg := b2n a in
  if alg =? 0 then Err else
  let ks := key_size alg in
  if negb (lenN d =? ks + 3) then Err else
  do key <- slice d 1 (ks + 1);
  do ck <- slice d (ks + 1) (ks + 3);
  if checksum_ok key ck then Ok (alg, key) else Err.

(* the same arm as it was before the repair (no emptiness check) *)
Definition session_key_v3_unrepaired (d : bytes) : res (N * bytes) :=
  do a <- index d 0;
  let alg := b2n a in
  if alg =? 0 then Err else
  let ks := key_size alg in
  if negb (lenN d =? ks + 3) then Err else
  do key <- slice d 1 (ks + 1);
  do ck <- slice d (ks + 1) (ks + 3);
  if checksum_ok key ck then Ok (alg, key) else Err.

(* EskType::V6 arm *)
Definition session_key_v6 (d : bytes) : res bytes :=
  let len := lenN d in
  if len <? 2 then Err else
  do l2 <- sub len 2;
  do key <- slice d 0 l2;
  do ck <- slice d l2 len;
  if checksum_ok key ck then Ok key else Err.

(* packet/sym_key_encrypted_session_key.rs decrypt, V4 arm (the caller handles the empty
   encrypted key: the S2K output is then the session key) *)
Definition skesk4_plain (d : bytes) : res (N * bytes) :=
  if lenN d =? 0 then Err else      (* unreachable from decrypt_session_key_with_password *)
  do a <- index d 0;
  do key <- slice d 1 (lenN d);
  let alg := b2n a in
  let ks := key_size alg in
  if ks =? 0 then Err else if negb (ks =? lenN key) then Err else Ok (alg, key).

(* crypto/aes_kw.rs unwrap: the output length *)
Definition kw_out_len (data_len : N) : res N :=
  if data_len <? 8 then Err else sub data_len 8.
Definition kw_out_len_unrepaired (data_len : N) : res N := sub data_len 8.

(* crypto/ecdh.rs derive_session_key: PKCS5-style unpadding after the unwrap *)
Definition ecdh_unpad_checked (p : bytes) : res bytes :=
  let len := lenN p in
  if negb (len mod 8 =? 0) then Err else
  if len =? 0 then Err else
  do last <- index p (len - 1);
  let pad := b2n last in
  if len <? pad then Err else
  do ul <- sub len pad;
  do tail <- slice p ul len;
  if negb (forallb (fun x => beq x last) tail) then Err else
  do out <- slice p 0 ul;
  if lenN out =? 0 then Err else Ok out.

(* crypto/aead.rs: nonce set-up of SEIPD v2; the AEAD mode is checked first *)
Definition nonce_size (aead : N) : N := match aead with 1 => 16 | 2 => 15 | 3 => 12 | _ => 0 end.
Definition tag_known (aead : N) : bool := match aead with 1 | 2 | 3 => true | _ => false end.
Definition aead_setup (sym aead : N) (okm : bytes) : res (bytes * bytes) :=
  if negb (tag_known aead) then Err else
  do mk <- slice okm 0 (key_size sym);
  do riv <- sub (nonce_size aead) 8;
  do iv <- slice okm (key_size sym) (key_size sym + riv);
  Ok (mk, iv).
Definition aead_setup_unrepaired (sym aead : N) (okm : bytes) : res (bytes * bytes) :=
  do mk <- slice okm 0 (key_size sym);
  do riv <- sub (nonce_size aead) 8;
  do iv <- slice okm (key_size sym) (key_size sym + riv);
  if negb (tag_known aead) then Err else Ok (mk, iv).
