From Coq Require Import Lia ZifyBool ZifyN ZifyNat.
From Rpgp Require Import Base.Octets Base.Res Sig.Fingerprint Key.Lock Key.LockProofs Rules.Identity.

Lemma existsb_eqb_in x l : existsb (bytes_eqb x) l = true <-> In x l.
Proof.
  rewrite existsb_exists. split.
  - intros [y [Hy He]]. apply bytes_eqb_eq in He. subst. exact Hy.
  - intros H. exists x. split; [exact H|apply bytes_eqb_refl].
Qed.

(* a signature that carries the issuing key's own key id or fingerprint is matched to it *)
Lemma sig_match_own_kid kids fps kid fp : In kid kids -> sig_match kids fps kid fp = true.
Proof.
  intros H. unfold sig_match. destruct kids as [|k ks]; [destruct H|]. cbn [id_is_nil andb].
  apply orb_true_iff. left. apply existsb_eqb_in. exact H.
Qed.

Lemma sig_match_own_fp kids fps kid fp : In fp fps -> sig_match kids fps kid fp = true.
Proof.
  intros H. unfold sig_match. destruct fps as [|f fs]; [destruct H|].
  replace (id_is_nil kids && id_is_nil (f :: fs)) with false by (destruct kids; reflexivity).
  apply orb_true_iff. right. apply existsb_eqb_in. exact H.
Qed.

(* a signature that names somebody, but not this key, is never matched to it *)
Lemma sig_match_foreign kids fps kid fp :
  (kids <> [] \/ fps <> []) -> ~ In kid kids -> ~ In fp fps -> sig_match kids fps kid fp = false.
Proof.
  intros Hn Hk Hf. unfold sig_match.
  assert (id_is_nil kids && id_is_nil fps = false) as ->.
  { destruct kids, fps; try reflexivity. destruct Hn; congruence. }
  apply orb_false_iff. split.
  - destruct (existsb (bytes_eqb kid) kids) eqn:E; [|reflexivity]. apply existsb_eqb_in in E. contradiction.
  - destruct (existsb (bytes_eqb fp) fps) eqn:E; [|reflexivity]. apply existsb_eqb_in in E. contradiction.
Qed.

Lemma sig_match_exact kids fps kid fp :
  sig_match kids fps kid fp = true <-> (kids = [] /\ fps = []) \/ In kid kids \/ In fp fps.
Proof.
  unfold sig_match. destruct kids as [|k ks], fps as [|f fs]; cbn [id_is_nil andb].
  - split; auto.
  - rewrite orb_true_iff, !existsb_eqb_in. split; [tauto|]. intros [[_ H]|H]; [discriminate|exact H].
  - rewrite orb_true_iff, !existsb_eqb_in. split; [tauto|]. intros [[H _]|H]; [discriminate|exact H].
  - rewrite orb_true_iff, !existsb_eqb_in. split; [tauto|]. intros [[H _]|H]; [discriminate|exact H].
Qed.

(* the PKESK the library writes for a key (key id of a v4 key / fingerprint of a v6 key) is matched to it *)
Lemma esk_match_own_kid kid fp : esk_match (TKeyId kid) kid fp = true.
Proof. unfold esk_match. rewrite bytes_eqb_refl. apply orb_true_r. Qed.

Lemma esk_match_own_fp kid fp : esk_match (TFp (Some fp)) kid fp = true.
Proof. unfold esk_match. apply bytes_eqb_refl. Qed.

Lemma esk_match_wildcards kid fp : esk_match (TKeyId (repeat x00 8)) kid fp = true /\ esk_match (TFp None) kid fp = true.
Proof. split; reflexivity. Qed.

(* ... and to no other key, unless it is the wildcard *)
Lemma esk_match_foreign_kid id kid fp : is_wildcard id = false -> id <> kid -> esk_match (TKeyId id) kid fp = false.
Proof.
  intros Hw Hne. unfold esk_match. rewrite Hw. cbn [orb].
  destruct (bytes_eqb id kid) eqn:E; [|reflexivity]. apply bytes_eqb_eq in E. contradiction.
Qed.

Lemma esk_match_foreign_fp f kid fp : f <> fp -> esk_match (TFp (Some f)) kid fp = false.
Proof.
  intros Hne. unfold esk_match. destruct (bytes_eqb f fp) eqn:E; [|reflexivity]. apply bytes_eqb_eq in E. contradiction.
Qed.
