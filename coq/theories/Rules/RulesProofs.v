From Coq Require Import List NArith Lia Bool.
From Rpgp Require Import Rules.Rules.
Import ListNotations.
Open Scope N_scope.

Lemma existsb_app_mid {A} (f : A -> bool) x e y :
  f e = false -> existsb f (x ++ e :: y) = existsb f (x ++ y).
Proof. intros H. rewrite !existsb_app. cbn. rewrite H. reflexivity. Qed.

(* a session-key packet that is not aligned with the container never matters *)
Theorem misaligned_esk_ignored o c x e b y : aligned c e = false ->
  may_decrypt o c (x ++ (e, b) :: y) = may_decrypt o c (x ++ y).
Proof.
  intros H. unfold may_decrypt. f_equal. apply existsb_app_mid.
  cbn. unfold usable. rewrite H. reflexivity.
Qed.

Theorem may_decrypt_filter o c esks :
  may_decrypt o c esks = may_decrypt o c (filter (fun p => aligned c (fst p)) esks).
Proof.
  unfold may_decrypt. f_equal. induction esks as [|[e b] l IH]; [reflexivity|].
  cbn [existsb filter fst snd]. destruct (aligned c e) eqn:A.
  - cbn [existsb fst snd]. rewrite IH. reflexivity.
  - unfold usable at 1. rewrite A. cbn. exact IH.
Qed.

(* no downgrade: a v2 SEIPD container opens only through a v6 ESK the caller can open; a v1
   container / SED only through v3 PKESK or v4 SKESK *)
Theorem seipd2_needs_v6 o esks : may_decrypt o SEIPD2 esks = true ->
  exists e, In (e, true) esks /\ (e = PK6 \/ e = SK6).
Proof.
  unfold may_decrypt. cbn [container_allowed andb]. intros H.
  apply existsb_exists in H. destruct H as [[e b] [Hin H]]. cbn in H.
  apply andb_true_iff in H. destruct H as [U B]. subst b.
  exists e. split; [exact Hin|]. unfold usable in U. destruct e; cbn in U; try discriminate; auto.
Qed.

Theorem seipd1_needs_v3_v4 o esks : may_decrypt o SEIPD1 esks = true ->
  exists e, In (e, true) esks /\ (e = PK3 \/ e = SK4).
Proof.
  unfold may_decrypt. cbn [container_allowed andb]. intros H.
  apply existsb_exists in H. destruct H as [[e b] [Hin H]]. cbn in H.
  apply andb_true_iff in H. destruct H as [U B]. subst b.
  exists e. split; [exact Hin|]. unfold usable in U. destruct e; cbn in U; try discriminate; auto.
Qed.

Theorem legacy_containers_need_opt_in o c esks : may_decrypt o c esks = true ->
  (c = SED -> legacy o = true) /\ (c = GAEAD -> gnupg o = true).
Proof.
  unfold may_decrypt. intros H. apply andb_true_iff in H. destruct H as [H _].
  split; intros ->; exact H.
Qed.

Theorem skesk5_needs_opt_in o c esks : gnupg o = false ->
  may_decrypt o c esks = may_decrypt o c (filter (fun p => match fst p with SK5 => false | _ => true end) esks).
Proof.
  intros G. unfold may_decrypt. f_equal. induction esks as [|[e b] l IH]; [reflexivity|].
  cbn [existsb filter fst snd]. destruct e; cbn [existsb fst snd]; rewrite <- ?IH; try reflexivity.
  unfold usable. rewrite G. rewrite andb_false_r. reflexivity.
Qed.

(* signatures *)
Theorem sig_admissible_spec kv sv hashed : sig_admissible kv sv hashed = true ->
  (kv = 6 <-> sv = 6) /\
  forall t crit fpv, In (t, crit, fpv) hashed ->
    (crit = true -> known_subpacket t = true) /\
    (t = 33 -> forall v, fpv = Some v -> (sv = 4 /\ v = 4) \/ (sv = 6 /\ v = 6)).
Proof.
  unfold sig_admissible. intros H. apply andb_true_iff in H. destruct H as [A F]. split.
  - unfold sigkey_aligned in A. apply eqb_prop in A.
    split; intros E; [apply N.eqb_eq; rewrite <- A; apply N.eqb_eq; exact E
                     | apply N.eqb_eq; rewrite A; apply N.eqb_eq; exact E].
  - intros t crit fpv Hin. rewrite forallb_forall in F. specialize (F _ Hin).
    cbn in F. apply andb_true_iff in F. destruct F as [C V]. split.
    + intros ->. exact C.
    + intros -> v ->. cbn in V. unfold fp_version_ok in V.
      apply orb_true_iff in V. destruct V as [V|V]; apply andb_true_iff in V; destruct V as [V1 V2];
        apply N.eqb_eq in V1; apply N.eqb_eq in V2; auto.
Qed.

Theorem v6_key_only_v6_signatures sv hashed : sig_admissible 6 sv hashed = true -> sv = 6.
Proof. intros H. apply sig_admissible_spec in H. destruct H as [[H _] _]. auto. Qed.

Theorem v6_signature_only_v6_keys kv hashed : sig_admissible kv 6 hashed = true -> kv = 6.
Proof. intros H. apply sig_admissible_spec in H. destruct H as [[_ H] _]. auto. Qed.

(* one-pass header *)
Lemma list_eqb_eq a : forall b, list_eqb a b = true <-> a = b.
Proof.
  unfold list_eqb. induction a as [|x a IH]; intros [|y b]; cbn; split; intros H; try discriminate; try reflexivity.
  - apply andb_true_iff in H. destruct H as [L F]. apply andb_true_iff in F. destruct F as [E F].
    apply N.eqb_eq in E. subst y. f_equal. apply IH. apply andb_true_iff. split; assumption.
  - injection H as <- <-. specialize (IH a). destruct IH as [_ IH]. specialize (IH eq_refl).
    apply andb_true_iff in IH. destruct IH as [L F]. rewrite L, F, N.eqb_refl. reflexivity.
Qed.

Theorem ops_matches_iff a b : ops_matches a b = true <->
  o_typ a = o_typ b /\ o_hash a = o_hash b /\ o_alg a = o_alg b /\ o_salt a = o_salt b.
Proof.
  unfold ops_matches. split.
  - intros H. repeat (apply andb_true_iff in H; destruct H as [H ?]).
    apply N.eqb_eq in H. repeat match goal with E : (_ =? _) = true |- _ => apply N.eqb_eq in E end.
    repeat match goal with E : list_eqb _ _ = true |- _ => apply list_eqb_eq in E end. auto.
  - intros [E1 [E2 [E3 E4]]]. rewrite E1, E2, E3, E4, !N.eqb_refl.
    rewrite (proj2 (list_eqb_eq _ _) eq_refl). reflexivity.
Qed.

Theorem ops_pair_iff ov sv : ops_pair_ok ov sv = true <-> (ov = 3 /\ sv = 4) \/ (ov = 6 /\ sv = 6).
Proof.
  unfold ops_pair_ok. rewrite orb_true_iff, !andb_true_iff, !N.eqb_eq. tauto.
Qed.

(* certificates *)
Theorem v6_primary_only_v6_subkeys sv : subkey_version_ok 6 sv = true -> sv = 6.
Proof. cbn. intros H. apply N.eqb_eq. exact H. Qed.

Theorem old_primary_no_subkeys pv sv : pv < 4 -> subkey_version_ok pv sv = false.
Proof.
  intros H. unfold subkey_version_ok.
  destruct (pv =? 6) eqn:E; [apply N.eqb_eq in E; lia|].
  destruct (pv <? 4) eqn:L; [reflexivity|apply N.ltb_ge in L; lia].
Qed.

Theorem signing_subkey_needs_backsig bv bs : binding_ok bv true bs = true -> bs = true.
Proof. unfold binding_ok. cbn. intros H. apply andb_true_iff in H. tauto. Qed.
