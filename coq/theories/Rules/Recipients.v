(* Which session key a set of presented secrets yields (RFC 9580 5.1, 5.3; the library's
   TheRing::find_session_key), over an oracle table of what each secret opens. *)
From Coq Require Import List NArith Lia Bool.
Import ListNotations.
Open Scope N_scope.

Definition skey := N.          (* session keys, by identity *)
Inductive outcome := Found (k : skey) | Missing | Conflict.

(* a PKESK: the recipient it names (None = wildcard / absent) and, for each presented key id,
   the session key that key decrypts from it (absent = decryption fails) *)
Record pkesk := { p_id : option N; p_open : list (N * skey) }.
(* a SKESK: for each presented password id, the session key it yields *)
Record skesk := { s_open : list (N * skey) }.

Fixpoint lookup (j : N) (l : list (N * skey)) : option skey :=
  match l with [] => None | (i, k) :: r => if i =? j then Some k else lookup j r end.

Definition id_match (e : pkesk) (j : N) : bool :=
  match p_id e with None => true | Some i => i =? j end.

Definition found_pk (es : list pkesk) (keys : list N) : list skey :=
  flat_map (fun e => flat_map (fun j =>
    if id_match e j then match lookup j (p_open e) with Some k => [k] | None => [] end else []) keys) es.

Fixpoint first_open (e : skesk) (pws : list N) : list skey :=
  match pws with
  | [] => []
  | p :: r => match lookup p (s_open e) with Some k => [k] | None => first_open e r end
  end.

Definition found_sk (es : list skesk) (pws : list N) : list skey :=
  flat_map (fun e => first_open e pws) es.

Definition all_found (ps : list pkesk) (ss : list skesk) (keys pws : list N) (explicit : list skey) : list skey :=
  found_pk ps keys ++ found_sk ss pws ++ explicit.

Definition decide (abort_early : bool) (ps : list pkesk) (ss : list skesk)
  (keys pws : list N) (explicit : list skey) : outcome :=
  match abort_early, explicit with
  | true, k :: _ => Found k
  | _, _ =>
      match all_found ps ss keys pws explicit with
      | [] => Missing
      | k :: r => if forallb (N.eqb k) r then Found k else Conflict
      end
  end.
