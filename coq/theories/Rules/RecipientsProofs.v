From Coq Require Import List NArith Lia Bool.
From Rpgp Require Import Rules.Recipients.
Import ListNotations.
Open Scope N_scope.

Section D.
Variables (ps : list pkesk) (ss : list skesk) (keys pws : list N) (explicit : list skey).
Let found := all_found ps ss keys pws explicit.

(* nobody presented opens anything: no session key, never a guess *)
Theorem nothing_opens_missing : found = [] -> decide false ps ss keys pws explicit = Missing.
Proof. unfold decide, found. intros ->. destruct explicit; reflexivity. Qed.

(* every secret that opens something yields K: K is returned *)
Theorem all_agree_found K : found <> [] -> (forall k, In k found -> k = K) ->
  decide false ps ss keys pws explicit = Found K.
Proof.
  unfold decide, found. intros Hne Hall.
  assert (D : match all_found ps ss keys pws explicit with
              | [] => Missing | k :: r => if forallb (N.eqb k) r then Found k else Conflict end = Found K).
  { destruct (all_found ps ss keys pws explicit) as [|k r]; [congruence|].
    assert (k = K) by (apply Hall; left; reflexivity). subst k.
    assert (F : forallb (N.eqb K) r = true).
    { apply forallb_forall. intros x Hx. apply N.eqb_eq. symmetry. apply Hall. right. exact Hx. }
    rewrite F. reflexivity. }
  destruct explicit; exact D.
Qed.

(* cross-check requested: two secrets that yield different session keys are a conflict,
   whichever packets and whichever kinds of secret they came from *)
Theorem disagreement_is_conflict k1 k2 : In k1 found -> In k2 found -> k1 <> k2 ->
  decide false ps ss keys pws explicit = Conflict.
Proof.
  unfold decide, found. intros H1 H2 Hne.
  assert (D : match all_found ps ss keys pws explicit with
              | [] => Missing | k :: r => if forallb (N.eqb k) r then Found k else Conflict end = Conflict).
  { destruct (all_found ps ss keys pws explicit) as [|k r]; [destruct H1|].
    destruct (forallb (N.eqb k) r) eqn:F; [|reflexivity]. exfalso.
    rewrite forallb_forall in F.
    assert (A : forall x, In x (k :: r) -> x = k).
    { intros x [->|Hx]; [reflexivity|]. symmetry. apply N.eqb_eq. apply F. exact Hx. }
    apply Hne. rewrite (A _ H1), (A _ H2). reflexivity. }
  destruct explicit; exact D.
Qed.

(* a returned key was really obtained from a presented secret *)
Theorem found_is_sound b K : decide b ps ss keys pws explicit = Found K -> In K found.
Proof.
  unfold decide, found, all_found. intros H.
  destruct b, explicit as [|e ex]; try (injection H as <-; apply in_or_app; right; apply in_or_app; right; left; reflexivity).
  all: destruct (found_pk ps keys ++ found_sk ss pws ++ _) as [|k r] eqn:E; try discriminate;
       destruct (forallb (N.eqb k) r); try discriminate; injection H as <-; left; reflexivity.
Qed.
End D.

(* presenting more secrets that open nothing never changes the outcome *)
Lemma lookup_none_flat e j : lookup j (p_open e) = None ->
  (if id_match e j then match lookup j (p_open e) with Some k => [k] | None => [] end else []) = @nil skey.
Proof. intros ->. destruct (id_match e j); reflexivity. Qed.

Theorem unrelated_key_ignored ps keys j : (forall e, In e ps -> lookup j (p_open e) = None) ->
  found_pk ps (keys ++ [j]) = found_pk ps keys.
Proof.
  intros H. unfold found_pk. induction ps as [|e es IH]; [reflexivity|].
  cbn [flat_map]. rewrite IH by (intros e' He'; apply H; right; exact He').
  f_equal. rewrite flat_map_app. cbn [flat_map]. rewrite lookup_none_flat by (apply H; left; reflexivity).
  rewrite !app_nil_r. reflexivity.
Qed.

(* an anonymous (wildcard) recipient: EVERY presented key is tried -- whichever of them opens the packet contributes
   its session key, wherever it stands among the presented keys *)
Theorem wildcard_tries_every_key (es : list pkesk) (ks : list N) e j k :
  In e es -> p_id e = None -> In j ks -> lookup j (p_open e) = Some k -> In k (found_pk es ks).
Proof.
  intros He Hid Hj Hl. unfold found_pk. apply in_flat_map. exists e. split; [exact He|].
  apply in_flat_map. exists j. split; [exact Hj|]. unfold id_match. rewrite Hid, Hl. left. reflexivity.
Qed.

(* a named recipient: the named key, if presented and able to open the packet, contributes its session key ... *)
Theorem named_key_is_tried (es : list pkesk) (ks : list N) e i k :
  In e es -> p_id e = Some i -> In i ks -> lookup i (p_open e) = Some k -> In k (found_pk es ks).
Proof.
  intros He Hid Hj Hl. unfold found_pk. apply in_flat_map. exists e. split; [exact He|].
  apply in_flat_map. exists i. split; [exact Hj|]. unfold id_match. rewrite Hid, N.eqb_refl, Hl. left. reflexivity.
Qed.

(* ... and no other key is tried on it: what a single named packet contributes comes from the named key *)
Theorem named_packet_only_named_key (ks : list N) e i k :
  p_id e = Some i -> In k (found_pk [e] ks) -> In i ks /\ lookup i (p_open e) = Some k.
Proof.
  intros Hid H. unfold found_pk in H. cbn [flat_map] in H. rewrite app_nil_r in H.
  apply in_flat_map in H. destruct H as (j & Hj & Hk). unfold id_match in Hk. rewrite Hid in Hk.
  destruct (N.eqb_spec i j) as [->|Hne]; [|destruct Hk].
  destruct (lookup j (p_open e)) as [k'|] eqn:El; [|destruct Hk].
  destruct Hk as [<-|[]]. split; [exact Hj|reflexivity].
Qed.
