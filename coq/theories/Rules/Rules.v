(* Acceptance rules of RFC 9580 that prevent downgrade and confusion, as decision functions. *)
From Coq Require Import List NArith Lia Bool.
Import ListNotations.
Open Scope N_scope.

(* ---- 10.3.2.1: session-key packets and encrypted containers ---- *)
Inductive container := SED | SEIPD1 | SEIPD2 | GAEAD.
Inductive esk := PK3 | PK6 | PKother | SK4 | SK5 | SK6 | SKother.
Record opts := { legacy : bool; gnupg : bool }.

Definition aligned (c : container) (e : esk) : bool :=
  match c, e with
  | SED, PK3 | SED, SK4 => true
  | SEIPD1, PK3 | SEIPD1, SK4 => true
  | SEIPD2, PK6 | SEIPD2, SK6 => true
  | GAEAD, PK3 | GAEAD, SK4 | GAEAD, SK5 => true
  | _, _ => false
  end.

Definition container_allowed (o : opts) (c : container) : bool :=
  match c with SED => legacy o | GAEAD => gnupg o | _ => true end.

Definition usable (o : opts) (c : container) (e : esk) : bool :=
  aligned c e && match e with SK5 => gnupg o | _ => true end.

(* an ESK with the flag "the caller holds the credential that opens it" *)
Definition may_decrypt (o : opts) (c : container) (esks : list (esk * bool)) : bool :=
  container_allowed o c && existsb (fun p => usable o c (fst p) && snd p) esks.

(* ---- 5.2: signatures ---- *)
Definition sigkey_aligned (kv sv : N) : bool := Bool.eqb (kv =? 6) (sv =? 6).

(* subpacket types this implementation evaluates (5.2.3.7 Table 5) *)
Definition known_subpackets : list N :=
  [2; 3; 4; 5; 6; 7; 9; 11; 12; 16; 20; 21; 22; 23; 24; 25; 26; 27; 28; 29; 30; 31; 32; 33; 34; 35; 39].
Definition known_subpacket (t : N) : bool := existsb (N.eqb t) known_subpackets.
Definition critical_ok (t : N) (crit : bool) : bool := negb crit || known_subpacket t.

(* 5.2.3.35: the version octet of an issuer fingerprint equals the signature version *)
Definition fp_version_ok (sv fpv : N) : bool :=
  ((sv =? 4) && (fpv =? 4)) || ((sv =? 6) && (fpv =? 6)).

(* a hashed subpacket: type, critical bit, and (for issuer fingerprints) the key version octet *)
Definition sub := (N * bool * option N)%type.
Definition sub_ok (sv : N) (s : sub) : bool :=
  let '(t, crit, fpv) := s in
  critical_ok t crit &&
  match fpv with Some v => if t =? 33 then fp_version_ok sv v else true | None => true end.

Definition sig_admissible (kv sv : N) (hashed : list sub) : bool :=
  sigkey_aligned kv sv && forallb (sub_ok sv) hashed.

(* ---- 5.4: one-pass signature header vs. the signature that closes it ---- *)
Record opsf := { o_typ : N; o_hash : N; o_alg : N; o_issuer : list N; o_salt : list N }.
Definition list_eqb (a b : list N) : bool :=
  Nat.eqb (length a) (length b) && forallb (fun p => fst p =? snd p) (combine a b).
(* the issuer named in the header is a hint for finding the key; it has no counterpart that a
   signature must carry (issuer subpackets are optional), so it does not take part *)
Definition ops_matches (a b : opsf) : bool :=
  (o_typ a =? o_typ b) && (o_hash a =? o_hash b) && (o_alg a =? o_alg b) &&
  list_eqb (o_salt a) (o_salt b).

(* the version of the header is paired with the version of the signature: a v3 header announces a v4
   signature, a v6 header (which carries the salt hashed in front of the body) a v6 signature; nothing else.
   (Without the pairing a v4 signature over S || M would verify as a signature over M behind a v6
   header with salt S.) *)
Definition ops_pair_ok (ov sv : N) : bool := ((ov =? 3) && (sv =? 4)) || ((ov =? 6) && (sv =? 6)).

(* ---- 10.1: certificates ---- *)
Definition subkey_version_ok (pv sv : N) : bool :=
  if pv =? 6 then sv =? 6 else if pv <? 4 then false else true.

(* a subkey binding: signing-capable subkeys need a valid embedded primary-key binding
   signature; ONE rule for public and secret certificates *)
Definition binding_ok (binding_valid signing_capable backsig_valid : bool) : bool :=
  binding_valid && (negb signing_capable || backsig_valid).
