(* Rules/Identity.v -- which key a signature or a PKESK names (C13, C18): the lookup side of
   the fingerprints and key ids the library embeds.

   Mirrors src/packet/signature/types.rs Signature::match_identity (issuer key ids and issuer
   fingerprints from the hashed and the unhashed area; a signature that names nobody matches
   every key) and src/packet/public_key_encrypted_session_key.rs match_identity (v3: key id,
   all-zero = wildcard; v6: fingerprint, absent = wildcard). *)
From Rpgp Require Import Base.Octets Base.Res Sig.Fingerprint Key.Lock.

Definition id_is_nil {A} (l : list A) : bool := match l with [] => true | _ => false end.

(* kids / fps: the issuer key ids / issuer fingerprints the signature carries *)
Definition sig_match (kids fps : list bytes) (key_kid key_fp : bytes) : bool :=
  if id_is_nil kids && id_is_nil fps then true
  else existsb (bytes_eqb key_kid) kids || existsb (bytes_eqb key_fp) fps.

Inductive esk_target := TKeyId (id : bytes) | TFp (fp : option bytes) | TOther.

Definition is_wildcard (id : bytes) : bool := forallb (fun b => b2n b =? 0) id.

Definition esk_match (t : esk_target) (key_kid key_fp : bytes) : bool :=
  match t with
  | TKeyId id => is_wildcard id || bytes_eqb id key_kid
  | TFp None => true
  | TFp (Some f) => bytes_eqb f key_fp
  | TOther => false
  end.

(* what the library embeds for a key of version kv with fingerprint fp *)
Definition embedded_kid (kv : N) (fp : bytes) : bytes := keyid kv fp.
