(* Armor/Base64Proofs.v -- base64 round trip, the dearmorer's quantum decoder
   on writer output, line wrapping (C10). *)
From Rpgp Require Import Base.Octets Armor.Base64.
From Coq Require Import ZifyBool ZifyN ZifyNat.

(* ------------------------------------------------ finite facts about the alphabet *)

Definition nrange (k : nat) : list N := map N.of_nat (seq 0 k).

Lemma in_nrange n k : n < N.of_nat k -> In n (nrange k).
Proof.
  intros H. unfold nrange. replace n with (N.of_nat (N.to_nat n)) by lia.
  apply in_map. apply in_seq. lia.
Qed.

Lemma all64_val :
  forallb (fun n => match b64_val (b64_char n) with Some m => N.eqb m n | None => false end)
          (nrange 64) = true.
Proof. vm_compute. reflexivity. Qed.

Lemma b64_val_char n : n < 64 -> b64_val (b64_char n) = Some n.
Proof.
  intros H. pose proof all64_val as A. rewrite forallb_forall in A.
  specialize (A n (in_nrange n 64 H)).
  destruct (b64_val (b64_char n)) as [m|]; [|discriminate].
  apply N.eqb_eq in A. subst. reflexivity.
Qed.

Lemma all64_plain :
  forallb (fun n => negb (beq (b64_char n) PAD) && negb (is_nl (b64_char n))) (nrange 64) = true.
Proof. vm_compute. reflexivity. Qed.

Lemma b64_char_plain n : n < 64 -> beq (b64_char n) PAD = false /\ is_nl (b64_char n) = false.
Proof.
  intros H. pose proof all64_plain as A. rewrite forallb_forall in A.
  specialize (A n (in_nrange n 64 H)). apply andb_true_iff in A. destruct A as [A1 A2].
  split; [destruct (beq (b64_char n) PAD) | destruct (is_nl (b64_char n))];
    (reflexivity || discriminate).
Qed.

Lemma PAD_not_nl : is_nl PAD = false. Proof. reflexivity. Qed.

(* ------------------------------------------------ quanta *)

Lemma n2b_eq a x : x = b2n a -> n2b x = a.
Proof. intros ->. apply n2b_b2n. Qed.

Definition dec_q (q : bytes) : option (bytes * bool) :=
  match q with [c1; c2; c3; c4] => dec_quantum c1 c2 c3 c4 | _ => None end.

Lemma dec_enc3 a b c : dec_q (enc3 a b c) = Some ([a; b; c], false).
Proof.
  unfold enc3, dec_q, dec_quantum.
  pose proof (b2n_lt a) as Ha. pose proof (b2n_lt b) as Hb. pose proof (b2n_lt c) as Hc.
  set (n := b2n a * 65536 + b2n b * 256 + b2n c).
  assert (H1 : n / 262144 < 64) by (unfold n; lia).
  assert (H2 : (n / 4096) mod 64 < 64) by lia.
  assert (H3 : (n / 64) mod 64 < 64) by lia.
  assert (H4 : n mod 64 < 64) by lia.
  rewrite !b64_val_char by assumption.
  destruct (b64_char_plain _ H3) as [P3 _]. destruct (b64_char_plain _ H4) as [P4 _].
  rewrite P3, P4.
  assert (E1 : n / 262144 * 4 + (n / 4096) mod 64 / 16 = b2n a) by (unfold n; lia).
  assert (E2 : ((n / 4096) mod 64) mod 16 * 16 + (n / 64) mod 64 / 4 = b2n b) by (unfold n; lia).
  assert (E3 : ((n / 64) mod 64) mod 4 * 64 + n mod 64 = b2n c) by (unfold n; lia).
  rewrite (n2b_eq a _ E1), (n2b_eq b _ E2), (n2b_eq c _ E3). reflexivity.
Qed.

Lemma dec_enc2 a b : dec_q (enc2 a b) = Some ([a; b], true).
Proof.
  unfold enc2, dec_q, dec_quantum.
  pose proof (b2n_lt a) as Ha. pose proof (b2n_lt b) as Hb.
  set (n := b2n a * 65536 + b2n b * 256).
  assert (H1 : n / 262144 < 64) by (unfold n; lia).
  assert (H2 : (n / 4096) mod 64 < 64) by lia.
  assert (H3 : (n / 64) mod 64 < 64) by lia.
  rewrite !b64_val_char by assumption.
  destruct (b64_char_plain _ H3) as [P3 _]. rewrite P3.
  change (beq PAD PAD) with true. cbn match.
  assert (E0 : ((n / 64) mod 64) mod 4 = 0) by (unfold n; lia).
  rewrite E0. change (0 =? 0) with true. cbn match.
  assert (E1 : n / 262144 * 4 + (n / 4096) mod 64 / 16 = b2n a) by (unfold n; lia).
  assert (E2 : ((n / 4096) mod 64) mod 16 * 16 + (n / 64) mod 64 / 4 = b2n b) by (unfold n; lia).
  rewrite (n2b_eq a _ E1), (n2b_eq b _ E2). reflexivity.
Qed.

Lemma dec_enc1 a : dec_q (enc1 a) = Some ([a], true).
Proof.
  unfold enc1, dec_q, dec_quantum.
  pose proof (b2n_lt a) as Ha.
  set (n := b2n a * 65536).
  assert (H1 : n / 262144 < 64) by (unfold n; lia).
  assert (H2 : (n / 4096) mod 64 < 64) by lia.
  rewrite !b64_val_char by assumption.
  change (beq PAD PAD) with true. cbn match.
  assert (E0 : ((n / 4096) mod 64) mod 16 = 0) by (unfold n; lia).
  rewrite E0. change (0 =? 0) with true. cbn match.
  assert (E1 : n / 262144 * 4 + (n / 4096) mod 64 / 16 = b2n a) by (unfold n; lia).
  rewrite (n2b_eq a _ E1). reflexivity.
Qed.

(* ------------------------------------------------ strict round trip *)

Lemma three_ind (P : bytes -> Prop) :
  P [] -> (forall a, P [a]) -> (forall a b, P [a; b]) ->
  (forall a b c t, P t -> P (a :: b :: c :: t)) -> forall l, P l.
Proof.
  intros H0 H1 H2 H3.
  assert (H : forall l, P l /\ (forall a, P (a :: l)) /\ (forall a b, P (a :: b :: l))).
  { induction l as [|x t [IH0 [IH1 IH2]]].
    - split; [exact H0|]. split; [exact H1|exact H2].
    - split; [apply IH1|]. split; [intros a; apply IH2|]. intros a b. apply H3. exact IH0. }
  intros l. apply H.
Qed.

Theorem b64_dec_enc d : b64_dec (b64_enc d) = Some d.
Proof.
  induction d as [|a|a b|a b c t IH] using three_ind.
  - reflexivity.
  - cbn [b64_enc]. pose proof (dec_enc1 a) as H. unfold enc1, dec_q in *.
    cbn [b64_dec]. rewrite H. reflexivity.
  - cbn [b64_enc]. pose proof (dec_enc2 a b) as H. unfold enc2, dec_q in *.
    cbn [b64_dec]. rewrite H. reflexivity.
  - cbn [b64_enc]. pose proof (dec_enc3 a b c) as H. unfold enc3, dec_q in *.
    cbn [app b64_dec]. rewrite H, IH. reflexivity.
Qed.

(* the dearmorer's decoder on writer output followed by anything that does
   not start with a decodable quantum *)
Definition stops (left : bytes) : Prop := dec_quanta left = ([], left).

Theorem dec_quanta_enc d left : stops left -> dec_quanta (b64_enc d ++ left) = (d, left).
Proof.
  intros Hs. induction d as [|a|a b|a b c t IH] using three_ind.
  - exact Hs.
  - cbn [b64_enc]. pose proof (dec_enc1 a) as H. unfold enc1, dec_q in *.
    cbn [app dec_quanta]. rewrite H, Hs. reflexivity.
  - cbn [b64_enc]. pose proof (dec_enc2 a b) as H. unfold enc2, dec_q in *.
    cbn [app dec_quanta]. rewrite H, Hs. reflexivity.
  - cbn [b64_enc]. pose proof (dec_enc3 a b c) as H. unfold enc3, dec_q in *.
    cbn [app dec_quanta]. rewrite H, IH. reflexivity.
Qed.

(* what follows the data in an armor body stops the decoder: the checksum
   "=XXXX", or nothing *)
Lemma stops_nil : stops []. Proof. reflexivity. Qed.

Lemma stops_pad_first c2 c3 c4 t : stops (PAD :: c2 :: c3 :: c4 :: t).
Proof. unfold stops. cbn [dec_quanta]. unfold dec_quantum. reflexivity. Qed.

Lemma stops_short l : (length l < 4)%nat -> stops l.
Proof.
  intros H. unfold stops. destruct l as [|a [|b [|c [|d t]]]]; try reflexivity.
  cbn in H. lia.
Qed.

(* ------------------------------------------------ encoder output *)

Definition plain (b : byte) : bool := negb (is_nl b).

Lemma b64_enc_plain d : forallb plain (b64_enc d) = true.
Proof.
  induction d as [|a|a b|a b c t IH] using three_ind.
  - reflexivity.
  - cbn [b64_enc]. unfold enc1. pose proof (b2n_lt a).
    cbn [forallb]. unfold plain.
    destruct (b64_char_plain (b2n a * 65536 / 262144) ltac:(lia)) as [_ ->].
    destruct (b64_char_plain ((b2n a * 65536 / 4096) mod 64) ltac:(lia)) as [_ ->].
    reflexivity.
  - cbn [b64_enc]. unfold enc2. pose proof (b2n_lt a). pose proof (b2n_lt b).
    cbn [forallb]. unfold plain.
    destruct (b64_char_plain ((b2n a * 65536 + b2n b * 256) / 262144) ltac:(lia)) as [_ ->].
    destruct (b64_char_plain (((b2n a * 65536 + b2n b * 256) / 4096) mod 64) ltac:(lia)) as [_ ->].
    destruct (b64_char_plain (((b2n a * 65536 + b2n b * 256) / 64) mod 64) ltac:(lia)) as [_ ->].
    reflexivity.
  - cbn [b64_enc]. unfold enc3. pose proof (b2n_lt a). pose proof (b2n_lt b). pose proof (b2n_lt c).
    cbn [app forallb]. unfold plain at 1 2 3 4.
    destruct (b64_char_plain ((b2n a * 65536 + b2n b * 256 + b2n c) / 262144) ltac:(lia)) as [_ ->].
    destruct (b64_char_plain (((b2n a * 65536 + b2n b * 256 + b2n c) / 4096) mod 64) ltac:(lia)) as [_ ->].
    destruct (b64_char_plain (((b2n a * 65536 + b2n b * 256 + b2n c) / 64) mod 64) ltac:(lia)) as [_ ->].
    destruct (b64_char_plain ((b2n a * 65536 + b2n b * 256 + b2n c) mod 64) ltac:(lia)) as [_ ->].
    exact IH.
Qed.

Lemma b64_enc_length d : lenN (b64_enc d) = 4 * ((lenN d + 2) / 3).
Proof.
  induction d as [|a|a b|a b c t IH] using three_ind.
  - reflexivity.
  - reflexivity.
  - reflexivity.
  - cbn [b64_enc]. unfold enc3. cbn [app]. rewrite !lenN_cons, IH. lia.
Qed.

(* ------------------------------------------------ wrapping *)

Lemma strip_nl_app a b : strip_nl (a ++ b) = strip_nl a ++ strip_nl b.
Proof. unfold strip_nl. apply filter_app. Qed.

Lemma strip_nl_plain s : forallb plain s = true -> strip_nl s = s.
Proof.
  unfold strip_nl, plain. induction s as [|x t IH]; intros H; [reflexivity|].
  cbn [forallb] in H. apply andb_true_iff in H. destruct H as [H1 H2].
  cbn [filter]. rewrite H1. f_equal. apply IH. exact H2.
Qed.

Lemma forallb_takeN {A} (f : A -> bool) n l : forallb f l = true -> forallb f (takeN n l) = true.
Proof.
  revert n; induction l as [|x t IH]; intros n H; [reflexivity|].
  cbn [takeN]. destruct (N.eqb n 0); [reflexivity|].
  cbn [forallb] in *. apply andb_true_iff in H. destruct H as [H1 H2].
  rewrite H1. apply IH. exact H2.
Qed.

Lemma forallb_dropN {A} (f : A -> bool) n l : forallb f l = true -> forallb f (dropN n l) = true.
Proof.
  revert n; induction l as [|x t IH]; intros n H; [reflexivity|].
  cbn [dropN]. destruct (N.eqb n 0); [exact H|].
  cbn [forallb] in H. apply andb_true_iff in H. destruct H as [H1 H2]. apply IH. exact H2.
Qed.

Theorem strip_wrap w s : 1 <= w -> forallb plain s = true -> strip_nl (wrap w s) = s.
Proof.
  intros Hw. unfold wrap.
  assert (G : forall fuel s, (length s <= fuel)%nat -> forallb plain s = true ->
                             strip_nl (wrap_fuel fuel w s) = s).
  { induction fuel as [|f IH]; intros s0 Hl Hp.
    - destruct s0; [reflexivity|cbn in Hl; lia].
    - cbn [wrap_fuel]. destruct s0 as [|x t] eqn:E; [reflexivity|]. rewrite <- E in *.
      rewrite !strip_nl_app.
      rewrite (strip_nl_plain (takeN w s0)) by (apply forallb_takeN; exact Hp).
      change (strip_nl [LF]) with (@nil byte). cbn [app].
      rewrite IH.
      + apply takeN_dropN.
      + assert (lenN (dropN w s0) < lenN s0).
        { rewrite lenN_dropN. subst s0. rewrite lenN_cons. lia. }
        unfold lenN in *. lia.
      + apply forallb_dropN. exact Hp. }
  intros Hp. apply G; [lia|exact Hp].
Qed.

(* the lines of the wrapped text *)
Fixpoint chunks_fuel (fuel : nat) (w : N) (s : bytes) : list bytes :=
  match fuel with
  | O => []
  | S f => match s with [] => [] | _ => takeN w s :: chunks_fuel f w (dropN w s) end
  end.
Definition chunks (w : N) (s : bytes) : list bytes := chunks_fuel (length s) w s.

Lemma wrap_is_lines w s : wrap w s = concat (map (fun c => c ++ [LF]) (chunks w s)).
Proof.
  unfold wrap, chunks. generalize (length s) as fuel. intros fuel. revert s.
  induction fuel as [|f IH]; intros s; [reflexivity|].
  cbn [wrap_fuel chunks_fuel]. destruct s as [|x t]; [reflexivity|].
  cbn [map concat]. rewrite IH, <- app_assoc. reflexivity.
Qed.

(* every line has at most w characters and is not empty; every line but the
   last has exactly w *)
Theorem chunks_lengths w s :
  1 <= w ->
  Forall (fun c => 1 <= lenN c /\ lenN c <= w) (chunks w s) /\
  Forall (fun c => lenN c = w) (removelast (chunks w s)) /\
  concat (chunks w s) = s.
Proof.
  intros Hw. unfold chunks.
  assert (G : forall fuel s, (length s <= fuel)%nat ->
    Forall (fun c => 1 <= lenN c /\ lenN c <= w) (chunks_fuel fuel w s) /\
    Forall (fun c => lenN c = w) (removelast (chunks_fuel fuel w s)) /\
    concat (chunks_fuel fuel w s) = s).
  { induction fuel as [|f IH]; intros s0 Hl.
    - destruct s0; [repeat split; constructor|cbn in Hl; lia].
    - cbn [chunks_fuel]. destruct s0 as [|x t] eqn:E; [repeat split; constructor|]. rewrite <- E in *.
      assert (Hlen : 1 <= lenN s0) by (subst s0; rewrite lenN_cons; lia).
      destruct (IH (dropN w s0)) as [I1 [I2 I3]].
      { assert (lenN (dropN w s0) < lenN s0) by (rewrite lenN_dropN; lia).
        unfold lenN in *. lia. }
      split; [|split].
      + constructor; [rewrite lenN_takeN; lia|exact I1].
      + cbn [removelast]. destruct (chunks_fuel f w (dropN w s0)) as [|c cs] eqn:Ec; [constructor|].
        constructor; [|exact I2].
        (* there is a further chunk, so more than w characters were present *)
        rewrite lenN_takeN.
        assert (dropN w s0 <> []).
        { intros Hn. rewrite Hn in Ec. destruct f; discriminate. }
        assert (w < lenN s0).
        { destruct (N.ltb_spec w (lenN s0)); [assumption|].
          exfalso. apply H. apply dropN_all. lia. }
        lia.
      + cbn [concat]. rewrite I3. apply takeN_dropN. }
  apply G. lia.
Qed.

(* every character of the encoder output is an alphabet character or '=' *)
Lemma b64_enc_forall (P : byte -> bool) d :
  (forall n, n < 64 -> P (b64_char n) = true) -> P PAD = true -> forallb P (b64_enc d) = true.
Proof.
  intros HP Hpad. induction d as [|a|a b|a b c t IH] using three_ind.
  - reflexivity.
  - cbn [b64_enc]. unfold enc1. pose proof (b2n_lt a).
    cbn [forallb]. rewrite !HP by lia. rewrite Hpad. reflexivity.
  - cbn [b64_enc]. unfold enc2. pose proof (b2n_lt a). pose proof (b2n_lt b).
    cbn [forallb]. rewrite !HP by lia. rewrite Hpad. reflexivity.
  - cbn [b64_enc]. unfold enc3. pose proof (b2n_lt a). pose proof (b2n_lt b). pose proof (b2n_lt c).
    cbn [app forallb]. rewrite !HP by lia. exact IH.
Qed.

Lemma forallb_wrap (P : byte -> bool) w s :
  P LF = true -> forallb P s = true -> forallb P (wrap w s) = true.
Proof.
  intros HLF. unfold wrap. generalize (length s) as fuel. intros fuel. revert s.
  induction fuel as [|f IH]; intros s Hs; [reflexivity|].
  cbn [wrap_fuel]. destruct s as [|x t] eqn:E; [reflexivity|]. rewrite <- E in *.
  rewrite !forallb_app. rewrite forallb_takeN by exact Hs. cbn [forallb]. rewrite HLF.
  rewrite IH by (apply forallb_dropN; exact Hs). reflexivity.
Qed.
