(* Armor/Armor.v -- ASCII armor (C10): the writer and the tolerant reader as
   functions on octet strings.

   Mirrors:
     src/armor/writer.rs   write, write_header, write_body, write_footer
     src/line_writer.rs    LineWriter (as [wrap 64])
     src/armor/reader.rs   header_parser, armor_header_line, armor_header_type,
                           key_value_pair(s), footer_parser, read_checksum,
                           Dearmor::{read, read_body, read_footer, crc24_status}
     src/base64/reader.rs  Base64Reader::read (token filter), decoder.rs (dec_quanta) *)
From Coq Require Import Strings.String.
From Rpgp Require Import Base.Octets Base.Res Armor.Base64.

Definition str (s : string) : bytes := list_byte_of_string s.

(* ------------------------------------------------ block types *)

Inductive btype :=
| PublicKey | PrivateKey | MultiPart (x y : N) | Message | Signature | File | Cleartext
| RsaPublic | DsaPublic | EcPublic | Pkcs8Public | OpensshPublic
| RsaPrivate | DsaPrivate | EcPrivate | Pkcs8Private | OpensshPrivate.

(* decimal digits of a number (Display for usize) *)
Fixpoint dec_digits_fuel (fuel : nat) (n : N) (acc : bytes) : bytes :=
  match fuel with
  | O => acc
  | S f =>
      let acc' := n2b (48 + n mod 10) :: acc in
      if n / 10 =? 0 then acc' else dec_digits_fuel f (n / 10) acc'
  end.
Definition dec_digits (n : N) : bytes := dec_digits_fuel 25 n [].

Definition s_pubkey : bytes := Eval vm_compute in str "PGP PUBLIC KEY BLOCK".
Definition s_privkey : bytes := Eval vm_compute in str "PGP PRIVATE KEY BLOCK".
Definition s_part : bytes := Eval vm_compute in str "PGP MESSAGE, PART ".
Definition s_message : bytes := Eval vm_compute in str "PGP MESSAGE".
Definition s_signature : bytes := Eval vm_compute in str "PGP SIGNATURE".
Definition s_file : bytes := Eval vm_compute in str "PGP ARMORED FILE".
Definition s_cleartext : bytes := Eval vm_compute in str "PGP SIGNED MESSAGE".
Definition s_rsapub : bytes := Eval vm_compute in str "RSA PUBLIC KEY".
Definition s_dsapub : bytes := Eval vm_compute in str "DSA PUBLIC KEY".
Definition s_ecpub : bytes := Eval vm_compute in str "EC PUBLIC KEY".
Definition s_p8pub : bytes := Eval vm_compute in str "PUBLIC KEY".
Definition s_sshpub : bytes := Eval vm_compute in str "OPENSSH PUBLIC KEY".
Definition s_rsapriv : bytes := Eval vm_compute in str "RSA PRIVATE KEY".
Definition s_dsapriv : bytes := Eval vm_compute in str "DSA PRIVATE KEY".
Definition s_ecpriv : bytes := Eval vm_compute in str "EC PRIVATE KEY".
Definition s_p8priv : bytes := Eval vm_compute in str "PRIVATE KEY".
Definition s_sshpriv : bytes := Eval vm_compute in str "OPENSSH PRIVATE KEY".
Definition s_begin : bytes := Eval vm_compute in str "-----BEGIN ".
Definition s_end : bytes := Eval vm_compute in str "-----END ".
Definition s_end3 : bytes := Eval vm_compute in str "---END ".
Definition s_dashes : bytes := Eval vm_compute in str "-----".
Definition s_dd : bytes := Eval vm_compute in str "--".
Definition s_colsp : bytes := Eval vm_compute in str ": ".
Definition SLASH : byte := x2f.
Definition COLON : byte := x3a.

(* fmt::Display for BlockType *)
Definition type_str (t : btype) : bytes :=
  match t with
  | PublicKey => s_pubkey | PrivateKey => s_privkey
  | MultiPart x y => s_part ++ dec_digits x ++ [SLASH] ++ dec_digits y
  | Message => s_message | Signature => s_signature | File => s_file | Cleartext => s_cleartext
  | RsaPublic => s_rsapub | DsaPublic => s_dsapub | EcPublic => s_ecpub
  | Pkcs8Public => s_p8pub | OpensshPublic => s_sshpub
  | RsaPrivate => s_rsapriv | DsaPrivate => s_dsapriv | EcPrivate => s_ecpriv
  | Pkcs8Private => s_p8priv | OpensshPrivate => s_sshpriv
  end.

(* ------------------------------------------------ the writer *)

(* headers: the BTreeMap flattened in iteration order, (key, value) *)
Definition header_lines (hs : list (bytes * bytes)) : bytes :=
  concat (map (fun kv => fst kv ++ s_colsp ++ snd kv ++ [LF]) hs).

Definition checksum_line (data : bytes) : bytes :=
  PAD :: b64_enc (be24 (crc24 data)) ++ [LF].

Definition armor (t : btype) (hs : list (bytes * bytes)) (data : bytes) (cksum : bool) : bytes :=
  s_begin ++ type_str t ++ s_dashes ++ [LF]
  ++ header_lines hs ++ [LF]
  ++ wrap 64 (b64_enc data)
  ++ (if cksum then checksum_line data else [])
  ++ s_end ++ type_str t ++ s_dashes ++ [LF].

(* ------------------------------------------------ parsing helpers *)

Fixpoint strip_prefix (p l : bytes) : option bytes :=
  match p with
  | [] => Some l
  | a :: p' => match l with
               | b :: l' => if beq a b then strip_prefix p' l' else None
               | [] => None
               end
  end.

(* nom line_ending *)
Definition line_ending (l : bytes) : option bytes :=
  match l with
  | a :: t =>
      if beq a LF then Some t
      else if beq a CR then
        match t with b :: t' => if beq b LF then Some t' else None | [] => None end
      else None
  | [] => None
  end.

Fixpoint many_line_endings (fuel : nat) (l : bytes) : bytes :=
  match fuel with
  | O => l
  | S f => match line_ending l with Some r => many_line_endings f r | None => l end
  end.

(* take_until "-----": (prefix, rest beginning with "-----") *)
Fixpoint until_dashes (l : bytes) : option (bytes * bytes) :=
  match strip_prefix s_dashes l with
  | Some _ => Some ([], l)
  | None =>
      match l with
      | [] => None
      | a :: t => match until_dashes t with
                  | Some (p, r) => Some (a :: p, r)
                  | None => None
                  end
      end
  end.

Definition is_digit (b : byte) : bool := (48 <=? b2n b) && (b2n b <=? 57).

Fixpoint digits (l : bytes) (acc : N) (seen : bool) : option (N * bytes) :=
  match l with
  | a :: t => if is_digit a then digits t (acc * 10 + (b2n a - 48)) true
              else if seen then Some (acc, l) else None
  | [] => if seen then Some (acc, l) else None
  end.

(* armor_header_type: the alternatives in the order the code tries them *)
Definition try_fixed (s : bytes) (t : btype) (l : bytes) : option (btype * bytes) :=
  match strip_prefix s l with Some r => Some (t, r) | None => None end.

Definition orelse {A} (a b : option A) : option A := match a with Some _ => a | None => b end.

Definition parse_multipart (l : bytes) : option (btype * bytes) :=
  match strip_prefix s_part l with
  | Some r =>
      match digits r 0 false with
      | Some (x, r1) =>
          if 18446744073709551616 <=? x then None else
          match r1 with
          | c :: r2 =>
              if beq c SLASH then
                match digits r2 0 false with
                | Some (y, r3) =>
                    if 18446744073709551616 <=? y then None else Some (MultiPart x y, r3)
                | None => Some (MultiPart x 0, r1)
                end
              else Some (MultiPart x 0, r1)
          | [] => Some (MultiPart x 0, r1)
          end
      | None => None
      end
  | None => None
  end.

Definition parse_type (l : bytes) : option (btype * bytes) :=
  orelse (try_fixed s_pubkey PublicKey l)
  (orelse (try_fixed s_privkey PrivateKey l)
  (orelse (parse_multipart l)
  (orelse (try_fixed s_message Message l)
  (orelse (try_fixed s_signature Signature l)
  (orelse (try_fixed s_file File l)
  (orelse (try_fixed s_cleartext Cleartext l)
  (orelse (try_fixed s_rsapub RsaPublic l)
  (orelse (try_fixed s_dsapub DsaPublic l)
  (orelse (try_fixed s_ecpub EcPublic l)
  (orelse (try_fixed s_p8pub Pkcs8Public l)
  (orelse (try_fixed s_sshpub OpensshPublic l)
  (orelse (try_fixed s_rsapriv RsaPrivate l)
  (orelse (try_fixed s_dsapriv DsaPrivate l)
  (orelse (try_fixed s_ecpriv EcPrivate l)
  (orelse (try_fixed s_p8priv Pkcs8Private l)
          (try_fixed s_sshpriv OpensshPrivate l)))))))))))))))).

(* terminated(not_line_ending, line_ending): (line, rest); a CR that is not
   followed by LF is an error *)
Fixpoint take_line (l : bytes) : option (bytes * bytes) :=
  match l with
  | [] => None
  | a :: t =>
      if beq a LF then Some ([], t)
      else if beq a CR then
        match t with b :: t' => if beq b LF then Some ([], t') else None | [] => None end
      else match take_line t with
           | Some (ln, r) => Some (a :: ln, r)
           | None => None
           end
  end.

(* position of the first ": " *)
Fixpoint find_colsp (l : bytes) : option N :=
  match l with
  | a :: t =>
      match t with
      | b :: _ => if beq a COLON && beq b SP then Some 0
                  else match find_colsp t with Some p => Some (p + 1) | None => None end
      | [] => None
      end
  | [] => None
  end.

(* key_value_pair on one line (after the fix "parse armor headers line by line") *)
Definition split_header (line : bytes) : option (bytes * bytes) :=
  match find_colsp line with
  | Some p => if p =? 0 then None else Some (takeN p line, dropN (p + 2) line)
  | None =>
      if beq (last line x00) COLON && (2 <=? lenN line)
      then Some (removelast line, [])
      else None
  end.

Fixpoint parse_headers (fuel : nat) (l : bytes) : list (bytes * bytes) * bytes :=
  match fuel with
  | O => ([], l)
  | S f =>
      match take_line l with
      | Some (line, r) =>
          match split_header line with
          | Some kv => let (hs, r') := parse_headers f r in (kv :: hs, r')
          | None => ([], l)
          end
      | None => ([], l)
      end
  end.

(* nom space0: spaces and tabs *)
Fixpoint skip_blanks (l : bytes) : bytes :=
  match l with
  | a :: t => if beq a SP || beq a TAB then skip_blanks t else l
  | [] => l
  end.

(* is_base64_token of base64/reader.rs *)
Definition is_token (b : byte) : bool :=
  match b64_val b with
  | Some _ => true
  | None => beq b PAD || beq b LF || beq b CR
  end.

Fixpoint span_tokens (l : bytes) : bytes * bytes :=
  match l with
  | a :: t => if is_token a then let (x, r) := span_tokens t in (a :: x, r) else ([], l)
  | [] => ([], [])
  end.

(* read_checksum: value of up to three decoded octets, right-aligned *)
Definition be_value (l : bytes) : N := fold_left (fun acc b => acc * 256 + b2n b) l 0.

Fixpoint skip_pads (l : bytes) : bytes :=
  match l with a :: t => if beq a PAD then skip_pads t else l | [] => l end.

(* footer_parser: (checksum, type, rest) *)
Definition footer_alt1 (l : bytes) : option (option bytes * bytes) :=
  match l with
  | p :: c1 :: c2 :: c3 :: c4 :: r =>
      if beq p PAD then
        match strip_prefix s_dd (many_line_endings (length r) r) with
        | Some r' => Some (Some [c1; c2; c3; c4], r')
        | None => None
        end
      else None
  | _ => None
  end.

Definition footer_alt2 (l : bytes) : option (option bytes * bytes) :=
  let r := skip_pads l in
  match strip_prefix s_dd (many_line_endings (length r) r) with
  | Some r' => Some (None, r')
  | None => None
  end.

Definition footer_tail (ckv : option N) (r : bytes) : res (option N * btype * bytes) :=
  match strip_prefix s_end3 r with
  | Some r1 =>
      match parse_type r1 with
      | Some (t, r2) =>
          match strip_prefix s_dashes r2 with
          | Some r3 => Ok (ckv, t, match line_ending r3 with Some r4 => r4 | None => r3 end)
          | None => Err
          end
      | None => Err
      end
  | None => Err
  end.

Definition parse_footer (l : bytes) : res (option N * btype * bytes) :=
  match orelse (footer_alt1 l) (footer_alt2 l) with
  | None => Err
  | Some (ck, r) =>
      match ck with
      | None => footer_tail None r
      | Some chars =>
          match b64_dec chars with
          | Some o => footer_tail (Some (be_value o)) r
          | None => Err
          end
      end
  end.

Definition btype_eqb (a b : btype) : bool :=
  match a, b with
  | MultiPart x y, MultiPart x' y' => (x =? x') && (y =? y')
  | PublicKey, PublicKey | PrivateKey, PrivateKey | Message, Message | Signature, Signature
  | File, File | Cleartext, Cleartext | RsaPublic, RsaPublic | DsaPublic, DsaPublic
  | EcPublic, EcPublic | Pkcs8Public, Pkcs8Public | OpensshPublic, OpensshPublic
  | RsaPrivate, RsaPrivate | DsaPrivate, DsaPrivate | EcPrivate, EcPrivate
  | Pkcs8Private, Pkcs8Private | OpensshPrivate, OpensshPrivate => true
  | _, _ => false
  end.

Inductive crc_status := NoCrc | CheckedOk (c : N) | Unchecked (c : N).

Record dearmored := {
  d_type : btype; d_headers : list (bytes * bytes); d_data : bytes;
  d_crc : crc_status; d_leading : bool; d_rest : bytes }.

(* header_parser, body, footer; [check]: DearmorOptions::enable_crc24_check;
   [crc_of]: the checksum the reader has accumulated over the decoded data
   when the footer is reached *)
Definition dearmor_gen (crc_of : bytes -> N) (check : bool) (input : bytes) : res dearmored :=
  match until_dashes input with
  | None => Err
  | Some (lead, r0) =>
      match strip_prefix s_begin r0 with
      | None => Err
      | Some r1 =>
          match parse_type r1 with
          | None => Err
          | Some (t, r2) =>
              match strip_prefix s_dashes r2 with
              | None => Err
              | Some r3 =>
                  match line_ending r3 with
                  | None => Err
                  | Some r4 =>
                      let (hs, r5) := parse_headers (length r4) r4 in
                      match line_ending (skip_blanks r5) with
                      | None => Err
                      | Some r6 =>
                          let (toks, r7) := span_tokens r6 in
                          let (data, left) := dec_quanta (strip_nl toks) in
                          match parse_footer (left ++ r7) with
                          | Ok (ck, t', rest) =>
                              if negb (btype_eqb t t') then Err
                              else
                                match ck with
                                | None => Ok {| d_type := t; d_headers := hs; d_data := data;
                                                d_crc := NoCrc; d_leading := negb (lenN lead =? 0);
                                                d_rest := rest |}
                                | Some c =>
                                    if check then
                                      if c =? crc_of data
                                      then Ok {| d_type := t; d_headers := hs; d_data := data;
                                                 d_crc := CheckedOk c;
                                                 d_leading := negb (lenN lead =? 0); d_rest := rest |}
                                      else Err
                                    else Ok {| d_type := t; d_headers := hs; d_data := data;
                                               d_crc := Unchecked c;
                                               d_leading := negb (lenN lead =? 0); d_rest := rest |}
                                end
                          | Err => Err
                          | Panic => Panic
                          end
                      end
                  end
              end
          end
      end
  end.

(* What the pinned code accumulates: Dearmor::read_body updates a *copy* of the
   hasher (`if let Some(mut crc) = self.crc`), so at the footer the value is
   still that of the empty string.  Recorded as a known finding (the existing
   test test_dearmor_bad_crc24 pins calculated_crc = 0xb704ce, so the repair
   cannot be made without editing the suite). *)
Definition crc_as_coded (data : bytes) : N := crc24 [].

Definition dearmor (check : bool) (input : bytes) : res dearmored :=
  dearmor_gen crc_as_coded check input.

(* what RFC-conformant checking would be *)
Definition dearmor_spec (check : bool) (input : bytes) : res dearmored :=
  dearmor_gen crc24 check input.
