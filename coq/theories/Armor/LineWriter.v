(* line_writer.rs as a state machine: data arrives in arbitrary pieces; full lines of [w] characters
   are emitted with a line break, a partial line waits; finish() emits what is pending. *)
From Coq Require Import List NArith Lia Bool.
From Rpgp Require Import Base.Octets Armor.Base64.
Import ListNotations.
Open Scope N_scope.

(* emit the full lines of [s]; returns (emitted, pending) *)
Fixpoint lw_lines (fuel : nat) (w : N) (s : bytes) : bytes * bytes :=
  match fuel with
  | O => ([], s)
  | S f =>
      if lenN s <? w then ([], s)
      else let '(o, r) := lw_lines f w (dropN w s) in (takeN w s ++ [LF] ++ o, r)
  end.

Definition lw_write (w : N) (st : bytes * bytes) (data : bytes) : bytes * bytes :=
  let '(pending, out) := st in
  let all := pending ++ data in
  let '(o, r) := lw_lines (length all) w all in
  (r, out ++ o).

Definition lw_finish (st : bytes * bytes) : bytes :=
  let '(pending, out) := st in
  match pending with [] => out | _ => out ++ pending ++ [LF] end.

Definition lw_run (w : N) (chunks : list bytes) : bytes :=
  lw_finish (fold_left (lw_write w) chunks ([], [])).
