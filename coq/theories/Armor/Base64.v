(* Armor/Base64.v -- RFC 4648 base64 with padding, CRC-24, 64-column line
   wrapping.  Definitions (executable) for the armor model (C10). *)
From Rpgp Require Import Base.Octets.

(* ------------------------------------------------ alphabet *)

Definition alphabet : bytes :=
  [x41;x42;x43;x44;x45;x46;x47;x48;x49;x4a;x4b;x4c;x4d;x4e;x4f;x50;
   x51;x52;x53;x54;x55;x56;x57;x58;x59;x5a;
   x61;x62;x63;x64;x65;x66;x67;x68;x69;x6a;x6b;x6c;x6d;x6e;x6f;x70;
   x71;x72;x73;x74;x75;x76;x77;x78;x79;x7a;
   x30;x31;x32;x33;x34;x35;x36;x37;x38;x39;x2b;x2f].

Definition PAD : byte := x3d.   (* '=' *)

Definition b64_char (n : N) : byte := nth (N.to_nat n) alphabet x00.

(* value of an alphabet character *)
Definition b64_val (b : byte) : option N :=
  let v := b2n b in
  if (65 <=? v) && (v <=? 90) then Some (v - 65)
  else if (97 <=? v) && (v <=? 122) then Some (v - 71)
  else if (48 <=? v) && (v <=? 57) then Some (v + 4)
  else if v =? 43 then Some 62
  else if v =? 47 then Some 63
  else None.

(* ------------------------------------------------ encode *)

Definition enc3 (a b c : byte) : bytes :=
  let n := b2n a * 65536 + b2n b * 256 + b2n c in
  [b64_char (n / 262144); b64_char ((n / 4096) mod 64); b64_char ((n / 64) mod 64); b64_char (n mod 64)].

Definition enc2 (a b : byte) : bytes :=
  let n := b2n a * 65536 + b2n b * 256 in
  [b64_char (n / 262144); b64_char ((n / 4096) mod 64); b64_char ((n / 64) mod 64); PAD].

Definition enc1 (a : byte) : bytes :=
  let n := b2n a * 65536 in
  [b64_char (n / 262144); b64_char ((n / 4096) mod 64); PAD; PAD].

Fixpoint b64_enc (l : bytes) : bytes :=
  match l with
  | a :: b :: c :: t => enc3 a b c ++ b64_enc t
  | [a; b] => enc2 a b
  | [a] => enc1 a
  | [] => []
  end.

(* ------------------------------------------------ decode *)

(* one quantum of four characters: Some (octets, is_padded) *)
Definition dec_quantum (c1 c2 c3 c4 : byte) : option (bytes * bool) :=
  match b64_val c1, b64_val c2 with
  | Some v1, Some v2 =>
      if beq c3 PAD then
        if beq c4 PAD then
          (* one octet; the low 4 bits of v2 must be zero (canonical) *)
          if v2 mod 16 =? 0 then Some ([n2b (v1 * 4 + v2 / 16)], true) else None
        else None
      else
        match b64_val c3 with
        | Some v3 =>
            if beq c4 PAD then
              if v3 mod 4 =? 0 then
                Some ([n2b (v1 * 4 + v2 / 16); n2b ((v2 mod 16) * 16 + v3 / 4)], true)
              else None
            else
              match b64_val c4 with
              | Some v4 =>
                  Some ([n2b (v1 * 4 + v2 / 16); n2b ((v2 mod 16) * 16 + v3 / 4);
                         n2b ((v3 mod 4) * 64 + v4)], false)
              | None => None
              end
        | None => None
        end
  | _, _ => None
  end.

(* strict decoding: full quanta, at most one padded quantum, at the end *)
Fixpoint b64_dec (l : bytes) : option bytes :=
  match l with
  | [] => Some []
  | c1 :: c2 :: c3 :: c4 :: t =>
      match dec_quantum c1 c2 c3 c4 with
      | Some (o, padded) =>
          if padded then (match t with [] => Some o | _ => None end)
          else match b64_dec t with Some r => Some (o ++ r) | None => None end
      | None => None
      end
  | _ => None
  end.

(* the decoder of the dearmorer (Base64Decoder over Base64Reader): quanta are
   decoded one after the other, padded or not, until one does not decode;
   returns the octets and the characters not consumed *)
Fixpoint dec_quanta (l : bytes) : bytes * bytes :=
  match l with
  | c1 :: c2 :: c3 :: c4 :: t =>
      match dec_quantum c1 c2 c3 c4 with
      | Some (o, _) => let (r, left) := dec_quanta t in (o ++ r, left)
      | None => ([], l)
      end
  | _ => ([], l)
  end.

(* ------------------------------------------------ CRC-24 (RFC 9580 6.1.1) *)

Definition crc24_shift (c : N) : N :=
  let c := c * 2 in
  if N.testbit c 24 then N.lxor c 25578747 (* 0x1864CFB *) else c.

Definition crc24_octet (crc : N) (b : byte) : N :=
  let c := N.lxor crc (b2n b * 65536) in
  crc24_shift (crc24_shift (crc24_shift (crc24_shift
  (crc24_shift (crc24_shift (crc24_shift (crc24_shift c))))))).

Definition crc24 (l : bytes) : N :=
  (fold_left crc24_octet l 11994318 (* 0xB704CE *)) mod 16777216.

Definition be24 (n : N) : bytes := [n2b (n / 65536); n2b (n / 256); n2b n].

(* ------------------------------------------------ line wrapping *)

(* LineWriter<_, U64> with LineBreak::Lf: every [w] characters a line break,
   and one after a final partial line *)
Fixpoint wrap_fuel (fuel : nat) (w : N) (s : bytes) : bytes :=
  match fuel with
  | O => []
  | S f =>
      match s with
      | [] => []
      | _ => takeN w s ++ [LF] ++ wrap_fuel f w (dropN w s)
      end
  end.

Definition wrap (w : N) (s : bytes) : bytes := wrap_fuel (length s) w s.

Definition is_nl (b : byte) : bool := beq b CR || beq b LF.

Definition strip_nl (s : bytes) : bytes := filter (fun b => negb (is_nl b)) s.
