From Coq Require Import List NArith ZArith Lia Bool.
From Rpgp Require Import Base.Octets Armor.Base64 Armor.LineWriter.
Import ListNotations.
Open Scope N_scope.

Section LW.
Variable w : N.
Hypothesis w_pos : 1 <= w.

Lemma length_dropN_lt (s : bytes) : s <> [] -> (length (dropN w s) < length s)%nat.
Proof.
  intros H. pose proof (lenN_dropN w s) as L. unfold lenN in L.
  destruct s; [congruence|]. cbn [length] in *. lia.
Qed.

Lemma wrap_fuel_any : forall f1 f2 s, (length s <= f1)%nat -> (length s <= f2)%nat ->
  wrap_fuel f1 w s = wrap_fuel f2 w s.
Proof.
  induction f1 as [|f1 IH]; intros f2 s H1 H2.
  - destruct s; [|cbn in H1; lia]. destruct f2; reflexivity.
  - destruct f2 as [|f2]; [destruct s; [reflexivity|cbn in H2; lia]|].
    cbn [wrap_fuel]. destruct s as [|x s]; [reflexivity|].
    f_equal. f_equal. pose proof (length_dropN_lt (x :: s) ltac:(discriminate)) as L.
    apply IH; lia.
Qed.

Lemma wrap_unfold s : s <> [] -> wrap w s = takeN w s ++ [LF] ++ wrap w (dropN w s).
Proof.
  intros H. unfold wrap. destruct s as [|x s]; [congruence|]. cbn [length wrap_fuel].
  f_equal. f_equal. pose proof (length_dropN_lt (x :: s) ltac:(discriminate)) as L.
  apply wrap_fuel_any; cbn [length] in *; lia.
Qed.

Lemma wrap_nil : wrap w [] = [].
Proof. reflexivity. Qed.

Lemma takeN_app_l (s t : bytes) : w <= lenN s -> takeN w (s ++ t) = takeN w s.
Proof.
  intros H. rewrite !takeN_firstn, firstn_app.
  replace (N.to_nat w - length s)%nat with 0%nat by (unfold lenN in H; lia).
  cbn [firstn]. apply app_nil_r.
Qed.

Lemma dropN_app_l (s t : bytes) : w <= lenN s -> dropN w (s ++ t) = dropN w s ++ t.
Proof.
  intros H. rewrite !dropN_skipn, skipn_app.
  replace (N.to_nat w - length s)%nat with 0%nat by (unfold lenN in H; lia). reflexivity.
Qed.

(* the full lines of [s] are exactly the front of the wrapped whole, whatever follows *)
Lemma lw_lines_spec : forall f s, (length s <= f)%nat ->
  let '(o, r) := lw_lines f w s in
  lenN r < w /\ forall t, wrap w (s ++ t) = o ++ wrap w (r ++ t).
Proof.
  induction f as [|f IH]; intros s H.
  - destruct s; [|cbn in H; lia]. cbn [lw_lines]. split; [rewrite lenN_nil; lia|reflexivity].
  - cbn [lw_lines]. destruct (lenN s <? w) eqn:E.
    + apply N.ltb_lt in E. split; [exact E|reflexivity].
    + apply N.ltb_ge in E.
      assert (Hs : s <> []) by (intros ->; rewrite lenN_nil in E; lia).
      pose proof (length_dropN_lt s Hs) as L.
      assert (Hl : (length (dropN w s) <= f)%nat) by lia.
      specialize (IH (dropN w s) Hl).
      destruct (lw_lines f w (dropN w s)) as [o r]. cbv beta iota in IH. destruct IH as [I1 I2].
      split; [exact I1|]. intros t.
      rewrite wrap_unfold by (destruct s; [congruence|discriminate]).
      rewrite takeN_app_l, dropN_app_l by exact E. rewrite I2, <- !app_assoc. reflexivity.
Qed.

(* invariant of the writer: what was emitted, followed by the wrapping of what is pending and
   still to come, is the wrapping of everything *)
Lemma lw_write_eq pending out c o r :
  lw_lines (length (pending ++ c)) w (pending ++ c) = (o, r) ->
  lw_write w (pending, out) c = (r, out ++ o).
Proof. intros E. unfold lw_write. rewrite E. reflexivity. Qed.

Lemma lw_fold : forall chunks pending out, lenN pending < w ->
  let st := fold_left (lw_write w) chunks (pending, out) in
  lenN (fst st) < w /\ snd st ++ wrap w (fst st) = out ++ wrap w (pending ++ concat chunks).
Proof.
  induction chunks as [|c cs IH]; intros pending out Hp; cbn [fold_left concat]; cbv zeta.
  - rewrite app_nil_r. cbn [fst snd]. split; [exact Hp|reflexivity].
  - pose proof (lw_lines_spec (length (pending ++ c)) (pending ++ c) (le_n _)) as S.
    destruct (lw_lines (length (pending ++ c)) w (pending ++ c)) as [o r] eqn:E.
    destruct S as [S1 S2].
    rewrite (lw_write_eq pending out c o r E).
    specialize (IH r (out ++ o) S1). cbv zeta in IH. destruct IH as [I1 I2].
    split; [exact I1|].
    transitivity ((out ++ o) ++ wrap w (r ++ concat cs)); [exact I2|].
    rewrite <- app_assoc. f_equal. rewrite <- S2, <- app_assoc. reflexivity.
Qed.

Lemma wrap_short p : lenN p < w -> wrap w p = match p with [] => [] | _ => p ++ [LF] end.
Proof.
  intros H. destruct p as [|x p]; [reflexivity|].
  rewrite wrap_unfold by discriminate.
  rewrite takeN_all, dropN_all by lia. rewrite wrap_nil, app_nil_r. reflexivity.
Qed.

(* the writer's output does not depend on how the data is cut into write() calls *)
Lemma finish_spec (st : bytes * bytes) : lenN (fst st) < w -> lw_finish st = snd st ++ wrap w (fst st).
Proof.
  destruct st as [p out]. cbn [fst snd]. intros H. unfold lw_finish. rewrite (wrap_short p H).
  destruct p; [rewrite app_nil_r|]; reflexivity.
Qed.

Theorem lw_run_is_wrap chunks : lw_run w chunks = wrap w (concat chunks).
Proof.
  unfold lw_run.
  pose proof (lw_fold chunks [] [] ltac:(rewrite lenN_nil; lia)) as F. cbv zeta in F.
  destruct F as [F1 F2]. cbn [app] in F2.
  rewrite finish_spec; [exact F2|exact F1].
Qed.

Corollary lw_run_chunking_independent c1 c2 : concat c1 = concat c2 -> lw_run w c1 = lw_run w c2.
Proof. intros E. rewrite !lw_run_is_wrap, E. reflexivity. Qed.
End LW.
