(* base64/reader.rs as a state machine over the pieces the source delivers: line breaks are dropped,
   base64 characters pass, the first other character stops the stream for good. *)
From Coq Require Import List NArith Lia Bool.
From Rpgp Require Import Base.Octets.
Import ListNotations.
Open Scope N_scope.

Definition is_nl (b : byte) : bool := beq b CR || beq b LF.
Definition is_b64 (b : byte) : bool :=
  let v := b2n b in
  ((65 <=? v) && (v <=? 90)) || ((97 <=? v) && (v <=? 122)) || ((48 <=? v) && (v <=? 57))
  || (v =? 47) || (v =? 43) || (v =? 61).

(* one piece: (stopped?, piece) -> (tokens, stopped?) *)
Fixpoint b64r_piece (stopped : bool) (p : bytes) : bytes * bool :=
  match p with
  | [] => ([], stopped)
  | x :: r =>
      if stopped then ([], true)
      else if is_nl x then b64r_piece false r
      else if is_b64 x then let '(o, s) := b64r_piece false r in (x :: o, s)
      else ([], true)
  end.

Fixpoint b64r_run (stopped : bool) (pieces : list bytes) : bytes :=
  match pieces with
  | [] => []
  | p :: r => let '(o, s) := b64r_piece stopped p in o ++ b64r_run s r
  end.

(* the function of the whole input *)
Definition b64r_whole (d : bytes) : bytes := fst (b64r_piece false d).
