From Coq Require Import List NArith Lia Bool.
From Rpgp Require Import Base.Octets Armor.B64Reader.
Import ListNotations.
Open Scope N_scope.

Lemma b64r_stopped p : b64r_piece true p = ([], true).
Proof. destruct p; reflexivity. Qed.

Lemma b64r_piece_app : forall a b s,
  b64r_piece s (a ++ b) =
  (fst (b64r_piece s a) ++ fst (b64r_piece (snd (b64r_piece s a)) b),
   snd (b64r_piece (snd (b64r_piece s a)) b)).
Proof.
  induction a as [|x a IH]; intros b s; cbn [app b64r_piece].
  - cbn [fst snd app]. destruct (b64r_piece s b); reflexivity.
  - destruct s; [cbn [fst snd app]; rewrite b64r_stopped; reflexivity|].
    destruct (is_nl x); [apply IH|].
    destruct (is_b64 x).
    + rewrite (IH b false). destruct (b64r_piece false a) as [o s']. cbn [fst snd app]. reflexivity.
    + cbn [fst snd app]. rewrite b64r_stopped. reflexivity.
Qed.

(* the tokens handed on do not depend on how the source cut the input *)
Theorem b64r_run_is_whole : forall pieces s,
  b64r_run s pieces = fst (b64r_piece s (concat pieces)).
Proof.
  induction pieces as [|p r IH]; intros s; cbn [b64r_run concat]; [destruct s; reflexivity|].
  rewrite b64r_piece_app. destruct (b64r_piece s p) as [o s']. cbn [fst snd]. rewrite IH. reflexivity.
Qed.

Corollary b64r_chunking_independent p1 p2 : concat p1 = concat p2 ->
  b64r_run false p1 = b64r_run false p2.
Proof. intros E. rewrite !b64r_run_is_whole, E. reflexivity. Qed.
