(* Armor/ArmorProofs.v -- proofs about the armor model (C10). *)
From Rpgp Require Import Base.Octets Base.Res Armor.Base64 Armor.Base64Proofs Armor.Armor.
From Coq Require Import ZifyBool ZifyN ZifyNat.

(* ------------------------------------------------ the armor body *)

(* what follows the base64 data in an armor body: nothing, or "=XXXX" *)
Definition body_tail (t : bytes) : Prop :=
  t = [] \/ exists c1 c2 c3 c4, t = [PAD; c1; c2; c3; c4].

Lemma body_tail_stops t : body_tail t -> stops t.
Proof.
  intros [->|[c1 [c2 [c3 [c4 ->]]]]]; [apply stops_nil|].
  unfold stops. cbn [dec_quanta]. unfold dec_quantum. reflexivity.
Qed.

(* the reader's view of the body the writer produced: line breaks are
   dropped, then quanta are decoded up to the checksum *)
Theorem body_roundtrip data t :
  body_tail t ->
  dec_quanta (strip_nl (wrap 64 (b64_enc data)) ++ t) = (data, t).
Proof.
  intros Ht. rewrite strip_wrap by (try discriminate; apply b64_enc_plain).
  apply dec_quanta_enc. apply body_tail_stops. exact Ht.
Qed.

(* ------------------------------------------------ CRC gate *)

Ltac break_match :=
  match goal with
  | H : context [match ?x with _ => _ end] |- _ => destruct x eqn:?
  | |- context [match ?x with _ => _ end] => destruct x eqn:?
  end.

(* with checking enabled, whatever is accepted either had no checksum or its
   checksum equals what the reader accumulated *)
Theorem crc_gate_sound f x d :
  dearmor_gen f true x = Ok d ->
  d_crc d = NoCrc \/ d_crc d = CheckedOk (f (d_data d)).
Proof.
  unfold dearmor_gen. intros H.
  repeat (break_match; try discriminate).
  all: try (injection H as <-; cbn [d_crc d_data]; auto).
  right. f_equal. lia.
Qed.

(* without checking, a checksum in the footer never rejects and is reported
   as unchecked *)
Theorem crc_unchecked f x d :
  dearmor_gen f false x = Ok d -> d_crc d = NoCrc \/ exists c, d_crc d = Unchecked c.
Proof.
  unfold dearmor_gen. intros H.
  repeat (break_match; try discriminate).
  all: injection H as <-; cbn [d_crc]; eauto.
Qed.

(* enabling the check changes the result of an accepted input exactly as
   follows: no checksum: unchanged; checksum present: accepted iff it matches *)
Theorem crc_gate_complete f x d :
  dearmor_gen f false x = Ok d ->
  match d_crc d with
  | NoCrc => dearmor_gen f true x = Ok d
  | Unchecked c =>
      if c =? f (d_data d)
      then dearmor_gen f true x =
           Ok {| d_type := d_type d; d_headers := d_headers d; d_data := d_data d;
                 d_crc := CheckedOk c; d_leading := d_leading d; d_rest := d_rest d |}
      else dearmor_gen f true x = Err
  | CheckedOk _ => False
  end.
Proof.
  unfold dearmor_gen. intros H.
  repeat (break_match; try discriminate).
  all: try (injection H as <-; cbn [d_crc d_data d_type d_headers d_leading d_rest] in *).
  all: try reflexivity; try discriminate; try congruence.
Qed.

(* the pinned code compares the footer with the checksum of the empty string *)
Theorem crc_code_refuted :
  exists x d, dearmor_spec true x = Ok d /\ dearmor true x = Err.
Proof.
  exists (armor Message [] [x68; x69] true). eexists. split; vm_compute; reflexivity.
Qed.

(* ... and agrees with RFC checking outside that class: no checksum in the
   footer, or empty data *)
Theorem crc_code_agrees_outside_class x d :
  dearmor_spec true x = Ok d -> (d_crc d = NoCrc \/ d_data d = []) -> dearmor true x = Ok d.
Proof.
  unfold dearmor_spec, dearmor, dearmor_gen, crc_as_coded. intros H Hc.
  repeat (break_match; try discriminate).
  all: try (injection H as <-; cbn [d_crc d_data] in *).
  all: try reflexivity; try congruence.
  all: destruct Hc as [Hc|Hc]; try discriminate; subst; try congruence.
Qed.

(* the emitted checksum line is "=" followed by the base64 of the 24-bit CRC *)
Lemma checksum_line_shape data :
  checksum_line data = PAD :: b64_enc (be24 (crc24 data)) ++ [LF] /\
  lenN (b64_enc (be24 (crc24 data))) = 4.
Proof. split; reflexivity. Qed.

Lemma crc24_range data : crc24 data < 16777216.
Proof. unfold crc24. apply N.mod_upper_bound. discriminate. Qed.

(* ------------------------------------------------ full round trip *)

Lemma strip_prefix_app p l : strip_prefix p (p ++ l) = Some l.
Proof.
  induction p as [|a p IH]; [reflexivity|]. cbn [app strip_prefix]. rewrite beq_refl. exact IH.
Qed.

(* block types with a fixed name (everything but the multi-part message) *)
Definition fixed_type (t : btype) : bool :=
  match t with MultiPart _ _ => false | _ => true end.

Lemma parse_type_fixed t rest :
  fixed_type t = true ->
  parse_type (type_str t ++ s_dashes ++ rest) = Some (t, s_dashes ++ rest).
Proof. destruct t; intros H; try discriminate; reflexivity. Qed.

Lemma btype_eqb_refl t : btype_eqb t t = true.
Proof. destruct t; try reflexivity. cbn. rewrite !N.eqb_refl. reflexivity. Qed.

(* header keys and values the writer can emit and the reader returns unchanged *)
Definition no_nl (l : bytes) : bool := forallb plain l.

Fixpoint has_colsp (l : bytes) : bool :=
  match l with
  | a :: t => match t with
              | b :: _ => (beq a COLON && beq b SP) || has_colsp t
              | [] => false
              end
  | [] => false
  end.

Definition key_ok (k : bytes) : bool :=
  negb (lenN k =? 0) && no_nl k && negb (has_colsp k).
Definition value_ok (v : bytes) : bool := no_nl v.
Definition hdrs_ok (hs : list (bytes * bytes)) : bool :=
  forallb (fun kv => key_ok (fst kv) && value_ok (snd kv)) hs.

Lemma take_line_plain l rest :
  no_nl l = true -> take_line (l ++ LF :: rest) = Some (l, rest).
Proof.
  unfold no_nl, plain, is_nl. induction l as [|a t IH]; intros H.
  - reflexivity.
  - cbn [forallb] in H. apply andb_true_iff in H. destruct H as [Ha Ht].
    cbn [app take_line].
    destruct (beq a LF); [cbn in Ha; rewrite orb_true_r in Ha; discriminate|].
    destruct (beq a CR); [cbn in Ha; discriminate|].
    rewrite (IH Ht). reflexivity.
Qed.

Lemma find_colsp_cons a b t :
  find_colsp (a :: b :: t) =
  if beq a COLON && beq b SP then Some 0
  else match find_colsp (b :: t) with Some p => Some (p + 1) | None => None end.
Proof. reflexivity. Qed.

Lemma find_colsp_key k v :
  has_colsp k = false -> find_colsp (k ++ COLON :: SP :: v) = Some (lenN k).
Proof.
  induction k as [|a k' IH]; intros H.
  - reflexivity.
  - cbn [app].
    remember (k' ++ COLON :: SP :: v) as rest eqn:E.
    destruct rest as [|b t]; [destruct k'; discriminate|].
    rewrite find_colsp_cons.
    assert (Hab : beq a COLON && beq b SP = false).
    { destruct k' as [|b' k'']; cbn [app] in E; injection E as -> _.
      - destruct (beq a COLON); reflexivity.
      - cbn [has_colsp] in H. apply orb_false_iff in H. apply H. }
    rewrite Hab, IH.
    + rewrite lenN_cons. f_equal. lia.
    + destruct k' as [|b' k'']; [reflexivity|]. cbn [has_colsp] in H.
      apply orb_false_iff in H. apply H.
Qed.

Lemma split_header_line k v :
  key_ok k = true -> split_header (k ++ s_colsp ++ v) = Some (k, v).
Proof.
  unfold key_ok. intros H. apply andb_true_iff in H. destruct H as [H Hc].
  apply andb_true_iff in H. destruct H as [Hne _].
  unfold split_header. change (s_colsp ++ v) with (COLON :: SP :: v).
  rewrite find_colsp_key by (destruct (has_colsp k); [discriminate|reflexivity]).
  destruct (N.eqb_spec (lenN k) 0) as [E|E]; [cbn in Hne; discriminate|].
  f_equal. f_equal.
  - apply takeN_app.
  - change (COLON :: SP :: v) with ([COLON; SP] ++ v). rewrite app_assoc.
    replace (lenN k + 2) with (lenN (k ++ [COLON; SP])) by (rewrite lenN_app; reflexivity).
    apply dropN_app.
Qed.

Lemma parse_headers_lines hs rest fuel :
  hdrs_ok hs = true -> (length hs < fuel)%nat ->
  parse_headers fuel (header_lines hs ++ LF :: rest) = (hs, LF :: rest).
Proof.
  revert fuel; induction hs as [|[k v] hs IH]; intros fuel Hok Hf.
  - destruct fuel; [lia|]. reflexivity.
  - destruct fuel; [cbn in Hf; lia|].
    cbn [hdrs_ok forallb fst snd] in Hok. apply andb_true_iff in Hok. destruct Hok as [Hkv Hok].
    apply andb_true_iff in Hkv. destruct Hkv as [Hk Hv].
    unfold header_lines. cbn [map concat fst snd]. fold (header_lines hs).
    cbn [parse_headers].
    assert (Hline : no_nl (k ++ s_colsp ++ v) = true).
    { unfold no_nl. rewrite !forallb_app. unfold key_ok in Hk.
      apply andb_true_iff in Hk. destruct Hk as [Hk _]. apply andb_true_iff in Hk. destruct Hk as [_ Hk].
      unfold no_nl in Hk. rewrite Hk. unfold value_ok, no_nl in Hv. rewrite Hv. reflexivity. }
    assert (Hre : ((k ++ s_colsp ++ v ++ [LF]) ++ header_lines hs) ++ LF :: rest =
                  (k ++ s_colsp ++ v) ++ LF :: (header_lines hs ++ LF :: rest)).
    { rewrite <- !app_assoc. reflexivity. }
    rewrite Hre.
    rewrite take_line_plain by exact Hline.
    rewrite split_header_line by exact Hk.
    rewrite IH; [reflexivity|exact Hok|cbn in Hf; lia].
Qed.

Lemma header_lines_length hs : (length hs <= length (header_lines hs))%nat.
Proof.
  induction hs as [|[k v] hs IH]; [cbn; lia|].
  unfold header_lines in *. cbn [map concat fst snd length]. rewrite !app_length. cbn [length]. lia.
Qed.

Lemma span_tokens_app a b :
  forallb is_token a = true -> span_tokens (a ++ b) = (a ++ fst (span_tokens b), snd (span_tokens b)).
Proof.
  induction a as [|x t IH]; intros H.
  - cbn [app]. destruct (span_tokens b); reflexivity.
  - cbn [forallb] in H. apply andb_true_iff in H. destruct H as [Hx Ht].
    cbn [app span_tokens]. rewrite Hx, (IH Ht). reflexivity.
Qed.

Lemma is_token_char n : n < 64 -> is_token (b64_char n) = true.
Proof. intros H. unfold is_token. rewrite b64_val_char by exact H. reflexivity. Qed.

Lemma be_value_be24 n : n < 16777216 -> be_value (be24 n) = n.
Proof.
  intros H. unfold be_value, be24. cbn [fold_left]. rewrite !b2n_n2b. lia.
Qed.

Definition expected_crc (f : bytes -> N) (check ck : bool) (data : bytes) : crc_status :=
  if ck then (if check then CheckedOk (crc24 data) else Unchecked (crc24 data)) else NoCrc.

(* Armoring any data under any fixed-name block type and any header list
   within the header grammar, and dearmoring the result, returns the same type,
   headers and data; the footer checksum is the CRC-24 of the data.  With
   checking enabled the statement is about a reader that accumulates the CRC
   correctly ([f] = crc24); see crc_code_refuted for the pinned code. *)
Theorem dearmor_armor f check t hs data ck :
  fixed_type t = true -> hdrs_ok hs = true ->
  (check = true -> ck = true -> f data = crc24 data) ->
  dearmor_gen f check (armor t hs data ck) =
  Ok {| d_type := t; d_headers := hs; d_data := data;
        d_crc := expected_crc f check ck data; d_leading := false; d_rest := [] |}.
Proof.
  intros Ht Hh Hf. unfold dearmor_gen, armor.
  (* leading text: none *)
  change (until_dashes (s_begin ++ ?x)) with (Some (@nil byte, s_begin ++ x)).
  cbv beta iota.
  rewrite strip_prefix_app.
  rewrite <- ?app_assoc.
  rewrite (parse_type_fixed t _ Ht). rewrite strip_prefix_app.
  cbn [app line_ending]. rewrite beq_refl.
  (* headers *)
  set (tail := wrap 64 (b64_enc data) ++ (if ck then checksum_line data else []) ++
               s_end ++ type_str t ++ s_dashes ++ [LF]).
  rewrite parse_headers_lines.
  2: exact Hh.
  2: { rewrite app_length. pose proof (header_lines_length hs). cbn [length]. lia. }
  cbn [skip_blanks]. change (beq LF SP || beq LF TAB) with false. cbn [line_ending].
  rewrite beq_refl.
  (* body tokens *)
  subst tail.
  assert (Htok1 : forallb is_token (wrap 64 (b64_enc data)) = true).
  { apply forallb_wrap; [reflexivity|]. apply b64_enc_forall; [apply is_token_char|reflexivity]. }
  assert (Hplain : forallb plain (b64_enc data) = true) by apply b64_enc_plain.
  assert (Htail : forall ckv, footer_tail ckv (s_end3 ++ type_str t ++ s_dashes ++ [LF]) = Ok (ckv, t, [])).
  { intros ckv. unfold footer_tail.
    rewrite strip_prefix_app, (parse_type_fixed t _ Ht), strip_prefix_app. reflexivity. }
  assert (Hfoot0 : parse_footer (s_end ++ type_str t ++ s_dashes ++ [LF]) = Ok (None, t, [])).
  { unfold parse_footer.
    change (footer_alt1 (s_end ++ ?x)) with (@None (option bytes * bytes)).
    change (footer_alt2 (s_end ++ ?x)) with (Some (@None bytes, s_end3 ++ x)).
    cbn [orelse]. apply Htail. }
  assert (Hfoot1 : forall c1 c2 c3 c4,
     b64_dec [c1; c2; c3; c4] = Some (be24 (crc24 data)) ->
     parse_footer ([PAD; c1; c2; c3; c4] ++ s_end ++ type_str t ++ s_dashes ++ [LF]) =
     Ok (Some (crc24 data), t, [])).
  { intros c1 c2 c3 c4 Hd. unfold parse_footer.
    change (footer_alt1 ([PAD; c1; c2; c3; c4] ++ s_end ++ ?x))
      with (Some (Some [c1; c2; c3; c4], s_end3 ++ x)).
    cbn [orelse]. rewrite Hd, be_value_be24 by apply crc24_range. apply Htail. }
  destruct ck.
  - (* with checksum line *)
    unfold checksum_line.
    set (cks := b64_enc (be24 (crc24 data))).
    assert (Hcks : exists c1 c2 c3 c4, cks = [c1; c2; c3; c4]).
    { subst cks. unfold be24. cbn [b64_enc]. unfold enc3. cbn [app]. eauto. }
    destruct Hcks as [c1 [c2 [c3 [c4 Hcks]]]].
    assert (Hdec : b64_dec [c1; c2; c3; c4] = Some (be24 (crc24 data))).
    { rewrite <- Hcks. subst cks. apply b64_dec_enc. }
    assert (Htok2 : forallb is_token (PAD :: cks ++ [LF]) = true).
    { cbn [forallb]. rewrite forallb_app. subst cks.
      rewrite b64_enc_forall by (try apply is_token_char; reflexivity). reflexivity. }
    rewrite app_assoc. rewrite span_tokens_app.
    2: { rewrite forallb_app, Htok1. cbn [app] in Htok2. exact Htok2. }
    change (span_tokens (s_end ++ ?x)) with (@nil byte, s_end ++ x).
    cbn [fst snd]. rewrite app_nil_r, strip_nl_app.
    rewrite strip_wrap by (try discriminate; exact Hplain).
    assert (Hs2 : strip_nl (PAD :: cks ++ [LF]) = PAD :: cks).
    { change (PAD :: cks ++ [LF]) with ((PAD :: cks) ++ [LF]). rewrite strip_nl_app. change (strip_nl [LF]) with (@nil byte). rewrite app_nil_r.
      apply strip_nl_plain. cbn [forallb]. subst cks.
      rewrite b64_enc_forall; [reflexivity| |reflexivity].
      intros n Hn. unfold plain. destruct (b64_char_plain n Hn) as [_ ->]. reflexivity. }
    rewrite Hs2, Hcks.
    rewrite dec_quanta_enc by apply stops_pad_first.
    rewrite (Hfoot1 c1 c2 c3 c4 Hdec).
    rewrite btype_eqb_refl. cbn [negb]. unfold expected_crc.
    destruct check.
    + rewrite (Hf eq_refl eq_refl), N.eqb_refl. reflexivity.
    + reflexivity.
  - (* no checksum *)
    cbn [app]. rewrite span_tokens_app by exact Htok1.
    change (span_tokens (s_end ++ ?x)) with (@nil byte, s_end ++ x).
    cbn [fst snd]. rewrite app_nil_r.
    rewrite strip_wrap by (try discriminate; exact Hplain).
    rewrite <- (app_nil_r (b64_enc data)).
    rewrite dec_quanta_enc by apply stops_nil.
    cbn [app]. rewrite Hfoot0.
    rewrite btype_eqb_refl. reflexivity.
Qed.
