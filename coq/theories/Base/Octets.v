(* Base/Octets.v -- octets, octet strings, N-indexed take/drop, big-endian
   scalars.  Definitions and their basic lemmas; shared by every model. *)
From Coq Require Export List NArith ZArith Lia Bool.
From Coq Require Export Strings.Byte.
From Coq Require Import ZifyBool ZifyN ZifyNat.
Export ListNotations.
Open Scope N_scope.

#[global] Arguments N.add : simpl never.
#[global] Arguments N.sub : simpl never.
#[global] Arguments N.mul : simpl never.
#[global] Arguments N.div : simpl never.
#[global] Arguments N.modulo : simpl never.
#[global] Arguments N.eqb : simpl never.
#[global] Arguments N.ltb : simpl never.
#[global] Arguments N.leb : simpl never.
#[global] Arguments N.pow : simpl never.
#[global] Arguments N.shiftl : simpl never.
#[global] Arguments N.shiftr : simpl never.
#[global] Arguments N.land : simpl never.
#[global] Arguments N.lor : simpl never.

Ltac Zify.zify_post_hook ::= Z.div_mod_to_equations.

Definition bytes := list byte.

Definition CR : byte := x0d.
Definition LF : byte := x0a.
Definition SP : byte := x20.
Definition TAB : byte := x09.
Definition DASH : byte := x2d.

Definition beq (a b : byte) : bool := Byte.eqb a b.

Lemma beq_true a b : beq a b = true <-> a = b.
Proof.
  unfold beq. split; [apply Byte.byte_dec_bl | apply Byte.byte_dec_lb].
Qed.

Lemma beq_refl a : beq a a = true.
Proof. apply beq_true. reflexivity. Qed.

Lemma beq_false a b : beq a b = false <-> a <> b.
Proof.
  split.
  - intros H E. apply beq_true in E. congruence.
  - intros H. destruct (beq a b) eqn:E; [apply beq_true in E; contradiction | reflexivity].
Qed.

Lemma beq_spec a b : reflect (a = b) (beq a b).
Proof.
  destruct (beq a b) eqn:E; constructor.
  - apply beq_true; exact E.
  - apply beq_false; exact E.
Qed.

Lemma beq_sym a b : beq a b = beq b a.
Proof. destruct (beq_spec a b), (beq_spec b a); congruence. Qed.

(* octet <-> N *)
Definition b2n (b : byte) : N := Byte.to_N b.
Definition n2b (n : N) : byte :=
  match Byte.of_N (n mod 256) with Some b => b | None => x00 end.

Lemma b2n_lt b : b2n b < 256.
Proof. unfold b2n. pose proof (Byte.to_N_bounded b). lia. Qed.

Lemma n2b_b2n b : n2b (b2n b) = b.
Proof.
  unfold n2b, b2n. rewrite N.mod_small by (pose proof (Byte.to_N_bounded b); lia).
  rewrite Byte.of_to_N. reflexivity.
Qed.

Lemma b2n_n2b n : b2n (n2b n) = n mod 256.
Proof.
  unfold n2b, b2n.
  destruct (Byte.of_N (n mod 256)) eqn:E.
  - apply Byte.to_of_N in E. exact E.
  - apply Byte.of_N_None_iff in E. pose proof (N.mod_upper_bound n 256). lia.
Qed.

Lemma b2n_inj a b : b2n a = b2n b -> a = b.
Proof. intros H. rewrite <- (n2b_b2n a), <- (n2b_b2n b), H. reflexivity. Qed.

(* length in N *)
Definition lenN {A} (l : list A) : N := N.of_nat (length l).

Lemma lenN_app {A} (a b : list A) : lenN (a ++ b) = lenN a + lenN b.
Proof. unfold lenN. rewrite app_length. lia. Qed.

Lemma lenN_cons {A} (x : A) l : lenN (x :: l) = 1 + lenN l.
Proof. unfold lenN. cbn [length]. lia. Qed.

Lemma lenN_nil {A} : lenN (@nil A) = 0.
Proof. reflexivity. Qed.

(* take / drop with an N counter, structural on the list *)
Fixpoint takeN {A} (n : N) (l : list A) : list A :=
  match l with
  | [] => []
  | x :: t => if N.eqb n 0 then [] else x :: takeN (N.pred n) t
  end.

Fixpoint dropN {A} (n : N) (l : list A) : list A :=
  match l with
  | [] => []
  | x :: t => if N.eqb n 0 then l else dropN (N.pred n) t
  end.

Lemma takeN_firstn {A} n (l : list A) : takeN n l = firstn (N.to_nat n) l.
Proof.
  revert n; induction l as [|x t IH]; intros n; cbn [takeN].
  - rewrite firstn_nil. reflexivity.
  - destruct (N.eqb_spec n 0) as [->|Hn]; [reflexivity|].
    replace (N.to_nat n) with (S (N.to_nat (N.pred n))) by lia.
    cbn [firstn]. rewrite IH. reflexivity.
Qed.

Lemma dropN_skipn {A} n (l : list A) : dropN n l = skipn (N.to_nat n) l.
Proof.
  revert n; induction l as [|x t IH]; intros n; cbn [dropN].
  - rewrite skipn_nil. reflexivity.
  - destruct (N.eqb_spec n 0) as [->|Hn]; [reflexivity|].
    replace (N.to_nat n) with (S (N.to_nat (N.pred n))) by lia.
    cbn [skipn]. rewrite IH. reflexivity.
Qed.

Lemma takeN_dropN {A} n (l : list A) : takeN n l ++ dropN n l = l.
Proof. rewrite takeN_firstn, dropN_skipn. apply firstn_skipn. Qed.

Lemma lenN_takeN {A} n (l : list A) : lenN (takeN n l) = N.min n (lenN l).
Proof. unfold lenN. rewrite takeN_firstn, firstn_length. lia. Qed.

Lemma lenN_dropN {A} n (l : list A) : lenN (dropN n l) = lenN l - n.
Proof. unfold lenN. rewrite dropN_skipn, skipn_length. lia. Qed.

Lemma takeN_all {A} n (l : list A) : lenN l <= n -> takeN n l = l.
Proof. unfold lenN. intros H. rewrite takeN_firstn. apply firstn_all2. lia. Qed.

Lemma dropN_all {A} n (l : list A) : lenN l <= n -> dropN n l = [].
Proof. unfold lenN. intros H. rewrite dropN_skipn. apply skipn_all2. lia. Qed.

Lemma takeN_0 {A} (l : list A) : takeN 0 l = [].
Proof. destruct l; reflexivity. Qed.

Lemma dropN_0 {A} (l : list A) : dropN 0 l = l.
Proof. destruct l; reflexivity. Qed.

Lemma takeN_app {A} (a b : list A) : takeN (lenN a) (a ++ b) = a.
Proof.
  unfold lenN. rewrite takeN_firstn, Nnat.Nat2N.id.
  rewrite firstn_app, Nat.sub_diag, firstn_O, app_nil_r. apply firstn_all.
Qed.

Lemma dropN_app {A} (a b : list A) : dropN (lenN a) (a ++ b) = b.
Proof.
  unfold lenN. rewrite dropN_skipn, Nnat.Nat2N.id.
  rewrite skipn_app, Nat.sub_diag, skipn_all. reflexivity.
Qed.

(* last element with default *)
Definition lastb (d : byte) (l : bytes) : byte := last l d.

(* big-endian scalars *)
Definition be16 (n : N) : bytes := [n2b (n / 256); n2b n].
Definition be32 (n : N) : bytes :=
  [n2b (n / 16777216); n2b (n / 65536); n2b (n / 256); n2b n].
Definition be64 (n : N) : bytes := be32 (n / 4294967296) ++ be32 n.

Definition de16 (a b : byte) : N := b2n a * 256 + b2n b.
Definition de32 (a b c d : byte) : N :=
  ((b2n a * 256 + b2n b) * 256 + b2n c) * 256 + b2n d.

Lemma de16_be16 n : n < 65536 ->
  de16 (n2b (n / 256)) (n2b n) = n.
Proof. intros H. unfold de16. rewrite !b2n_n2b. lia. Qed.

Lemma de32_be32 n : n < 4294967296 ->
  de32 (n2b (n / 16777216)) (n2b (n / 65536)) (n2b (n / 256)) (n2b n) = n.
Proof. intros H. unfold de32. rewrite !b2n_n2b. lia. Qed.

Lemma de16_lt a b : de16 a b < 65536.
Proof. unfold de16. pose proof (b2n_lt a). pose proof (b2n_lt b). lia. Qed.

Lemma de32_lt a b c d : de32 a b c d < 4294967296.
Proof.
  unfold de32. pose proof (b2n_lt a). pose proof (b2n_lt b).
  pose proof (b2n_lt c). pose proof (b2n_lt d). lia.
Qed.

Lemma be16_de16 a b : be16 (de16 a b) = [a; b].
Proof.
  unfold be16, de16. pose proof (b2n_lt a). pose proof (b2n_lt b).
  f_equal; [|f_equal]; apply b2n_inj; rewrite b2n_n2b; lia.
Qed.

Lemma be32_de32 a b c d : be32 (de32 a b c d) = [a; b; c; d].
Proof.
  unfold be32, de32. pose proof (b2n_lt a). pose proof (b2n_lt b).
  pose proof (b2n_lt c). pose proof (b2n_lt d).
  assert (E1 : n2b ((((b2n a * 256 + b2n b) * 256 + b2n c) * 256 + b2n d) / 16777216) = a)
    by (apply b2n_inj; rewrite b2n_n2b; lia).
  assert (E2 : n2b ((((b2n a * 256 + b2n b) * 256 + b2n c) * 256 + b2n d) / 65536) = b)
    by (apply b2n_inj; rewrite b2n_n2b; lia).
  assert (E3 : n2b ((((b2n a * 256 + b2n b) * 256 + b2n c) * 256 + b2n d) / 256) = c)
    by (apply b2n_inj; rewrite b2n_n2b; lia).
  assert (E4 : n2b (((b2n a * 256 + b2n b) * 256 + b2n c) * 256 + b2n d) = d)
    by (apply b2n_inj; rewrite b2n_n2b; lia).
  rewrite E1, E2, E3, E4. reflexivity.
Qed.

Lemma length_be16 n : length (be16 n) = 2%nat. Proof. reflexivity. Qed.
Lemma length_be32 n : length (be32 n) = 4%nat. Proof. reflexivity. Qed.
Lemma length_be64 n : length (be64 n) = 8%nat. Proof. reflexivity. Qed.

Lemma be32_inj n m : n < 4294967296 -> m < 4294967296 -> be32 n = be32 m -> n = m.
Proof.
  intros Hn Hm H. unfold be32 in H. inversion H as [[H1 H2 H3 H4]].
  rewrite <- (de32_be32 n Hn), <- (de32_be32 m Hm). congruence.
Qed.

Lemma n2b_mod n : n2b (n mod 256) = n2b n.
Proof. unfold n2b. rewrite N.mod_mod by lia. reflexivity. Qed.

Lemma be32_low n : be32 (n mod 4294967296) = be32 n.
Proof.
  unfold be32.
  assert (E1 : n2b (n mod 4294967296 / 16777216) = n2b (n / 16777216)).
  { rewrite <- n2b_mod, <- (n2b_mod (n / 16777216)). f_equal. lia. }
  assert (E2 : n2b (n mod 4294967296 / 65536) = n2b (n / 65536)).
  { rewrite <- n2b_mod, <- (n2b_mod (n / 65536)). f_equal. lia. }
  assert (E3 : n2b (n mod 4294967296 / 256) = n2b (n / 256)).
  { rewrite <- n2b_mod, <- (n2b_mod (n / 256)). f_equal. lia. }
  assert (E4 : n2b (n mod 4294967296) = n2b n).
  { rewrite <- n2b_mod, <- (n2b_mod n). f_equal. lia. }
  rewrite E1, E2, E3, E4. reflexivity.
Qed.

Lemma be64_inj n m : n < 18446744073709551616 -> m < 18446744073709551616 ->
  be64 n = be64 m -> n = m.
Proof.
  intros Hn Hm H. unfold be64 in H.
  assert (Hhi : be32 (n / 4294967296) = be32 (m / 4294967296)).
  { apply (f_equal (firstn 4)) in H. exact H. }
  assert (Hlo : be32 n = be32 m).
  { apply (f_equal (skipn 4)) in H. exact H. }
  apply be32_inj in Hhi; [|lia|lia].
  rewrite <- (be32_low n), <- (be32_low m) in Hlo.
  apply be32_inj in Hlo; [|lia|lia].
  rewrite (N.div_mod' n 4294967296), (N.div_mod' m 4294967296). congruence.
Qed.

Lemma last_app_ne {A} (a b : list A) d : b <> [] -> last (a ++ b) d = last b d.
Proof.
  intros Hb. induction a as [|x t IH]; [reflexivity|].
  cbn [app]. destruct (t ++ b) eqn:E.
  - destruct t; [cbn in E; congruence | discriminate].
  - cbn [last]. exact IH.
Qed.

Lemma app_inj_len {A} (a b c d : list A) : lenN a = lenN c -> a ++ b = c ++ d -> a = c /\ b = d.
Proof.
  intros Hl H. assert (Hn : length a = length c) by (unfold lenN in Hl; lia).
  revert c Hl Hn H. induction a as [|x a IH]; intros c Hl Hn H.
  - destruct c; [cbn in H; auto|discriminate].
  - destruct c as [|y c]; [discriminate|]. cbn [app] in H. injection H as -> H.
    destruct (IH c) as [-> ->]; auto. rewrite !lenN_cons in Hl. lia.
Qed.

Lemma takeN_app_len {A} n (a b : list A) : lenN a = n -> takeN n (a ++ b) = a.
Proof. intros <-. apply takeN_app. Qed.
Lemma dropN_app_len {A} n (a b : list A) : lenN a = n -> dropN n (a ++ b) = b.
Proof. intros <-. apply dropN_app. Qed.
