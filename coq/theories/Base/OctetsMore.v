(* Base/OctetsMore.v -- further lemmas about N-indexed take/drop (used by the state-machine proofs). *)
From Coq Require Import ZifyBool ZifyN ZifyNat.
From Rpgp Require Import Base.Octets.
Ltac Zify.zify_post_hook ::= Z.div_mod_to_equations.


Lemma firstn_plus {A} (a b : nat) (l : list A) : firstn (a + b) l = firstn a l ++ firstn b (skipn a l).
Proof.
  revert l; induction a as [|a IH]; intros l; [reflexivity|].
  destruct l; cbn [plus firstn skipn app]; [destruct b; reflexivity|]. rewrite IH. reflexivity.
Qed.

Lemma skipn_plus {A} (a b : nat) (l : list A) : skipn (a + b) l = skipn a (skipn b l).
Proof.
  revert l; induction b as [|b IH]; intros l.
  - rewrite Nat.add_0_r. reflexivity.
  - rewrite Nat.add_succ_r. destruct l; cbn [skipn]; [destruct a; reflexivity|]. apply IH.
Qed.

Lemma takeN_split {A} (k n : N) (l : list A) :
  k <= n -> takeN n l = takeN k l ++ takeN (n - k) (dropN k l).
Proof.
  intros H. rewrite !takeN_firstn, dropN_skipn.
  replace (N.to_nat n) with (N.to_nat k + N.to_nat (n - k))%nat by lia.
  rewrite firstn_plus. reflexivity.
Qed.

Lemma takeN_app_le {A} (n : N) (a b : list A) : n <= lenN a -> takeN n (a ++ b) = takeN n a.
Proof.
  intros H. rewrite !takeN_firstn. rewrite firstn_app.
  replace (N.to_nat n - length a)%nat with 0%nat by (unfold lenN in H; lia).
  cbn. apply app_nil_r.
Qed.

Lemma dropN_app_le {A} (n : N) (a b : list A) : n <= lenN a -> dropN n (a ++ b) = dropN n a ++ b.
Proof.
  intros H. rewrite !dropN_skipn. rewrite skipn_app.
  replace (N.to_nat n - length a)%nat with 0%nat by (unfold lenN in H; lia).
  reflexivity.
Qed.

Lemma takeN_app_ge {A} (n : N) (a b : list A) : lenN a <= n -> takeN n (a ++ b) = a ++ takeN (n - lenN a) b.
Proof.
  intros H. rewrite !takeN_firstn. rewrite firstn_app.
  rewrite firstn_all2 by (unfold lenN in H; lia).
  f_equal. f_equal. unfold lenN. lia.
Qed.

Lemma dropN_app_ge {A} (n : N) (a b : list A) : lenN a <= n -> dropN n (a ++ b) = dropN (n - lenN a) b.
Proof.
  intros H. rewrite !dropN_skipn. rewrite skipn_app.
  rewrite skipn_all2 by (unfold lenN in H; lia).
  cbn. f_equal. unfold lenN. lia.
Qed.

Lemma ne_of_len1 {A} (l : list A) : 1 <= lenN l -> l <> [].
Proof. intros H ->. cbn in H. lia. Qed.

Lemma lenN_0_nil {A} (l : list A) : lenN l = 0 -> l = [].
Proof. destruct l; [reflexivity|]. rewrite lenN_cons. lia. Qed.

Lemma takeN_pos_ne {A} (k : N) (l : list A) : 1 <= k -> 1 <= lenN l -> takeN k l <> [].
Proof.
  intros Hk Hl Hn. assert (H : lenN (takeN k l) = 0) by (rewrite Hn; reflexivity).
  rewrite lenN_takeN in H. lia.
Qed.


Lemma dropN_dropN {A} (a b : N) (l : list A) : dropN a (dropN b l) = dropN (b + a) l.
Proof.
  rewrite !dropN_skipn. replace (N.to_nat (b + a)) with (N.to_nat a + N.to_nat b)%nat by lia.
  rewrite skipn_plus. reflexivity.
Qed.
