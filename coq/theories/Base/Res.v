(* Base/Res.v -- results of modelled operations.  [Panic] marks the places
   where the Rust code would index out of range, underflow an unsigned
   subtraction, or hit unreachable!/expect (used by the C04 models). *)
From Rpgp Require Import Base.Octets.

Inductive res (A : Type) : Type :=
| Ok (a : A)
| Err
| Panic.
Arguments Ok {A} a.
Arguments Err {A}.
Arguments Panic {A}.

Definition bind {A B} (r : res A) (f : A -> res B) : res B :=
  match r with Ok a => f a | Err => Err | Panic => Panic end.

Notation "'do' x <- r ; k" := (bind r (fun x => k))
  (at level 200, x pattern, r at level 100, k at level 200, right associativity).

Definition is_ok {A} (r : res A) : bool := match r with Ok _ => true | _ => false end.
Definition is_panic {A} (r : res A) : bool := match r with Panic => true | _ => false end.
