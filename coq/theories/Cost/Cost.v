(* Resource accounting for the allocation strategies of the parser (C19). *)
From Coq Require Import List NArith Lia Bool.
From Rpgp Require Import Base.Octets Kdf.Kdf.
Import ListNotations.
Open Scope N_scope.

(* Vec / BytesMut growth: appending [add] octets to a buffer of length [len] and capacity [cap] *)
Definition grow (cap len add : N) : N :=
  if len + add <=? cap then cap else N.max (2 * cap) (len + add).

(* parsing_reader.rs take_bytes(size): capacity min(size, 1024) up front, then octets are appended
   as the source delivers them ([chunks] = sizes of the successive fill_buf results); returns
   (length, capacity) at the end *)
Fixpoint take_loop (size len cap : N) (chunks : list N) : N * N :=
  match chunks with
  | [] => (len, cap)
  | c :: r =>
      if size <=? len then (len, cap)
      else if c =? 0 then (len, cap)
      else let a := N.min (size - len) c in take_loop size (len + a) (grow cap len a) r
  end.
Definition take_bytes (size : N) (chunks : list N) : N * N :=
  take_loop size 0 (N.min size 1024) chunks.

Fixpoint sumN (l : list N) : N := match l with [] => 0 | x :: r => x + sumN r end.

(* packet/signature/de.rs: capacity of the subpacket vector for an area of [len] octets *)
Definition subpacket_vec_cap (len : N) : N := N.min len 32.

(* types/mpi.rs: an MPI of more than 16384 bits is refused *)
Definition mpi_allowed (bits : N) : bool := bits <=? 16384.
Definition mpi_octets (bits : N) : N := (bits + 7) / 8.

(* crypto/aead: SEIPD v2 chunk size octet (<= 16) and the decryptor's buffer *)
Definition chunk_octets (cs : N) : N := 2 ^ (cs + 6).
Definition chunk_allowed (cs : N) : bool := cs <=? 16.
Definition aead_buffer (cs : N) : N := 2 * (chunk_octets cs + 16).

(* types/s2k.rs derive_key: the Argon2 gate.  m_enc is the exponent of the memory size in KiB *)
Fixpoint clog2_fuel (f : nat) (p acc pow : N) : N :=
  match f with O => acc | S f' => if p <=? pow then acc else clog2_fuel f' p (acc + 1) (2 * pow) end.
Definition clog2 (p : N) : N := clog2_fuel 9 p 0 1.      (* ceil(log2 p) for p <= 256 *)
Definition ARGON2_LIMIT_KIB : N := 2097152.
Definition argon2_allowed (t p m_enc : N) : bool :=
  (t <=? 32) && (p <=? 32) && (clog2 p <=? m_enc) && (m_enc <=? 31) && (2 ^ m_enc <=? ARGON2_LIMIT_KIB).
