From Coq Require Import List NArith ZArith Lia Bool.
From Rpgp Require Import Base.Octets Kdf.Kdf Kdf.KdfProofs Cost.Cost.
Import ListNotations.
Open Scope N_scope.
Ltac Zify.zify_post_hook ::= Z.div_mod_to_equations.

Lemma grow_ge cap len add : len + add <= grow cap len add.
Proof. unfold grow. destruct (len + add <=? cap) eqn:E; [apply N.leb_le in E; lia | lia]. Qed.

Lemma grow_bound cap len add c0 : len <= cap -> cap <= N.max c0 (2 * len) ->
  grow cap len add <= N.max c0 (2 * (len + add)).
Proof.
  intros H1 H2. unfold grow. destruct (len + add <=? cap) eqn:E; lia.
Qed.

(* invariant of the loop: len <= cap <= max(c0, 2*len), len <= size, len <= supplied so far *)
Lemma take_loop_inv size c0 : forall chunks len cap,
  len <= cap \/ cap = c0 -> len <= cap -> cap <= N.max c0 (2 * len) -> len <= size ->
  let '(l, c) := take_loop size len cap chunks in
  c <= N.max c0 (2 * l) /\ l <= size /\ l <= len + sumN chunks /\ l <= c.
Proof.
  induction chunks as [|ch r IH]; intros len cap _ Hlc Hc Hs; cbn [take_loop sumN].
  - repeat split; lia.
  - destruct (size <=? len) eqn:E1; [repeat split; lia|]. apply N.leb_gt in E1.
    destruct (ch =? 0) eqn:E2; [repeat split; lia|]. apply N.eqb_neq in E2.
    set (a := N.min (size - len) ch).
    assert (Ha : a <= ch /\ len + a <= size) by (unfold a; lia).
    specialize (IH (len + a) (grow cap len a)).
    pose proof (grow_ge cap len a) as G1.
    pose proof (grow_bound cap len a c0 Hlc Hc) as G2.
    destruct (take_loop size (len + a) (grow cap len a) r) as [l c].
    destruct IH as [I1 [I2 [I3 I4]]]; try lia.
Qed.

(* whatever size is declared and however the source delivers: the buffer never holds more than
   max(1024, twice the octets actually supplied), and never more than was supplied *)
Theorem take_bytes_bounded size chunks :
  let '(l, c) := take_bytes size chunks in
  c <= N.max 1024 (2 * sumN chunks) /\ l <= sumN chunks /\ l <= size.
Proof.
  unfold take_bytes.
  pose proof (take_loop_inv size (N.min size 1024) chunks 0 (N.min size 1024)) as H.
  destruct (take_loop size 0 (N.min size 1024) chunks) as [l c].
  destruct H as [H1 [H2 [H3 H4]]]; try lia.
Qed.

Theorem subpacket_vec_bounded len : subpacket_vec_cap len <= 32.
Proof. unfold subpacket_vec_cap. lia. Qed.

Theorem mpi_bounded bits : mpi_allowed bits = true -> mpi_octets bits <= 2048.
Proof. unfold mpi_allowed, mpi_octets. intros H. apply N.leb_le in H. lia. Qed.

Lemma pow2_mono a b : a <= b -> 2 ^ a <= 2 ^ b.
Proof. intros H. apply N.pow_le_mono_r; lia. Qed.

Theorem aead_buffer_bounded cs : chunk_allowed cs = true -> aead_buffer cs <= 8388640.
Proof.
  unfold chunk_allowed, aead_buffer, chunk_octets. intros H. apply N.leb_le in H.
  pose proof (pow2_mono (cs + 6) 22 ltac:(lia)) as P. change (2 ^ 22) with 4194304 in P. lia.
Qed.

(* the gate bounds memory (KiB), passes and lanes: at most 32 passes over 2 GiB *)
Theorem argon2_gate_bounds t p m : argon2_allowed t p m = true ->
  t <= 32 /\ p <= 32 /\ 2 ^ m <= 2097152 /\ t * 2 ^ m <= 67108864.
Proof.
  unfold argon2_allowed, ARGON2_LIMIT_KIB. intros H.
  repeat (apply andb_true_iff in H; destruct H as [H ?]).
  repeat match goal with E : (_ <=? _) = true |- _ => apply N.leb_le in E end.
  repeat split; try lia. nia.
Qed.

(* all 256 count octets of the iterated S2K: bounded work *)
Fixpoint nrange (k : nat) : list N := match k with O => [] | S k' => nrange k' ++ [N.of_nat k'] end.
Lemma in_nrange n k : n < N.of_nat k -> In n (nrange k).
Proof.
  induction k as [|k IH]; intros H; [lia|]. cbn [nrange]. apply in_or_app.
  destruct (N.eq_dec n (N.of_nat k)) as [->|Hn]; [right; left; reflexivity|left; apply IH; lia].
Qed.

Lemma count_table : forallb (fun c => decode_count c <=? 65011712) (nrange 256) = true.
Proof. vm_compute. reflexivity. Qed.

Theorem iterated_count_bounded c : c < 256 -> decode_count c <= 65011712.
Proof.
  intros H. pose proof count_table as T. rewrite forallb_forall in T.
  apply N.leb_le. apply T. apply in_nrange. exact H.
Qed.
