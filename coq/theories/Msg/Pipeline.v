(* Messages as stacks of layers (RFC 9580 10.3): the payload goes into a literal data packet
   (with the one-pass signature packets in front and the signature packets behind it), then
   optionally through compression, encryption (session-key packets in front) and armor; the
   reader undoes the layers outermost first.  C01 = "reading what was built returns the payload",
   for any payload and ANY stack of layers. *)
From Coq Require Import List NArith Lia Bool.
From Rpgp Require Import Base.Octets Base.Res Frame.Framing Aead.Seipd2 Sym.Cfb Armor.Armor Key.Lock.
Import ListNotations.
Open Scope N_scope.

(* a layer with a domain on which it restores exactly what it wrapped *)
Record layer := {
  l_enc : bytes -> bytes;
  l_dec : bytes -> res bytes;
  l_dom : bytes -> Prop;
  l_ok : forall p, l_dom p -> l_dec (l_enc p) = Ok p
}.

(* innermost layer first *)
Fixpoint build (ls : list layer) (p : bytes) : bytes :=
  match ls with [] => p | l :: r => build r (l_enc l p) end.

Fixpoint in_domain (ls : list layer) (p : bytes) : Prop :=
  match ls with [] => True | l :: r => l_dom l p /\ in_domain r (l_enc l p) end.

(* undo: outermost (last) first *)
Fixpoint read (ls : list layer) (m : bytes) : res bytes :=
  match ls with
  | [] => Ok m
  | l :: r => match read r m with Ok x => l_dec l x | Err => Err | Panic => Panic end
  end.

(* ---- framing of one packet, abstractly: any framer whose output the reader takes apart ---- *)
Definition framed (pk : bytes) : Prop :=
  forall rest, exists h b, deframe (pk ++ rest) = Ok (h, b, rest).

Fixpoint skip_packets (n : nat) (m : bytes) : res bytes :=
  match n with
  | O => Ok m
  | S n' => match deframe m with
            | Ok (_, _, rest) => skip_packets n' rest
            | Err => Err | Panic => Panic
            end
  end.

(* the body of the next packet, which must carry [tag], and what follows it *)
Definition next_body (tag : N) (m : bytes) : res (bytes * bytes) :=
  match deframe m with
  | Ok (h, body, rest) => if htag h =? tag then Ok (body, rest) else Err
  | Err => Err | Panic => Panic
  end.

(* 5.9 + 10.3: [n] packets in front (one-pass signatures), the literal packet (header of [hl]
   octets, then the payload), then exactly [ns] more packets (the signatures) and nothing else *)
Definition literal_dec (n : nat) (hl : N) (ns : nat) (m : bytes) : res bytes :=
  match skip_packets n m with
  | Ok r => match next_body 11 r with
            | Ok (body, rest) =>
                match skip_packets ns rest with
                | Ok [] => if hl <=? lenN body then Ok (dropN hl body) else Err
                | Ok _ => Err
                | Err => Err | Panic => Panic
                end
            | Err => Err | Panic => Panic
            end
  | Err => Err | Panic => Panic
  end.

(* 5.6: algorithm octet + compressed octets of the inner packet stream *)
Definition compressed_dec (decomp : bytes -> option bytes) (alg : N) (m : bytes) : res bytes :=
  match next_body 8 m with
  | Ok (a :: c, []) => if b2n a =? alg then match decomp c with Some x => Ok x | None => Err end else Err
  | Ok _ => Err
  | Err => Err | Panic => Panic
  end.

(* 5.13: [n] session-key packets in front, then the container: header [hdr], then ciphertext *)
Definition encrypted_dec (n : nat) (hdr : bytes) (dec : bytes -> res bytes) (m : bytes) : res bytes :=
  match skip_packets n m with
  | Ok r => match next_body 18 r with
            | Ok (body, []) =>
                if (lenN hdr <=? lenN body) && bytes_eqb (takeN (lenN hdr) body) hdr
                then dec (dropN (lenN hdr) body) else Err
            | Ok _ => Err
            | Err => Err | Panic => Panic
            end
  | Err => Err | Panic => Panic
  end.

Definition res_of_option (o : option bytes) : res bytes := match o with Some x => Ok x | None => Err end.

(* 6: armor *)
Definition armor_dec (m : bytes) : res bytes :=
  match dearmor_spec false m with
  | Ok d => Ok (d_data d)
  | Err => Err | Panic => Panic
  end.
