(* Msg/SignGenComplete.v -- the message builder with any number of signers (C06): whatever sizes
   the consumer reads with, the stream carries, behind the literal packet, one signature per signer,
   each made over the WHOLE payload, and each of them is accepted by every verifying path that
   computes the same subject octets (text or binary mode) from the payload it read back.

   Composes Msg/SignGenProofs.sg_machine_is_spec (the generator as the state machine the code is)
   with Sig/Complete.complete. *)
From Rpgp Require Import Base.Octets Base.Res Frame.Framing Io.Emitter Frame.PartialWriter
  Msg.SignGen Msg.SignGenProofs Text.Canon Sig.Preimage Sig.Verify Sig.Complete.

Section BuilderComplete.

Variable H : bytes -> bytes.

(* one signer: its key (sign / vrfy under the key pair), the signature parameters and whether the
   literal is signed in text mode *)
Record signer := {
  s_sign : bytes -> bytes;
  s_vrfy : bytes -> bytes -> bool;
  s_v : N; s_typ : N; s_pka : N; s_ha : N; s_hashed : bytes; s_salt : bytes; s_text : bool
}.

Definition s_pre (s : signer) (payload : bytes) : bytes :=
  preimage (s_v s) (s_typ s) (s_pka s) (s_ha s) (s_hashed s) (s_salt s) (SDoc (s_text s) payload).

(* how a signature packet is serialised from the two hash octets and the value is the wire format's
   business (C05); here any function *)
Variable pkt : signer -> bytes -> bytes -> bytes.

Definition sig_packet (payload : bytes) (s : signer) : bytes :=
  pkt s (make_prefix H (s_pre s payload)) (make_value H (s_sign s) (s_pre s payload)).

Variable k : N.
Variable h : bytes.
Hypothesis h_fits : lenN h < 2 ^ k.

Theorem builder_emits_verifying_signatures :
  forall (signers : list signer) (req : N -> N) (ops : list bytes) (payload : bytes),
    (forall s, In s signers -> forall d, s_vrfy s d (s_sign s d) = true) ->
    (* what is written, for every sequence of request sizes *)
    sg_run k h (fun d => map (sig_packet d) signers) req ops payload =
      (concat ops ++ emit_partial 11 k h payload ++ concat (map (sig_packet payload) signers), EClean) /\
    (* ... and every signature in it is accepted by a verifier that hashed a payload with the same subject octets *)
    (forall s, In s signers -> forall payload',
        subject_bytes (s_v s) (SDoc (s_text s) payload') = subject_bytes (s_v s) (SDoc (s_text s) payload) ->
        accepts H (s_vrfy s) (s_pre s payload')
                (make_prefix H (s_pre s payload)) (make_value H (s_sign s) (s_pre s payload)) = true).
Proof.
  intros signers req ops payload Hkeys. split.
  - rewrite (sg_machine_is_spec k h _ h_fits). reflexivity.
  - intros s Hs payload' E. unfold s_pre. apply complete; [apply Hkeys, Hs|exact E].
Qed.

(* text mode: a payload that differs only in its line endings has the same subject octets *)
Corollary text_mode_line_endings_do_not_matter :
  forall (s : signer) payload payload',
    s_text s = true -> canon payload' = canon payload ->
    subject_bytes (s_v s) (SDoc (s_text s) payload') = subject_bytes (s_v s) (SDoc (s_text s) payload).
Proof. intros s p p' Ht E. rewrite Ht. cbn [subject_bytes]. exact E. Qed.

End BuilderComplete.
