(* Msg/ReadEnd.v -- composed::Message's `Read::read` above its layers (C09): the inner reader hands out up to `n` octets of
   what is left of the payload; when a read gets nothing the message runs its end-of-message check (trailing packets) and
   reports the end.  A read into an empty buffer (n = 0) gets nothing by contract and says nothing about the end.

   Mirrors src/composed/message/types.rs: `impl Read for Message` --
     read := inner.read(buf);  if read == 0 && !buf.is_empty() { check_trailing_data()? };  Ok(read)
   (before fix 63f292e the test was `read == 0` alone: `unfixed_read` below.)

   ReadEndProofs.v: a consumer asking with ANY request sizes, zeros among them, gets exactly the payload and then the
   verdict of the end-of-message check; the unfixed reader ends a message early at a zero request. *)
From Rpgp Require Import Base.Octets.

Inductive rd := Data (out : bytes) | End | Fail.

(* state: what is left of the payload; `trailing_ok`: the verdict the end-of-message check will give *)
Definition msg_read (trailing_ok : bool) (n : N) (left : bytes) : rd * bytes :=
  let out := takeN n left in
  if (lenN out =? 0) && negb (n =? 0) then (if trailing_ok then End else Fail, left)
  else (Data out, dropN n left).

Definition unfixed_read (trailing_ok : bool) (n : N) (left : bytes) : rd * bytes :=
  let out := takeN n left in
  if (lenN out =? 0) then (if trailing_ok then End else Fail, left)
  else (Data out, dropN n left).

(* a consumer: one read per request until the message reports its end (or the requests run out);
   what was collected, and the verdict if the end was reached *)
Fixpoint consume (read : N -> bytes -> rd * bytes) (reqs : list N) (left : bytes) : bytes * option bool :=
  match reqs with
  | [] => ([], None)
  | n :: rs =>
      match read n left with
      | (Data out, left') => let (o, v) := consume read rs left' in (out ++ o, v)
      | (End, _) => ([], Some true)
      | (Fail, _) => ([], Some false)
      end
  end.
