From Coq Require Import List NArith ZArith Lia Bool.
From Rpgp Require Import Base.Octets Base.Res Frame.Framing Frame.FramingProofs Aead.Seipd2 Aead.Seipd2Proofs
  Sym.Cfb Sym.CfbProofs Armor.Base64 Armor.Armor Armor.ArmorProofs Key.Lock Key.LockProofs Msg.Pipeline.
Import ListNotations.
Open Scope N_scope.

(* the stack theorem: any number of layers, in any order the domains allow *)
Theorem read_build ls : forall p, in_domain ls p -> read ls (build ls p) = Ok p.
Proof.
  induction ls as [|l r IH]; intros p D; cbn [build read in_domain] in *; [reflexivity|].
  destruct D as [D1 D2]. rewrite (IH _ D2). apply l_ok. exact D1.
Qed.

(* ---- packets in front ---- *)
Lemma skip_concat pks : Forall framed pks -> forall rest,
  skip_packets (length pks) (concat pks ++ rest) = Ok rest.
Proof.
  induction 1 as [|pk pks Hpk _ IH]; intros rest; cbn [length concat skip_packets app]; [reflexivity|].
  rewrite <- app_assoc. destruct (Hpk (concat pks ++ rest)) as [h [b E]]. rewrite E. apply IH.
Qed.

Lemma emit_partial_framed tag k h data :
  data_tag tag = true -> 9 <= k -> k <= 30 -> lenN h <= 2 ^ k -> framed (emit_partial tag k h data).
Proof.
  intros A B C D rest. destruct (deframe_emit_partial tag k h data rest A B C D) as [l E].
  eexists; eexists; exact E.
Qed.

Lemma emit_fixed_framed tag h data :
  tag < 64 -> lenN h + lenN data < 4294967296 -> framed (emit_fixed tag h data).
Proof. intros A B rest. rewrite (deframe_emit_fixed tag h data rest A B). eexists; eexists; reflexivity. Qed.

(* ---- the literal layer, streamed framing (partial body lengths 2^k): every payload ---- *)
Section Literal.
Variables (pre post : list bytes) (hdr : bytes) (k : N).
Hypothesis pre_framed : Forall framed pre.
Hypothesis post_framed : Forall framed post.
Hypothesis k_lo : 9 <= k.
Hypothesis k_hi : k <= 30.
Hypothesis hdr_fits : lenN hdr <= 2 ^ k.

Definition literal_enc (p : bytes) : bytes := concat pre ++ emit_partial 11 k hdr p ++ concat post.

Lemma literal_ok p : literal_dec (length pre) (lenN hdr) (length post) (literal_enc p) = Ok p.
Proof.
  unfold literal_dec, literal_enc. rewrite (skip_concat pre pre_framed).
  unfold next_body.
  destruct (deframe_emit_partial 11 k hdr p (concat post) eq_refl k_lo k_hi hdr_fits) as [l E].
  rewrite E. cbn [htag]. change (11 =? 11) with true. cbv iota.
  pose proof (skip_concat post post_framed []) as S. rewrite app_nil_r in S. rewrite S.
  assert (L : (lenN hdr <=? lenN (hdr ++ p)) = true) by (apply N.leb_le; rewrite lenN_app; lia).
  rewrite L, dropN_app. reflexivity.
Qed.

Definition literal_layer : layer :=
  {| l_enc := literal_enc; l_dec := literal_dec (length pre) (lenN hdr) (length post);
     l_dom := fun _ => True; l_ok := fun p _ => literal_ok p |}.
End Literal.

(* the same with one fixed length: payloads below 2^32 octets *)
Section LiteralFixed.
Variables (pre post : list bytes) (hdr : bytes).
Hypothesis pre_framed : Forall framed pre.
Hypothesis post_framed : Forall framed post.

Definition literal_fixed_enc (p : bytes) : bytes := concat pre ++ emit_fixed 11 hdr p ++ concat post.

Lemma literal_fixed_ok p : lenN hdr + lenN p < 4294967296 ->
  literal_dec (length pre) (lenN hdr) (length post) (literal_fixed_enc p) = Ok p.
Proof.
  intros B. unfold literal_dec, literal_fixed_enc. rewrite (skip_concat pre pre_framed).
  unfold next_body. rewrite (deframe_emit_fixed 11 hdr p (concat post) ltac:(lia) B).
  cbn [htag]. change (11 =? 11) with true. cbv iota.
  pose proof (skip_concat post post_framed []) as S. rewrite app_nil_r in S. rewrite S.
  assert (L : (lenN hdr <=? lenN (hdr ++ p)) = true) by (apply N.leb_le; rewrite lenN_app; lia).
  rewrite L, dropN_app. reflexivity.
Qed.

Definition literal_fixed_layer : layer :=
  {| l_enc := literal_fixed_enc; l_dec := literal_dec (length pre) (lenN hdr) (length post);
     l_dom := fun p => lenN hdr + lenN p < 4294967296; l_ok := literal_fixed_ok |}.
End LiteralFixed.

(* ---- compression (the compressor is a parameter with its defining property) ---- *)
Section Compressed.
Variables (comp : bytes -> bytes) (decomp : bytes -> option bytes) (alg k : N).
Hypothesis decomp_comp : forall x, decomp (comp x) = Some x.
Hypothesis alg_octet : alg < 256.
Hypothesis k_lo : 9 <= k.
Hypothesis k_hi : k <= 30.

Definition compressed_enc (p : bytes) : bytes := emit_partial 8 k [n2b alg] (comp p).

Lemma compressed_ok p : compressed_dec decomp alg (compressed_enc p) = Ok p.
Proof.
  unfold compressed_dec, compressed_enc, next_body.
  assert (H1 : lenN [n2b alg] <= 2 ^ k).
  { cbn. assert (2 ^ 9 <= 2 ^ k) by (apply N.pow_le_mono_r; lia). change (2 ^ 9) with 512 in *. lia. }
  destruct (deframe_emit_partial 8 k [n2b alg] (comp p) [] eq_refl k_lo k_hi H1) as [l E].
  rewrite app_nil_r in E. rewrite E. cbn [htag app]. change (8 =? 8) with true. cbv iota.
  rewrite b2n_n2b, N.mod_small by exact alg_octet. rewrite N.eqb_refl, decomp_comp. reflexivity.
Qed.

Definition compressed_layer : layer :=
  {| l_enc := compressed_enc; l_dec := compressed_dec decomp alg;
     l_dom := fun _ => True; l_ok := fun p _ => compressed_ok p |}.
End Compressed.

(* ---- encryption: session-key packets, container header, any cipher layer that decrypts what
   it encrypted ---- *)
Section Encrypted.
Variables (esks : list bytes) (hdr : bytes) (k : N).
Variables (enc : bytes -> bytes) (dec : bytes -> res bytes).
Hypothesis esks_framed : Forall framed esks.
Hypothesis dec_enc : forall p, dec (enc p) = Ok p.
Hypothesis k_lo : 9 <= k.
Hypothesis k_hi : k <= 30.
Hypothesis hdr_fits : lenN hdr <= 2 ^ k.

Definition encrypted_enc (p : bytes) : bytes := concat esks ++ emit_partial 18 k hdr (enc p).

Lemma encrypted_ok p : encrypted_dec (length esks) hdr dec (encrypted_enc p) = Ok p.
Proof.
  unfold encrypted_dec, encrypted_enc.
  rewrite <- (app_nil_r (emit_partial 18 k hdr (enc p))), (skip_concat esks esks_framed).
  unfold next_body.
  destruct (deframe_emit_partial 18 k hdr (enc p) [] eq_refl k_lo k_hi hdr_fits) as [l E].
  rewrite E. cbn [htag]. change (18 =? 18) with true. cbv iota.
  assert (L : (lenN hdr <=? lenN (hdr ++ enc p)) = true) by (apply N.leb_le; rewrite lenN_app; lia).
  rewrite L, takeN_app, bytes_eqb_refl, dropN_app. cbn [andb]. apply dec_enc.
Qed.

Definition encrypted_layer : layer :=
  {| l_enc := encrypted_enc; l_dec := encrypted_dec (length esks) hdr dec;
     l_dom := fun _ => True; l_ok := fun p _ => encrypted_ok p |}.
End Encrypted.

(* the two cipher layers of RFC 9580 satisfy the hypothesis of [Encrypted] *)
Lemma seipd2_cipher_ok seal open
  (open_seal : forall k n ad p, open k n ad (seal k n ad p) = Some p)
  (seal_len : forall k n ad p, lenN (seal k n ad p) = lenN p + TAGLEN)
  c key iv info (Hc : 1 <= c) p :
  res_of_option (seipd2_dec open c key iv info (seipd2_enc seal c key iv info p)) = Ok p.
Proof. rewrite (seipd2_roundtrip seal open open_seal seal_len c key iv info p Hc). reflexivity. Qed.

Lemma seipd1_cipher_ok E bs (Hb : 1 <= bs) (HE : forall x, lenN (E x) = bs)
  sha1 (Hs : forall x, lenN (sha1 x) = 20) prefix (Hp : lenN prefix = bs + 2) p :
  seipd1_dec E bs sha1 (seipd1_enc E bs sha1 prefix p) = Ok p.
Proof. apply seipd1_roundtrip; assumption. Qed.

(* ---- armor ---- *)
Section Armored.
Variables (t : btype) (hs : list (bytes * bytes)) (ck : bool).
Hypothesis t_fixed : fixed_type t = true.
Hypothesis hs_ok : hdrs_ok hs = true.

Definition armor_enc (p : bytes) : bytes := armor t hs p ck.

Lemma armor_ok p : armor_dec (armor_enc p) = Ok p.
Proof.
  unfold armor_dec, armor_enc, dearmor_spec.
  rewrite (dearmor_armor crc24 false t hs p ck t_fixed hs_ok); [reflexivity|].
  intros H. discriminate.
Qed.

Definition armor_layer : layer :=
  {| l_enc := armor_enc; l_dec := armor_dec; l_dom := fun _ => True; l_ok := fun p _ => armor_ok p |}.
End Armored.

Theorem full_stack :
  forall (ops sigs : list bytes) (lit_hdr : bytes) (k : N)
         (comp : bytes -> bytes) (decomp : bytes -> option bytes) (calg : N)
         (esks : list bytes) (seal : bytes -> bytes -> bytes -> bytes -> bytes)
         (open : bytes -> bytes -> bytes -> bytes -> option bytes)
         (c : N) (key iv info ehdr : bytes) (t : btype) (hs : list (bytes * bytes)) (ck : bool),
  Forall framed ops -> Forall framed sigs -> Forall framed esks -> 9 <= k -> k <= 30 ->
  lenN lit_hdr <= 2 ^ k -> lenN ehdr <= 2 ^ k ->
  (forall x, decomp (comp x) = Some x) -> calg < 256 ->
  (forall kk n ad p, open kk n ad (seal kk n ad p) = Some p) ->
  (forall kk n ad p, lenN (seal kk n ad p) = lenN p + TAGLEN) -> 1 <= c ->
  fixed_type t = true -> hdrs_ok hs = true ->
  forall payload,
    let message :=
      armor_enc t hs ck
        (encrypted_enc esks ehdr k (seipd2_enc seal c key iv info)
          (compressed_enc comp calg k
            (literal_enc ops sigs lit_hdr k payload))) in
    match armor_dec message with
    | Ok m1 =>
        match encrypted_dec (length esks) ehdr (fun ct => res_of_option (seipd2_dec open c key iv info ct)) m1 with
        | Ok m2 =>
            match compressed_dec decomp calg m2 with
            | Ok m3 => literal_dec (length ops) (lenN lit_hdr) (length sigs) m3 = Ok payload
            | _ => False
            end
        | _ => False
        end
    | _ => False
    end.
Proof.
  intros ops sigs lit_hdr k comp decomp calg esks seal open c key iv info ehdr t hs ck
         Hops Hsigs Hesks K1 K2 Hl He Hc Ha Hos Hsl Hc1 Ht Hh payload. cbv zeta.
  rewrite (armor_ok t hs ck Ht Hh).
  rewrite (encrypted_ok esks ehdr k (seipd2_enc seal c key iv info)
             (fun ct => res_of_option (seipd2_dec open c key iv info ct)) Hesks
             (seipd2_cipher_ok seal open Hos Hsl c key iv info Hc1) K1 K2 He).
  rewrite (compressed_ok comp decomp calg k Hc Ha K1 K2).
  apply (literal_ok ops sigs lit_hdr k Hops Hsigs K1 K2 Hl).
Qed.
