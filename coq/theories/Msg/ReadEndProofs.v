From Rpgp Require Import Base.Octets Msg.ReadEnd.

(* a read into an empty buffer: nothing comes, nothing changes *)
Theorem zero_read_is_neutral ok left : msg_read ok 0 left = (Data [], left).
Proof.
  unfold msg_read. rewrite takeN_0, dropN_0. change (0 =? 0) with true. cbn [negb]. rewrite Bool.andb_false_r. reflexivity.
Qed.

Lemma takeN_empty_iff {A} n (l : list A) : n <> 0 -> (lenN (takeN n l) = 0 <-> l = []).
Proof.
  intros Hn. rewrite lenN_takeN. split.
  - intros H. destruct l as [|x t]; [reflexivity|]. rewrite lenN_cons in H. lia.
  - intros ->. rewrite lenN_nil. lia.
Qed.

Lemma firstn_add {A} (l : list A) : forall a b, firstn a l ++ firstn b (skipn a l) = firstn (Nat.min a (length l) + b) l.
Proof.
  induction l as [|x t IH]; intros a b.
  - destruct a, b; reflexivity.
  - destruct a as [|a]; [reflexivity|]. cbn [firstn skipn length Nat.min Nat.add app]. f_equal. apply IH.
Qed.

Lemma takeN_add {A} n k (l : list A) : takeN n l ++ takeN k (dropN n l) = takeN (N.min n (lenN l) + k) l.
Proof.
  rewrite !takeN_firstn, dropN_skipn, firstn_add. f_equal. unfold lenN. lia.
Qed.

(* whatever the request sizes: what is collected is a prefix of the payload, never more than was asked for ... *)
Theorem consume_prefix ok reqs : forall left,
  exists k, fst (consume (msg_read ok) reqs left) = takeN k left /\ k <= fold_right N.add 0 reqs.
Proof.
  induction reqs as [|n rs IH]; intros left.
  - exists 0. rewrite takeN_0. split; [reflexivity | cbn [fold_right]; lia].
  - cbn [consume fold_right]. destruct (msg_read ok n left) as [r l'] eqn:Er. unfold msg_read in Er.
    destruct ((lenN (takeN n left) =? 0) && negb (n =? 0)) eqn:E.
    + destruct ok; inversion Er; subst; exists 0; rewrite takeN_0; (split; [reflexivity | lia]).
    + inversion Er; subst. destruct (IH (dropN n left)) as [k [Hk Hle]].
      destruct (consume (msg_read ok) rs (dropN n left)) as [o v] eqn:Ec. cbn [fst] in *. subst o.
      exists (N.min n (lenN left) + k). split; [apply takeN_add | lia].
Qed.

(* ... the end is reported only when the payload is exhausted, with the verdict of the end-of-message check ... *)
Theorem consume_end_means_whole ok reqs : forall left v,
  snd (consume (msg_read ok) reqs left) = Some v -> fst (consume (msg_read ok) reqs left) = left /\ v = ok.
Proof.
  induction reqs as [|n rs IH]; intros left v; cbn [consume]; [discriminate|].
  destruct (msg_read ok n left) as [r l'] eqn:Er. unfold msg_read in Er.
  destruct ((lenN (takeN n left) =? 0) && negb (n =? 0)) eqn:E.
  - apply Bool.andb_true_iff in E. destruct E as [E1 E2].
    apply N.eqb_eq in E1. apply Bool.negb_true_iff, N.eqb_neq in E2.
    apply (takeN_empty_iff n left E2) in E1. subst left.
    destruct ok; inversion Er; subst; cbn [fst snd]; intros H; inversion H; split; reflexivity.
  - inversion Er; subst. destruct (consume (msg_read ok) rs (dropN n left)) as [o v'] eqn:Ec. cbn [fst snd]. intros H. subst v'.
    specialize (IH (dropN n left) v). rewrite Ec in IH. cbn [fst snd] in IH. destruct (IH eq_refl) as [Ho Hv].
    subst o. split; [apply takeN_dropN | exact Hv].
Qed.

(* ... and a consumer that keeps asking for something reaches it: after the payload's length in non-zero requests, one more *)
Theorem consume_reaches_end ok left : forall reqs,
  Forall (fun n => n <> 0) reqs -> (length left < length reqs)%nat ->
  consume (msg_read ok) reqs left = (left, Some ok).
Proof.
  remember (length left) as m eqn:Em. revert left Em.
  induction m as [m IH] using lt_wf_ind. intros left Em reqs Hnz Hlen.
  destruct reqs as [|n rs]; [cbn [length] in Hlen; lia|].
  inversion Hnz as [|? ? Hn Hrs]; subst.
  cbn [consume]. destruct (msg_read ok n left) as [r l'] eqn:Er. unfold msg_read in Er.
  destruct left as [|x t].
  - assert (E : takeN n (@nil byte) = []) by (destruct n; reflexivity). rewrite E in Er.
    change (lenN (@nil byte) =? 0) with true in Er. destruct (N.eqb_spec n 0); [contradiction|]. cbn [negb andb] in Er.
    destruct ok; inversion Er; reflexivity.
  - assert (E : (lenN (takeN n (x :: t)) =? 0) = false).
    { apply N.eqb_neq. rewrite lenN_takeN, lenN_cons. lia. }
    rewrite E in Er. cbn [andb] in Er.
    assert (Er' : r = Data (takeN n (x :: t)) /\ l' = dropN n (x :: t)) by (split; congruence).
    destruct Er' as [-> ->]. clear Er.
    assert (Hd : (length (dropN n (x :: t)) < length (x :: t))%nat).
    { pose proof (lenN_dropN n (x :: t)) as L. unfold lenN in L. cbn [length] in *. lia. }
    cbn [length] in Hlen.
    assert (Hlen' : (length (dropN n (x :: t)) < length rs)%nat) by (cbn [length] in Hd; lia).
    rewrite (IH (length (dropN n (x :: t))) Hd (dropN n (x :: t)) eq_refl rs Hrs Hlen').
    rewrite takeN_dropN. reflexivity.
Qed.

(* the reader as it was before fix 63f292e: one octet of payload, a zero request, and the message "ends" empty *)
Theorem unfixed_ends_early :
  consume (unfixed_read true) [0; 5; 5] [x61] = ([], Some true) /\
  consume (msg_read true) [0; 5; 5] [x61] = ([x61], Some true).
Proof. split; reflexivity. Qed.
