(* Msg/SignGen.v -- the signing generator of the message builder as the staged producer the code is
   (C01, C06, C09): the one-pass signature packets one at a time, then the literal data packet passed
   through from the streamed literal writer while every octet the writer takes from the source is fed
   to the signature hashers, then -- only once the writer has reported its end -- the signature
   packets computed from what was hashed; read() with any request sizes.

   Mirrors src/composed/message/builder.rs: SignGenerator::read (states Ops, Body, Signatures),
   SignatureHashers::read, over packet/literal_data.rs LiteralDataPartialGenerator (Frame/PartialWriter.v).

   SignGenProofs.v: for every sequence of request sizes the consumer receives the one-pass packets, the
   literal packet emit_partial(payload), and the signature packets computed over the WHOLE payload. *)
From Rpgp Require Import Base.Octets Base.Res Frame.Framing Io.Emitter Frame.PartialWriter.

Section SignGen.

Variable k : N.                         (* chunk size 2^k of the literal writer *)
Variable h : bytes.                     (* literal data header *)
Variable sigs_of : bytes -> list bytes. (* the serialised signature packets, in the order written, over the hashed octets *)

(* the literal writer with the hashers beside it: what the writer takes from the source is hashed *)
Definition lit_state : Type := pw * bytes.

Definition adv_lit (st : lit_state) : option (bytes * lit_state) :=
  let '(s, hd) := st in
  match pw_advance 11 k h s with
  | Some (b, s') => Some (b, (s', hd ++ takeN (lenN (psrc s) - lenN (psrc s')) (psrc s)))
  | None => None
  end.

Definition body_then_sigs := rseq lit_state (list bytes).
Definition adv_body_sigs : body_then_sigs -> option (bytes * body_then_sigs) :=
  adv_seq lit_state (list bytes) adv_lit adv_list (fun st => sigs_of (snd st)).

Definition sg_state := rseq (list bytes) body_then_sigs.
Definition sg_advance (data : bytes) : sg_state -> option (bytes * sg_state) :=
  adv_seq (list bytes) body_then_sigs adv_list adv_body_sigs
    (fun _ => In1 lit_state (list bytes) ({| psrc := data; pfirst := true; pfinished := false |}, [])).

Definition sg_spec (ops : list bytes) (data : bytes) : bytes :=
  concat ops ++ emit_partial 11 k h data ++ concat (sigs_of data).

Definition sg_run (req : N -> N) (ops : list bytes) (data : bytes) : bytes * e_outcome :=
  let sf := (S (length ops) + (S (S (S (length data))) + S (length (sigs_of data))))%nat in
  e_drive sg_state (sg_advance data) sf req (length (sg_spec ops data) + sf + 2) 0 [] (In1 _ _ ops).

End SignGen.
