(* Msg/SignGenProofs.v -- the signing generator delivers one-pass packets, literal packet and the
   signatures over the whole payload, whatever sizes the consumer reads with. *)
From Coq Require Import ZifyBool ZifyN ZifyNat.
From Rpgp Require Import Base.Octets Base.OctetsMore Base.Res Frame.Framing Io.Emitter Io.EmitterProofs
  Frame.PartialWriter Frame.PartialWriterProofs Msg.SignGen.
Ltac Zify.zify_post_hook ::= Z.div_mod_to_equations.

Section Proofs.

Variable k : N.
Variable h : bytes.
Variable sigs_of : bytes -> list bytes.
Hypothesis h_fits : lenN h < 2 ^ k.

Notation advL := (adv_lit k h).
Notation advP := (pw_advance 11 k h).

(* the hashers beside the writer do not change what the writer emits *)
Lemma whole_lit f : forall s hd, whole _ advL f (s, hd) = whole pw advP f s.
Proof.
  induction f as [|f IH]; intros s hd; [reflexivity|]. cbn [whole adv_lit].
  destruct (advP s) as [[b s']|]; [|reflexivity]. rewrite IH. reflexivity.
Qed.

Lemma stages_lit f : forall s hd, stages _ advL f (s, hd) = stages pw advP f s.
Proof.
  induction f as [|f IH]; intros s hd; [reflexivity|]. cbn [stages adv_lit].
  destruct (advP s) as [[b s']|]; [|reflexivity]. rewrite IH. reflexivity.
Qed.

(* one refill of the writer: the source shrinks by what is taken, and is empty once the writer has finished *)
Lemma pw_step s b s' :
  advP s = Some (b, s') ->
  psrc s = takeN (lenN (psrc s) - lenN (psrc s')) (psrc s) ++ psrc s' /\
  (pfinished s' = true -> psrc s' = []).
Proof.
  pose proof (pow_pos k) as Hp.
  unfold pw_advance. destruct (pfinished s); [discriminate|].
  set (cs := if pfirst s then 2 ^ k - lenN h else 2 ^ k).
  assert (Hsplit : psrc s = takeN (lenN (psrc s) - lenN (dropN cs (psrc s))) (psrc s) ++ dropN cs (psrc s)).
  { rewrite lenN_dropN.
    destruct (N.leb_spec cs (lenN (psrc s))).
    - replace (lenN (psrc s) - (lenN (psrc s) - cs)) with cs by lia. symmetry. apply takeN_dropN.
    - rewrite (dropN_all cs (psrc s)) by lia. rewrite app_nil_r.
      replace (lenN (psrc s) - (lenN (psrc s) - cs)) with (lenN (psrc s)) by lia. symmetry. apply takeN_all. lia. }
  destruct (pfirst s && (lenN (takeN cs (psrc s)) <? cs)) eqn:E1.
  - intros H; injection H as _ <-. cbn [psrc pfinished]. split; [exact Hsplit|]. intros _.
    apply andb_prop in E1. destruct E1 as [_ E1]. apply N.ltb_lt in E1. rewrite lenN_takeN in E1.
    apply dropN_all. lia.
  - destruct (N.eqb_spec (lenN (takeN cs (psrc s))) cs) as [E2|E2].
    + intros H; injection H as _ <-. cbn [psrc pfinished]. split; [exact Hsplit|]. discriminate.
    + intros H; injection H as _ <-. cbn [psrc pfinished]. split; [exact Hsplit|]. intros _.
      rewrite lenN_takeN in E2. apply dropN_all. lia.
Qed.

(* where the writer-with-hashers ends: everything has been hashed *)
Lemma final_lit f : forall s hd j,
  (pfinished s = true -> psrc s = []) ->
  stages pw advP f s = Some j ->
  snd (final1 _ advL f (s, hd)) = hd ++ psrc s.
Proof.
  induction f as [|f IH]; intros s hd j Hfin Hs; [discriminate|].
  cbn [stages] in Hs. cbn [final1 adv_lit].
  destruct (advP s) as [[b s']|] eqn:Ea.
  - destruct (stages pw advP f s') as [j'|] eqn:Es; [|discriminate].
    destruct (pw_step s b s' Ea) as (Hsplit & Hfin').
    rewrite (IH s' _ j' Hfin' Es). rewrite <- app_assoc. f_equal. symmetry. exact Hsplit.
  - cbn [snd]. unfold pw_advance in Ea. destruct (pfinished s) eqn:Ef.
    + rewrite (Hfin eq_refl), app_nil_r. reflexivity.
    + exfalso. destruct (pfirst s && _); [discriminate|]. destruct (_ =? _); discriminate.
Qed.

(* for every sequence of request sizes *)
Theorem sg_machine_is_spec req ops data :
  sg_run k h sigs_of req ops data = (sg_spec k h sigs_of ops data, EClean).
Proof.
  unfold sg_run.
  set (init := ({| psrc := data; pfirst := true; pfinished := false |}, @nil byte) : lit_state).
  set (fl := S (S (S (length data)))). set (fs := S (length (sigs_of data))). set (fo := S (length ops)).
  (* the literal writer *)
  destruct (first_whole 11 k h h_fits data) as (jl & Hsl & Hwl).
  assert (Hfin : snd (final1 _ advL fl init) = data).
  { unfold init. rewrite (final_lit fl _ [] jl); [reflexivity|discriminate|exact Hsl]. }
  (* then the signatures over what was hashed *)
  destruct (whole_list (sigs_of data)) as (Hws & Hss).
  assert (Hbs : whole _ (adv_body_sigs k h sigs_of) (fl + fs) (In1 _ _ init) = emit_partial 11 k h data ++ concat (sigs_of data) /\
                stages _ (adv_body_sigs k h sigs_of) (fl + fs) (In1 _ _ init) = Some (jl + length (sigs_of data))%nat).
  { unfold adv_body_sigs.
    destruct (whole_seq lit_state (list bytes) advL adv_list (fun st => sigs_of (snd st)) fl init jl fs (length (sigs_of data))) as (Hw & Hs).
    - unfold init. rewrite stages_lit. exact Hsl.
    - cbn beta. rewrite Hfin. exact Hss.
    - split.
      + etransitivity; [exact Hw|]. cbn beta. rewrite Hfin. unfold fs. rewrite Hws. unfold init. rewrite whole_lit. unfold fl. rewrite Hwl. reflexivity.
      + etransitivity; [exact Hs|]. reflexivity. }
  destruct Hbs as (Hwb & Hsb).
  (* in front of both: the one-pass packets *)
  destruct (whole_list ops) as (Hwo & Hso).
  assert (Hfo : final1 _ adv_list fo ops = final1 _ adv_list fo ops) by reflexivity.
  destruct (whole_seq (list bytes) (body_then_sigs) adv_list (adv_body_sigs k h sigs_of)
              (fun _ => In1 lit_state (list bytes) init) fo ops (length ops) (fl + fs) (jl + length (sigs_of data))%nat Hso Hsb) as (Hw & Hs).
  assert (Hwhole : whole sg_state (sg_advance k h sigs_of data) (fo + (fl + fs)) (In1 _ _ ops) = sg_spec k h sigs_of ops data).
  { etransitivity; [exact Hw|]. unfold fo. rewrite Hwo. etransitivity; [apply f_equal; exact Hwb|]. reflexivity. }
  assert (Hst : stages sg_state (sg_advance k h sigs_of data) (fo + (fl + fs)) (In1 _ _ ops) = Some (length ops + (jl + length (sigs_of data)))%nat)
    by exact Hs.
  pose proof (stages_lt _ _ _ _ _ Hst) as Hlt.
  unfold fo, fl, fs in Hwhole, Hst, Hlt.
  rewrite (drive_whole sg_state (sg_advance k h sigs_of data) _ req _ 0 [] _ _ Hst).
  - cbn [app]. rewrite Hwhole. reflexivity.
  - rewrite Hwhole. cbn [length]. lia.
Qed.

End Proofs.
