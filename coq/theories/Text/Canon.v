(* Text/Canon.v -- text canonicalisation (C14): the specification [canon] and
   code-shaped models of the three canonicalisers of rPGP plus the CR+LF
   checker of literal data.  Definitions only; proofs are in CanonProofs.v.

   Mirrors:
     src/util.rs            NormalizingHasher::{hash_buf, done}
     src/normalize_lines.rs NormalizedReader::{fill_buffer, cleanup_buffer, read},
                            replace_newlines, normalize_lines
     src/packet/literal_data.rs CrLfCheckReader::read                          *)
From Rpgp Require Import Base.Octets.

(* ---------------------------------------------------------------- L0 *)

(* The specification, as the property states it: every LF that is not preceded
   by CR becomes CR LF; every other octet is copied.  [prev_cr] says whether the
   octet just before [l] was a CR. *)
Fixpoint canon_from (prev_cr : bool) (l : bytes) : bytes :=
  match l with
  | [] => []
  | a :: t =>
      (if beq a LF then (if prev_cr then [LF] else [CR; LF]) else [a])
      ++ canon_from (beq a CR) t
  end.

Definition canon (l : bytes) : bytes := canon_from false l.

Definition ends_cr (prev_cr : bool) (l : bytes) : bool :=
  match l with [] => prev_cr | _ => beq (last l x00) CR end.

(* CR LF -> LF, everything else copied: the LF form of a text. *)
Fixpoint to_lf (l : bytes) : bytes :=
  match l with
  | [] => []
  | a :: t =>
      if beq a CR then
        match t with
        | b :: t' => if beq b LF then LF :: to_lf t' else CR :: to_lf t
        | [] => [CR]
        end
      else a :: to_lf t
  end.

(* LF -> CR LF unconditionally on LF-form text: the CRLF form. *)
Fixpoint to_crlf (l : bytes) : bytes :=
  match l with
  | [] => []
  | a :: t => if beq a LF then CR :: LF :: to_crlf t else a :: to_crlf t
  end.

(* no CR directly before a CR LF pair: the only texts whose LF form is the LF
   form of a *different* text ("CR CR LF" -> "CR LF") *)
Fixpoint no_crcrlf (l : bytes) : bool :=
  match l with
  | [] => true
  | a :: t =>
      match t with
      | b :: (c :: _) => if beq a CR && beq b CR && beq c LF then false else no_crcrlf t
      | _ => true
      end
  end.

(* LF form: no LF is preceded by CR *)
Fixpoint lf_form_from (prev_cr : bool) (l : bytes) : bool :=
  match l with
  | [] => true
  | a :: t => if beq a LF && prev_cr then false else lf_form_from (beq a CR) t
  end.
Definition lf_form (l : bytes) : bool := lf_form_from false l.

(* already canonical *)
Fixpoint is_canon_from (prev_cr : bool) (l : bytes) : bool :=
  match l with
  | [] => true
  | a :: t => if beq a LF && negb prev_cr then false else is_canon_from (beq a CR) t
  end.

Definition is_canon (l : bytes) : bool := is_canon_from false l.

(* ------------------------------------------- L1: NormalizingHasher *)

(* The body of the `while !buf.is_empty()` loop of hash_buf, text mode:
   returns the octets handed to the digest and whether the (CR, only_one)
   arm set last_was_cr. *)
Fixpoint nh_loop (buf : bytes) : bytes * bool :=
  match buf with
  | [] => ([], false)
  | c :: rest =>
      if beq c LF then
        let (o, f) := nh_loop rest in (CR :: LF :: o, f)
      else if beq c CR then
        match rest with
        | [] => ([CR], true)                       (* (b'\r', true)  *)
        | d :: rest' =>
            if beq d LF then
              let (o, f) := nh_loop rest' in (CR :: LF :: o, f)
            else
              let (o, f) := nh_loop rest in (CR :: o, f)
        end
      else
        let (o, f) := nh_loop rest in (c :: o, f)
  end.

(* hash_buf: (octets hashed by this call, new last_was_cr) *)
Definition nh_feed (text_mode : bool) (last_cr : bool) (buf : bytes) : bytes * bool :=
  match buf with
  | [] => ([], last_cr)                            (* early return *)
  | b0 :: tl =>
      if negb text_mode then (buf, last_cr)
      else if last_cr then
        if beq b0 LF then
          let (o, f) := nh_loop tl in (LF :: o, f)
        else nh_loop buf
      else nh_loop buf
  end.

(* done(): what is appended when the hasher is finalised.
   After the fix "fix: do not hash an extra LF after a trailing CR" nothing
   is appended.  [nh_done_legacy] is the behaviour of the pinned tree. *)
Definition nh_done (text_mode last_cr : bool) : bytes := [].
Definition nh_done_legacy (text_mode last_cr : bool) : bytes :=
  if text_mode && last_cr then [LF] else [].

Fixpoint nh_feeds (text_mode last_cr : bool) (chunks : list bytes) : bytes * bool :=
  match chunks with
  | [] => ([], last_cr)
  | c :: cs =>
      let (o, f) := nh_feed text_mode last_cr c in
      let (o', f') := nh_feeds text_mode f cs in
      (o ++ o', f')
  end.

Definition nh_run (text_mode : bool) (chunks : list bytes) : bytes :=
  let (o, f) := nh_feeds text_mode false chunks in o ++ nh_done text_mode f.

Definition nh_run_legacy (text_mode : bool) (chunks : list bytes) : bytes :=
  let (o, f) := nh_feeds text_mode false chunks in o ++ nh_done_legacy text_mode f.

(* ------------------------------------------- L1: replace_newlines *)

(* `\r\n` and `\n` become [rep]; a CR not followed by LF is copied. *)
Fixpoint replace_newlines (rep : bytes) (l : bytes) : bytes :=
  match l with
  | [] => []
  | a :: t =>
      if beq a LF then rep ++ replace_newlines rep t
      else if beq a CR then
        match t with
        | b :: t' => if beq b LF then rep ++ replace_newlines rep t'
                     else CR :: replace_newlines rep t
        | [] => [CR]
        end
      else a :: replace_newlines rep t
  end.

(* ------------------------------------------- L1: NormalizedReader *)

(* cleanup_buffer.  [w] is the window size (in_buffer.len()), [win] the
   octets just read into the front of in_buffer (read = |win|), [first]
   in_buffer[0] after the read (stale if read = 0), [last_char] the last cell
   of in_buffer before the read. *)
Definition nr_cleanup (rep : bytes) (w : N) (last_char first : byte) (win : bytes) : bytes :=
  let read := lenN win in
  let full_cr := N.eqb read w && beq (last win x00) CR in
  let endp := if full_cr then read - 1 else read in
  let '(pre, start) :=
    if beq last_char CR then
      if beq first LF && N.ltb 0 read then (replace_newlines rep [CR; LF], 1)
      else ([CR], 0)
    else ([], 0) in
  pre ++ replace_newlines rep (dropN start (takeN endp win)).

(* The reader run to its end over a fault-free source: fill_buffer hands out
   successive windows of [w] octets; a short window ends the run.  [buf] is
   the content of in_buffer (|buf| = w).  Fuel: one call per window. *)
Definition overwrite (buf win : bytes) : bytes := win ++ dropN (lenN win) buf.

Fixpoint nr_loop (fuel : nat) (rep : bytes) (w : N) (buf : bytes) (data : bytes) : bytes :=
  match fuel with
  | O => []
  | S fuel' =>
      let last_char := last buf x00 in
      let win := takeN w data in
      let rest := dropN w data in
      let buf' := overwrite buf win in
      let out := nr_cleanup rep w last_char (hd x00 buf') win in
      if N.ltb (lenN win) w then out
      else out ++ nr_loop fuel' rep w buf' rest
  end.

Definition zeros (w : N) : bytes := repeat x00 (N.to_nat w).

Definition nr_run (rep : bytes) (w : N) (data : bytes) : bytes :=
  nr_loop (S (length data)) rep w (zeros w) data.

(* ------------------------------------------- L1: CrLfCheckReader *)

(* the scan from `pos` to the end of one read; [l] = buf[pos..len] *)
Fixpoint crlf_scan (l : bytes) : bool :=
  match l with
  | [] => true
  | a :: rest =>
      match rest with
      | [] => negb (beq a LF)
      | b :: t =>
          if beq a LF then false
          else if beq a CR && beq b LF then crlf_scan t
          else crlf_scan rest
      end
  end.

(* one read of [chunk] (non-empty): None = Err, Some f = Ok with new flag *)
Definition crlf_read (last_cr : bool) (chunk : bytes) : option bool :=
  match chunk with
  | [] => Some last_cr
  | b0 :: tl =>
      let body := if last_cr && beq b0 LF then tl else chunk in
      if crlf_scan body then Some (beq (last chunk x00) CR) else None
  end.

Fixpoint crlf_run (last_cr : bool) (chunks : list bytes) : bool :=
  match chunks with
  | [] => true
  | c :: cs => match crlf_read last_cr c with
               | Some f => crlf_run f cs
               | None => false
               end
  end.
