(* Text/CanonProofs.v -- proofs about Text/Canon.v (C14). *)
From Rpgp Require Import Base.Octets Text.Canon.
From Coq Require Import ZifyBool ZifyN ZifyNat.

(* strong induction on the length of a list *)
Lemma list_len_ind {A} (P : list A -> Prop) :
  (forall l, (forall l', (length l' < length l)%nat -> P l') -> P l) -> forall l, P l.
Proof.
  intros H l. remember (length l) as n eqn:Hn. revert l Hn.
  induction n as [n IH] using lt_wf_ind. intros l ->.
  apply H. intros l' Hl. apply (IH (length l')); [exact Hl | reflexivity].
Qed.

(* ------------------------------------------------------------ canon *)

Lemma canon_from_app p a b :
  canon_from p (a ++ b) = canon_from p a ++ canon_from (ends_cr p a) b.
Proof.
  revert p; induction a as [|x t IH]; intros p.
  - reflexivity.
  - cbn [app canon_from]. rewrite IH, <- app_assoc. do 2 f_equal.
    destruct t as [|y t']; [reflexivity|]. reflexivity.
Qed.

Lemma ends_cr_app p a b : ends_cr p (a ++ b) = ends_cr (ends_cr p a) b.
Proof.
  destruct b as [|y b'].
  - rewrite app_nil_r. reflexivity.
  - change (ends_cr (ends_cr p a) (y :: b')) with (beq (last (y :: b') x00) CR).
    rewrite <- (last_app_ne a (y :: b') x00) by discriminate.
    destruct (a ++ y :: b') eqn:E; [destruct a; discriminate|]. reflexivity.
Qed.

Lemma canon_from_notLF p l :
  (forall a t, l = a :: t -> a <> LF) -> canon_from p l = canon_from false l.
Proof.
  intros H. destruct l as [|a t]; [reflexivity|].
  cbn [canon_from]. destruct (beq_spec a LF) as [E|E]; [|reflexivity].
  exfalso. exact (H a t eq_refl E).
Qed.

Lemma canon_app a b : canon (a ++ b) = canon a ++ canon_from (ends_cr false a) b.
Proof. apply canon_from_app. Qed.

Lemma CR_neq_LF : beq CR LF = false. Proof. reflexivity. Qed.
Lemma LF_neq_CR : beq LF CR = false. Proof. reflexivity. Qed.

(* canon is the identity exactly on canonical text *)
Lemma canon_from_fix p l : is_canon_from p l = true -> canon_from p l = l.
Proof.
  revert p; induction l as [|a t IH]; intros p H; [reflexivity|].
  cbn [canon_from]. cbn [is_canon_from] in H. destruct (beq_spec a LF) as [E|E].
  - subst a. cbn [andb] in H. destruct p; cbn [negb] in H; [|discriminate].
    cbn [app]. f_equal. apply IH. exact H.
  - cbn [andb] in H. cbn [app]. f_equal. apply IH. exact H.
Qed.

Lemma canon_from_fix_conv p l : canon_from p l = l -> is_canon_from p l = true.
Proof.
  revert p; induction l as [|a t IH]; intros p H; [reflexivity|].
  cbn [canon_from] in H. cbn [is_canon_from]. destruct (beq_spec a LF) as [E|E].
  - subst a. destruct p.
    + cbn [app] in H. injection H as H1. cbn [andb negb]. apply IH. exact H1.
    + exfalso. cbn [app] in H. inversion H.
  - cbn [andb]. cbn [app] in H. injection H as H1. apply IH. exact H1.
Qed.

Lemma is_canon_from_iff p l : is_canon_from p l = true <-> canon_from p l = l.
Proof. split; [apply canon_from_fix | apply canon_from_fix_conv]. Qed.

Lemma is_canon_iff l : is_canon l = true <-> canon l = l.
Proof. apply is_canon_from_iff. Qed.

Lemma is_canon_from_app p a b :
  is_canon_from p (a ++ b) = is_canon_from p a && is_canon_from (ends_cr p a) b.
Proof.
  revert p; induction a as [|x t IH]; intros p; [reflexivity|].
  cbn [app is_canon_from]. destruct (beq x LF && negb p); [reflexivity|].
  rewrite IH. f_equal. destruct t; reflexivity.
Qed.

Lemma cf_LF_true t : canon_from true (LF :: t) = LF :: canon_from false t.
Proof. reflexivity. Qed.
Lemma cf_LF_false t : canon_from false (LF :: t) = CR :: LF :: canon_from false t.
Proof. reflexivity. Qed.
Lemma cf_CR p t : canon_from p (CR :: t) = CR :: canon_from true t.
Proof. reflexivity. Qed.
Lemma cf_other p a t : a <> LF -> canon_from p (a :: t) = a :: canon_from (beq a CR) t.
Proof. intros H. cbn [canon_from]. destruct (beq_spec a LF); [contradiction|reflexivity]. Qed.

(* canon output is canonical: idempotence *)
Lemma canon_from_idem_gen p l :
  canon_from p (canon_from p l) = canon_from p l.
Proof.
  revert p; induction l as [|a t IH]; intros p; [reflexivity|].
  destruct (beq_spec a LF) as [E|E].
  - subst a. destruct p.
    + rewrite cf_LF_true, cf_LF_true, IH. reflexivity.
    + rewrite cf_LF_false, cf_CR, cf_LF_true, IH. reflexivity.
  - rewrite (cf_other p a t E), (cf_other p a _ E), IH. reflexivity.
Qed.

Lemma canon_idem l : canon (canon l) = canon l.
Proof. apply canon_from_idem_gen. Qed.

(* ------------------------------------------------ replace_newlines *)

Lemma replace_is_canon l : replace_newlines [CR; LF] l = canon l.
Proof.
  unfold canon. induction l as [l IH] using list_len_ind.
  destruct l as [|a t]; [reflexivity|].
  cbn [replace_newlines canon_from].
  destruct (beq_spec a LF) as [E|E].
  - subst a. rewrite LF_neq_CR. cbn [app]. do 2 f_equal. apply IH. cbn; lia.
  - destruct (beq_spec a CR) as [E2|E2].
    + subst a. destruct t as [|b t'].
      * reflexivity.
      * cbn [canon_from app]. destruct (beq_spec b LF) as [E3|E3].
        -- subst b. rewrite LF_neq_CR. cbn [app]. do 2 f_equal. apply IH. cbn; lia.
        -- f_equal. rewrite IH by (cbn; lia). cbn [canon_from].
           destruct (beq_spec b LF); [contradiction|]. reflexivity.
    + cbn [app]. f_equal. apply IH. cbn; lia.
Qed.

(* ------------------------------------------------ NormalizingHasher *)

Lemma ends_cr_cons p c rest : ends_cr p (c :: rest) = ends_cr (beq c CR) rest.
Proof. destruct rest; reflexivity. Qed.

Lemma nh_loop_spec buf :
  nh_loop buf = (canon_from false buf, ends_cr false buf).
Proof.
  induction buf as [buf IH] using list_len_ind.
  destruct buf as [|c rest]; [reflexivity|].
  cbn [nh_loop].
  destruct (beq_spec c LF) as [E|E].
  - subst c. rewrite IH by (cbn; lia). rewrite cf_LF_false, ends_cr_cons, LF_neq_CR. reflexivity.
  - destruct (beq_spec c CR) as [E2|E2].
    + subst c. destruct rest as [|d rest'].
      * reflexivity.
      * destruct (beq_spec d LF) as [E3|E3].
        -- subst d. rewrite IH by (cbn; lia).
           rewrite cf_CR, cf_LF_true, !ends_cr_cons, LF_neq_CR. reflexivity.
        -- rewrite IH by (cbn; lia). rewrite cf_CR.
           rewrite (canon_from_notLF true (d :: rest')) by (intros ? ? Hx; inversion Hx; subst; exact E3).
           rewrite (ends_cr_cons false CR), !ends_cr_cons. reflexivity.
    + rewrite IH by (cbn; lia). rewrite (cf_other _ _ _ E), ends_cr_cons.
      destruct (beq_spec c CR); [contradiction|]. reflexivity.
Qed.

Lemma nh_feed_text p buf :
  nh_feed true p buf = (canon_from p buf, ends_cr p buf).
Proof.
  unfold nh_feed. destruct buf as [|b0 tl]; [reflexivity|].
  cbn [negb]. destruct p.
  - destruct (beq_spec b0 LF) as [E|E].
    + subst b0. rewrite nh_loop_spec, cf_LF_true, ends_cr_cons, LF_neq_CR. reflexivity.
    + rewrite nh_loop_spec, !ends_cr_cons.
      rewrite (canon_from_notLF true (b0 :: tl)) by (intros ? ? Hx; inversion Hx; subst; exact E).
      reflexivity.
  - apply nh_loop_spec.
Qed.

Lemma nh_feed_binary p buf : nh_feed false p buf = (buf, p).
Proof. destruct buf; reflexivity. Qed.

Lemma nh_feeds_text p chunks :
  nh_feeds true p chunks = (canon_from p (concat chunks), ends_cr p (concat chunks)).
Proof.
  revert p; induction chunks as [|c cs IH]; intros p; [reflexivity|].
  cbn [nh_feeds concat]. rewrite nh_feed_text, IH.
  rewrite canon_from_app, ends_cr_app. reflexivity.
Qed.

Lemma nh_feeds_binary p chunks :
  nh_feeds false p chunks = (concat chunks, p).
Proof.
  revert p; induction chunks as [|c cs IH]; intros p; [reflexivity|].
  cbn [nh_feeds concat]. rewrite nh_feed_binary, IH. reflexivity.
Qed.

Theorem nh_run_canon chunks : nh_run true chunks = canon (concat chunks).
Proof.
  unfold nh_run, nh_done. rewrite nh_feeds_text, app_nil_r. reflexivity.
Qed.

Theorem nh_run_binary chunks : nh_run false chunks = concat chunks.
Proof.
  unfold nh_run, nh_done. rewrite nh_feeds_binary, app_nil_r. reflexivity.
Qed.

(* the pinned-tree behaviour differs from canon exactly by a trailing LF when
   the text ends in CR *)
Theorem nh_run_legacy_spec chunks :
  nh_run_legacy true chunks =
  canon (concat chunks) ++ (if ends_cr false (concat chunks) then [LF] else []).
Proof.
  unfold nh_run_legacy, nh_done_legacy. rewrite nh_feeds_text. reflexivity.
Qed.

Theorem nh_legacy_refuted : exists chunks, nh_run_legacy true chunks <> canon (concat chunks).
Proof. exists [[CR]]. vm_compute. discriminate. Qed.

(* ------------------------------------------------ NormalizedReader *)

Lemma last_repeat_x00 n : last (repeat x00 n) x00 = x00.
Proof. induction n as [|n IH]; [reflexivity|]. cbn [repeat]. destruct n; [reflexivity|exact IH]. Qed.

Lemma hd_app_nonempty (a b : bytes) d : a <> [] -> hd d (a ++ b) = hd d a.
Proof. destruct a; [congruence|reflexivity]. Qed.

Lemma removelast_last_cr (l : bytes) :
  l <> [] -> beq (last l x00) CR = true -> l = removelast l ++ [CR].
Proof.
  intros Hne H. apply beq_true in H. rewrite <- H. apply app_removelast_last. exact Hne.
Qed.

Lemma takeN_pred_removelast (l : bytes) :
  takeN (lenN l - 1) l = removelast l.
Proof.
  rewrite takeN_firstn. unfold lenN.
  replace (N.to_nat (N.of_nat (length l) - 1)) with (length l - 1)%nat by lia.
  rewrite removelast_firstn_len. f_equal. lia.
Qed.

(* one window, characterised *)
Lemma nr_cleanup_spec w (pending full_cr : bool) lc first win :
  1 <= w -> lenN win <= w ->
  (beq lc CR = pending) ->
  (win <> [] -> first = hd x00 win) ->
  full_cr = (N.eqb (lenN win) w && beq (last win x00) CR) ->
  nr_cleanup [CR; LF] w lc first win =
  canon ((if pending then [CR] else []) ++ (if full_cr then removelast win else win)).
Proof.
  intros Hw Hlen Hlc Hfirst Hfc.
  unfold nr_cleanup. rewrite <- Hfc.
  assert (Hbody : takeN (if full_cr then lenN win - 1 else lenN win) win =
                  if full_cr then removelast win else win).
  { destruct full_cr; [apply takeN_pred_removelast | apply takeN_all; lia]. }
  rewrite Hbody. clear Hbody.
  rewrite Hlc. destruct pending.
  - (* a CR is pending from the previous window *)
    destruct win as [|a t].
    + (* read = 0 *)
      assert (full_cr = false) as Hf.
      { rewrite Hfc. unfold lenN. cbn [length].
        destruct (N.eqb_spec (N.of_nat 0) w); [lia|reflexivity]. }
      rewrite Hf.
      replace (N.ltb 0 (lenN (@nil byte))) with false by reflexivity.
      rewrite andb_false_r. reflexivity.
    + rewrite (Hfirst ltac:(discriminate)). cbn [hd].
      assert (Hpos : N.ltb 0 (lenN (a :: t)) = true) by (rewrite lenN_cons; lia).
      rewrite Hpos, andb_true_r.
      set (body := if full_cr then removelast (a :: t) else a :: t).
      assert (Hshape : body = [] \/ exists t2, body = a :: t2).
      { subst body. destruct full_cr; [|right; eexists; reflexivity].
        destruct t; [left; reflexivity | right; cbn [removelast]; eexists; reflexivity]. }
      destruct (beq_spec a LF) as [E|E].
      * subst a. destruct Hshape as [Hs|[t2 Hs]].
        -- exfalso. subst body. destruct full_cr; [|discriminate].
           destruct t; [|cbn [removelast] in Hs; discriminate].
           cbn [last] in Hfc. rewrite LF_neq_CR, andb_false_r in Hfc. discriminate.
        -- rewrite Hs. change (dropN 1 (LF :: t2)) with (dropN 0 t2). rewrite dropN_0.
           change (replace_newlines [CR; LF] [CR; LF]) with [CR; LF].
           rewrite replace_is_canon. unfold canon. cbn [app].
           rewrite cf_CR, cf_LF_true. reflexivity.
      * rewrite dropN_0, replace_is_canon. unfold canon. cbn [app]. rewrite cf_CR.
        f_equal. symmetry. apply canon_from_notLF. intros a' t' Ht.
        destruct Hshape as [Hs|[t2 Hs]]; rewrite Hs in Ht; [discriminate|].
        injection Ht as -> _. exact E.
  - rewrite dropN_0. cbn [app]. apply replace_is_canon.
Qed.

Lemma nr_loop_spec fuel w buf data :
  1 <= w -> lenN buf = w -> (length data < fuel)%nat ->
  nr_loop fuel [CR; LF] w buf data =
  canon ((if beq (last buf x00) CR then [CR] else []) ++ data).
Proof.
  intros Hw. revert buf data. induction fuel as [|fuel IH]; intros buf data Hbuf Hfuel; [lia|].
  cbn [nr_loop].
  assert (Hdata : data = takeN w data ++ dropN w data) by (symmetry; apply takeN_dropN).
  assert (Hwinlen : lenN (takeN w data) = N.min w (lenN data)) by apply lenN_takeN.
  assert (Hrest0 : lenN data <= w -> dropN w data = []) by (apply dropN_all).
  remember (takeN w data) as win eqn:Hwin. remember (dropN w data) as rest eqn:Hrestdef.
  clear Hwin Hrestdef.
  assert (Hfirst : win <> [] -> hd x00 (overwrite buf win) = hd x00 win).
  { intros Hne. unfold overwrite. apply hd_app_nonempty. exact Hne. }
  rewrite (nr_cleanup_spec w (beq (last buf x00) CR) _ (last buf x00) _ win Hw ltac:(lia) eq_refl Hfirst eq_refl).
  destruct (N.ltb_spec (lenN win) w) as [Hshort|Hfull].
  - (* short window: the source is exhausted *)
    assert (Hrest : rest = []).
    { apply Hrest0. lia. }
    assert (Hf : N.eqb (lenN win) w = false) by lia.
    rewrite Hf. cbn [andb]. rewrite Hdata, Hrest, app_nil_r. reflexivity.
  - assert (Hwl : lenN win = w) by lia.
    assert (Hne : win <> []).
    { intros ->. unfold lenN in Hwl. cbn in Hwl. lia. }
    assert (Hbuf' : overwrite buf win = win).
    { unfold overwrite. rewrite dropN_all by lia. apply app_nil_r. }
    rewrite Hbuf'.
    assert (Hrestlen : (length rest < fuel)%nat).
    { assert (lenN data = lenN win + lenN rest) by (rewrite Hdata at 1; apply lenN_app).
      unfold lenN in *. lia. }
    rewrite (IH win rest Hwl Hrestlen).
    replace (N.eqb (lenN win) w) with true by lia. cbn [andb].
    rewrite Hdata.
    destruct (beq (last win x00) CR) eqn:Hlast.
    + (* the CR in the last cell is deferred *)
      assert (Hw2 : win ++ rest = removelast win ++ CR :: rest).
      { rewrite (removelast_last_cr win Hne Hlast) at 1. rewrite <- app_assoc. reflexivity. }
      rewrite Hw2. cbn [app]. rewrite (app_assoc _ (removelast win)).
      rewrite (canon_app (_ ++ removelast win)). reflexivity.
    + cbn [app]. rewrite app_assoc.
      rewrite (canon_app (_ ++ win)). f_equal.
      assert (He : ends_cr false ((if beq (last buf x00) CR then [CR] else []) ++ win) = false).
      { rewrite ends_cr_app. destruct win as [|a t]; [congruence|].
        cbn [ends_cr]. exact Hlast. }
      rewrite He. reflexivity.
Qed.

Theorem nr_run_canon w data : 1 <= w -> nr_run [CR; LF] w data = canon data.
Proof.
  intros Hw. unfold nr_run. rewrite nr_loop_spec.
  - unfold zeros. rewrite last_repeat_x00. reflexivity.
  - exact Hw.
  - unfold zeros, lenN. rewrite repeat_length. lia.
  - lia.
Qed.

(* ------------------------------------------------ LF / CRLF forms *)

Lemma tl_CRLF t : to_lf (CR :: LF :: t) = LF :: to_lf t.
Proof. reflexivity. Qed.
Lemma tl_CR_end : to_lf [CR] = [CR].
Proof. reflexivity. Qed.
Lemma tl_CR_other b t : b <> LF -> to_lf (CR :: b :: t) = CR :: to_lf (b :: t).
Proof.
  intros H. cbn [to_lf]. rewrite beq_refl. destruct (beq_spec b LF); [contradiction|reflexivity].
Qed.
Lemma tl_other a t : a <> CR -> to_lf (a :: t) = a :: to_lf t.
Proof. intros H. cbn [to_lf]. destruct (beq_spec a CR); [contradiction|reflexivity]. Qed.

Lemma CR_ne_LF : CR <> LF. Proof. discriminate. Qed.
Lemma LF_ne_CR : LF <> CR. Proof. discriminate. Qed.

Lemma to_lf_canon l : to_lf (canon l) = to_lf l.
Proof.
  unfold canon. induction l as [l IH] using list_len_ind.
  destruct l as [|a t]; [reflexivity|].
  destruct (beq_spec a LF) as [E|E].
  - subst a. rewrite cf_LF_false, tl_CRLF, (tl_other LF) by exact LF_ne_CR.
    f_equal. apply IH. cbn; lia.
  - destruct (beq_spec a CR) as [E2|E2].
    + subst a. destruct t as [|b t'].
      * reflexivity.
      * destruct (beq_spec b LF) as [E3|E3].
        -- subst b. rewrite cf_CR, cf_LF_true, !tl_CRLF. f_equal. apply IH. cbn; lia.
        -- rewrite cf_CR.
           rewrite (canon_from_notLF true (b :: t')) by (intros ? ? Hx; inversion Hx; subst; exact E3).
           assert (IHt := IH (b :: t') ltac:(cbn; lia)).
           rewrite (cf_other false b t' E3) in *.
           rewrite (tl_CR_other b _ E3), (tl_CR_other b _ E3). f_equal. exact IHt.
    + rewrite (cf_other false a t E). destruct (beq_spec a CR); [contradiction|].
      rewrite !(tl_other a) by exact E2. f_equal. apply IH. cbn; lia.
Qed.

Lemma no_crcrlf_tail a t : no_crcrlf (a :: t) = true -> no_crcrlf t = true.
Proof.
  cbn [no_crcrlf]. destruct t as [|b [|c t'']]; try reflexivity.
  destruct (beq a CR && beq b CR && beq c LF); [discriminate|]. intros H; exact H.
Qed.

(* the canonical text of a document and of its LF form agree *)
Lemma canon_to_lf l : no_crcrlf l = true -> canon (to_lf l) = canon l.
Proof.
  unfold canon. induction l as [l IH] using list_len_ind. intros Hn.
  destruct l as [|a t]; [reflexivity|].
  destruct (beq_spec a CR) as [E|E].
  - subst a. destruct t as [|b t'].
    + reflexivity.
    + destruct (beq_spec b LF) as [E2|E2].
      * subst b. rewrite tl_CRLF, cf_LF_false, cf_CR, cf_LF_true. do 2 f_equal.
        apply IH; [cbn; lia|]. apply no_crcrlf_tail in Hn. apply no_crcrlf_tail in Hn. exact Hn.
      * rewrite (tl_CR_other b t' E2), !cf_CR. f_equal.
        assert (IHt := IH (b :: t') ltac:(cbn; lia) (no_crcrlf_tail _ _ Hn)).
        rewrite (canon_from_notLF true (b :: t')) by (intros ? ? Hx; inversion Hx; subst; exact E2).
        rewrite <- IHt. apply canon_from_notLF. intros a0 t0 Hx.
        destruct (beq_spec b CR) as [E4|E4].
        -- subst b. destruct t' as [|c t''].
           ++ cbn in Hx. injection Hx as <- _. discriminate.
           ++ destruct (beq_spec c LF) as [E5|E5].
              ** subst c. cbn in Hn. discriminate.
              ** rewrite (tl_CR_other c t'' E5) in Hx. injection Hx as <- _. discriminate.
        -- rewrite (tl_other b t' E4) in Hx. injection Hx as <- _. exact E2.
  - rewrite (tl_other a t E). destruct (beq_spec a LF) as [E2|E2].
    + subst a. rewrite !cf_LF_false. do 2 f_equal. apply IH; [cbn; lia|].
      exact (no_crcrlf_tail _ _ Hn).
    + rewrite !(cf_other false a _ E2). f_equal.
      destruct (beq_spec a CR); [contradiction|].
      apply IH; [cbn; lia|]. exact (no_crcrlf_tail _ _ Hn).
Qed.

(* the side condition is needed: "CR CR LF" and "CR LF" have the same LF form
   but are different canonical texts *)
Lemma canon_to_lf_side_condition_needed :
  exists l, canon (to_lf l) <> canon l.
Proof. exists [CR; CR; LF]. vm_compute. discriminate. Qed.

(* a text in LF form (no LF preceded by CR) is canonicalised by turning every
   LF into CR LF; so the CRLF form of an LF text has the same canonical text *)
Lemma to_crlf_canon_from p l : lf_form_from p l = true -> canon_from false l = to_crlf l.
Proof.
  revert p. induction l as [l IH] using list_len_ind. intros p Hf.
  destruct l as [|a t]; [reflexivity|].
  cbn [lf_form_from] in Hf. cbn [to_crlf].
  destruct (beq_spec a LF) as [E|E].
  - subst a. rewrite cf_LF_false. cbn [andb] in Hf. destruct p; [discriminate|].
    rewrite LF_neq_CR in Hf. do 2 f_equal. apply (IH t ltac:(cbn; lia) false Hf).
  - cbn [andb] in Hf. rewrite (cf_other false a t E). f_equal.
    destruct (beq_spec a CR) as [E2|E2].
    + (* after CR the next octet is not LF *)
      destruct t as [|b t']; [reflexivity|].
      rewrite (canon_from_notLF true (b :: t')).
      * apply (IH (b :: t') ltac:(cbn; lia) true Hf).
      * intros ? ? Hx. injection Hx as <- <-. intros ->.
        cbn [lf_form_from] in Hf. rewrite beq_refl in Hf. cbn [andb] in Hf. discriminate.
    + apply (IH t ltac:(cbn; lia) false Hf).
Qed.

Theorem canon_to_crlf l : lf_form l = true -> canon (to_crlf l) = canon l.
Proof.
  intros H. unfold lf_form in H. rewrite <- (to_crlf_canon_from false l H).
  apply canon_idem.
Qed.

(* ... and nothing else leaves it unchanged: equal canonical texts have equal
   LF forms *)
Theorem canon_eq_to_lf_eq d d' : canon d = canon d' -> to_lf d = to_lf d'.
Proof.
  intros H. rewrite <- (to_lf_canon d), <- (to_lf_canon d'), H. reflexivity.
Qed.

(* ------------------------------------------------ CrLfCheckReader *)

Lemma crlf_scan_spec l :
  crlf_scan l = true <-> canon_from false l = l.
Proof.
  induction l as [l IH] using list_len_ind.
  destruct l as [|a rest]; [split; reflexivity|].
  cbn [crlf_scan canon_from]. destruct rest as [|b t].
  - destruct (beq_spec a LF) as [E|E]; cbn [negb app canon_from].
    + subst a. split; [discriminate|]. intros H; inversion H.
    + split; reflexivity.
  - destruct (beq_spec a LF) as [E|E].
    + subst a. split; [discriminate|]. cbn [app]. intros H; inversion H.
    + cbn [app]. destruct (beq_spec a CR) as [E2|E2]; cbn [andb].
      * subst a. destruct (beq_spec b LF) as [E3|E3].
        -- subst b. rewrite (IH t) by (cbn; lia). cbn [canon_from].
           rewrite beq_refl, LF_neq_CR. cbn [app].
           split; [intros ->; reflexivity | intros H; injection H as H1; exact H1].
        -- rewrite (IH (b :: t)) by (cbn; lia).
           rewrite (canon_from_notLF true (b :: t)) by (intros ? ? Hx; inversion Hx; subst; exact E3).
           split; [intros ->; reflexivity | intros H; injection H as H1; exact H1].
      * rewrite (IH (b :: t)) by (cbn; lia).
        split; [intros ->; reflexivity | intros H; injection H as H1; exact H1].
Qed.

Lemma is_canon_from_notLF p l :
  (forall a t, l = a :: t -> a <> LF) -> is_canon_from p l = is_canon_from false l.
Proof.
  intros H. destruct l as [|a t]; [reflexivity|].
  cbn [is_canon_from]. destruct (beq_spec a LF) as [E|E]; [|reflexivity].
  exfalso. exact (H a t eq_refl E).
Qed.

Lemma crlf_scan_is_canon l : crlf_scan l = is_canon_from false l.
Proof.
  destruct (crlf_scan l) eqn:E1, (is_canon_from false l) eqn:E2; try reflexivity.
  - apply crlf_scan_spec, is_canon_from_iff in E1. congruence.
  - apply is_canon_from_iff, crlf_scan_spec in E2. congruence.
Qed.

Lemma crlf_read_spec p chunk :
  crlf_read p chunk = if is_canon_from p chunk then Some (ends_cr p chunk) else None.
Proof.
  destruct chunk as [|b0 tl]; [reflexivity|].
  unfold crlf_read. rewrite crlf_scan_is_canon.
  destruct p; cbn [andb].
  - destruct (beq_spec b0 LF) as [E|E].
    + subst b0. cbn [is_canon_from]. rewrite beq_refl, LF_neq_CR. reflexivity.
    + rewrite (is_canon_from_notLF true (b0 :: tl)) by (intros ? ? Hx; inversion Hx; subst; exact E).
      reflexivity.
  - reflexivity.
Qed.

Lemma crlf_run_spec p chunks : crlf_run p chunks = is_canon_from p (concat chunks).
Proof.
  revert p; induction chunks as [|c cs IH]; intros p; [reflexivity|].
  cbn [crlf_run concat]. rewrite crlf_read_spec, is_canon_from_app.
  destruct (is_canon_from p c); [apply IH | reflexivity].
Qed.

Theorem crlf_run_accepts_iff chunks :
  crlf_run false chunks = true <-> canon (concat chunks) = concat chunks.
Proof. rewrite crlf_run_spec. apply is_canon_iff. Qed.
