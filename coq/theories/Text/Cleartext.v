(* Text/Cleartext.v -- the cleartext signature framework (C16): dash escaping,
   its inverse with trailing-blank trimming, the signed form, and the reader's
   search for the end of the text section.

   Mirrors src/composed/cleartext.rs: dash_escape, dash_unescape_and_trim,
   signed_text, to_armored_writer (text section), read_cleartext_body. *)
From Rpgp Require Import Base.Octets Base.Res Text.Canon.

(* str::split_inclusive('\n') *)
Fixpoint lines_incl (l : bytes) : list bytes :=
  match l with
  | [] => []
  | a :: t =>
      if beq a LF then [a] :: lines_incl t
      else match lines_incl t with
           | [] => [[a]]
           | ln :: rest => (a :: ln) :: rest
           end
  end.

Definition starts_dash (l : bytes) : bool :=
  match l with a :: _ => beq a DASH | [] => false end.

Definition esc_line (l : bytes) : bytes := if starts_dash l then DASH :: SP :: l else l.

(* dash_escape *)
Definition dash_escape (t : bytes) : bytes := concat (map esc_line (lines_incl t)).

(* the same, octet by octet: [at_start] = at the start of a line *)
Fixpoint esc (at_start : bool) (l : bytes) : bytes :=
  match l with
  | [] => []
  | a :: t => (if at_start && beq a DASH then [DASH; SP; a] else [a]) ++ esc (beq a LF) t
  end.

(* line = content ++ end, end in {"", "\n", "\r\n"} *)
Definition split_eol (line : bytes) : bytes * bytes :=
  let n := lenN line in
  if (2 <=? n) && beq (last (removelast line) x00) CR && beq (last line x00) LF
  then (takeN (n - 2) line, [CR; LF])
  else if (1 <=? n) && beq (last line x00) LF then (takeN (n - 1) line, [LF])
  else (line, []).

Definition strip_dash_sp (c : bytes) : bytes :=
  match c with
  | a :: b :: t => if beq a DASH && beq b SP then t else c
  | _ => c
  end.

Definition is_blank (b : byte) : bool := beq b SP || beq b TAB.

(* trim_end_matches([' ', '\t']) *)
Fixpoint trim_end (l : bytes) : bytes :=
  match l with
  | [] => []
  | a :: t => match trim_end t with
              | [] => if is_blank a then [] else [a]
              | r => a :: r
              end
  end.

Definition ends_in_cr (l : bytes) : bool :=
  match l with [] => false | _ => beq (last l x00) CR end.
Definition is_lf (e : bytes) : bool :=
  match e with [a] => beq a LF | _ => false end.

(* a CR that ends the trimmed content is content: the "\n" behind it is written
   as "\r\n" ("fix: cleartext signed form: ..."), so that the line-ending
   normalisation that follows does not take the pair for an existing CR LF *)
Definition ut_line (line : bytes) : bytes :=
  let (content, e) := split_eol line in
  let tr := trim_end (strip_dash_sp content) in
  tr ++ (if is_lf e && ends_in_cr tr then [CR; LF] else e).

(* dash_unescape_and_trim *)
Definition unescape_trim (t : bytes) : bytes := concat (map ut_line (lines_incl t)).

(* the pinned tree: the line ending is copied as found *)
Definition ut_line_merged (line : bytes) : bytes :=
  let (content, e) := split_eol line in trim_end (strip_dash_sp content) ++ e.
Definition unescape_trim_merged (t : bytes) : bytes := concat (map ut_line_merged (lines_incl t)).

(* undoing the escaping only (octet level) *)
Fixpoint unesc (at_start : bool) (l : bytes) : bytes :=
  match l with
  | [] => []
  | a :: t =>
      if at_start && beq a DASH then
        match t with
        | b :: t' => if beq b SP then unesc false t' else a :: unesc false t
        | [] => [a]
        end
      else a :: unesc (beq a LF) t
  end.

(* trailing blanks of every line removed (RFC 9580 7.2) *)
Definition trim_line (line : bytes) : bytes :=
  let (content, e) := split_eol line in trim_end content ++ e.
Definition trim_lines (t : bytes) : bytes := concat (map trim_line (lines_incl t)).

(* signed_text() of the message built from [t]: what is hashed *)
Definition signed_form (t : bytes) : bytes := canon (unescape_trim (dash_escape t)).

Definition signed_form_merged (t : bytes) : bytes := canon (unescape_trim_merged (dash_escape t)).

(* what `new`/`sign`/`new_many` hash (after "fix: cleartext signatures hash the
   trimmed text"): signed_text() of the message under construction *)
Definition sign_input (t : bytes) : bytes := signed_form t.
(* the pinned tree hashed the untrimmed text *)
Definition sign_input_legacy (t : bytes) : bytes := canon t.

(* ------------------------------------------------ text section on the wire *)

Definition text_section (t : bytes) : bytes := dash_escape t ++ [LF].

Definition five_dashes : bytes := [DASH; DASH; DASH; DASH; DASH].

Fixpoint is_prefix (p l : bytes) : bool :=
  match p with
  | [] => true
  | a :: p' => match l with b :: l' => beq a b && is_prefix p' l' | [] => false end
  end.

(* the first line start at which "-----" begins: (text before it, rest) *)
Fixpoint find_boundary (at_start : bool) (l : bytes) : option (bytes * bytes) :=
  if at_start && is_prefix five_dashes l then Some ([], l)
  else match l with
       | [] => None
       | a :: t => match find_boundary (beq a LF) t with
                   | Some (b, r) => Some (a :: b, r)
                   | None => None
                   end
       end.

(* remove the one line break that precedes the armor header *)
Definition strip_eol (b : bytes) : bytes :=
  let n := lenN b in
  if (2 <=? n) && beq (last (removelast b) x00) CR && beq (last b x00) LF then takeN (n - 2) b
  else takeN (n - 1) b.

(* read_cleartext_body: (csf-encoded text, rest starting with the armor header) *)
Definition read_body (l : bytes) : res (bytes * bytes) :=
  match find_boundary true l with
  | None => Err
  | Some ([], r) => Ok ([], r)
  | Some (b, r) => Ok (strip_eol b, r)
  end.

Definition ends_with_cr (t : bytes) : bool :=
  match t with [] => false | _ => beq (last t x00) CR end.
