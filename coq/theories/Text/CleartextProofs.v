(* Text/CleartextProofs.v -- proofs about the cleartext framework model (C16). *)
From Rpgp Require Import Base.Octets Base.Res Text.Canon Text.CanonProofs Text.Cleartext.
From Coq Require Import ZifyBool ZifyN ZifyNat.

(* ------------------------------------------------ escaping, line by line = octet by octet *)

Lemma esc_line_single a : esc_line [a] = if beq a DASH then [DASH; SP; a] else [a].
Proof. unfold esc_line, starts_dash. destruct (beq a DASH); reflexivity. Qed.

Lemma esc_line_cons a ln : esc_line (a :: ln) = if beq a DASH then DASH :: SP :: a :: ln else a :: ln.
Proof. reflexivity. Qed.

Lemma esc_lines st t :
  esc st t = match lines_incl t with
             | [] => []
             | ln :: rest => (if st then esc_line ln else ln) ++ concat (map esc_line rest)
             end.
Proof.
  revert st; induction t as [|a t IH]; intros st; [reflexivity|].
  cbn [esc lines_incl]. destruct (beq_spec a LF) as [E|E].
  - subst a. change (beq LF DASH) with false. rewrite andb_false_r.
    rewrite (IH true). cbn [map concat].
    destruct st; destruct (lines_incl t); reflexivity.
  - rewrite (IH false). destruct (lines_incl t) as [|ln rest].
    + rewrite app_nil_r. cbn [map concat]. rewrite app_nil_r.
      destruct st; cbn [andb]; [rewrite esc_line_single|]; reflexivity.
    + cbn [map concat]. destruct st; cbn [andb].
      * rewrite esc_line_cons. destruct (beq a DASH); reflexivity.
      * reflexivity.
Qed.

Theorem dash_escape_esc t : dash_escape t = esc true t.
Proof.
  rewrite esc_lines. unfold dash_escape. destruct (lines_incl t); reflexivity.
Qed.

(* ------------------------------------------------ the text section cannot be ended early *)

Lemma find_boundary_cons st a t :
  find_boundary st (a :: t) =
  if st && is_prefix five_dashes (a :: t) then Some ([], a :: t)
  else match find_boundary (beq a LF) t with
       | Some (b, r) => Some (a :: b, r)
       | None => None
       end.
Proof. reflexivity. Qed.

Lemma find_boundary_here S : is_prefix five_dashes S = true -> find_boundary true S = Some ([], S).
Proof. intros H. destruct S as [|a t]; [discriminate|]. rewrite find_boundary_cons, H. reflexivity. Qed.

Lemma fb_esc st t S :
  is_prefix five_dashes S = true ->
  find_boundary st (esc st t ++ LF :: S) = Some (esc st t ++ [LF], S).
Proof.
  intros HS. revert st; induction t as [|a t IH]; intros st.
  - cbn [esc app]. rewrite find_boundary_cons.
    replace (st && is_prefix five_dashes (LF :: S)) with false
      by (destruct st; reflexivity).
    rewrite beq_refl, (find_boundary_here S HS). reflexivity.
  - cbn [esc]. destruct (st && beq a DASH) eqn:E.
    + apply andb_true_iff in E. destruct E as [-> Ea]. apply beq_true in Ea. subst a.
      cbn [app]. rewrite find_boundary_cons.
      replace (true && is_prefix five_dashes (DASH :: SP :: DASH :: esc (beq DASH LF) t ++ LF :: S))
        with false by reflexivity.
      rewrite find_boundary_cons. cbn [andb].
      rewrite find_boundary_cons. cbn [andb].
      change (beq DASH LF) with false. change (beq SP LF) with false.
      rewrite (IH false). reflexivity.
    + cbn [app]. rewrite find_boundary_cons.
      assert (Hc : st && is_prefix five_dashes (a :: esc (beq a LF) t ++ LF :: S) = false).
      { destruct st; [|reflexivity]. cbn [andb] in *. cbn [is_prefix five_dashes].
        rewrite beq_sym, E. reflexivity. }
      rewrite Hc, (IH (beq a LF)). reflexivity.
Qed.

Definition chop_cr (x : bytes) : bytes := if ends_with_cr x then removelast x else x.

Lemma strip_eol_text x : strip_eol (x ++ [LF]) = chop_cr x.
Proof.
  unfold strip_eol, chop_cr, ends_with_cr.
  rewrite removelast_last, last_last, beq_refl, andb_true_r, lenN_app.
  change (lenN [LF]) with 1.
  destruct x as [|a t] eqn:E.
  - reflexivity.
  - rewrite <- E. assert (Hn : 1 <= lenN x) by (subst x; rewrite lenN_cons; lia).
    destruct (N.leb_spec 2 (lenN x + 1)); [|lia]. cbn [andb].
    destruct (beq (last x x00) CR).
    + rewrite takeN_firstn. replace (N.to_nat (lenN x + 1 - 2)) with (length x - 1)%nat by (unfold lenN; lia).
      rewrite firstn_app. replace (length x - 1 - length x)%nat with 0%nat by lia.
      rewrite firstn_O, app_nil_r, removelast_firstn_len. f_equal. lia.
    + replace (lenN x + 1 - 1) with (lenN x) by lia. apply takeN_app.
Qed.

(* No text can terminate its own text section: whatever [t] is, the reader
   finds the end of the section exactly where the writer put it. *)
Theorem read_body_text_section t S :
  is_prefix five_dashes S = true ->
  read_body (text_section t ++ S) = Ok (chop_cr (dash_escape t), S).
Proof.
  intros HS. unfold read_body, text_section.
  rewrite <- app_assoc. cbn [app]. rewrite dash_escape_esc, (fb_esc true t S HS).
  destruct (esc true t ++ [LF]) as [|b0 bt] eqn:E; [destruct (esc true t); discriminate|].
  rewrite <- E, strip_eol_text. reflexivity.
Qed.

(* ------------------------------------------------ escaping is undone exactly *)

Lemma unesc_esc st t : unesc st (esc st t) = t.
Proof.
  revert st; induction t as [|a t IH]; intros st; [reflexivity|].
  cbn [esc]. destruct (st && beq a DASH) eqn:E.
  - apply andb_true_iff in E. destruct E as [-> Ea]. apply beq_true in Ea. subst a.
    cbn [app unesc]. change (true && beq DASH DASH) with true. cbn match.
    change (beq SP SP) with true. cbn match.
    change (false && beq DASH DASH) with false. cbn match.
    change (beq DASH LF) with false. rewrite (IH false). reflexivity.
  - cbn [app unesc]. rewrite E. rewrite IH. reflexivity.
Qed.

Theorem unescape_dash_escape t : unesc true (dash_escape t) = t.
Proof. rewrite dash_escape_esc. apply unesc_esc. Qed.

Lemma esc_nonempty st a t : esc st (a :: t) <> [].
Proof. cbn [esc]. destruct (st && beq a DASH); discriminate. Qed.

Lemma last_esc st t : t <> [] -> last (esc st t) x00 = last t x00.
Proof.
  revert st; induction t as [|a t IH]; intros st H; [congruence|].
  cbn [esc]. destruct t as [|b t'].
  - cbn [esc]. rewrite app_nil_r. destruct (st && beq a DASH); reflexivity.
  - rewrite last_app_ne by apply esc_nonempty. rewrite IH by discriminate. reflexivity.
Qed.

Lemma ends_with_cr_esc st t : ends_with_cr (esc st t) = ends_with_cr t.
Proof.
  destruct t as [|a t]; [reflexivity|].
  unfold ends_with_cr. destruct (esc st (a :: t)) eqn:E; [exfalso; exact (esc_nonempty st a t E)|].
  rewrite <- E, last_esc by discriminate. reflexivity.
Qed.

(* the text survives the write / read cycle, unless it ends in a lone CR *)
Theorem text_survives t S :
  is_prefix five_dashes S = true -> ends_with_cr t = false ->
  read_body (text_section t ++ S) = Ok (dash_escape t, S) /\ unesc true (dash_escape t) = t.
Proof.
  intros HS Hcr. split; [|apply unescape_dash_escape].
  rewrite (read_body_text_section t S HS). unfold chop_cr.
  rewrite dash_escape_esc, ends_with_cr_esc, Hcr. reflexivity.
Qed.

(* the excluded class is real: "text ++ LF" cannot tell a final lone CR from a
   CR LF line end *)
Theorem lone_cr_witness :
  exists t S, is_prefix five_dashes S = true /\
              read_body (text_section t ++ S) = Ok (removelast (dash_escape t), S) /\
              removelast (dash_escape t) <> dash_escape t.
Proof.
  exists [x66; x6f; x6f; CR], five_dashes. repeat split; try reflexivity. discriminate.
Qed.

(* the pinned tree signed the untrimmed text but verified the trimmed text *)
Theorem sign_verify_legacy_refuted : exists t, sign_input_legacy t <> signed_form t.
Proof. exists [x66; SP; LF]. vm_compute. discriminate. Qed.

(* ------------------------------------------------ LF <-> CR LF conversion of a line *)

Lemma split_eol_lf c : ends_in_cr c = false -> split_eol (c ++ [LF]) = (c, [LF]).
Proof.
  intros Hc. unfold split_eol.
  rewrite removelast_last, last_last, lenN_app.
  change (lenN [LF]) with 1.
  assert (H1 : (2 <=? lenN c + 1) && beq (last c x00) CR = false).
  { destruct c as [|a c']; [reflexivity|]. unfold ends_in_cr in Hc. rewrite Hc. apply andb_false_r. }
  rewrite H1. cbn [andb].
  replace (1 <=? lenN c + 1) with true by (symmetry; apply N.leb_le; lia).
  rewrite beq_refl. cbn [andb].
  replace (lenN c + 1 - 1) with (lenN c) by lia. rewrite takeN_app. reflexivity.
Qed.

Lemma split_eol_crlf c : split_eol (c ++ [CR; LF]) = (c, [CR; LF]).
Proof.
  unfold split_eol.
  change (c ++ [CR; LF]) with (c ++ [CR] ++ [LF]). rewrite app_assoc.
  rewrite removelast_last, !last_last, lenN_app, lenN_app.
  change (lenN [LF]) with 1. change (lenN [CR]) with 1.
  replace (2 <=? lenN c + 1 + 1) with true by (symmetry; apply N.leb_le; lia).
  rewrite !beq_refl. cbn [andb].
  replace (lenN c + 1 + 1 - 2) with (lenN c) by lia.
  rewrite <- app_assoc. rewrite takeN_app. reflexivity.
Qed.

Lemma ends_cr_false_of l : ends_in_cr l = false -> ends_cr false l = false.
Proof. destruct l; [reflexivity|]. unfold ends_in_cr, ends_cr. intros ->. reflexivity. Qed.

(* a line that ends in LF and the same line ending in CR LF have the same signed form;
   [c] is any line content (the theorem needs no assumption on it) *)
Theorem ut_line_lf_crlf c :
  ends_in_cr c = false -> canon (ut_line (c ++ [LF])) = canon (ut_line (c ++ [CR; LF])).
Proof.
  intros Hc. unfold ut_line. rewrite (split_eol_lf c Hc), split_eol_crlf.
  set (tr := trim_end (strip_dash_sp c)). cbn [is_lf]. rewrite beq_refl. cbn [andb].
  replace (beq CR LF) with false by reflexivity. cbn [andb].
  destruct (ends_in_cr tr) eqn:Et; [reflexivity|].
  rewrite !canon_app, (ends_cr_false_of tr Et). reflexivity.
Qed.

(* the pinned tree merged a content CR with the LF behind it *)
Theorem ut_line_merged_refuted :
  exists c, ends_in_cr c = false /\
    canon (ut_line_merged (c ++ [LF])) <> canon (ut_line_merged (c ++ [CR; LF])).
Proof. exists [x61; CR; SP]. split; [reflexivity|]. vm_compute. discriminate. Qed.

Theorem signed_form_merged_refuted :
  exists t, signed_form_merged (canon t) <> signed_form_merged t.
Proof. exists [x61; CR; SP; LF]. vm_compute. discriminate. Qed.
