(* Text/CleartextProofs.v -- proofs about the cleartext framework model (C16). *)
From Rpgp Require Import Base.Octets Base.Res Text.Canon Text.CanonProofs Text.Cleartext.
From Coq Require Import ZifyBool ZifyN ZifyNat.

(* ------------------------------------------------ escaping, line by line = octet by octet *)

Lemma esc_line_single a : esc_line [a] = if beq a DASH then [DASH; SP; a] else [a].
Proof. unfold esc_line, starts_dash. destruct (beq a DASH); reflexivity. Qed.

Lemma esc_line_cons a ln : esc_line (a :: ln) = if beq a DASH then DASH :: SP :: a :: ln else a :: ln.
Proof. reflexivity. Qed.

Lemma esc_lines st t :
  esc st t = match lines_incl t with
             | [] => []
             | ln :: rest => (if st then esc_line ln else ln) ++ concat (map esc_line rest)
             end.
Proof.
  revert st; induction t as [|a t IH]; intros st; [reflexivity|].
  cbn [esc lines_incl]. destruct (beq_spec a LF) as [E|E].
  - subst a. change (beq LF DASH) with false. rewrite andb_false_r.
    rewrite (IH true). cbn [map concat].
    destruct st; destruct (lines_incl t); reflexivity.
  - rewrite (IH false). destruct (lines_incl t) as [|ln rest].
    + rewrite app_nil_r. cbn [map concat]. rewrite app_nil_r.
      destruct st; cbn [andb]; [rewrite esc_line_single|]; reflexivity.
    + cbn [map concat]. destruct st; cbn [andb].
      * rewrite esc_line_cons. destruct (beq a DASH); reflexivity.
      * reflexivity.
Qed.

Theorem dash_escape_esc t : dash_escape t = esc true t.
Proof.
  rewrite esc_lines. unfold dash_escape. destruct (lines_incl t); reflexivity.
Qed.

(* ------------------------------------------------ the text section cannot be ended early *)

Lemma find_boundary_cons st a t :
  find_boundary st (a :: t) =
  if st && is_prefix five_dashes (a :: t) then Some ([], a :: t)
  else match find_boundary (beq a LF) t with
       | Some (b, r) => Some (a :: b, r)
       | None => None
       end.
Proof. reflexivity. Qed.

Lemma find_boundary_here S : is_prefix five_dashes S = true -> find_boundary true S = Some ([], S).
Proof. intros H. destruct S as [|a t]; [discriminate|]. rewrite find_boundary_cons, H. reflexivity. Qed.

Lemma fb_esc st t S :
  is_prefix five_dashes S = true ->
  find_boundary st (esc st t ++ LF :: S) = Some (esc st t ++ [LF], S).
Proof.
  intros HS. revert st; induction t as [|a t IH]; intros st.
  - cbn [esc app]. rewrite find_boundary_cons.
    replace (st && is_prefix five_dashes (LF :: S)) with false
      by (destruct st; reflexivity).
    rewrite beq_refl, (find_boundary_here S HS). reflexivity.
  - cbn [esc]. destruct (st && beq a DASH) eqn:E.
    + apply andb_true_iff in E. destruct E as [-> Ea]. apply beq_true in Ea. subst a.
      cbn [app]. rewrite find_boundary_cons.
      replace (true && is_prefix five_dashes (DASH :: SP :: DASH :: esc (beq DASH LF) t ++ LF :: S))
        with false by reflexivity.
      rewrite find_boundary_cons. cbn [andb].
      rewrite find_boundary_cons. cbn [andb].
      change (beq DASH LF) with false. change (beq SP LF) with false.
      rewrite (IH false). reflexivity.
    + cbn [app]. rewrite find_boundary_cons.
      assert (Hc : st && is_prefix five_dashes (a :: esc (beq a LF) t ++ LF :: S) = false).
      { destruct st; [|reflexivity]. cbn [andb] in *. cbn [is_prefix five_dashes].
        rewrite beq_sym, E. reflexivity. }
      rewrite Hc, (IH (beq a LF)). reflexivity.
Qed.

Definition chop_cr (x : bytes) : bytes := if ends_with_cr x then removelast x else x.

Lemma strip_eol_text x : strip_eol (x ++ [LF]) = chop_cr x.
Proof.
  unfold strip_eol, chop_cr, ends_with_cr.
  rewrite removelast_last, last_last, beq_refl, andb_true_r, lenN_app.
  change (lenN [LF]) with 1.
  destruct x as [|a t] eqn:E.
  - reflexivity.
  - rewrite <- E. assert (Hn : 1 <= lenN x) by (subst x; rewrite lenN_cons; lia).
    destruct (N.leb_spec 2 (lenN x + 1)); [|lia]. cbn [andb].
    destruct (beq (last x x00) CR).
    + rewrite takeN_firstn. replace (N.to_nat (lenN x + 1 - 2)) with (length x - 1)%nat by (unfold lenN; lia).
      rewrite firstn_app. replace (length x - 1 - length x)%nat with 0%nat by lia.
      rewrite firstn_O, app_nil_r, removelast_firstn_len. f_equal. lia.
    + replace (lenN x + 1 - 1) with (lenN x) by lia. apply takeN_app.
Qed.

(* No text can terminate its own text section: whatever [t] is, the reader
   finds the end of the section exactly where the writer put it. *)
Theorem read_body_text_section t S :
  is_prefix five_dashes S = true ->
  read_body (text_section t ++ S) = Ok (chop_cr (dash_escape t), S).
Proof.
  intros HS. unfold read_body, text_section.
  rewrite <- app_assoc. cbn [app]. rewrite dash_escape_esc, (fb_esc true t S HS).
  destruct (esc true t ++ [LF]) as [|b0 bt] eqn:E; [destruct (esc true t); discriminate|].
  rewrite <- E, strip_eol_text. reflexivity.
Qed.

(* ------------------------------------------------ escaping is undone exactly *)

Lemma unesc_esc st t : unesc st (esc st t) = t.
Proof.
  revert st; induction t as [|a t IH]; intros st; [reflexivity|].
  cbn [esc]. destruct (st && beq a DASH) eqn:E.
  - apply andb_true_iff in E. destruct E as [-> Ea]. apply beq_true in Ea. subst a.
    cbn [app unesc]. change (true && beq DASH DASH) with true. cbn match.
    change (beq SP SP) with true. cbn match.
    change (false && beq DASH DASH) with false. cbn match.
    change (beq DASH LF) with false. rewrite (IH false). reflexivity.
  - cbn [app unesc]. rewrite E. rewrite IH. reflexivity.
Qed.

Theorem unescape_dash_escape t : unesc true (dash_escape t) = t.
Proof. rewrite dash_escape_esc. apply unesc_esc. Qed.

Lemma esc_nonempty st a t : esc st (a :: t) <> [].
Proof. cbn [esc]. destruct (st && beq a DASH); discriminate. Qed.

Lemma last_esc st t : t <> [] -> last (esc st t) x00 = last t x00.
Proof.
  revert st; induction t as [|a t IH]; intros st H; [congruence|].
  cbn [esc]. destruct t as [|b t'].
  - cbn [esc]. rewrite app_nil_r. destruct (st && beq a DASH); reflexivity.
  - rewrite last_app_ne by apply esc_nonempty. rewrite IH by discriminate. reflexivity.
Qed.

Lemma ends_with_cr_esc st t : ends_with_cr (esc st t) = ends_with_cr t.
Proof.
  destruct t as [|a t]; [reflexivity|].
  unfold ends_with_cr. destruct (esc st (a :: t)) eqn:E; [exfalso; exact (esc_nonempty st a t E)|].
  rewrite <- E, last_esc by discriminate. reflexivity.
Qed.

(* the text survives the write / read cycle, unless it ends in a lone CR *)
Theorem text_survives t S :
  is_prefix five_dashes S = true -> ends_with_cr t = false ->
  read_body (text_section t ++ S) = Ok (dash_escape t, S) /\ unesc true (dash_escape t) = t.
Proof.
  intros HS Hcr. split; [|apply unescape_dash_escape].
  rewrite (read_body_text_section t S HS). unfold chop_cr.
  rewrite dash_escape_esc, ends_with_cr_esc, Hcr. reflexivity.
Qed.

(* the excluded class is real: "text ++ LF" cannot tell a final lone CR from a
   CR LF line end *)
Theorem lone_cr_witness :
  exists t S, is_prefix five_dashes S = true /\
              read_body (text_section t ++ S) = Ok (removelast (dash_escape t), S) /\
              removelast (dash_escape t) <> dash_escape t.
Proof.
  exists [x66; x6f; x6f; CR], five_dashes. repeat split; try reflexivity. discriminate.
Qed.

(* the pinned tree signed the untrimmed text but verified the trimmed text *)
Theorem sign_verify_legacy_refuted : exists t, sign_input_legacy t <> signed_form t.
Proof. exists [x66; SP; LF]. vm_compute. discriminate. Qed.

(* ------------------------------------------------ LF <-> CR LF conversion of a line *)

Lemma split_eol_lf c : ends_in_cr c = false -> split_eol (c ++ [LF]) = (c, [LF]).
Proof.
  intros Hc. unfold split_eol.
  rewrite removelast_last, last_last, lenN_app.
  change (lenN [LF]) with 1.
  assert (H1 : (2 <=? lenN c + 1) && beq (last c x00) CR = false).
  { destruct c as [|a c']; [reflexivity|]. unfold ends_in_cr in Hc. rewrite Hc. apply andb_false_r. }
  rewrite H1. cbn [andb].
  replace (1 <=? lenN c + 1) with true by (symmetry; apply N.leb_le; lia).
  rewrite beq_refl. cbn [andb].
  replace (lenN c + 1 - 1) with (lenN c) by lia. rewrite takeN_app. reflexivity.
Qed.

Lemma split_eol_crlf c : split_eol (c ++ [CR; LF]) = (c, [CR; LF]).
Proof.
  unfold split_eol.
  change (c ++ [CR; LF]) with (c ++ [CR] ++ [LF]). rewrite app_assoc.
  rewrite removelast_last, !last_last, lenN_app, lenN_app.
  change (lenN [LF]) with 1. change (lenN [CR]) with 1.
  replace (2 <=? lenN c + 1 + 1) with true by (symmetry; apply N.leb_le; lia).
  rewrite !beq_refl. cbn [andb].
  replace (lenN c + 1 + 1 - 2) with (lenN c) by lia.
  rewrite <- app_assoc. rewrite takeN_app. reflexivity.
Qed.

Lemma ends_cr_false_of l : ends_in_cr l = false -> ends_cr false l = false.
Proof. destruct l; [reflexivity|]. unfold ends_in_cr, ends_cr. intros ->. reflexivity. Qed.

(* a line that ends in LF and the same line ending in CR LF have the same signed form;
   [c] is any line content (the theorem needs no assumption on it) *)
Theorem ut_line_lf_crlf c :
  ends_in_cr c = false -> canon (ut_line (c ++ [LF])) = canon (ut_line (c ++ [CR; LF])).
Proof.
  intros Hc. unfold ut_line. rewrite (split_eol_lf c Hc), split_eol_crlf.
  set (tr := trim_end (strip_dash_sp c)). cbn [is_lf]. rewrite beq_refl. cbn [andb].
  replace (beq CR LF) with false by reflexivity. cbn [andb].
  destruct (ends_in_cr tr) eqn:Et; [reflexivity|].
  rewrite !canon_app, (ends_cr_false_of tr Et). reflexivity.
Qed.

(* the pinned tree merged a content CR with the LF behind it *)
Theorem ut_line_merged_refuted :
  exists c, ends_in_cr c = false /\
    canon (ut_line_merged (c ++ [LF])) <> canon (ut_line_merged (c ++ [CR; LF])).
Proof. exists [x61; CR; SP]. split; [reflexivity|]. vm_compute. discriminate. Qed.

Theorem signed_form_merged_refuted :
  exists t, signed_form_merged (canon t) <> signed_form_merged t.
Proof. exists [x61; CR; SP; LF]. vm_compute. discriminate. Qed.

(* ------------------------------------------------ LF <-> CR LF conversion of a whole text *)

Definition lf_free (x : bytes) : bool := forallb (fun b => negb (beq b LF)) x.

Lemma lines_incl_line x y : lf_free x = true -> lines_incl (x ++ LF :: y) = (x ++ [LF]) :: lines_incl y.
Proof.
  induction x as [|a x IH]; intros Hx.
  - cbn [app lines_incl]. rewrite beq_refl. reflexivity.
  - cbn [lf_free forallb] in Hx. apply andb_prop in Hx. destruct Hx as [Ha Hx].
    cbn [app lines_incl]. destruct (beq a LF); [discriminate|]. rewrite (IH Hx). reflexivity.
Qed.

Lemma lines_incl_lf_free x : lf_free x = true -> lines_incl x = match x with [] => [] | _ => [x] end.
Proof.
  induction x as [|a x IH]; intros Hx; [reflexivity|].
  cbn [lf_free forallb] in Hx. apply andb_prop in Hx. destruct Hx as [Ha Hx].
  cbn [lines_incl]. destruct (beq a LF); [discriminate|]. rewrite (IH Hx). destruct x; reflexivity.
Qed.

(* a text is LF-free, or a first line and the rest *)
Lemma text_split t : lf_free t = true \/ exists c t', t = c ++ LF :: t' /\ lf_free c = true.
Proof.
  induction t as [|a t IH]; [left; reflexivity|].
  destruct (beq_spec a LF) as [->|Ha].
  - right. exists [], t. split; reflexivity.
  - destruct IH as [Hf|(c & t' & -> & Hc)].
    + left. cbn [lf_free forallb]. apply beq_false in Ha. rewrite Ha. exact Hf.
    + right. exists (a :: c), t'. split; [reflexivity|]. cbn [lf_free forallb]. apply beq_false in Ha. rewrite Ha. exact Hc.
Qed.

Lemma canon_from_lf_free p x : lf_free x = true -> canon_from p x = x.
Proof.
  revert p; induction x as [|a x IH]; intros p Hx; [reflexivity|].
  cbn [lf_free forallb] in Hx. apply andb_prop in Hx. destruct Hx as [Ha Hx].
  cbn [canon_from]. destruct (beq a LF); [discriminate|]. cbn [app]. rewrite (IH _ Hx). reflexivity.
Qed.

(* the converted first line: content, CR unless one is there already, LF *)
Definition with_cr (c : bytes) : bytes := if ends_in_cr c then c else c ++ [CR].

Lemma ends_cr_ends_in_cr c : ends_cr false c = ends_in_cr c.
Proof. destruct c; reflexivity. Qed.

Lemma canon_first_line c t' :
  lf_free c = true -> canon (c ++ LF :: t') = with_cr c ++ LF :: canon t'.
Proof.
  intros Hc. rewrite canon_app. unfold canon at 1. rewrite (canon_from_lf_free false c Hc).
  cbn [canon_from]. rewrite beq_refl. rewrite ends_cr_ends_in_cr. unfold with_cr.
  replace (beq LF CR) with false by reflexivity. fold (canon t').
  destruct (ends_in_cr c); [reflexivity|]. rewrite <- app_assoc. reflexivity.
Qed.

Lemma with_cr_lf_free c : lf_free c = true -> lf_free (with_cr c) = true.
Proof.
  intros Hc. unfold with_cr. destruct (ends_in_cr c); [exact Hc|].
  unfold lf_free. rewrite forallb_app. fold (lf_free c). rewrite Hc. reflexivity.
Qed.

(* dash escaping and trimming go line by line *)
Definition pre_of (x : bytes) : bytes := if starts_dash x then [DASH; SP] else [].

Lemma esc_line_first x s : (x = [] -> starts_dash s = false) -> esc_line (x ++ s) = pre_of x ++ x ++ s.
Proof.
  intros Hs. unfold esc_line, pre_of. destruct x as [|a x]; cbn [app starts_dash].
  - rewrite (Hs eq_refl). reflexivity.
  - destruct (beq a DASH); reflexivity.
Qed.

Lemma dash_escape_first x y : lf_free x = true ->
  dash_escape (x ++ LF :: y) = (pre_of x ++ x) ++ LF :: dash_escape y.
Proof.
  intros Hx. unfold dash_escape. rewrite (lines_incl_line x y Hx). cbn [map concat].
  rewrite (esc_line_first x [LF]) by (intros _; reflexivity). rewrite <- !app_assoc. reflexivity.
Qed.

Lemma pre_lf_free x : lf_free x = true -> lf_free (pre_of x ++ x) = true.
Proof. intros Hx. unfold pre_of. destruct (starts_dash x); [cbn; exact Hx|exact Hx]. Qed.

Lemma unescape_trim_first w z : lf_free w = true ->
  unescape_trim (w ++ LF :: z) = ut_line (w ++ [LF]) ++ unescape_trim z.
Proof. intros Hw. unfold unescape_trim. rewrite (lines_incl_line w z Hw). reflexivity. Qed.

Lemma ends_in_cr_last w0 b : ends_in_cr (w0 ++ [b]) = beq b CR.
Proof.
  unfold ends_in_cr. destruct (w0 ++ [b]) eqn:E; [destruct w0; discriminate|]. rewrite <- E, last_last. reflexivity.
Qed.

Lemma ends_in_cr_snoc w : ends_in_cr w = true -> exists w0, w = w0 ++ [CR].
Proof.
  intros H. destruct w as [|a w']; [discriminate|].
  assert (Hne : a :: w' <> []) by discriminate.
  destruct (exists_last Hne) as (w0 & b & E). exists w0. rewrite E in H.
  rewrite ends_in_cr_last in H. apply beq_true in H. subst b. exact E.
Qed.

(* whatever the line, the trimmed line ends in LF: the canonicaliser's state is reset behind it *)
Lemma ut_line_ends_lf w : exists u, ut_line (w ++ [LF]) = u ++ [LF].
Proof.
  unfold ut_line. destruct (ends_in_cr w) eqn:Ew.
  - destruct (ends_in_cr_snoc w Ew) as (w0 & ->). rewrite <- app_assoc. cbn [app].
    rewrite split_eol_crlf. cbn [is_lf andb]. replace (beq CR LF) with false by reflexivity.
    exists (trim_end (strip_dash_sp w0) ++ [CR]). rewrite <- app_assoc. reflexivity.
  - rewrite (split_eol_lf w Ew). cbn [is_lf]. rewrite beq_refl. cbn [andb].
    destruct (ends_in_cr (trim_end (strip_dash_sp w))).
    + exists (trim_end (strip_dash_sp w) ++ [CR]). rewrite <- app_assoc. reflexivity.
    + eexists. reflexivity.
Qed.

Lemma canon_behind_line u z : canon ((u ++ [LF]) ++ z) = canon (u ++ [LF]) ++ canon z.
Proof.
  rewrite canon_app. f_equal. unfold ends_cr. destruct (u ++ [LF]) eqn:E; [destruct u; discriminate|].
  rewrite <- E, last_last. reflexivity.
Qed.

Lemma signed_form_first c t' : lf_free c = true ->
  signed_form (c ++ LF :: t') = canon (ut_line ((pre_of c ++ c) ++ [LF])) ++ signed_form t'.
Proof.
  intros Hc. unfold signed_form. rewrite (dash_escape_first c t' Hc).
  rewrite (unescape_trim_first _ _ (pre_lf_free c Hc)).
  destruct (ut_line_ends_lf (pre_of c ++ c)) as (u & Hu). rewrite Hu. apply canon_behind_line.
Qed.

Lemma pre_with_cr c : pre_of (with_cr c) = pre_of c.
Proof.
  unfold with_cr, pre_of. destruct (ends_in_cr c) eqn:E; [reflexivity|].
  destruct c; [reflexivity|]. reflexivity.
Qed.

Lemma ends_in_cr_pre c : ends_in_cr (pre_of c ++ c) = ends_in_cr c.
Proof.
  unfold pre_of. destruct (starts_dash c) eqn:Es; [|reflexivity].
  destruct c as [|a c']; [discriminate|]. cbn [app]. unfold ends_in_cr.
  change (DASH :: SP :: a :: c') with ([DASH; SP] ++ (a :: c')). rewrite last_app_ne by discriminate. reflexivity.
Qed.

(* converting a document between LF and CR LF line endings does not change what is signed *)
Theorem signed_form_crlf_invariant t : signed_form (canon t) = signed_form t.
Proof.
  remember (length t) as n eqn:Hn. revert t Hn.
  induction n as [n IH] using lt_wf_ind. intros t Hn.
  destruct (text_split t) as [Hf|(c & t' & -> & Hc)].
  - unfold canon. rewrite (canon_from_lf_free false t Hf). reflexivity.
  - rewrite (canon_first_line c t' Hc).
    rewrite (signed_form_first (with_cr c) (canon t') (with_cr_lf_free c Hc)).
    rewrite (signed_form_first c t' Hc).
    rewrite (IH (length t')) by (try reflexivity; subst n; rewrite app_length; cbn [length]; lia).
    f_equal. rewrite pre_with_cr. unfold with_cr.
    destruct (ends_in_cr c) eqn:Ec; [reflexivity|].
    rewrite app_assoc, <- (app_assoc (pre_of c ++ c) [CR] [LF]). cbn [app].
    symmetry. apply ut_line_lf_crlf. rewrite ends_in_cr_pre. exact Ec.
Qed.
