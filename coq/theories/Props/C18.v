(* C18: recipients. *)
From Coq Require Import List NArith Lia Bool.
From Rpgp Require Import Rules.Recipients Rules.RecipientsProofs.
Import ListNotations.
Open Scope N_scope.

Theorem C18_nothing_opens_missing : forall ps ss keys pws explicit,
  all_found ps ss keys pws explicit = [] -> decide false ps ss keys pws explicit = Missing.
Proof. exact nothing_opens_missing. Qed.
Print Assumptions C18_nothing_opens_missing.

Theorem C18_all_agree_found : forall ps ss keys pws explicit K,
  all_found ps ss keys pws explicit <> [] ->
  (forall k, In k (all_found ps ss keys pws explicit) -> k = K) ->
  decide false ps ss keys pws explicit = Found K.
Proof. exact all_agree_found. Qed.
Print Assumptions C18_all_agree_found.

Theorem C18_disagreement_is_conflict : forall ps ss keys pws explicit k1 k2,
  In k1 (all_found ps ss keys pws explicit) -> In k2 (all_found ps ss keys pws explicit) -> k1 <> k2 ->
  decide false ps ss keys pws explicit = Conflict.
Proof. exact disagreement_is_conflict. Qed.
Print Assumptions C18_disagreement_is_conflict.

Theorem C18_found_is_sound : forall ps ss keys pws explicit b K,
  decide b ps ss keys pws explicit = Found K -> In K (all_found ps ss keys pws explicit).
Proof. exact found_is_sound. Qed.
Print Assumptions C18_found_is_sound.

Theorem C18_unrelated_key_ignored : forall ps keys j,
  (forall e, In e ps -> lookup j (p_open e) = None) -> found_pk ps (keys ++ [j]) = found_pk ps keys.
Proof. exact unrelated_key_ignored. Qed.
Print Assumptions C18_unrelated_key_ignored.

(* anonymous recipients: every presented key is tried, wherever it stands among the keys (and subkeys) presented;
   named recipients: the named key is tried, and only it *)
Theorem C18_wildcard_tries_every_key : forall (es : list pkesk) (ks : list N) e j k,
  In e es -> p_id e = None -> In j ks -> lookup j (p_open e) = Some k -> In k (found_pk es ks).
Proof. exact wildcard_tries_every_key. Qed.
Print Assumptions C18_wildcard_tries_every_key.

Theorem C18_named_key_is_tried : forall (es : list pkesk) (ks : list N) e i k,
  In e es -> p_id e = Some i -> In i ks -> lookup i (p_open e) = Some k -> In k (found_pk es ks).
Proof. exact named_key_is_tried. Qed.
Print Assumptions C18_named_key_is_tried.

Theorem C18_named_packet_only_named_key : forall (ks : list N) e i k,
  p_id e = Some i -> In k (found_pk [e] ks) -> In i ks /\ lookup i (p_open e) = Some k.
Proof. exact named_packet_only_named_key. Qed.
Print Assumptions C18_named_packet_only_named_key.
