(* C19: work and memory are bounded by the input actually supplied. *)
From Coq Require Import List NArith Lia Bool.
From Rpgp Require Import Base.Octets Kdf.Kdf Cost.Cost Cost.CostProofs.
Import ListNotations.
Open Scope N_scope.

Theorem C19_take_bytes_bounded : forall size chunks,
  let '(l, c) := take_bytes size chunks in
  c <= N.max 1024 (2 * sumN chunks) /\ l <= sumN chunks /\ l <= size.
Proof. exact take_bytes_bounded. Qed.
Print Assumptions C19_take_bytes_bounded.

Theorem C19_subpacket_vec_bounded : forall len, subpacket_vec_cap len <= 32.
Proof. exact subpacket_vec_bounded. Qed.
Print Assumptions C19_subpacket_vec_bounded.

Theorem C19_mpi_bounded : forall bits, mpi_allowed bits = true -> mpi_octets bits <= 2048.
Proof. exact mpi_bounded. Qed.
Print Assumptions C19_mpi_bounded.

Theorem C19_aead_buffer_bounded : forall cs, chunk_allowed cs = true -> aead_buffer cs <= 8388640.
Proof. exact aead_buffer_bounded. Qed.
Print Assumptions C19_aead_buffer_bounded.

Theorem C19_argon2_gate_bounds : forall t p m, argon2_allowed t p m = true ->
  t <= 32 /\ p <= 32 /\ 2 ^ m <= 2097152 /\ t * 2 ^ m <= 67108864.
Proof. exact argon2_gate_bounds. Qed.
Print Assumptions C19_argon2_gate_bounds.

Theorem C19_iterated_count_bounded : forall c, c < 256 -> decode_count c <= 65011712.
Proof. exact iterated_count_bounded. Qed.
Print Assumptions C19_iterated_count_bounded.
