(* C19: work and memory are bounded by the input actually supplied. *)
From Coq Require Import List NArith Lia Bool.
From Rpgp Require Import Base.Octets Kdf.Kdf Cost.Cost Cost.CostProofs.
From Rpgp Require Import Io.Reassemble Io.ReassembleProofs.
From Rpgp Require Import Base.Res Sym.Cfb Sym.Seipd1Machine Sym.Seipd1MachineProofs Aead.Seipd2 Aead.Seipd2Machine Aead.Seipd2MachineProofs Frame.Framing Frame.BodyReader Frame.BodyReaderProofs.
Import ListNotations.
Open Scope N_scope.

Theorem C19_take_bytes_bounded : forall size chunks,
  let '(l, c) := take_bytes size chunks in
  c <= N.max 1024 (2 * sumN chunks) /\ l <= sumN chunks /\ l <= size.
Proof. exact take_bytes_bounded. Qed.
Print Assumptions C19_take_bytes_bounded.

Theorem C19_subpacket_vec_bounded : forall len, subpacket_vec_cap len <= 32.
Proof. exact subpacket_vec_bounded. Qed.
Print Assumptions C19_subpacket_vec_bounded.

Theorem C19_mpi_bounded : forall bits, mpi_allowed bits = true -> mpi_octets bits <= 2048.
Proof. exact mpi_bounded. Qed.
Print Assumptions C19_mpi_bounded.

Theorem C19_aead_buffer_bounded : forall cs, chunk_allowed cs = true -> aead_buffer cs <= 8388640.
Proof. exact aead_buffer_bounded. Qed.
Print Assumptions C19_aead_buffer_bounded.

Theorem C19_argon2_gate_bounds : forall t p m, argon2_allowed t p m = true ->
  t <= 32 /\ p <= 32 /\ 2 ^ m <= 2097152 /\ t * 2 ^ m <= 67108864.
Proof. exact argon2_gate_bounds. Qed.
Print Assumptions C19_argon2_gate_bounds.

Theorem C19_iterated_count_bounded : forall c, c < 256 -> decode_count c <= 65011712.
Proof. exact iterated_count_bounded. Qed.
Print Assumptions C19_iterated_count_bounded.

(* the streaming readers hold a bounded amount however long the stream is and whatever the consumer asks for:
   invariants of the state machines of C03 / C17 (preserved by every read) *)
Theorem C19_v1_stream_decryptor_buffer_bounded :
  forall E bs sha1, 1 <= bs -> (forall x, lenN (E x) = bs) ->
    forall n s, lenN (Seipd1Machine.buf s) <= BUF ->
      lenN (Seipd1Machine.buf (fst (Seipd1Machine.take E bs sha1 None n s))) <= BUF.
Proof. exact take_buffer_bound. Qed.
Print Assumptions C19_v1_stream_decryptor_buffer_bounded.

Theorem C19_v2_stream_decryptor_buffer_bounded :
  forall open c key iv info, 1 <= c ->
    (forall k n a x pt, open k n a x = Some pt -> lenN pt + TAGLEN = lenN x) ->
    forall n s, lenN (inbuf s) + lenN (outb s) <= 2 * (c + TAGLEN) ->
      lenN (inbuf (fst (a_take open c key iv info n s))) + lenN (outb (fst (a_take open c key iv info n s))) <= 2 * (c + TAGLEN).
Proof. exact a_take_bound. Qed.
Print Assumptions C19_v2_stream_decryptor_buffer_bounded.

Theorem C19_packet_body_reader_buffer_bounded :
  forall n s, lenN (bbuf s) <= BUFSZ -> lenN (bbuf (fst (br_take n s))) <= BUFSZ.
Proof. exact br_take_bound. Qed.
Print Assumptions C19_packet_body_reader_buffer_bounded.

(* reassembly of armor headers / footers / cleartext headers (armor::read_from_buf): whatever the source sends, the parser is
   never given limit + (one piece) octets or more, and is called at most once per piece the source showed *)
Theorem C19_reassembly_bounded :
  forall (T : Type) (P : bytes -> pres T) limit maxpiece cs,
    Forall (fun c => lenN c <= maxpiece) cs ->
    Forall (fun n => n < limit + maxpiece \/ n <= maxpiece) (rfb_calls T P limit cs) /\
    (length (rfb_calls T P limit cs) <= length cs)%nat.
Proof. exact rfb_calls_bounded. Qed.
Print Assumptions C19_reassembly_bounded.
