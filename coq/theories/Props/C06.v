(* Props/C06.v -- C06: signature completeness. *)
From Rpgp Require Import Base.Octets Base.Res Text.Canon Text.Cleartext Sig.Preimage Sig.Verify Sig.Complete Frame.Framing Io.Emitter Msg.SignGen Msg.SignGenComplete.

(* a signature made over pre-image P is accepted by every verifying path that
   computes the same subject octets (the rest of P is read from the packet) *)
Theorem C06_complete :
  forall (H : bytes -> bytes) (sign : bytes -> bytes) (vrfy : bytes -> bytes -> bool),
    (forall d, vrfy d (sign d) = true) ->
    forall v typ pka ha hashed salt s s',
      subject_bytes v s' = subject_bytes v s ->
      accepts H vrfy (preimage v typ pka ha hashed salt s')
              (make_prefix H (preimage v typ pka ha hashed salt s))
              (make_value H sign (preimage v typ pka ha hashed salt s)) = true.
Proof. exact complete. Qed.
Print Assumptions C06_complete.

(* text documents: every signing path and every verifying path feed the same
   octets to the hash, whatever the chunking / window size *)
Theorem C06_text_paths_agree :
  forall chunks chunks' w, 1 <= w -> concat chunks' = concat chunks ->
    nh_run true chunks = nr_run [CR; LF] w (concat chunks) /\
    nh_run true chunks = replace_newlines [CR; LF] (concat chunks) /\
    nh_run true chunks = nh_run true chunks'.
Proof. exact text_paths_agree. Qed.
Print Assumptions C06_text_paths_agree.

Theorem C06_binary_paths_agree :
  forall chunks chunks', concat chunks' = concat chunks -> nh_run false chunks = nh_run false chunks'.
Proof. exact binary_paths_agree. Qed.
Print Assumptions C06_binary_paths_agree.

(* cleartext: signed form = verified form after writing and reading back *)
Theorem C06_cleartext_paths_agree :
  forall t S body,
    is_prefix five_dashes S = true -> ends_with_cr t = false ->
    read_body (text_section t ++ S) = Ok (body, S) ->
    canon (unescape_trim body) = sign_input t.
Proof. exact cleartext_paths_agree. Qed.
Print Assumptions C06_cleartext_paths_agree.

(* the message builder with any number of signers: for every sequence of request sizes the stream carries one signature
   per signer over the WHOLE payload, and each is accepted by every verifying path that computes the same subject octets *)
Theorem C06_builder_signatures_verify :
  forall (H : bytes -> bytes) (pkt : signer -> bytes -> bytes -> bytes) k h, lenN h < 2 ^ k ->
  forall (signers : list signer) (req : N -> N) (ops : list bytes) (payload : bytes),
    (forall s, In s signers -> forall d, s_vrfy s d (s_sign s d) = true) ->
    sg_run k h (fun d => map (sig_packet H pkt d) signers) req ops payload =
      (concat ops ++ emit_partial 11 k h payload ++ concat (map (sig_packet H pkt payload) signers), EClean) /\
    (forall s, In s signers -> forall payload',
        subject_bytes (s_v s) (SDoc (s_text s) payload') = subject_bytes (s_v s) (SDoc (s_text s) payload) ->
        accepts H (s_vrfy s) (s_pre s payload')
                (make_prefix H (s_pre s payload)) (make_value H (s_sign s) (s_pre s payload)) = true).
Proof. exact builder_emits_verifying_signatures. Qed.
Print Assumptions C06_builder_signatures_verify.
Theorem C06_text_mode_line_endings_do_not_matter :
  forall (s : signer) payload payload',
    s_text s = true -> canon payload' = canon payload ->
    subject_bytes (s_v s) (SDoc (s_text s) payload') = subject_bytes (s_v s) (SDoc (s_text s) payload).
Proof. exact text_mode_line_endings_do_not_matter. Qed.
Print Assumptions C06_text_mode_line_endings_do_not_matter.
Example C06_ex :
  nh_run true [[x61; CR]; [LF; x62; LF]] = nr_run [CR; LF] 3 [x61; CR; LF; x62; LF] /\ (1 <= 3).
Proof. split; [reflexivity|discriminate]. Qed.
