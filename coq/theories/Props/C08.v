(* C08: secret-key locking -- the right password restores the key, nothing else does. *)
From Coq Require Import List NArith Lia Bool.
From Rpgp Require Import Base.Octets Base.Res Sym.Cfb Kdf.Kdf Key.Lock Key.LockProofs.
From Rpgp Require Import Key.LockRules Key.LockRulesProofs.
Import ListNotations.
Open Scope N_scope.

(* usage 254, every block cipher (any function of the right block size), every IV, every
   material: unlock after lock returns exactly the material *)
Theorem C08_unlock_lock_cfb : forall (E : bytes -> bytes) (bs : N),
  1 <= bs -> (forall x, lenN (E x) = bs) ->
  forall sha1 : bytes -> bytes, (forall x, lenN (sha1 x) = 20) ->
  forall iv m, unlock_cfb E bs sha1 iv (lock_cfb E bs sha1 iv m) = Ok m.
Proof. exact unlock_lock_cfb. Qed.
Print Assumptions C08_unlock_lock_cfb.

(* anything that unlocks is the honest locking of the material returned *)
Theorem C08_unlock_cfb_only_honest : forall (E : bytes -> bytes) (bs : N),
  1 <= bs -> (forall x, lenN (E x) = bs) ->
  forall (sha1 : bytes -> bytes) iv c m,
  unlock_cfb E bs sha1 iv c = Ok m -> c = lock_cfb E bs sha1 iv m.
Proof. exact unlock_cfb_only_honest. Qed.
Print Assumptions C08_unlock_cfb_only_honest.

(* hence a change to the protected octets never yields the original material again: it is
   rejected, or returns different material that carries its own SHA-1 *)
Theorem C08_changed_blob_changes_material : forall (E : bytes -> bytes) (bs : N),
  1 <= bs -> (forall x, lenN (E x) = bs) ->
  forall (sha1 : bytes -> bytes) iv c c' m m',
  unlock_cfb E bs sha1 iv c = Ok m -> unlock_cfb E bs sha1 iv c' = Ok m' -> c <> c' -> m <> m'.
Proof. exact changed_blob_changes_material. Qed.
Print Assumptions C08_changed_blob_changes_material.

(* usage 255 / legacy cipher octet: same two statements with the 16-bit sum *)
Theorem C08_unlock_lock_sum : forall (E : bytes -> bytes) (bs : N),
  1 <= bs -> (forall x, lenN (E x) = bs) ->
  forall iv m, unlock_sum E bs iv (lock_sum E bs iv m) = Ok m.
Proof.
  intros E bs H1 H2. exact (unlock_lock_sum E bs H1 H2 (fun _ => repeat x00 20) (fun _ => eq_refl)).
Qed.
Print Assumptions C08_unlock_lock_sum.

Theorem C08_unlock_sum_only_honest : forall (E : bytes -> bytes) (bs : N),
  1 <= bs -> (forall x, lenN (E x) = bs) ->
  forall iv c m, unlock_sum E bs iv c = Ok m -> c = lock_sum E bs iv m.
Proof. exact unlock_sum_only_honest. Qed.
Print Assumptions C08_unlock_sum_only_honest.

(* usage 253 *)
Theorem C08_unlock_lock_aead :
  forall (seal : bytes -> bytes -> bytes -> bytes -> bytes)
         (open : bytes -> bytes -> bytes -> bytes -> option bytes)
         (okm : bytes -> bytes -> bytes),
  (forall k n ad m, open k n ad (seal k n ad m) = Some m) ->
  forall tag ver sym mode derived nonce pub m,
  unlock_aead open okm tag ver sym mode derived nonce pub
    (lock_aead seal okm tag ver sym mode derived nonce pub m) = Ok m.
Proof. exact unlock_lock_aead. Qed.
Print Assumptions C08_unlock_lock_aead.

(* the additional data pins the packet type and every octet of the public key fields;
   under the AEAD's integrity (explicit premise) a key whose public fields were changed does
   not unlock *)
Theorem C08_aead_ad_injective : forall tag tag' pub pub', tag < 64 -> tag' < 64 ->
  aead_ad tag pub = aead_ad tag' pub' -> tag = tag' /\ pub = pub'.
Proof. exact aead_ad_injective. Qed.
Print Assumptions C08_aead_ad_injective.

Theorem C08_aead_binds_public_fields :
  forall (seal : bytes -> bytes -> bytes -> bytes -> bytes)
         (open : bytes -> bytes -> bytes -> bytes -> option bytes)
         (okm : bytes -> bytes -> bytes),
  (forall k n ad ad' m m', seal k n ad m = seal k n ad' m' -> ad = ad') ->
  forall tag ver sym mode derived nonce pub pub' m m',
  INT seal open -> tag < 64 ->
  unlock_aead open okm tag ver sym mode derived nonce pub'
    (lock_aead seal okm tag ver sym mode derived nonce pub m) = Ok m' -> pub' = pub.
Proof. exact unlock_aead_binds_public_fields. Qed.
Print Assumptions C08_aead_binds_public_fields.

(* the usage octet and the protection variant determine each other, for every octet *)
Theorem C08_usage_variant : forall u, u < 256 ->
  usage_of (variant_of u) = u /\ variant_ok (variant_of u) = true.
Proof. exact usage_variant_roundtrip. Qed.
Print Assumptions C08_usage_variant.

Theorem C08_variant_usage : forall v, variant_ok v = true -> variant_of (usage_of v) = v.
Proof. exact variant_usage_roundtrip. Qed.
Print Assumptions C08_variant_usage.

(* which parameters the library locks with and which it unlocks, as decision functions of key version,
   S2K usage, S2K type and hash strength: it never locks a key with parameters it refuses to unlock *)
Theorem C08_never_locks_what_it_refuses_to_unlock : forall p, lock_allowed p = true -> unlock_allowed p = true.
Proof. exact lock_implies_unlock. Qed.
Print Assumptions C08_never_locks_what_it_refuses_to_unlock.

Theorem C08_v6_lock_shape : forall v s w,
  lock_allowed {| l_ver := 6; l_var := v; l_s2k := s; l_weak := w |} = true ->
  w = false /\ ((v = PAead /\ (s = TArgon2 \/ s = TIterated)) \/ (v = PCfb /\ (s = TIterated \/ s = TSalted))).
Proof. exact v6_lock_shape. Qed.
Print Assumptions C08_v6_lock_shape.

Theorem C08_argon2_only_with_aead : forall p,
  l_s2k p = TArgon2 -> (lock_allowed p = true \/ (unlock_allowed p = true /\ l_var p <> PLegacy)) -> l_var p = PAead.
Proof. exact argon2_only_with_aead. Qed.
Print Assumptions C08_argon2_only_with_aead.
