(* Props/C16.v -- C16: cleartext signatures: text survives, framing is
   unspoofable, signature binds.  Statements only. *)
From Rpgp Require Import Base.Octets Base.Res Text.Canon Text.CanonProofs Text.Cleartext Text.CleartextProofs.

(* No text content can terminate the text section early or make it parse as
   different content: for EVERY text t (lines equal to armor boundary strings
   included) the reader finds the end of the section exactly where the writer
   put it, and returns the escaped text (minus a final lone CR, see below). *)
Theorem C16_unspoofable :
  forall t S, is_prefix five_dashes S = true ->
    read_body (text_section t ++ S) = Ok (chop_cr (dash_escape t), S).
Proof. exact read_body_text_section. Qed.
Print Assumptions C16_unspoofable.

(* dash-escaping is undone exactly (lines that already began with "- " included) *)
Theorem C16_unescape : forall t, unesc true (dash_escape t) = t.
Proof. exact unescape_dash_escape. Qed.
Print Assumptions C16_unescape.

(* the line-by-line escaping of the code is the octet-level escaping *)
Theorem C16_escape_octetwise : forall t, dash_escape t = esc true t.
Proof. exact dash_escape_esc. Qed.
Print Assumptions C16_escape_octetwise.

(* the text survives writing and reading back -- for every text that does not
   end in a lone CR *)
Theorem C16_text_survives :
  forall t S, is_prefix five_dashes S = true -> ends_with_cr t = false ->
    read_body (text_section t ++ S) = Ok (dash_escape t, S) /\ unesc true (dash_escape t) = t.
Proof. exact text_survives. Qed.
Print Assumptions C16_text_survives.

(* KNOWN FINDING (csf-text-ends-with-cr): the excluded class is real *)
Theorem C16_lone_cr_witness :
  exists t S, is_prefix five_dashes S = true /\
              read_body (text_section t ++ S) = Ok (removelast (dash_escape t), S) /\
              removelast (dash_escape t) <> dash_escape t.
Proof. exact lone_cr_witness. Qed.
Print Assumptions C16_lone_cr_witness.

(* what is signed is what is verified: after the repair the signer hashes
   signed_text() of the message it builds; the pinned tree hashed the untrimmed
   text, which differs as soon as a line ends in a blank *)
Theorem C16_sign_verify_agree : forall t, sign_input t = signed_form t.
Proof. intros t. reflexivity. Qed.
Print Assumptions C16_sign_verify_agree.

Theorem C16_legacy_signer_refuted : exists t, sign_input_legacy t <> signed_form t.
Proof. exact sign_verify_legacy_refuted. Qed.
Print Assumptions C16_legacy_signer_refuted.

(* the signed form is canonical text (CR LF line endings; idempotent) *)
Theorem C16_signed_form_canonical : forall t, canon (signed_form t) = signed_form t.
Proof. intros t. unfold signed_form. apply canon_idem. Qed.
Print Assumptions C16_signed_form_canonical.

(* non-vacuity *)
Example C16_ex1 :
  dash_escape [DASH; DASH; LF; x61; LF; DASH] = [DASH; SP; DASH; DASH; LF; x61; LF; DASH; SP; DASH]
  /\ is_prefix five_dashes (five_dashes ++ [x42]) = true
  /\ ends_with_cr [x61; CR; LF] = false.
Proof. repeat split; reflexivity. Qed.
Example C16_ex2 :
  signed_form [x61; SP; TAB; LF; DASH; SP; x62; SP; CR; LF; x63; SP] =
  [x61; CR; LF; DASH; SP; x62; CR; LF; x63].
Proof. vm_compute. reflexivity. Qed.

(* converting a document between LF and CR LF line endings does not change what is signed, whatever
   the lines contain (blanks, CRs, dashes ...): for every text *)
Theorem C16_signed_form_lf_crlf_invariant : forall t, signed_form (canon t) = signed_form t.
Proof. exact signed_form_crlf_invariant. Qed.
Print Assumptions C16_signed_form_lf_crlf_invariant.

(* the step it rests on, per line: LF and CR LF endings give the same signed form for every content *)
Theorem C16_line_signed_form_lf_crlf_invariant :
  forall c, ends_in_cr c = false -> canon (ut_line (c ++ [LF])) = canon (ut_line (c ++ [CR; LF])).
Proof. exact ut_line_lf_crlf. Qed.
Print Assumptions C16_line_signed_form_lf_crlf_invariant.

(* the pinned tree copied the line ending as found: a content CR followed by blanks was merged
   with the LF behind it ("a" CR SP LF signed as "a" CR LF), and the conversion changed the signed form *)
Theorem C16_merged_line_end_refuted :
  exists t, signed_form_merged (canon t) <> signed_form_merged t.
Proof. exact signed_form_merged_refuted. Qed.
Print Assumptions C16_merged_line_end_refuted.

Example C16_ex_cr_blank_lf :
  signed_form [x61; CR; SP; LF] = [x61; CR; CR; LF] /\ signed_form (canon [x61; CR; SP; LF]) = [x61; CR; CR; LF].
Proof. split; vm_compute; reflexivity. Qed.
