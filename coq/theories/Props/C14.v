(* Props/C14.v -- C14: text canonicalisation is one function, however the text
   is delivered.  Statements only; every proof is [exact <lemma>]. *)
From Rpgp Require Import Base.Octets Text.Canon Text.CanonProofs.

(* the streaming hasher (NormalizingHasher) computes [canon] of the
   concatenation, for every chunking; binary mode hashes the octets unchanged *)
Theorem C14_hasher_is_canon :
  forall chunks : list bytes, nh_run true chunks = canon (concat chunks).
Proof. exact nh_run_canon. Qed.
Print Assumptions C14_hasher_is_canon.

Theorem C14_hasher_binary :
  forall chunks : list bytes, nh_run false chunks = concat chunks.
Proof. exact nh_run_binary. Qed.
Print Assumptions C14_hasher_binary.

(* the streaming reader (NormalizedReader, window size w; 512 in the code) *)
Theorem C14_reader_is_canon :
  forall (w : N) (data : bytes), 1 <= w -> nr_run [CR; LF] w data = canon data.
Proof. exact nr_run_canon. Qed.
Print Assumptions C14_reader_is_canon.

(* in-memory normalisation (normalize_lines / replace_newlines) *)
Theorem C14_replace_is_canon :
  forall d : bytes, replace_newlines [CR; LF] d = canon d.
Proof. exact replace_is_canon. Qed.
Print Assumptions C14_replace_is_canon.

Theorem C14_idempotent : forall d : bytes, canon (canon d) = canon d.
Proof. exact canon_idem. Qed.
Print Assumptions C14_idempotent.

(* invariance under LF <-> CRLF conversion of the document ... *)
Theorem C14_crlf_of_lf_text :
  forall d : bytes, lf_form d = true -> canon (to_crlf d) = canon d.
Proof. exact canon_to_crlf. Qed.
Print Assumptions C14_crlf_of_lf_text.

Theorem C14_lf_of_crlf_text :
  forall d : bytes, no_crcrlf d = true -> canon (to_lf d) = canon d.
Proof. exact canon_to_lf. Qed.
Print Assumptions C14_lf_of_crlf_text.

Theorem C14_side_condition_needed : exists d : bytes, canon (to_lf d) <> canon d.
Proof. exact canon_to_lf_side_condition_needed. Qed.
Print Assumptions C14_side_condition_needed.

(* ... and under no other change: documents with the same canonical text have
   the same LF form *)
Theorem C14_nothing_else :
  forall d d' : bytes, canon d = canon d' -> to_lf d = to_lf d'.
Proof. exact canon_eq_to_lf_eq. Qed.
Print Assumptions C14_nothing_else.

(* the CR+LF checker of UTF-8 literal data accepts exactly canonical text,
   whatever the read sizes *)
Theorem C14_crlf_check :
  forall chunks : list bytes,
    crlf_run false chunks = true <-> canon (concat chunks) = concat chunks.
Proof. exact crlf_run_accepts_iff. Qed.
Print Assumptions C14_crlf_check.

(* non-vacuity / sanity on concrete inputs *)
Example C14_ex1 :
  canon [x61; LF; x62; CR; LF; CR; x63; LF] = [x61; CR; LF; x62; CR; LF; CR; x63; CR; LF].
Proof. reflexivity. Qed.
Example C14_ex2 :
  nh_run true [[x61; CR]; [LF; LF]; []; [CR]] = [x61; CR; LF; CR; LF; CR].
Proof. reflexivity. Qed.
Example C14_ex3 :
  nr_run [CR; LF] 2 [x61; CR; LF; LF; CR] = [x61; CR; LF; CR; LF; CR] /\ (1 <= 2).
Proof. split; [reflexivity | discriminate]. Qed.
Example C14_ex4 : lf_form [x61; LF; CR; x62] = true /\ no_crcrlf [CR; LF; CR; x61] = true.
Proof. split; reflexivity. Qed.
