(* C04: hostile input never panics -- for the post-decryption logic modelled in Safe/Checked.v. *)
From Coq Require Import List NArith Lia Bool.
From Rpgp Require Import Base.Octets Base.Res Kdf.Kdf Safe.Checked Safe.CheckedProofs.
Import ListNotations.
Open Scope N_scope.

Theorem C04_session_key_v3_never_panics : forall d, session_key_v3 d <> Panic.
Proof. exact session_key_v3_never_panics. Qed.
Print Assumptions C04_session_key_v3_never_panics.

Theorem C04_session_key_v6_never_panics : forall d, session_key_v6 d <> Panic.
Proof. exact session_key_v6_never_panics. Qed.
Print Assumptions C04_session_key_v6_never_panics.

Theorem C04_skesk4_plain_never_panics : forall d, skesk4_plain d <> Panic.
Proof. exact skesk4_plain_never_panics. Qed.
Print Assumptions C04_skesk4_plain_never_panics.

Theorem C04_kw_out_len_never_panics : forall n, kw_out_len n <> Panic.
Proof. exact kw_out_len_never_panics. Qed.
Print Assumptions C04_kw_out_len_never_panics.

Theorem C04_ecdh_unpad_never_panics : forall p, ecdh_unpad_checked p <> Panic.
Proof. exact ecdh_unpad_never_panics. Qed.
Print Assumptions C04_ecdh_unpad_never_panics.

Theorem C04_aead_setup_never_panics : forall sym aead okm, lenN okm = 42 -> aead_setup sym aead okm <> Panic.
Proof. exact aead_setup_never_panics. Qed.
Print Assumptions C04_aead_setup_never_panics.

(* the three places repaired in /repo did panic: witnesses on the unrepaired transcriptions *)
Theorem C04_unrepaired_code_panicked :
  (exists d, session_key_v3_unrepaired d = Panic) /\
  (exists n, kw_out_len_unrepaired n = Panic) /\
  (exists sym aead okm, lenN okm = 42 /\ aead_setup_unrepaired sym aead okm = Panic).
Proof.
  exact (conj session_key_v3_unrepaired_refuted (conj kw_out_len_unrepaired_refuted aead_setup_unrepaired_refuted)).
Qed.
Print Assumptions C04_unrepaired_code_panicked.
