(* C05: wire fidelity -- parse and serialise are mutually inverse and lengths are truthful. *)
From Coq Require Import List NArith Lia Bool.
From Rpgp Require Import Base.Octets Base.Res Frame.Framing Frame.FramingProofs
  Wire.Fmt Wire.FmtProofs Wire.Packets Wire.PacketsProofs Wire.Wire Wire.WireProofs Wire.KeyFlagsObj Wire.KeyFlagsObjProofs.
Import ListNotations.
Open Scope N_scope.

(* generic: for every well-formed description *)
Theorem C05_decode_encode_generic : forall f, wf f -> forall v b r,
  enc f v = Some b -> (sd f \/ r = []) -> dec f (b ++ r) = Some (v, r).
Proof. exact dec_enc. Qed.
Print Assumptions C05_decode_encode_generic.

Theorem C05_encode_decode_generic : forall f, wf f -> forall b v r,
  dec f b = Some (v, r) -> exists b', enc f v = Some b' /\ b = b' ++ r.
Proof. exact enc_dec. Qed.
Print Assumptions C05_encode_decode_generic.

(* every packet type of RFC 9580 as transcribed: serialise then parse gives the value back *)
Theorem C05_parse_serialize : forall tag v b,
  enc (body_fmt tag) v = Some b -> parse_body tag b = Some v.
Proof. exact Wire_parse_serialize. Qed.
Print Assumptions C05_parse_serialize.

(* canonical input re-serialises to the identical octets *)
Theorem C05_canonical_reserializes : forall tag b v,
  parse_body tag b = Some v -> enc (body_fmt tag) v = Some b.
Proof. exact Wire_canonical_reserializes. Qed.
Print Assumptions C05_canonical_reserializes.

(* two values never share an encoding *)
Theorem C05_encoding_injective : forall tag v w b,
  enc (body_fmt tag) v = Some b -> enc (body_fmt tag) w = Some b -> v = w.
Proof. exact Wire_encoding_injective. Qed.
Print Assumptions C05_encoding_injective.

(* the header announces exactly the octets that follow, and the length query equals the
   number of octets written *)
Theorem C05_lengths_truthful : forall tag v p, tag < 64 ->
  packet tag v = Some p ->
  exists b, enc (body_fmt tag) v = Some b /\
            deframe (p) = Ok ({| hf := HNew; htag := tag; hlen := PFixed (lenN b) |}, b, []) /\
            announced_len tag v = Some (lenN p).
Proof. exact Wire_lengths_truthful. Qed.
Print Assumptions C05_lengths_truthful.

(* every length prefix inside a packet (subpacket areas, subpackets, counted fields)
   announces the octets of the region it governs *)
Theorem C05_inner_lengths_truthful : forall k g c w b, wf g ->
  enc (FLen k g) (VLen c w) = Some b ->
  exists h body, b = h ++ body /\ enc g w = Some body /\
                 dec_lenpfx k b = Some (c, lenN body, body).
Proof. exact len_truthful. Qed.
Print Assumptions C05_inner_lengths_truthful.

(* an object modified through the public API: Key Flags.  Whatever sequence of setters is applied to the default value or to
   any parsed field, what is written parses back to an equal value and the length query equals what is written *)
Theorem C05_keyflags_api_roundtrip : forall (start : kf) (ops : list op),
  (start = kf_default \/ exists b, start = kf_parse b) -> forallb op_ok ops = true ->
  let f := fold_left (apply true) ops start in
  kf_parse (kf_ser f) = f /\ kf_write_len f = lenN (kf_ser f).
Proof. exact api_roundtrip. Qed.
Print Assumptions C05_keyflags_api_roundtrip.

(* the code before fix "key flags set through the API are written" (setters that do not grow the stored length) *)
Theorem C05_keyflags_unfixed_refuted :
  (let f := apply false kf_default {| o_second := true; o_mask := 4; o_val := true |} in kf_parse (kf_ser f) <> f) /\
  (let f := apply false (kf_parse []) {| o_second := false; o_mask := 2; o_val := true |} in kf_ser f = [] /\ lo f = 2).
Proof. exact unfixed_refuted. Qed.
Print Assumptions C05_keyflags_unfixed_refuted.
