(* C07: generated keys -- the value-dependent part: fixed-size key material and signature halves
   as MPIs survive the wire for EVERY value, however many leading zero octets it has. *)
From Coq Require Import List NArith Lia Bool.
From Rpgp Require Import Base.Octets Key.Scalar Key.ScalarProofs Key.Flags Key.FlagsProofs.
Import ListNotations.
Open Scope N_scope.

Theorem C07_pad_strip : forall n b, lenN b = n -> pad_to n (strip b) = Some b.
Proof. exact pad_strip. Qed.
Print Assumptions C07_pad_strip.

Theorem C07_mpi_decode_encode : forall b rest, lenN b <= 8191 ->
  mpi_decode (mpi_encode b ++ rest) = Some (strip b, rest).
Proof. exact mpi_decode_encode. Qed.
Print Assumptions C07_mpi_decode_encode.

Theorem C07_scalar_roundtrip : forall n b rest, lenN b = n -> n <= 8191 ->
  match mpi_decode (mpi_encode b ++ rest) with
  | Some (s, r) => pad_to n s = Some b /\ r = rest
  | None => False
  end.
Proof. exact scalar_roundtrip. Qed.
Print Assumptions C07_scalar_roundtrip.

(* what the self-signatures of a generated key say about its capabilities: the Key Flags octet is a
   function of the request that can be read back exactly -- every capability has its own bit, and asking
   for one kind of encryption never sets the other (compared with the flags of every generated key and subkey) *)
Theorem C07_flags_say_what_was_requested : forall r, request_of_octet (flags_octet r) = r.
Proof. exact request_roundtrip. Qed.
Print Assumptions C07_flags_say_what_was_requested.

Theorem C07_flags_distinguish_requests : forall r1 r2, flags_octet r1 = flags_octet r2 -> r1 = r2.
Proof. exact flags_octet_injective. Qed.
Print Assumptions C07_flags_distinguish_requests.

Theorem C07_communication_only_is_not_storage : forall c s a,
  has (flags_octet {| r_certify := c; r_sign := s; r_enc := CapComm; r_auth := a |}) 4 = true /\
  has (flags_octet {| r_certify := c; r_sign := s; r_enc := CapComm; r_auth := a |}) 8 = false.
Proof. exact comm_only_sets_comm. Qed.
Print Assumptions C07_communication_only_is_not_storage.

Theorem C07_storage_only_is_not_communication : forall c s a,
  has (flags_octet {| r_certify := c; r_sign := s; r_enc := CapStor; r_auth := a |}) 4 = false /\
  has (flags_octet {| r_certify := c; r_sign := s; r_enc := CapStor; r_auth := a |}) 8 = true.
Proof. exact stor_only_sets_stor. Qed.
Print Assumptions C07_storage_only_is_not_communication.
