(* C07: generated keys -- the value-dependent part: fixed-size key material and signature halves
   as MPIs survive the wire for EVERY value, however many leading zero octets it has. *)
From Coq Require Import List NArith Lia Bool.
From Rpgp Require Import Base.Octets Key.Scalar Key.ScalarProofs.
Import ListNotations.
Open Scope N_scope.

Theorem C07_pad_strip : forall n b, lenN b = n -> pad_to n (strip b) = Some b.
Proof. exact pad_strip. Qed.
Print Assumptions C07_pad_strip.

Theorem C07_mpi_decode_encode : forall b rest, lenN b <= 8191 ->
  mpi_decode (mpi_encode b ++ rest) = Some (strip b, rest).
Proof. exact mpi_decode_encode. Qed.
Print Assumptions C07_mpi_decode_encode.

Theorem C07_scalar_roundtrip : forall n b rest, lenN b = n -> n <= 8191 ->
  match mpi_decode (mpi_encode b ++ rest) with
  | Some (s, r) => pad_to n s = Some b /\ r = rest
  | None => False
  end.
Proof. exact scalar_roundtrip. Qed.
Print Assumptions C07_scalar_roundtrip.
