(* Props/C02.v -- C02: signature soundness, as a reduction. *)
From Rpgp Require Import Base.Octets Base.Res Text.Canon Sig.Preimage Sig.PreimageProofs Sig.Verify.

(* If a signature whose value was made over pre-image P is accepted for
   components (v',typ',...,s'), then every signed component -- version, type,
   algorithms, hashed area, salt, subject octets -- is the one that was signed,
   unless a hash collision on two explicit distinct pre-images or a forgery of
   the public-key primitive occurred.  Holds for every message, key, user id,
   hashed area and every length. *)
Theorem C02_accept_binds :
  forall (H : bytes -> bytes) (vrfy : bytes -> bytes -> bool)
         v typ pka ha hashed salt s v' typ' pka' ha' hashed' salt' s' prefix value,
    params_ok v ha hashed salt -> params_ok v' ha' hashed' salt' ->
    typ < 256 -> typ' < 256 -> pka < 256 -> pka' < 256 ->
    accepts H vrfy (preimage v' typ' pka' ha' hashed' salt' s') prefix value = true ->
    (v = v' /\ typ = typ' /\ pka = pka' /\ ha = ha' /\ hashed = hashed' /\ salt = salt' /\
     subject_bytes v s = subject_bytes v' s')
    \/ Collision H (preimage v typ pka ha hashed salt s) (preimage v' typ' pka' ha' hashed' salt' s')
    \/ Forged vrfy (H (preimage v typ pka ha hashed salt s)) (H (preimage v' typ' pka' ha' hashed' salt' s')) value.
Proof. exact accept_binds. Qed.
Print Assumptions C02_accept_binds.

Theorem C02_prefix_mismatch_rejects :
  forall H vrfy pre prefix value, takeN 2 (H pre) <> prefix -> accepts H vrfy pre prefix value = false.
Proof. exact prefix_mismatch_rejects. Qed.
Print Assumptions C02_prefix_mismatch_rejects.

(* documents: any change that is not an LF <-> CRLF conversion changes the
   subject of a text signature; any change at all that of a binary signature *)
Theorem C02_text_change_visible :
  forall d d', to_lf d <> to_lf d' -> subject_bytes 4 (SDoc true d) <> subject_bytes 4 (SDoc true d').
Proof. exact text_doc_change_visible. Qed.
Print Assumptions C02_text_change_visible.

Theorem C02_binary_change_visible :
  forall d d', d <> d' -> subject_bytes 4 (SDoc false d) <> subject_bytes 4 (SDoc false d').
Proof. exact binary_doc_change_visible. Qed.
Print Assumptions C02_binary_change_visible.

(* key material, user ids: the subject octets determine them *)
Theorem C02_subject_keyid_inj :
  forall sigv kv kb idtag id kv' kb' idtag' id',
    4 <= sigv ->
    (kv = 6 -> lenN kb < 4294967296) -> (kv <> 6 -> lenN kb < 65536) ->
    (kv' = 6 -> lenN kb' < 4294967296) -> (kv' <> 6 -> lenN kb' < 65536) ->
    lenN id < 4294967296 -> lenN id' < 4294967296 ->
    subject_bytes sigv (SKeyId kv kb idtag id) = subject_bytes sigv (SKeyId kv' kb' idtag' id') ->
    (kv =? 6) = (kv' =? 6) /\ kb = kb' /\ id_prefix idtag = id_prefix idtag' /\ id = id'.
Proof. exact subject_keyid_inj. Qed.
Print Assumptions C02_subject_keyid_inj.

Theorem C02_subject_keys_inj :
  forall sigv kv1 b1 kv2 b2 kv1' b1' kv2' b2',
    (kv1 = 6 -> lenN b1 < 4294967296) -> (kv1 <> 6 -> lenN b1 < 65536) ->
    (kv1' = 6 -> lenN b1' < 4294967296) -> (kv1' <> 6 -> lenN b1' < 65536) ->
    (kv2 = 6 -> lenN b2 < 4294967296) -> (kv2 <> 6 -> lenN b2 < 65536) ->
    (kv2' = 6 -> lenN b2' < 4294967296) -> (kv2' <> 6 -> lenN b2' < 65536) ->
    subject_bytes sigv (SKeys kv1 b1 kv2 b2) = subject_bytes sigv (SKeys kv1' b1' kv2' b2') ->
    b1 = b1' /\ b2 = b2'.
Proof. exact subject_keys_inj. Qed.
Print Assumptions C02_subject_keys_inj.

Theorem C02_alignment :
  forall keyv sigv, aligned keyv sigv = true -> ((keyv = 6) <-> (sigv = 6)).
Proof. exact aligned_v6. Qed.
Print Assumptions C02_alignment.

(* non-vacuity: an instance where acceptance holds *)
Example C02_ex :
  accepts (fun p => takeN 4 p) (fun d v => if list_eq_dec Byte.byte_eq_dec d v then true else false)
          [x01; x02; x03; x04; x05] [x01; x02] [x01; x02; x03; x04] = true.
Proof. vm_compute. reflexivity. Qed.
