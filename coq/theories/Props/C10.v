(* Props/C10.v -- C10: ASCII armor round trip, checksum correctness, CRC gate.
   Statements only. *)
From Rpgp Require Import Base.Octets Base.Res Armor.Base64 Armor.Base64Proofs Armor.Armor Armor.ArmorProofs.

(* Armoring any byte string under any fixed-name block type and any header
   list within the header grammar (keys non-empty, without line breaks and
   without ": "; values without line breaks), and dearmoring the result with
   CRC checking off, returns the same type, headers and bytes -- for every
   data length. *)
Theorem C10_roundtrip :
  forall t hs data ck,
    fixed_type t = true -> hdrs_ok hs = true ->
    dearmor false (armor t hs data ck) =
    Ok {| d_type := t; d_headers := hs; d_data := data;
          d_crc := if ck then Unchecked (crc24 data) else NoCrc;
          d_leading := false; d_rest := [] |}.
Proof.
  intros t hs data ck Ht Hh.
  exact (dearmor_armor crc_as_coded false t hs data ck Ht Hh (fun H _ => False_ind _ (Bool.diff_false_true H))).
Qed.
Print Assumptions C10_roundtrip.

(* the same with CRC checking on, for a reader that accumulates the CRC over
   the decoded data (RFC behaviour) *)
Theorem C10_roundtrip_checked_spec :
  forall t hs data ck,
    fixed_type t = true -> hdrs_ok hs = true ->
    dearmor_spec true (armor t hs data ck) =
    Ok {| d_type := t; d_headers := hs; d_data := data;
          d_crc := if ck then CheckedOk (crc24 data) else NoCrc;
          d_leading := false; d_rest := [] |}.
Proof.
  intros t hs data ck Ht Hh.
  exact (dearmor_armor crc24 true t hs data ck Ht Hh (fun _ _ => eq_refl)).
Qed.
Print Assumptions C10_roundtrip_checked_spec.

(* base64 itself *)
Theorem C10_base64_roundtrip : forall d, b64_dec (b64_enc d) = Some d.
Proof. exact b64_dec_enc. Qed.
Print Assumptions C10_base64_roundtrip.

(* the emitted body: lines of the canonical base64 text, each at most 64
   characters, none empty, all but the last exactly 64 *)
Theorem C10_lines :
  forall data,
    wrap 64 (b64_enc data) = concat (map (fun c => c ++ [LF]) (chunks 64 (b64_enc data))) /\
    Forall (fun c => 1 <= lenN c /\ lenN c <= 64) (chunks 64 (b64_enc data)) /\
    Forall (fun c => lenN c = 64) (removelast (chunks 64 (b64_enc data))) /\
    concat (chunks 64 (b64_enc data)) = b64_enc data.
Proof.
  intros data. split; [apply wrap_is_lines|].
  apply chunks_lengths. discriminate.
Qed.
Print Assumptions C10_lines.

(* the emitted checksum is "=" ++ base64 of the 24-bit RFC CRC of the data *)
Theorem C10_checksum :
  forall data,
    checksum_line data = PAD :: b64_enc (be24 (crc24 data)) ++ [LF] /\
    lenN (b64_enc (be24 (crc24 data))) = 4 /\ crc24 data < 16777216.
Proof.
  intros data. destruct (checksum_line_shape data) as [H1 H2].
  split; [exact H1|]. split; [exact H2|apply crc24_range].
Qed.
Print Assumptions C10_checksum.

(* CRC gate.  With checking on, whatever is accepted had no checksum or a
   checksum equal to the accumulated one; with checking off a checksum never
   rejects; switching the check on accepts exactly the matching inputs. *)
Theorem C10_crc_gate_sound :
  forall f x d, dearmor_gen f true x = Ok d ->
                d_crc d = NoCrc \/ d_crc d = CheckedOk (f (d_data d)).
Proof. exact crc_gate_sound. Qed.
Print Assumptions C10_crc_gate_sound.

Theorem C10_crc_unchecked :
  forall f x d, dearmor_gen f false x = Ok d -> d_crc d = NoCrc \/ exists c, d_crc d = Unchecked c.
Proof. exact crc_unchecked. Qed.
Print Assumptions C10_crc_unchecked.

Theorem C10_crc_gate_complete :
  forall f x d,
    dearmor_gen f false x = Ok d ->
    match d_crc d with
    | NoCrc => dearmor_gen f true x = Ok d
    | Unchecked c =>
        if c =? f (d_data d)
        then dearmor_gen f true x =
             Ok {| d_type := d_type d; d_headers := d_headers d; d_data := d_data d;
                   d_crc := CheckedOk c; d_leading := d_leading d; d_rest := d_rest d |}
        else dearmor_gen f true x = Err
    | CheckedOk _ => False
    end.
Proof. exact crc_gate_complete. Qed.
Print Assumptions C10_crc_gate_complete.

(* KNOWN FINDING (crc24-check-hashes-a-copy): the pinned code accumulates the
   CRC on a copy, so with checking on it rejects correctly checksummed armor of
   non-empty data ...  *)
Theorem C10_crc_code_refuted :
  exists x d, dearmor_spec true x = Ok d /\ dearmor true x = Err.
Proof. exact crc_code_refuted. Qed.
Print Assumptions C10_crc_code_refuted.

(* ... and only those: outside that class (no checksum in the footer, or
   empty data) the code accepts what RFC checking accepts *)
Theorem C10_crc_code_agrees_outside_class :
  forall x d, dearmor_spec true x = Ok d -> (d_crc d = NoCrc \/ d_data d = []) -> dearmor true x = Ok d.
Proof. exact crc_code_agrees_outside_class. Qed.
Print Assumptions C10_crc_code_agrees_outside_class.

(* non-vacuity *)
Example C10_ex_hdrs :
  hdrs_ok [([x43; x6f], [x66; x6f; x6f; x3a; x20; x62; x3a]); ([x61; x3a; x62], [])] = true
  /\ fixed_type OpensshPrivate = true.
Proof. split; reflexivity. Qed.
Example C10_ex_armor :
  dearmor false (armor Message [([x56], [x31])] [x68; x65; x6c; x6c; x6f] true) =
  Ok {| d_type := Message; d_headers := [([x56], [x31])]; d_data := [x68; x65; x6c; x6c; x6f];
        d_crc := Unchecked (crc24 [x68; x65; x6c; x6c; x6f]); d_leading := false; d_rest := [] |}.
Proof. vm_compute. reflexivity. Qed.
