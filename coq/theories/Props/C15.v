(* C15: version-alignment and criticality rules. *)
From Coq Require Import List NArith Lia Bool.
From Rpgp Require Import Rules.Rules Rules.RulesProofs.
Import ListNotations.
Open Scope N_scope.

Theorem C15_misaligned_esk_ignored : forall o c x e b y, aligned c e = false ->
  may_decrypt o c (x ++ (e, b) :: y) = may_decrypt o c (x ++ y).
Proof. exact misaligned_esk_ignored. Qed.
Print Assumptions C15_misaligned_esk_ignored.

Theorem C15_only_aligned_esks_count : forall o c esks,
  may_decrypt o c esks = may_decrypt o c (filter (fun p => aligned c (fst p)) esks).
Proof. exact may_decrypt_filter. Qed.
Print Assumptions C15_only_aligned_esks_count.

Theorem C15_seipd2_needs_v6 : forall o esks, may_decrypt o SEIPD2 esks = true ->
  exists e, In (e, true) esks /\ (e = PK6 \/ e = SK6).
Proof. exact seipd2_needs_v6. Qed.
Print Assumptions C15_seipd2_needs_v6.

Theorem C15_seipd1_needs_v3_v4 : forall o esks, may_decrypt o SEIPD1 esks = true ->
  exists e, In (e, true) esks /\ (e = PK3 \/ e = SK4).
Proof. exact seipd1_needs_v3_v4. Qed.
Print Assumptions C15_seipd1_needs_v3_v4.

Theorem C15_legacy_containers_need_opt_in : forall o c esks, may_decrypt o c esks = true ->
  (c = SED -> legacy o = true) /\ (c = GAEAD -> gnupg o = true).
Proof. exact legacy_containers_need_opt_in. Qed.
Print Assumptions C15_legacy_containers_need_opt_in.

Theorem C15_sig_admissible_spec : forall kv sv hashed, sig_admissible kv sv hashed = true ->
  (kv = 6 <-> sv = 6) /\
  forall t crit fpv, In (t, crit, fpv) hashed ->
    (crit = true -> known_subpacket t = true) /\
    (t = 33 -> forall v, fpv = Some v -> (sv = 4 /\ v = 4) \/ (sv = 6 /\ v = 6)).
Proof. exact sig_admissible_spec. Qed.
Print Assumptions C15_sig_admissible_spec.

Theorem C15_v6_key_only_v6_signatures : forall sv hashed, sig_admissible 6 sv hashed = true -> sv = 6.
Proof. exact v6_key_only_v6_signatures. Qed.
Print Assumptions C15_v6_key_only_v6_signatures.

Theorem C15_ops_matches_iff : forall a b, ops_matches a b = true <->
  o_typ a = o_typ b /\ o_hash a = o_hash b /\ o_alg a = o_alg b /\ o_salt a = o_salt b.
Proof. exact ops_matches_iff. Qed.
Print Assumptions C15_ops_matches_iff.

Theorem C15_ops_version_paired : forall ov sv, ops_pair_ok ov sv = true <-> (ov = 3 /\ sv = 4) \/ (ov = 6 /\ sv = 6).
Proof. exact ops_pair_iff. Qed.
Print Assumptions C15_ops_version_paired.

Theorem C15_v6_primary_only_v6_subkeys : forall sv, subkey_version_ok 6 sv = true -> sv = 6.
Proof. exact v6_primary_only_v6_subkeys. Qed.
Print Assumptions C15_v6_primary_only_v6_subkeys.

Theorem C15_old_primary_no_subkeys : forall pv sv, pv < 4 -> subkey_version_ok pv sv = false.
Proof. exact old_primary_no_subkeys. Qed.
Print Assumptions C15_old_primary_no_subkeys.

Theorem C15_signing_subkey_needs_backsig : forall bv bs, binding_ok bv true bs = true -> bs = true.
Proof. exact signing_subkey_needs_backsig. Qed.
Print Assumptions C15_signing_subkey_needs_backsig.
