(* Props/C03.v -- C03: ciphertext integrity.  Statements only. *)
From Rpgp Require Import Base.Octets Base.Res Aead.Seipd2 Aead.Seipd2Proofs Aead.Seipd2Integrity
  Sym.Cfb Sym.CfbProofs Sym.Seipd1Machine Sym.Seipd1MachineProofs Aead.Seipd2Machine Aead.Seipd2MachineProofs Aead.Gnupg Aead.GnupgProofs.

(* ---------------- SEIPD v2 ---------------- *)

(* round trip: for every plaintext length and chunk size *)
Theorem C03_v2_roundtrip :
  forall seal open,
    (forall k n ad p, open k n ad (seal k n ad p) = Some p) ->
    (forall k n ad p, lenN (seal k n ad p) = lenN p + TAGLEN) ->
    forall c key iv info p, 1 <= c ->
      seipd2_dec open c key iv info (seipd2_enc seal c key iv info p) = Some p.
Proof. exact seipd2_roundtrip. Qed.
Print Assumptions C03_v2_roundtrip.

(* the streaming decryptor (what the library runs) ends cleanly only on
   streams the one-shot decryptor accepts, with the same plaintext *)
Theorem C03_v2_stream_refines :
  forall seal open,
    (forall k n ad p, open k n ad (seal k n ad p) = Some p) ->
    (forall k n ad p, lenN (seal k n ad p) = lenN p + TAGLEN) ->
    forall c key iv info ct out, 1 <= c ->
      seipd2_stream_dec open c key iv info ct = (out, true) ->
      seipd2_dec open c key iv info ct = Some out.
Proof. exact stream_clean_implies_oneshot. Qed.
Print Assumptions C03_v2_stream_refines.

(* Integrity, as a reduction.  [honest ... p] are the (nonce, AD, plaintext)
   triples the encryptor sealed for p.  If every triple that opens under the
   message key is one of them (i.e. no AEAD forgery happened), then a stream
   the decryptor accepts IS the encryptor's output and yields p: any bit flip,
   truncation, extension, dropped / duplicated / reordered chunk or altered
   header octet (which changes [info]) ends in an error. *)
Theorem C03_v2_no_clean_end_on_modified_stream :
  forall seal open,
    (forall k n ad p, open k n ad (seal k n ad p) = Some p) ->
    (forall k n ad p, lenN (seal k n ad p) = lenN p + TAGLEN) ->
    forall c key iv info p, 1 <= c ->
      (forall n ad ct pt, open key n ad ct = Some pt ->
                          In (n, ad, pt) (honest c iv info p) /\ ct = seal key n ad pt) ->
      lenN p < W ->
      forall ct out, lenN ct < W ->
        seipd2_dec open c key iv info ct = Some out ->
        ct = seipd2_enc seal c key iv info p /\ out = p.
Proof. exact seipd2_accepts_only_honest. Qed.
Print Assumptions C03_v2_no_clean_end_on_modified_stream.

(* ---------------- SEIPD v1 ---------------- *)

Theorem C03_v1_roundtrip :
  forall E bs, 1 <= bs -> (forall x, lenN (E x) = bs) ->
    forall sha1, (forall x, lenN (sha1 x) = 20) ->
    forall prefix data, lenN prefix = bs + 2 ->
      seipd1_dec E bs sha1 (seipd1_enc E bs sha1 prefix data) = Ok data.
Proof. exact seipd1_roundtrip. Qed.
Print Assumptions C03_v1_roundtrip.

(* default mode: not one plaintext octet is released unless the whole stream
   passes the MDC check, and a clean end means the one-shot check passed *)
Theorem C03_v1_checkfirst_releases_nothing :
  forall E bs sha1 max ct out, seipd1_checkfirst E bs sha1 max ct = (out, false) -> out = [].
Proof. exact checkfirst_all_or_nothing. Qed.
Print Assumptions C03_v1_checkfirst_releases_nothing.

Theorem C03_v1_checkfirst_clean :
  forall E bs, 1 <= bs -> (forall x, lenN (E x) = bs) ->
  forall sha1, (forall x, lenN (sha1 x) = 20) ->
  forall max ct out,
    seipd1_checkfirst E bs sha1 max ct = (out, true) ->
    seipd1_dec E bs sha1 ct = Ok out /\ lenN ct - (bs + 2) <= max.
Proof. exact checkfirst_clean_iff. Qed.
Print Assumptions C03_v1_checkfirst_clean.

Theorem C03_v1_streaming_clean :
  forall E bs sha1 ct out,
    seipd1_streaming E bs sha1 ct = (out, true) -> seipd1_dec E bs sha1 ct = Ok out.
Proof. exact streaming_clean_iff. Qed.
Print Assumptions C03_v1_streaming_clean.

(* reduction for v1: a clean end on ct means ct decrypts to a stream that is
   SHA-1-self-consistent (prefix ++ body ++ D3 14 ++ SHA1(...)); and CFB
   decryption is injective on equal lengths, so a modified stream of the same
   length is a DIFFERENT self-consistent plaintext under the unknown key --
   the RFC's own assumption for the MDC, stated rather than hidden *)
Theorem C03_v1_accepts_only_mdc_consistent :
  forall E bs, 1 <= bs -> (forall x, lenN (E x) = bs) ->
    forall sha1, (forall x, lenN (sha1 x) = 20) ->
    forall ct body, seipd1_dec E bs sha1 ct = Ok body ->
      exists prefix, lenN prefix = bs + 2 /\
        cfb_dec E bs (zeros_n bs) ct = seipd1_plain sha1 prefix body.
Proof. exact seipd1_accepts_only_mdc_consistent. Qed.
Print Assumptions C03_v1_accepts_only_mdc_consistent.

Theorem C03_v1_cfb_injective :
  forall E bs, 1 <= bs -> (forall x, lenN (E x) = bs) ->
    forall iv c1 c2, lenN c1 = lenN c2 -> cfb_dec E bs iv c1 = cfb_dec E bs iv c2 -> c1 = c2.
Proof. exact cfb_dec_inj. Qed.
Print Assumptions C03_v1_cfb_injective.

(* non-vacuity: a toy AEAD and a toy block cipher satisfy the premises *)
Definition toy_seal (k n ad p : bytes) : bytes := p ++ repeat x2a 16.
Definition toy_open (k n ad c : bytes) : option bytes :=
  if lenN c <? 16 then None else Some (takeN (lenN c - 16) c).
Example C03_ex_v2 :
  seipd2_dec toy_open 4 [] [x01] [x02] (seipd2_enc toy_seal 4 [] [x01] [x02] [x61; x62; x63; x64; x65; x66; x67; x68; x69]) =
  Some [x61; x62; x63; x64; x65; x66; x67; x68; x69].
Proof. vm_compute. reflexivity. Qed.
Example C03_ex_v1 :
  seipd1_dec (fun x => repeat x5a 8) 8 (fun x => repeat x11 20)
    (seipd1_enc (fun x => repeat x5a 8) 8 (fun x => repeat x11 20) (repeat x07 10) [x61; x62; x63]) = Ok [x61; x62; x63].
Proof. vm_compute. reflexivity. Qed.

(* the stream decryptor as the machine the code is (octet-wise CFB decryptor, 8192-octet
   buffer, 22 octets held back, consumer requests of any sizes): what it hands out and
   how it ends is the specification above, for every sequence of request sizes *)
Theorem C03_v1_bufdecryptor_is_cfb :
  forall E bs, 1 <= bs -> (forall x, lenN (E x) = bs) ->
    forall iv c, snd (bd_run E bs (bd_init E iv) c) = cfb_dec E bs iv c.
Proof. exact bd_run_is_cfb_dec. Qed.
Print Assumptions C03_v1_bufdecryptor_is_cfb.

Theorem C03_v1_stream_machine_is_spec :
  forall E bs sha1, 1 <= bs -> (forall x, lenN (E x) = bs) ->
    forall (req : N -> N) ct,
      run_machine E bs sha1 None req ct =
      (fst (seipd1_streaming E bs sha1 ct), oc_of (snd (seipd1_streaming E bs sha1 ct))).
Proof. exact machine_streaming. Qed.
Print Assumptions C03_v1_stream_machine_is_spec.

Theorem C03_v1_checkfirst_machine_is_spec :
  forall E bs sha1, 1 <= bs -> (forall x, lenN (E x) = bs) ->
    forall max (req : N -> N) ct,
      run_machine E bs sha1 (Some max) req ct =
      (fst (seipd1_checkfirst E bs sha1 max ct), oc_of (snd (seipd1_checkfirst E bs sha1 max ct))).
Proof. exact machine_checkfirst. Qed.
Print Assumptions C03_v1_checkfirst_machine_is_spec.

(* so: a clean end of the machine, in either mode and under any requests, means the MDC checked *)
Theorem C03_v1_machine_clean_end_means_mdc_checked :
  forall E bs sha1, 1 <= bs -> (forall x, lenN (E x) = bs) ->
    forall mode (req : N -> N) ct out,
      run_machine E bs sha1 mode req ct = (out, Clean) -> seipd1_dec E bs sha1 ct = Ok out.
Proof. exact machine_clean_end. Qed.
Print Assumptions C03_v1_machine_clean_end_means_mdc_checked.

Example C03_ex_v1_machine :
  run_machine (fun x => repeat x5a 8) 8 (fun x => repeat x11 20) None (fun i => i)
    (seipd1_enc (fun x => repeat x5a 8) 8 (fun x => repeat x11 20) (repeat x07 10) [x61; x62; x63]) = ([x61; x62; x63], Clean).
Proof. vm_compute. reflexivity. Qed.

(* the SEIPD v2 stream decryptor as the machine the code is (one buffer of two encrypted chunks, the
   opened chunk moved behind the pending input, chunk index and octet count, final tag; consumer
   requests of any sizes): what it hands out and how it ends is seipd2_stream_dec, for every sequence of
   request sizes.  The only fact assumed of the AEAD primitive: it opens to 16 octets fewer. *)
Theorem C03_v2_stream_machine_is_spec :
  forall open c key iv info, 1 <= c ->
    (forall k n a x pt, open k n a x = Some pt -> lenN pt + TAGLEN = lenN x) ->
    forall (req : N -> N) ct,
      a_run open c key iv info req ct =
      (fst (seipd2_stream_dec open c key iv info ct), oc_of2 (snd (seipd2_stream_dec open c key iv info ct))).
Proof. exact a_machine_is_spec. Qed.
Print Assumptions C03_v2_stream_machine_is_spec.

Example C03_ex_v2_machine :
  a_run toy_open 4 [] [x01] [x02] (fun i => 1 + i mod 3)
    (seipd2_enc toy_seal 4 [] [x01] [x02] [x61; x62; x63; x64; x65; x66; x67; x68; x69]) =
  ([x61; x62; x63; x64; x65; x66; x67; x68; x69], AClean).
Proof. vm_compute. reflexivity. Qed.

(* ---------------- packet 20 (GnuPG / LibrePGP OCB encrypted data), read when the caller opts in ----------------
   the same stream functions and the same machine, over the primitive as this container calls it: *)
Theorem C03_gnupg_primitive_calls :
  forall X (f : bytes -> bytes -> bytes -> bytes -> X) key iv sym aead cs i x, lenN iv >= 8 ->
    g_wrap f key (nonce_of iv i) (ginfo sym aead cs) x =
    f key (takeN (lenN iv - 8) iv ++ xor_bytes (dropN (lenN iv - 8) iv) (be64 i))
          ([xd4; x01; n2b sym; n2b aead; n2b cs] ++ be64 i) x.
Proof. intros X f. exact (g_wrap_calls f). Qed.
Print Assumptions C03_gnupg_primitive_calls.

Theorem C03_gnupg_roundtrip :
  forall seal open,
    (forall k n ad p, open k n ad (seal k n ad p) = Some p) ->
    (forall k n ad p, lenN (seal k n ad p) = lenN p + TAGLEN) ->
    forall sym aead cs key iv p, gnupg_dec open sym aead cs key iv (gnupg_enc seal sym aead cs key iv p) = Some p.
Proof. exact gnupg_roundtrip. Qed.
Print Assumptions C03_gnupg_roundtrip.

Theorem C03_gnupg_stream_refines :
  forall seal open,
    (forall k n ad p, open k n ad (seal k n ad p) = Some p) ->
    (forall k n ad p, lenN (seal k n ad p) = lenN p + TAGLEN) ->
    forall sym aead cs key iv ct out,
      gnupg_stream_dec open sym aead cs key iv ct = (out, true) -> gnupg_dec open sym aead cs key iv ct = Some out.
Proof. exact gnupg_stream_refines. Qed.
Print Assumptions C03_gnupg_stream_refines.

Theorem C03_gnupg_stream_machine_is_spec :
  forall open, (forall k n a x pt, open k n a x = Some pt -> lenN pt + TAGLEN = lenN x) ->
    forall sym aead cs key iv (req : N -> N) ct,
      gnupg_run open sym aead cs key iv req ct =
      (fst (gnupg_stream_dec open sym aead cs key iv ct), oc_of2 (snd (gnupg_stream_dec open sym aead cs key iv ct))).
Proof. exact gnupg_machine_is_spec. Qed.
Print Assumptions C03_gnupg_stream_machine_is_spec.
