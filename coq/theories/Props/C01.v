(* C01: message round trip -- what the builder emits, the reader returns unchanged. *)
From Coq Require Import List NArith Lia Bool.
From Rpgp Require Import Base.Octets Base.Res Frame.Framing Frame.FramingProofs Aead.Seipd2 Aead.Seipd2Proofs
  Sym.Cfb Sym.CfbProofs Armor.Base64 Armor.Armor Armor.ArmorProofs Key.Lock Msg.Pipeline Msg.PipelineProofs.
From Rpgp Require Import Io.Emitter Frame.PartialWriter Msg.SignGen Msg.SignGenProofs.
Import ListNotations.
Open Scope N_scope.

(* any payload, any stack of layers (any number, any order their domains allow) *)
Theorem C01_read_build : forall ls p, in_domain ls p -> read ls (build ls p) = Ok p.
Proof. exact read_build. Qed.
Print Assumptions C01_read_build.

(* the layers of RFC 9580, each for every payload *)
Theorem C01_literal_streamed : forall pre post hdr k, Forall framed pre -> Forall framed post ->
  9 <= k -> k <= 30 -> lenN hdr <= 2 ^ k ->
  forall p, literal_dec (length pre) (lenN hdr) (length post) (literal_enc pre post hdr k p) = Ok p.
Proof. exact literal_ok. Qed.
Print Assumptions C01_literal_streamed.

Theorem C01_literal_fixed : forall pre post hdr, Forall framed pre -> Forall framed post ->
  forall p, lenN hdr + lenN p < 4294967296 ->
  literal_dec (length pre) (lenN hdr) (length post) (literal_fixed_enc pre post hdr p) = Ok p.
Proof. exact literal_fixed_ok. Qed.
Print Assumptions C01_literal_fixed.

Theorem C01_compressed : forall comp decomp alg k, (forall x, decomp (comp x) = Some x) -> alg < 256 -> 9 <= k -> k <= 30 ->
  forall p, compressed_dec decomp alg (compressed_enc comp alg k p) = Ok p.
Proof. exact compressed_ok. Qed.
Print Assumptions C01_compressed.

Theorem C01_encrypted : forall esks hdr k enc dec, Forall framed esks -> (forall p, dec (enc p) = Ok p) ->
  9 <= k -> k <= 30 -> lenN hdr <= 2 ^ k ->
  forall p, encrypted_dec (length esks) hdr dec (encrypted_enc esks hdr k enc p) = Ok p.
Proof. exact encrypted_ok. Qed.
Print Assumptions C01_encrypted.

Theorem C01_armored : forall t hs ck, fixed_type t = true -> hdrs_ok hs = true ->
  forall p, armor_dec (armor_enc t hs ck p) = Ok p.
Proof. exact armor_ok. Qed.
Print Assumptions C01_armored.

(* one complete configuration, spelled out: signed (packets in front and behind), streamed literal,
   compressed, SEIPD v2 with session-key packets in front, armored -- for EVERY payload, every chunk
   exponent, every AEAD that opens what it sealed *)
Theorem C01_full_stack :
  forall (ops sigs : list bytes) (lit_hdr : bytes) (k : N)
         (comp : bytes -> bytes) (decomp : bytes -> option bytes) (calg : N)
         (esks : list bytes) (seal : bytes -> bytes -> bytes -> bytes -> bytes)
         (open : bytes -> bytes -> bytes -> bytes -> option bytes)
         (c : N) (key iv info ehdr : bytes) (t : btype) (hs : list (bytes * bytes)) (ck : bool),
  Forall framed ops -> Forall framed sigs -> Forall framed esks -> 9 <= k -> k <= 30 ->
  lenN lit_hdr <= 2 ^ k -> lenN ehdr <= 2 ^ k ->
  (forall x, decomp (comp x) = Some x) -> calg < 256 ->
  (forall kk n ad p, open kk n ad (seal kk n ad p) = Some p) ->
  (forall kk n ad p, lenN (seal kk n ad p) = lenN p + TAGLEN) -> 1 <= c ->
  fixed_type t = true -> hdrs_ok hs = true ->
  forall payload,
    let message :=
      armor_enc t hs ck
        (encrypted_enc esks ehdr k (seipd2_enc seal c key iv info)
          (compressed_enc comp calg k
            (literal_enc ops sigs lit_hdr k payload))) in
    match armor_dec message with
    | Ok m1 =>
        match encrypted_dec (length esks) ehdr (fun ct => res_of_option (seipd2_dec open c key iv info ct)) m1 with
        | Ok m2 =>
            match compressed_dec decomp calg m2 with
            | Ok m3 => literal_dec (length ops) (lenN lit_hdr) (length sigs) m3 = Ok payload
            | _ => False
            end
        | _ => False
        end
    | _ => False
    end.
Proof. exact full_stack. Qed.
Print Assumptions C01_full_stack.

(* the writing side of a signed, streamed message as the staged producer the code is: one-pass packets one
   at a time, the literal packet passed through from the streamed writer while everything the writer takes
   from the source goes to the hashers, the signature packets only after the writer's end.  Whatever sizes
   the consumer reads with, it receives the one-pass packets, the literal packet emit_partial(payload), and
   the signature packets computed over the WHOLE payload ([sigs_of] = any function of the hashed octets) *)
Theorem C01_sign_generator_machine_is_spec :
  forall k h (sigs_of : bytes -> list bytes), lenN h < 2 ^ k ->
    forall (req : N -> N) ops data,
      sg_run k h sigs_of req ops data =
      (concat ops ++ emit_partial 11 k h data ++ concat (sigs_of data), EClean).
Proof. exact sg_machine_is_spec. Qed.
Print Assumptions C01_sign_generator_machine_is_spec.
