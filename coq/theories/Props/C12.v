(* Props/C12.v -- C12: symmetric and KDF constructions match RFC 9580.
   The constructions are transcribed from the RFC in Kdf/Kdf.v, Sym/Cfb.v,
   Aead/Seipd2.v over abstract primitives; conformance of the library is decided
   by comparing it with these (byte equality / two-way interop).  The theorems
   here are the structural facts about the constructions themselves. *)
From Rpgp Require Import Base.Octets Base.Res Sym.Cfb Sym.CfbProofs Aead.Seipd2 Aead.Seipd2Proofs Kdf.Kdf Kdf.KdfProofs.
From Rpgp Require Import Io.Emitter Sym.Seipd1EncMachine Sym.Seipd1EncMachineProofs Aead.Seipd2EncMachine Aead.Seipd2EncMachineProofs.

(* coded S2K count: shift form of the code = arithmetic form, all 256 values *)
Theorem C12_count_decode :
  forall c, c < 256 ->
    decode_count c = N.shiftl (16 + N.land c 15) (N.shiftr c 4 + 6) /\
    1024 <= decode_count c <= 65011712.
Proof. exact decode_count_spec. Qed.
Print Assumptions C12_count_decode.

(* the loop of the code hashes exactly what the RFC prescribes: max(count,
   |salt+pw|) octets of the repeated salt+password, after j zero octets *)
Theorem C12_s2k_loop_is_take_cycle :
  forall h coded salt pw j,
    zeros_n j ++ s2k_iterated_code coded salt pw = s2k_preimage (S2kIterated h salt coded) pw j.
Proof. exact s2k_iterated_code_is_spec. Qed.
Print Assumptions C12_s2k_loop_is_take_cycle.

Theorem C12_take_cycle_length :
  forall fuel n d, 1 <= lenN d -> n / lenN d < N.of_nat fuel -> lenN (take_cycle fuel n d) = n.
Proof. exact take_cycle_length. Qed.
Print Assumptions C12_take_cycle_length.

(* OpenPGP CFB: decryption inverts encryption for every length *)
Theorem C12_cfb_dec_enc :
  forall E bs, 1 <= bs -> (forall x, lenN (E x) = bs) ->
    forall iv p, cfb_dec E bs iv (cfb_enc E bs iv p) = p.
Proof. exact cfb_dec_enc. Qed.
Print Assumptions C12_cfb_dec_enc.

(* SEIPDv1: length of the protected stream (encrypted_protected_len) *)
Theorem C12_seipd1_len :
  forall E bs sha1 prefix data,
    1 <= bs -> (forall x, lenN (E x) = bs) -> (forall x, lenN (sha1 x) = 20) -> lenN prefix = bs + 2 ->
    lenN (seipd1_enc E bs sha1 prefix data) = lenN data + bs + 2 + 22.
Proof. exact seipd1_enc_length. Qed.
Print Assumptions C12_seipd1_len.

(* AES key wrap (RFC 3394): unwrap inverts wrap *)
Theorem C12_aeskw_roundtrip :
  forall E D, (forall b, lenN b = 16 -> D (E b) = b) -> (forall b, lenN (E b) = 16) ->
    forall data c, kw_wrap E data = Ok c -> kw_unwrap D c = Ok data.
Proof. exact kw_unwrap_wrap. Qed.
Print Assumptions C12_aeskw_roundtrip.

(* ECDH padding: unpad inverts pad for every non-empty session-key plaintext *)
Theorem C12_ecdh_unpad_pad : forall p, 1 <= lenN p -> ecdh_unpad (ecdh_pad p) = Ok p.
Proof. exact ecdh_unpad_pad. Qed.
Print Assumptions C12_ecdh_unpad_pad.

(* SEIPDv2 round trip (shared with C03) *)
Theorem C12_seipd2_roundtrip :
  forall seal open,
    (forall k n ad p, open k n ad (seal k n ad p) = Some p) ->
    (forall k n ad p, lenN (seal k n ad p) = lenN p + TAGLEN) ->
    forall c key iv info p, 1 <= c ->
      seipd2_dec open c key iv info (seipd2_enc seal c key iv info p) = Some p.
Proof. exact seipd2_roundtrip. Qed.
Print Assumptions C12_seipd2_roundtrip.

(* non-vacuity *)
Example C12_ex_count : decode_count 0 = 1024 /\ decode_count 96 = 65536 /\ decode_count 255 = 65011712.
Proof. repeat split; reflexivity. Qed.
Example C12_ex_kw :
  kw_unwrap (fun b => b) (match kw_wrap (fun b => b) (repeat x07 16) with Ok c => c | _ => [] end) = Ok (repeat x07 16).
Proof. vm_compute. reflexivity. Qed.
Example C12_ex_pad : ecdh_pad (repeat x01 19) = repeat x01 19 ++ repeat x05 5.
Proof. vm_compute. reflexivity. Qed.

(* the SEIPD v1 stream encryptor as the staged producer the code is (octet-wise BufEncryptor; encrypted
   prefix, 8192-octet buffers hashed and encrypted, encrypted MDC packet; read() with any request sizes):
   what the consumer receives is the RFC construction seipd1_enc, followed by a clean end *)
Theorem C12_v1_bufencryptor_is_cfb :
  forall E bs, 1 <= bs -> (forall x, lenN (E x) = bs) ->
    forall iv p, snd (be_run E bs (be_init E iv) p) = cfb_enc E bs iv p.
Proof. exact be_run_is_cfb_enc. Qed.
Print Assumptions C12_v1_bufencryptor_is_cfb.

Theorem C12_v1_stream_encryptor_machine_is_spec :
  forall E bs sha1, 1 <= bs -> (forall x, lenN (E x) = bs) ->
    forall (req : N -> N) prefix data,
      enc_run E bs sha1 req prefix data = (seipd1_enc E bs sha1 prefix data, EClean).
Proof. exact enc_machine_is_spec. Qed.
Print Assumptions C12_v1_stream_encryptor_machine_is_spec.

Example C12_ex_v1_enc_machine :
  enc_run (fun x => repeat x5a 8) 8 (fun x => repeat x11 20) (fun i => 1 + i mod 4) (repeat x07 10) [x61; x62; x63] =
  (seipd1_enc (fun x => repeat x5a 8) 8 (fun x => repeat x11 20) (repeat x07 10) [x61; x62; x63], EClean).
Proof. vm_compute. reflexivity. Qed.

(* the SEIPD v2 stream encryptor likewise: one chunk sealed per refill under the running index, the final
   tag with the octet count; read() with any request sizes delivers seipd2_enc *)
Theorem C12_v2_stream_encryptor_machine_is_spec :
  forall seal c key iv info, 1 <= c ->
    forall (req : N -> N) p,
      a2_run seal c key iv info req p = (seipd2_enc seal c key iv info p, EClean).
Proof. exact a2_machine_is_spec. Qed.
Print Assumptions C12_v2_stream_encryptor_machine_is_spec.

(* (the code's read() does not loop over empty refills; there are none) *)
Theorem C12_v2_encryptor_no_empty_refill :
  forall seal c key iv info, 1 <= c ->
    (forall k n a p, lenN (seal k n a p) = lenN p + TAGLEN) ->
    forall st b st', a2_advance seal c key iv info st = Some (b, st') -> b <> [].
Proof. exact stage_never_empty. Qed.
Print Assumptions C12_v2_encryptor_no_empty_refill.
