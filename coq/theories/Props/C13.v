(* Props/C13.v -- C13: fingerprints and key ids are the RFC-defined hashes. *)
From Rpgp Require Import Base.Octets Base.Res Sig.Preimage Sig.PreimageProofs Sig.Fingerprint Rules.Identity Rules.IdentityProofs.

(* the fingerprint pre-image is a function of the public key packet body only
   (the same for the secret key, its public half and any re-parsed copy that
   serialises to the same body), and it is the framing signatures use *)
Theorem C13_frame_matches_sig :
  forall kv body sigv, fp_preimage kv body = subject_bytes sigv (SKey kv body).
Proof. exact fp_frame_is_sig_frame. Qed.
Print Assumptions C13_frame_matches_sig.

(* the pre-image determines the key body: two keys of the same version class
   with the same pre-image have the same public octets *)
Theorem C13_preimage_determines_body :
  forall kv b kv' b',
    (kv = 6 -> lenN b < 4294967296) -> (kv <> 6 -> lenN b < 65536) ->
    (kv' = 6 -> lenN b' < 4294967296) -> (kv' <> 6 -> lenN b' < 65536) ->
    fp_preimage kv b = fp_preimage kv' b' -> b = b'.
Proof.
  intros kv b kv' b' H1 H2 H3 H4 H. unfold fp_preimage in H.
  rewrite <- (app_nil_r (key_frame kv b)), <- (app_nil_r (key_frame kv' b')) in H.
  apply key_frame_inj in H; auto. apply H.
Qed.
Print Assumptions C13_preimage_determines_body.

Theorem C13_keyid_len :
  forall kv fp, 8 <= lenN fp -> lenN (keyid kv fp) = 8.
Proof. exact keyid_len. Qed.
Print Assumptions C13_keyid_len.

Theorem C13_keyid_v3_len : forall n, lenN (keyid_v3 n) = 8.
Proof. exact keyid_v3_len. Qed.
Print Assumptions C13_keyid_v3_len.

(* the lookup side (Signature::match_identity, PKESK::match_identity): exactly which keys a signature names *)
Theorem C13_signature_names_exactly :
  forall kids fps kid fp,
    sig_match kids fps kid fp = true <-> (kids = [] /\ fps = []) \/ In kid kids \/ In fp fps.
Proof. exact sig_match_exact. Qed.
Print Assumptions C13_signature_names_exactly.
(* what the library embeds (the issuing key's own key id / fingerprint, C13 harness "embedded" and "issuing") is found again *)
Theorem C13_embedded_issuer_is_found :
  forall kids fps kid fp, In kid kids \/ In fp fps -> sig_match kids fps kid fp = true.
Proof. intros kids fps kid fp [H|H]; [apply sig_match_own_kid|apply sig_match_own_fp]; exact H. Qed.
Print Assumptions C13_embedded_issuer_is_found.
Theorem C13_foreign_issuer_is_not_matched :
  forall kids fps kid fp, (kids <> [] \/ fps <> []) -> ~ In kid kids -> ~ In fp fps -> sig_match kids fps kid fp = false.
Proof. exact sig_match_foreign. Qed.
Print Assumptions C13_foreign_issuer_is_not_matched.
(* PKESK: the recipient field written for a key is matched to it; a named packet to no key with another id / fingerprint *)
Theorem C13_esk_names_recipient :
  forall kid fp, esk_match (TKeyId kid) kid fp = true /\ esk_match (TFp (Some fp)) kid fp = true /\
                 esk_match (TKeyId (repeat x00 8)) kid fp = true /\ esk_match (TFp None) kid fp = true.
Proof. intros kid fp. repeat split; [apply esk_match_own_kid|apply esk_match_own_fp]. Qed.
Print Assumptions C13_esk_names_recipient.
Theorem C13_esk_names_nobody_else :
  forall id f kid fp, (is_wildcard id = false -> id <> kid -> esk_match (TKeyId id) kid fp = false) /\
                      (f <> fp -> esk_match (TFp (Some f)) kid fp = false).
Proof. intros id f kid fp. split; [apply esk_match_foreign_kid|apply esk_match_foreign_fp]. Qed.
Print Assumptions C13_esk_names_nobody_else.
Example C13_ex :
  keyid 4 (repeat x01 12 ++ repeat x02 8) = repeat x02 8 /\ keyid 6 (repeat x03 8 ++ repeat x04 24) = repeat x03 8
  /\ keyid_v3 [x05; x06] = repeat x00 6 ++ [x05; x06].
Proof. repeat split; reflexivity. Qed.
