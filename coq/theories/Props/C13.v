(* Props/C13.v -- C13: fingerprints and key ids are the RFC-defined hashes. *)
From Rpgp Require Import Base.Octets Base.Res Sig.Preimage Sig.PreimageProofs Sig.Fingerprint.

(* the fingerprint pre-image is a function of the public key packet body only
   (the same for the secret key, its public half and any re-parsed copy that
   serialises to the same body), and it is the framing signatures use *)
Theorem C13_frame_matches_sig :
  forall kv body sigv, fp_preimage kv body = subject_bytes sigv (SKey kv body).
Proof. exact fp_frame_is_sig_frame. Qed.
Print Assumptions C13_frame_matches_sig.

(* the pre-image determines the key body: two keys of the same version class
   with the same pre-image have the same public octets *)
Theorem C13_preimage_determines_body :
  forall kv b kv' b',
    (kv = 6 -> lenN b < 4294967296) -> (kv <> 6 -> lenN b < 65536) ->
    (kv' = 6 -> lenN b' < 4294967296) -> (kv' <> 6 -> lenN b' < 65536) ->
    fp_preimage kv b = fp_preimage kv' b' -> b = b'.
Proof.
  intros kv b kv' b' H1 H2 H3 H4 H. unfold fp_preimage in H.
  rewrite <- (app_nil_r (key_frame kv b)), <- (app_nil_r (key_frame kv' b')) in H.
  apply key_frame_inj in H; auto. apply H.
Qed.
Print Assumptions C13_preimage_determines_body.

Theorem C13_keyid_len :
  forall kv fp, 8 <= lenN fp -> lenN (keyid kv fp) = 8.
Proof. exact keyid_len. Qed.
Print Assumptions C13_keyid_len.

Theorem C13_keyid_v3_len : forall n, lenN (keyid_v3 n) = 8.
Proof. exact keyid_v3_len. Qed.
Print Assumptions C13_keyid_v3_len.

Example C13_ex :
  keyid 4 (repeat x01 12 ++ repeat x02 8) = repeat x02 8 /\ keyid 6 (repeat x03 8 ++ repeat x04 24) = repeat x03 8
  /\ keyid_v3 [x05; x06] = repeat x00 6 ++ [x05; x06].
Proof. repeat split; reflexivity. Qed.
