(* Props/C11.v -- C11: the digest handed to the public-key primitive is the
   hash of the RFC 9580 5.2.4 pre-image.  [preimage] is transcribed from the
   RFC; the library is compared with it (digest equality on both the sign and
   the verify path).  The theorems are about the pre-image itself. *)
From Rpgp Require Import Base.Octets Base.Res Text.Canon Sig.Preimage Sig.PreimageProofs.

(* shape: salt (v6 only) first, then the subject, then the hashed fields with a
   2-octet (v4) / 4-octet (v6) area length, then the trailer counting exactly
   the hashed fields *)
Theorem C11_shape :
  forall v typ pka ha hashed salt s,
    preimage v typ pka ha hashed salt s =
    (if v =? 6 then salt else []) ++ subject_bytes v s ++
    ([n2b v; n2b typ; n2b pka; n2b ha] ++ (if v =? 6 then be32 (lenN hashed) else be16 (lenN hashed)) ++ hashed) ++
    [n2b v; xff] ++ be32 ((4 + (if v =? 6 then 4 else 2) + lenN hashed) mod 4294967296).
Proof.
  intros. unfold preimage, sig_trailer. rewrite sig_fields_len. reflexivity.
Qed.
Print Assumptions C11_shape.

(* keys are framed 0x99 + 2-octet length (key version <= 4) or 0x9B + 4-octet
   length (version 6); user ids / attributes get 0xB4 / 0xD1 + 4-octet length *)
Theorem C11_key_and_id_framing :
  forall kv kb idtag id,
    subject_bytes 4 (SKeyId kv kb idtag id) =
    (if kv =? 6 then x9b :: be32 (lenN kb) ++ kb else x99 :: be16 (lenN kb) ++ kb) ++
    (if idtag =? 13 then xb4 else xd1) :: be32 (lenN id) ++ id.
Proof. intros. reflexivity. Qed.
Print Assumptions C11_key_and_id_framing.

(* the pre-image is unambiguous: it determines version, type, algorithms,
   hashed area, salt and the subject octets (parsing from the trailer back) *)
Theorem C11_preimage_injective :
  forall v typ pka ha hashed salt s v' typ' pka' ha' hashed' salt' s',
    params_ok v ha hashed salt -> params_ok v' ha' hashed' salt' ->
    typ < 256 -> typ' < 256 -> pka < 256 -> pka' < 256 ->
    preimage v typ pka ha hashed salt s = preimage v' typ' pka' ha' hashed' salt' s' ->
    v = v' /\ typ = typ' /\ pka = pka' /\ ha = ha' /\ hashed = hashed' /\ salt = salt' /\
    subject_bytes v s = subject_bytes v' s'.
Proof. exact preimage_injective. Qed.
Print Assumptions C11_preimage_injective.

(* and the subject octets determine the subject: a document (up to line-ending canonicalisation in
   text mode), a key with a user id or attribute, a pair of keys -- so two different signed objects
   never share a pre-image *)
Theorem C11_subject_document_determined :
  forall sigv tm d d',
    subject_bytes sigv (SDoc tm d) = subject_bytes sigv (SDoc tm d') ->
    if tm then canon d = canon d' else d = d'.
Proof. exact subject_doc_inj. Qed.
Print Assumptions C11_subject_document_determined.

Theorem C11_subject_key_and_id_determined :
  forall sigv kv kb idtag id kv' kb' idtag' id',
    4 <= sigv ->
    (kv = 6 -> lenN kb < 4294967296) -> (kv <> 6 -> lenN kb < 65536) ->
    (kv' = 6 -> lenN kb' < 4294967296) -> (kv' <> 6 -> lenN kb' < 65536) ->
    lenN id < 4294967296 -> lenN id' < 4294967296 ->
    subject_bytes sigv (SKeyId kv kb idtag id) = subject_bytes sigv (SKeyId kv' kb' idtag' id') ->
    (kv =? 6) = (kv' =? 6) /\ kb = kb' /\ id_prefix idtag = id_prefix idtag' /\ id = id'.
Proof. exact subject_keyid_inj. Qed.
Print Assumptions C11_subject_key_and_id_determined.

Theorem C11_subject_key_pair_determined :
  forall sigv kv1 b1 kv2 b2 kv1' b1' kv2' b2',
    (kv1 = 6 -> lenN b1 < 4294967296) -> (kv1 <> 6 -> lenN b1 < 65536) ->
    (kv1' = 6 -> lenN b1' < 4294967296) -> (kv1' <> 6 -> lenN b1' < 65536) ->
    (kv2 = 6 -> lenN b2 < 4294967296) -> (kv2 <> 6 -> lenN b2 < 65536) ->
    (kv2' = 6 -> lenN b2' < 4294967296) -> (kv2' <> 6 -> lenN b2' < 65536) ->
    subject_bytes sigv (SKeys kv1 b1 kv2 b2) = subject_bytes sigv (SKeys kv1' b1' kv2' b2') ->
    b1 = b1' /\ b2 = b2'.
Proof. exact subject_keys_inj. Qed.
Print Assumptions C11_subject_key_pair_determined.

(* v3 signatures hash the user id bare: the v4 framing octets are absent (the difference a reader must honour) *)
Theorem C11_v3_id_is_hashed_bare :
  forall kv kb idtag id typ created,
    preimage_v3 typ created (SKeyId kv kb idtag id) = key_frame kv kb ++ id ++ [n2b typ] ++ be32 created.
Proof. intros. unfold preimage_v3. cbn [subject_bytes]. replace (4 <=? 3) with false by reflexivity. rewrite <- !app_assoc. reflexivity. Qed.
Print Assumptions C11_v3_id_is_hashed_bare.

(* non-vacuity *)
Example C11_ex_params : params_ok 6 8 [x05; x02; x00; x00; x00; x00] (repeat x07 16).
Proof. unfold params_ok. repeat split; intros; try discriminate; try reflexivity; auto. Qed.
Example C11_ex_preimage :
  preimage 4 0 22 8 [] [] (SDoc false [x61]) = [x61; x04; x00; x16; x08; x00; x00; x04; xff; x00; x00; x00; x06].
Proof. reflexivity. Qed.
