(* Props/C17.v -- C17: packet framing: the reader accepts every legal framing,
   the writer emits only legal framings.  Statements only. *)
From Rpgp Require Import Base.Octets Base.Res Frame.Framing Frame.FramingProofs Frame.BodyReader Frame.BodyReaderProofs Io.Emitter Frame.PartialWriter Frame.PartialWriterProofs Frame.FixedWriter Frame.FixedWriterProofs Frame.Rewrite Frame.RewriteProofs.

(* every legal current-format framing of a body -- any length class for the
   final piece, any sequence of partial chunks 2^k (k <= 30, first k >= 9,
   data packets only) -- is read back as exactly that body, and the reader
   stops exactly at the end of the packet *)
Theorem C17_reader_accepts_legal_new :
  forall tag ks c body rest,
    legal_new tag ks c body = true ->
    deframe (frame_new tag ks c body ++ rest) =
    Ok ({| hf := HNew; htag := tag; hlen := first_len ks c body |}, body, rest).
Proof. exact deframe_frame_new. Qed.
Print Assumptions C17_reader_accepts_legal_new.

(* legacy format: 1-, 2-, 4-octet and indeterminate lengths *)
Theorem C17_reader_accepts_legal_old :
  forall tag lt body rest,
    legal_old tag lt body = true -> (lt = 3 -> rest = []) ->
    deframe (frame_old tag lt body ++ rest) =
    Ok ({| hf := HOld; htag := tag; hlen := if lt =? 3 then PIndet else PFixed (lenN body) |},
        body, rest).
Proof. exact deframe_frame_old. Qed.
Print Assumptions C17_reader_accepts_legal_old.

(* illegal framings are rejected *)
Theorem C17_rejects_partial_on_non_data_packet :
  forall b h r n,
    dec_header b = Ok (h, r) -> hlen h = PPartial n -> data_tag (htag h) = false ->
    deframe b = Err.
Proof. exact deframe_rejects_partial_nondata. Qed.
Print Assumptions C17_rejects_partial_on_non_data_packet.

Theorem C17_rejects_first_partial_under_512 :
  forall b h r n,
    dec_header b = Ok (h, r) -> hlen h = PPartial n -> n < 512 -> deframe b = Err.
Proof. exact deframe_rejects_short_first_partial. Qed.
Print Assumptions C17_rejects_first_partial_under_512.

Theorem C17_rejects_body_shorter_than_declared :
  forall b h r n,
    dec_header b = Ok (h, r) -> (hlen h = PFixed n \/ hlen h = PPartial n) -> lenN r < n ->
    deframe b = Err.
Proof.
  intros b h r n H1 [H2|H2] H3;
    [exact (deframe_rejects_short_fixed b h r n H1 H2 H3)
    |exact (deframe_rejects_short_partial b h r n H1 H2 H3)].
Qed.
Print Assumptions C17_rejects_body_shorter_than_declared.

(* length encodings: decode . encode = id in every class, thresholds exact *)
Theorem C17_len_roundtrip :
  forall n r, n < 4294967296 -> dec_new_len (enc_new_len n ++ r) = Ok (PFixed n, r).
Proof. exact dec_enc_new_len. Qed.
Print Assumptions C17_len_roundtrip.

Theorem C17_len_any_class :
  forall c n r, cls_ok c n = true -> dec_new_len (enc_fixed c n ++ r) = Ok (PFixed n, r).
Proof. exact dec_enc_fixed. Qed.
Print Assumptions C17_len_any_class.

Theorem C17_partial_len_roundtrip :
  forall k r, k <= 30 -> dec_new_len (enc_partial k ++ r) = Ok (PPartial (2 ^ k), r).
Proof. exact dec_enc_partial. Qed.
Print Assumptions C17_partial_len_roundtrip.

Theorem C17_header_len :
  forall tag n, lenN (enc_header_new tag n) = header_len_new n /\
                lenN (enc_header_old tag n) = header_len_old n.
Proof. intros tag n. split; [exact (length_enc_header_new tag n) | exact (length_enc_header_old tag n)]. Qed.
Print Assumptions C17_header_len.

Theorem C17_thresholds :
  fixed_encoding_len 191 = 1 /\ fixed_encoding_len 192 = 2 /\
  fixed_encoding_len 8383 = 2 /\ fixed_encoding_len 8384 = 5 /\
  header_len_old 255 = 2 /\ header_len_old 256 = 3 /\
  header_len_old 65535 = 3 /\ header_len_old 65536 = 5.
Proof. exact thresholds. Qed.
Print Assumptions C17_thresholds.

(* the partial-body emitter shared by the literal, compressed and encrypted
   writers produces, for every data length, a legal framing of header ++ data
   (so the first partial length is the chunk size, never "chunk - header") *)
Theorem C17_writer_legal :
  forall tag k h data,
    data_tag tag = true -> 9 <= k -> k <= 30 -> lenN h <= 2 ^ k ->
    exists ks c, emit_partial tag k h data = frame_new tag ks c (h ++ data)
                 /\ legal_new tag ks c (h ++ data) = true.
Proof. exact emit_partial_is_legal_frame. Qed.
Print Assumptions C17_writer_legal.

Theorem C17_writer_reads_back :
  forall tag k h data rest,
    data_tag tag = true -> 9 <= k -> k <= 30 -> lenN h <= 2 ^ k ->
    exists l, deframe (emit_partial tag k h data ++ rest) =
              Ok ({| hf := HNew; htag := tag; hlen := l |}, h ++ data, rest).
Proof. exact deframe_emit_partial. Qed.
Print Assumptions C17_writer_reads_back.

Theorem C17_fixed_writer_reads_back :
  forall tag h data rest,
    tag < 64 -> lenN h + lenN data < 4294967296 ->
    deframe (emit_fixed tag h data ++ rest) =
    Ok ({| hf := HNew; htag := tag; hlen := PFixed (lenN h + lenN data) |}, h ++ data, rest).
Proof. exact deframe_emit_fixed. Qed.
Print Assumptions C17_fixed_writer_reads_back.

(* accepted input is fully accounted for: body and rest together are strictly
   shorter than what followed a partial chunk (no octet is invented) *)
Theorem C17_partial_tail_accounts :
  forall fuel b x rest, partial_tail fuel b = Ok (x, rest) -> lenN x + lenN rest < lenN b.
Proof. exact partial_tail_accounts. Qed.
Print Assumptions C17_partial_tail_accounts.

(* non-vacuity *)
Example C17_ex_legal :
  legal_new 11 [9; 0; 1] L1 (repeat x41 (512 + 1 + 2 + 3)) = true /\
  legal_old 6 1 (repeat x00 300) = true.
Proof. split; vm_compute; reflexivity. Qed.
Example C17_ex_emit :
  deframe (emit_partial 11 9 [x62; x00; x00; x00; x00; x00] (repeat x41 1100) ++ [x07]) =
  Ok ({| hf := HNew; htag := 11; hlen := PPartial 512 |},
      [x62; x00; x00; x00; x00; x00] ++ repeat x41 1100, [x07]).
Proof. vm_compute. reflexivity. Qed.

(* PacketBodyReader as the machine it is (8192-octet buffer, Take-limited source, the next partial
   length parsed when a chunk runs out): for every sequence of request sizes it hands out exactly
   the body that `deframe` specifies and leaves the source at the octets behind the packet ... *)
Theorem C17_deframe_is_header_then_body : forall b,
  deframe b =
  match dec_header b with
  | Ok (h, r) => match body_spec h r with Ok (x, rest) => Ok (h, x, rest) | Err => Err | Panic => Panic end
  | Err => Err
  | Panic => Panic
  end.
Proof. exact deframe_body. Qed.
Print Assumptions C17_deframe_is_header_then_body.

Theorem C17_body_reader_machine_accepts : forall (req : N -> N) h r x rest,
  body_spec h r = Ok (x, rest) -> br_run req h r = (x, BrClean, rest).
Proof. exact br_machine_accepts. Qed.
Print Assumptions C17_body_reader_machine_accepts.

(* ... and where `deframe` refuses (body shorter than declared, partial lengths on a non-data packet,
   first partial chunk under 512, a chunk that ends in the middle) the machine never ends cleanly *)
Theorem C17_body_reader_machine_rejects : forall (req : N -> N) h r,
  body_spec h r = Err -> exists o rest, br_run req h r = (o, BrFailed, rest).
Proof. exact br_machine_rejects. Qed.
Print Assumptions C17_body_reader_machine_rejects.

Example C17_ex_machine :
  br_run (fun i => 1 + i) {| hf := HNew; htag := 11; hlen := PPartial 512 |}
    (repeat x61 512 ++ [xe0] ++ [x62] ++ [x02] ++ [x63; x64] ++ [x99]) =
  (repeat x61 512 ++ [x62; x63; x64], BrClean, [x99]).
Proof. vm_compute. reflexivity. Qed.

(* the streamed literal-data writer as the staged producer it is (one serialised piece per refill; tag,
   length and literal header in the first, a length only in the later ones; read() with any request
   sizes): the consumer receives exactly emit_partial -- which C17_writer_legal / C17_writer_reads_back
   show to be a legal framing that reads back *)
Theorem C17_partial_writer_machine_is_spec :
  forall tag k h, lenN h < 2 ^ k ->
    forall (req : N -> N) data, pw_run tag k h req data = (emit_partial tag k h data, EClean).
Proof. exact pw_machine_is_spec. Qed.
Print Assumptions C17_partial_writer_machine_is_spec.

(* (the code's read() does not loop over empty refills; there are none) *)
Theorem C17_partial_writer_no_empty_refill :
  forall tag k h s b s', pw_advance tag k h s = Some (b, s') -> b <> [].
Proof. exact piece_never_empty. Qed.
Print Assumptions C17_partial_writer_no_empty_refill.

(* the literal writer for a source of known length (LiteralDataFixedGenerator: the serialised header handed out from where the
   last read stopped, then the source) delivers the fixed-length framing for every sequence of request sizes *)
Theorem C17_fixed_writer_machine_is_spec : forall tag h (req : N -> N) data,
  fw_run tag h req data = (emit_fixed tag h data, EClean).
Proof. exact fw_machine_is_spec. Qed.
Print Assumptions C17_fixed_writer_machine_is_spec.

(* writing a packet that was read: whatever header it was read behind (any format, any length form, partial lengths), what is
   written is a legal framing of the body now held, of the same format and tag, with a fixed length (a legacy header of
   indeterminate length stays one) ... *)
Theorem C17_rewritten_packet_is_legally_framed : forall h body rest,
  tag_fits h = true -> lenN body < 4294967296 -> (hlen h = PIndet -> hf h = HOld /\ rest = []) ->
  exists h', deframe (rewrite h body ++ rest) = Ok (h', body, rest) /\ hf h' = hf h /\ htag h' = htag h /\
             (hlen h <> PIndet -> hlen h' = PFixed (lenN body)).
Proof. exact rewrite_deframes. Qed.
Print Assumptions C17_rewritten_packet_is_legally_framed.

(* ... and reading that back and writing it once more gives the same octets *)
Theorem C17_rewrite_is_a_fixed_point : forall h h' body,
  hf h' = hf h -> htag h' = htag h -> (hlen h = PIndet <-> hlen h' = PIndet) -> rewrite h' body = rewrite h body.
Proof. exact rewrite_fixed_point. Qed.
Print Assumptions C17_rewrite_is_a_fixed_point.
