(* C09: streaming is transparent -- results independent of I/O fragmentation and faults. *)
From Coq Require Import List NArith Lia Bool.
From Rpgp Require Import Base.Octets Base.Res Sym.Cfb Sym.Seipd1Machine Sym.Seipd1MachineProofs Frame.Framing Frame.BodyReader Frame.BodyReaderProofs Aead.Seipd2 Aead.Seipd2Machine Aead.Seipd2MachineProofs Io.Emitter Io.EmitterProofs Sym.Seipd1EncMachine Sym.Seipd1EncMachineProofs.
From Rpgp Require Import Msg.ReadEnd Msg.ReadEndProofs Io.Utf8Check Io.Utf8CheckProofs Io.CrLfCheck Io.CrLfCheckProofs Io.Reassemble Io.ReassembleProofs Io.Fill Io.FillProofs Armor.Base64 Armor.LineWriter Armor.LineWriterProofs Armor.B64Reader Armor.B64ReaderProofs.
Import ListNotations.
Open Scope N_scope.

Theorem C09_fill_transparent : forall evs need acc, faultless evs = true -> proper evs = true ->
  let '(r, rest) := fill evs need acc in
  r = Ok (acc ++ takeN need (data_of evs)) /\ data_of rest = dropN need (data_of evs)
  /\ faultless rest = true /\ proper rest = true.
Proof. exact fill_transparent. Qed.
Print Assumptions C09_fill_transparent.

Theorem C09_fill_surfaces_fault : forall evs need acc, proper evs = true -> faultless evs = false ->
  lenN (before_fault evs) < need -> fst (fill evs need acc) = Err.
Proof. exact fill_surfaces_fault. Qed.
Print Assumptions C09_fill_surfaces_fault.

Theorem C09_serve_transparent : forall reqs out, concat (serve out reqs) = takeN (sumN reqs) out.
Proof. exact serve_transparent. Qed.
Print Assumptions C09_serve_transparent.

Theorem C09_pump_schedule_independent : forall b g, 1 <= b -> forall fuel evs,
  faultless evs = true -> proper evs = true ->
  pump fuel b g evs = Ok (concat (map g (blocks fuel b (data_of evs)))).
Proof. exact pump_schedule_independent. Qed.
Print Assumptions C09_pump_schedule_independent.

Theorem C09_pump_same_for_all_schedules : forall b g fuel evs1 evs2, 1 <= b ->
  faultless evs1 = true -> proper evs1 = true -> faultless evs2 = true -> proper evs2 = true ->
  data_of evs1 = data_of evs2 -> pump fuel b g evs1 = pump fuel b g evs2.
Proof. exact pump_same_for_all_schedules. Qed.
Print Assumptions C09_pump_same_for_all_schedules.

(* a concrete stateful writer: the line wrapper of the armor writer emits the same octets however
   the data is cut into write() calls *)
Theorem C09_line_writer_is_wrap : forall w, 1 <= w -> forall chunks,
  lw_run w chunks = wrap w (concat chunks).
Proof. exact lw_run_is_wrap. Qed.
Print Assumptions C09_line_writer_is_wrap.

Theorem C09_line_writer_chunking_independent : forall w, 1 <= w -> forall c1 c2,
  concat c1 = concat c2 -> lw_run w c1 = lw_run w c2.
Proof. exact lw_run_chunking_independent. Qed.
Print Assumptions C09_line_writer_chunking_independent.

(* and a concrete stateful reader: the base64 character filter of the armor reader *)
Theorem C09_b64_reader_is_whole : forall pieces s,
  b64r_run s pieces = fst (b64r_piece s (concat pieces)).
Proof. exact b64r_run_is_whole. Qed.
Print Assumptions C09_b64_reader_is_whole.

(* and a stateful decrypting reader: the SEIPD v1 stream decryptor (8192-octet buffer, 22 octets
   held back) hands out the same octets and ends the same way whatever sizes the consumer asks for *)
Theorem C09_v1_decryptor_request_independent :
  forall E bs sha1, 1 <= bs -> (forall x, lenN (E x) = bs) ->
    forall mode (req1 req2 : N -> N) ct,
      run_machine E bs sha1 mode req1 ct = run_machine E bs sha1 mode req2 ct.
Proof. exact machine_request_independent. Qed.
Print Assumptions C09_v1_decryptor_request_independent.

(* the packet body reader: the body handed out, the way it ends and the octets left in the source
   do not depend on the sizes the consumer asks for *)
Theorem C09_body_reader_request_independent : forall (req1 req2 : N -> N) h r,
  body_spec h r <> Err -> br_run req1 h r = br_run req2 h r.
Proof. exact br_request_independent. Qed.
Print Assumptions C09_body_reader_request_independent.

(* the SEIPD v2 stream decryptor likewise *)
Theorem C09_v2_decryptor_request_independent :
  forall open c key iv info, 1 <= c ->
    (forall k n a x pt, open k n a x = Some pt -> lenN pt + TAGLEN = lenN x) ->
    forall (req1 req2 : N -> N) ct,
      a_run open c key iv info req1 ct = a_run open c key iv info req2 ct.
Proof. exact a_request_independent. Qed.
Print Assumptions C09_v2_decryptor_request_independent.

(* writers' side: a staged producer read through read() -- the shape of the stream encryptors and of the
   message builder's generators -- delivers the concatenation of its stages whatever sizes are asked for *)
Theorem C09_staged_producer_is_concatenation :
  forall (R : Type) (advance : R -> option (bytes * R)) sf (req : N -> N) fuel i p r k,
    stages R advance sf r = Some k ->
    (length p + length (whole R advance sf r) + k + 2 <= fuel)%nat ->
    e_drive R advance sf req fuel i p r = (p ++ whole R advance sf r, EClean).
Proof. exact drive_whole. Qed.
Print Assumptions C09_staged_producer_is_concatenation.

Theorem C09_v1_encryptor_request_independent :
  forall E bs sha1, 1 <= bs -> (forall x, lenN (E x) = bs) ->
    forall (req1 req2 : N -> N) prefix data,
      enc_run E bs sha1 req1 prefix data = enc_run E bs sha1 req2 prefix data.
Proof. exact enc_request_independent. Qed.
Print Assumptions C09_v1_encryptor_request_independent.

(* armor::read_from_buf (armor header, armor footer, cleartext header): for a parser whose
   decisions are stable under more input and never taken inside octets already seen undecided,
   the value returned is the parser's on the whole stream for every cutting into pieces *)
Theorem C09_reassembly_is_whole_parse :
  forall (T : Type) (P : bytes -> pres T) limit,
    (forall x n t, P x = PDone n t -> n <= lenN x) ->
    (forall x y n t, P x = PDone n t -> exists n', P (x ++ y) = PDone n' t) ->
    (forall x y, P x = PBad -> P (x ++ y) = PBad) ->
    (forall x y n t, P x = PMore -> P (x ++ y) = PDone n t -> lenN x <= n) ->
    forall cs, cs <> [] -> Forall (fun c => c <> []) cs -> lenN (concat cs) < limit ->
      r_value T (rfb T P limit cs) = p_value T (P (concat cs)).
Proof. exact rfb_value. Qed.
Print Assumptions C09_reassembly_is_whole_parse.

(* ... and when the parser uses the same octets whatever follows, the source is left exactly behind them *)
Theorem C09_reassembly_leaves_source_behind_parse :
  forall (T : Type) (P : bytes -> pres T) limit,
    (forall x n t, P x = PDone n t -> n <= lenN x) ->
    (forall x y n t, P x = PDone n t -> exists n', P (x ++ y) = PDone n' t) ->
    (forall x y, P x = PBad -> P (x ++ y) = PBad) ->
    (forall x y n t, P x = PMore -> P (x ++ y) = PDone n t -> lenN x <= n) ->
    (forall x y n t, P x = PDone n t -> P (x ++ y) = PDone n t) ->
    forall cs, cs <> [] -> Forall (fun c => c <> []) cs -> lenN (concat cs) < limit ->
      r_rest T (rfb T P limit cs) = p_rest T (concat cs) (P (concat cs)).
Proof. exact rfb_rest. Qed.
Print Assumptions C09_reassembly_leaves_source_behind_parse.

(* the premises are satisfiable: the one-line parser the correspondence check runs through the real loop *)
Theorem C09_reassembly_line_parser_cutting_independent : forall limit cs1 cs2,
  concat cs1 = concat cs2 -> cs1 <> [] -> cs2 <> [] ->
  Forall (fun c => c <> []) cs1 -> Forall (fun c => c <> []) cs2 -> lenN (concat cs1) < limit ->
  rfb bytes (line_parser 0) limit cs1 = RErr /\ rfb bytes (line_parser 0) limit cs2 = RErr \/
  exists t r1 r2, rfb bytes (line_parser 0) limit cs1 = RVal t r1 /\ rfb bytes (line_parser 0) limit cs2 = RVal t r2 /\ concat r1 = concat r2.
Proof. exact line_parser_cutting_independent. Qed.
Print Assumptions C09_reassembly_line_parser_cutting_independent.

(* ... and needed: a parser that decides two octets late gives a value in one piece and an error in two *)
Theorem C09_reassembly_contract_needed :
  rfb bytes (line_parser 2) 100 [[x61; LF; x62; x63]] = RVal [x61] [[x62; x63]] /\
  rfb bytes (line_parser 2) 100 [[x61; LF; x62]; [x63]] = RErr /\
  rfb bytes (line_parser 1) 100 [[x61; LF]; [x62]; [x63]] = RVal [x61] [[x62]; [x63]].
Proof. exact late_parser_is_cut_dependent. Qed.
Print Assumptions C09_reassembly_contract_needed.

(* the line-ending check the builder puts over the source of a utf8-mode literal (CrLfCheckReader): each read is the
   octet-by-octet rule "no LF unless the octet shown before it was a CR", so a run over any cutting of a stream gives the
   verdict (and the carried flag) of the uncut stream ... *)
Theorem C09_crlf_check_is_the_rule_for_every_cutting : forall chunks flag,
  crlf_run flag chunks = if ok_from flag (concat chunks) then Some (flag_after flag (concat chunks)) else None.
Proof. exact crlf_run_is_rule. Qed.
Print Assumptions C09_crlf_check_is_the_rule_for_every_cutting.

Theorem C09_crlf_check_cutting_independent : forall flag chunks1 chunks2,
  concat chunks1 = concat chunks2 -> crlf_run flag chunks1 = crlf_run flag chunks2.
Proof. exact crlf_run_cutting_independent. Qed.
Print Assumptions C09_crlf_check_cutting_independent.

(* ... and the flag has to be rewritten by every read: a reader that only ever sets it accepts in three reads what it
   refuses in one *)
Theorem C09_crlf_check_stale_flag_refuted :
  exists chunks1 chunks2, concat chunks1 = concat chunks2 /\ stale_run false chunks1 <> stale_run false chunks2.
Proof. exact stale_reader_is_cut_dependent. Qed.
Print Assumptions C09_crlf_check_stale_flag_refuted.

(* the UTF-8 check under it (Utf8CheckReader: at most three octets carried from read to read, four undecodable octets
   refused at once, an overhang at the end of input refused): a run over any cutting, followed by the end of input, is
   accepted exactly when the uncut stream is well-formed UTF-8 (Unicode table 3-7, written out in Io/Utf8Check.v) *)
Theorem C09_utf8_check_is_well_formedness_for_every_cutting : forall chunks,
  utf8_run [] chunks = well_formed (concat chunks).
Proof. exact utf8_run_whole. Qed.
Print Assumptions C09_utf8_check_is_well_formedness_for_every_cutting.

Theorem C09_utf8_check_cutting_independent : forall chunks1 chunks2,
  concat chunks1 = concat chunks2 -> utf8_run [] chunks1 = utf8_run [] chunks2.
Proof. exact utf8_run_cutting_independent. Qed.
Print Assumptions C09_utf8_check_cutting_independent.

(* the message's own read() above its layers (the end-of-message check runs when a read into a NON-EMPTY buffer gets nothing;
   fix 63f292e): a read into an empty buffer returns nothing and changes nothing ... *)
Theorem C09_message_zero_read_is_neutral : forall ok left, msg_read ok 0 left = (Data [], left).
Proof. exact zero_read_is_neutral. Qed.
Print Assumptions C09_message_zero_read_is_neutral.

(* ... so whatever the request sizes, zeros among them: the end is reported only behind the whole payload, with the verdict of
   the end-of-message check, and a consumer that keeps asking for something gets there *)
Theorem C09_message_end_means_whole_payload : forall ok reqs left v,
  snd (consume (msg_read ok) reqs left) = Some v -> fst (consume (msg_read ok) reqs left) = left /\ v = ok.
Proof. exact consume_end_means_whole. Qed.
Print Assumptions C09_message_end_means_whole_payload.

Theorem C09_message_consumer_reaches_end : forall ok left reqs,
  Forall (fun n => n <> 0) reqs -> (length left < length reqs)%nat -> consume (msg_read ok) reqs left = (left, Some ok).
Proof. exact consume_reaches_end. Qed.
Print Assumptions C09_message_consumer_reaches_end.

(* the reader as it was: one octet of payload, a zero request, and the message "ends" empty *)
Theorem C09_message_unfixed_read_ends_early :
  consume (unfixed_read true) [0; 5; 5] [x61] = ([], Some true) /\ consume (msg_read true) [0; 5; 5] [x61] = ([x61], Some true).
Proof. exact unfixed_ends_early. Qed.
Print Assumptions C09_message_unfixed_read_ends_early.
