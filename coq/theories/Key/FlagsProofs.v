(* Key/FlagsProofs.v -- the key-flags octet says exactly what was requested. *)
From Rpgp Require Import Base.Octets Key.Flags.

Theorem request_roundtrip r : request_of_octet (flags_octet r) = r.
Proof. destruct r as [c s e a]; destruct c, s, e, a; reflexivity. Qed.

Theorem flags_octet_injective r1 r2 : flags_octet r1 = flags_octet r2 -> r1 = r2.
Proof. intros H. rewrite <- (request_roundtrip r1), <- (request_roundtrip r2), H. reflexivity. Qed.

(* each capability has its own bit: asking for one kind of encryption never sets the other *)
Theorem comm_only_sets_comm c s a :
  has (flags_octet {| r_certify := c; r_sign := s; r_enc := CapComm; r_auth := a |}) 4 = true /\
  has (flags_octet {| r_certify := c; r_sign := s; r_enc := CapComm; r_auth := a |}) 8 = false.
Proof. destruct c, s, a; split; reflexivity. Qed.

Theorem stor_only_sets_stor c s a :
  has (flags_octet {| r_certify := c; r_sign := s; r_enc := CapStor; r_auth := a |}) 4 = false /\
  has (flags_octet {| r_certify := c; r_sign := s; r_enc := CapStor; r_auth := a |}) 8 = true.
Proof. destruct c, s, a; split; reflexivity. Qed.

Theorem flags_octet_small r : flags_octet r < 64.
Proof. destruct r as [c s e a]; destruct c, s, e, a; vm_compute; reflexivity. Qed.
