From Coq Require Import List NArith ZArith Lia Bool.
From Rpgp Require Import Base.Octets Base.Res Sym.Cfb Sym.CfbProofs Kdf.Kdf Key.Lock.
Import ListNotations.
Open Scope N_scope.

Lemma bytes_eqb_eq a : forall b, bytes_eqb a b = true <-> a = b.
Proof.
  induction a as [|x a IH]; intros [|y b]; cbn; split; intros H; try discriminate; try reflexivity.
  - apply andb_true_iff in H. destruct H as [H1 H2]. apply beq_true in H1. apply IH in H2. congruence.
  - injection H as <- <-. rewrite beq_refl. cbn. apply IH. reflexivity.
Qed.

Lemma bytes_eqb_refl a : bytes_eqb a a = true.
Proof. apply bytes_eqb_eq. reflexivity. Qed.

Section LockP.
Variable E : bytes -> bytes.
Variable bs : N.
Hypothesis bs_pos : 1 <= bs.
Hypothesis E_len : forall x, lenN (E x) = bs.
Variable sha1 : bytes -> bytes.
Hypothesis sha1_len : forall x, lenN (sha1 x) = 20.

(* a tagged plaintext splits back into material and tag *)
Lemma split_tagged (m t : bytes) n : lenN t = n ->
  takeN (lenN (m ++ t) - n) (m ++ t) = m /\ dropN (lenN (m ++ t) - n) (m ++ t) = t.
Proof.
  intros H. rewrite lenN_app, H.
  replace (lenN m + n - n) with (lenN m) by lia.
  split; [apply takeN_app | apply dropN_app].
Qed.

Theorem unlock_lock_cfb iv m : unlock_cfb E bs sha1 iv (lock_cfb E bs sha1 iv m) = Ok m.
Proof.
  unfold unlock_cfb, lock_cfb. rewrite (cfb_dec_enc E bs bs_pos E_len).
  assert (L : (lenN (m ++ sha1 m) <? 20) = false).
  { apply N.ltb_ge. rewrite lenN_app, sha1_len. lia. }
  rewrite L. destruct (split_tagged m (sha1 m) 20 (sha1_len m)) as [A B].
  rewrite A, B, bytes_eqb_refl. reflexivity.
Qed.

(* whatever unlocks is the honest locking of what it returns *)
Theorem unlock_cfb_only_honest iv c m :
  unlock_cfb E bs sha1 iv c = Ok m -> c = lock_cfb E bs sha1 iv m.
Proof.
  unfold unlock_cfb, lock_cfb. intros H.
  destruct (lenN (cfb_dec E bs iv c) <? 20) eqn:L; [discriminate|].
  destruct (bytes_eqb _ _) eqn:T; [|discriminate]. injection H as Hm.
  apply bytes_eqb_eq in T.
  assert (P : cfb_dec E bs iv c = m ++ sha1 m).
  { rewrite <- (takeN_dropN (lenN (cfb_dec E bs iv c) - 20) (cfb_dec E bs iv c)).
    rewrite Hm in *. rewrite T. reflexivity. }
  apply (cfb_dec_inj E bs bs_pos E_len iv).
  - rewrite (cfb_enc_length E bs bs_pos E_len), <- P, (cfb_dec_length E bs bs_pos E_len). reflexivity.
  - rewrite (cfb_dec_enc E bs bs_pos E_len). exact P.
Qed.

(* so: two different protected blobs never unlock to the same material, and a changed blob
   that still unlocks returns material whose SHA-1 it carries *)
Corollary changed_blob_changes_material iv c c' m m' :
  unlock_cfb E bs sha1 iv c = Ok m -> unlock_cfb E bs sha1 iv c' = Ok m' -> c <> c' -> m <> m'.
Proof.
  intros H1 H2 Hc Hm. subst m'. apply unlock_cfb_only_honest in H1. apply unlock_cfb_only_honest in H2.
  congruence.
Qed.

Theorem unlock_lock_sum iv m : unlock_sum E bs iv (lock_sum E bs iv m) = Ok m.
Proof.
  unfold unlock_sum, lock_sum. rewrite (cfb_dec_enc E bs bs_pos E_len).
  assert (L2 : lenN (be16 (sum16 m)) = 2) by reflexivity.
  assert (L : (lenN (m ++ be16 (sum16 m)) <? 2) = false).
  { apply N.ltb_ge. rewrite lenN_app, L2. lia. }
  rewrite L. destruct (split_tagged m (be16 (sum16 m)) 2 L2) as [A B].
  rewrite A, B, bytes_eqb_refl. reflexivity.
Qed.

Theorem unlock_sum_only_honest iv c m :
  unlock_sum E bs iv c = Ok m -> c = lock_sum E bs iv m.
Proof.
  unfold unlock_sum, lock_sum. intros H.
  destruct (lenN (cfb_dec E bs iv c) <? 2) eqn:L; [discriminate|].
  destruct (bytes_eqb _ _) eqn:T; [|discriminate]. injection H as Hm.
  apply bytes_eqb_eq in T.
  assert (P : cfb_dec E bs iv c = m ++ be16 (sum16 m)).
  { rewrite <- (takeN_dropN (lenN (cfb_dec E bs iv c) - 2) (cfb_dec E bs iv c)).
    rewrite Hm in *. rewrite T. reflexivity. }
  apply (cfb_dec_inj E bs bs_pos E_len iv).
  - rewrite (cfb_enc_length E bs bs_pos E_len), <- P, (cfb_dec_length E bs bs_pos E_len). reflexivity.
  - rewrite (cfb_dec_enc E bs bs_pos E_len). exact P.
Qed.
End LockP.

(* the additional data determines the packet type and every public key octet *)
Theorem aead_ad_injective tag tag' pub pub' : tag < 64 -> tag' < 64 ->
  aead_ad tag pub = aead_ad tag' pub' -> tag = tag' /\ pub = pub'.
Proof.
  unfold aead_ad. intros H1 H2 H. injection H as Hn Hp. split; [|exact Hp].
  assert (A : b2n (n2b (192 + tag)) = b2n (n2b (192 + tag'))) by congruence.
  rewrite !b2n_n2b in A. lia.
Qed.

Section AeadP.
Variable seal : bytes -> bytes -> bytes -> bytes -> bytes.
Variable open : bytes -> bytes -> bytes -> bytes -> option bytes.
Variable okm : bytes -> bytes -> bytes.
Hypothesis open_seal : forall k n ad m, open k n ad (seal k n ad m) = Some m.

Theorem unlock_lock_aead tag ver sym mode derived nonce pub m :
  unlock_aead open okm tag ver sym mode derived nonce pub
    (lock_aead seal okm tag ver sym mode derived nonce pub m) = Ok m.
Proof. unfold unlock_aead, lock_aead. rewrite open_seal. reflexivity. Qed.

(* integrity of the AEAD, as an explicit premise: whatever opens under a key was sealed
   under it with the same nonce and additional data *)
Definition INT : Prop := forall k n ad c m, open k n ad c = Some m -> c = seal k n ad m.
Hypothesis seal_ad_binding : forall k n ad ad' m m', seal k n ad m = seal k n ad' m' -> ad = ad'.

Theorem unlock_aead_binds_public_fields tag ver sym mode derived nonce pub pub' m m' :
  INT -> tag < 64 ->
  unlock_aead open okm tag ver sym mode derived nonce pub'
    (lock_aead seal okm tag ver sym mode derived nonce pub m) = Ok m' -> pub' = pub.
Proof.
  unfold unlock_aead, lock_aead. intros I Ht H.
  destruct (open _ _ _ _) as [x|] eqn:O; [|discriminate]. injection H as ->.
  apply I in O. apply seal_ad_binding in O.
  destruct (aead_ad_injective _ _ _ _ Ht Ht O) as [_ P]. symmetry. exact P.
Qed.
End AeadP.

Theorem variant_usage_roundtrip v : variant_ok v = true -> variant_of (usage_of v) = v.
Proof.
  destruct v as [|s| | |]; cbn; intros H; try reflexivity.
  apply andb_true_iff in H. destruct H as [H1 H2]. apply N.ltb_lt in H1. apply N.ltb_lt in H2.
  unfold variant_of.
  destruct (s =? 0) eqn:E0; [apply N.eqb_eq in E0; lia|].
  destruct (s =? 253) eqn:E1; [apply N.eqb_eq in E1; lia|].
  destruct (s =? 254) eqn:E2; [apply N.eqb_eq in E2; lia|].
  destruct (s =? 255) eqn:E3; [apply N.eqb_eq in E3; lia|]. reflexivity.
Qed.

Theorem usage_variant_roundtrip u : u < 256 -> usage_of (variant_of u) = u /\ variant_ok (variant_of u) = true.
Proof.
  intros H. unfold variant_of.
  destruct (u =? 0) eqn:E0; [apply N.eqb_eq in E0; subst; split; reflexivity|].
  destruct (u =? 253) eqn:E1; [apply N.eqb_eq in E1; subst; split; reflexivity|].
  destruct (u =? 254) eqn:E2; [apply N.eqb_eq in E2; subst; split; reflexivity|].
  destruct (u =? 255) eqn:E3; [apply N.eqb_eq in E3; subst; split; reflexivity|].
  apply N.eqb_neq in E0, E1, E2, E3. cbn. split; [reflexivity|].
  apply andb_true_iff. split; [apply N.ltb_lt|apply N.ltb_lt]; lia.
Qed.
