(* Key/Flags.v -- what a generated key's self-signatures must say about its capabilities
   (RFC 9580 5.2.3.29 Key Flags), as a function of what was requested (C07).

   Mirrors src/composed/key/builder.rs: SecretKeyParams / SubkeyParams -> KeyFlags
   (can_certify, can_sign, can_encrypt: EncryptionCaps, can_authenticate) and
   packet/signature/types.rs KeyFlags (first octet). *)
From Rpgp Require Import Base.Octets.

Inductive enc_caps := CapNone | CapComm | CapStor | CapAll.

Record request := { r_certify : bool; r_sign : bool; r_enc : enc_caps; r_auth : bool }.

Definition wants_comm (c : enc_caps) : bool := match c with CapComm | CapAll => true | _ => false end.
Definition wants_stor (c : enc_caps) : bool := match c with CapStor | CapAll => true | _ => false end.

Definition bit (b : bool) (v : N) : N := if b then v else 0.

(* first octet of the Key Flags subpacket: 0x01 certify, 0x02 sign, 0x04 encrypt communications,
   0x08 encrypt storage, 0x20 authenticate *)
Definition flags_octet (r : request) : N :=
  bit (r_certify r) 1 + bit (r_sign r) 2 + bit (wants_comm (r_enc r)) 4 + bit (wants_stor (r_enc r)) 8 + bit (r_auth r) 32.

(* reading the octet back *)
Definition has (o v : N) : bool := negb (N.land o v =? 0).
Definition caps_of_octet (o : N) : enc_caps :=
  match has o 4, has o 8 with
  | true, true => CapAll | true, false => CapComm | false, true => CapStor | false, false => CapNone
  end.
Definition request_of_octet (o : N) : request :=
  {| r_certify := has o 1; r_sign := has o 2; r_enc := caps_of_octet o; r_auth := has o 32 |}.
