(* Fixed-size scalars and points as MPIs (RFC 9580 3.2): leading zero octets are stripped on the
   wire and restored on reading; C07's value-dependent hazard. *)
From Coq Require Import List NArith Lia Bool.
From Rpgp Require Import Base.Octets.
Import ListNotations.
Open Scope N_scope.

Fixpoint strip (b : bytes) : bytes :=
  match b with
  | x :: r => if b2n x =? 0 then strip r else b
  | [] => []
  end.

Definition zeros (n : N) : bytes := repeat x00 (N.to_nat n).

(* types/params/plain_secret.rs pad_key / key/public.rs: left-pad to [n] octets; longer input is
   refused *)
Definition pad_to (n : N) (b : bytes) : option bytes :=
  if lenN b <=? n then Some (zeros (n - lenN b) ++ b) else None.

(* bit count written in front of an MPI *)
Definition bits_of_byte (x : byte) : N :=
  let v := b2n x in
  if v <? 1 then 0 else if v <? 2 then 1 else if v <? 4 then 2 else if v <? 8 then 3
  else if v <? 16 then 4 else if v <? 32 then 5 else if v <? 64 then 6 else if v <? 128 then 7 else 8.
Definition mpi_bits (b : bytes) : N :=
  match b with [] => 0 | x :: r => bits_of_byte x + 8 * lenN r end.
Definition mpi_encode (b : bytes) : bytes := let s := strip b in be16 (mpi_bits s) ++ s.
Definition mpi_decode (w : bytes) : option (bytes * bytes) :=
  match w with
  | a :: a' :: r => let n := (de16 a a' + 7) / 8 in
                    if n <=? lenN r then Some (takeN n r, dropN n r) else None
  | _ => None
  end.
