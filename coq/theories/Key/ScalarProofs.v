From Coq Require Import List NArith ZArith Lia Bool.
From Rpgp Require Import Base.Octets Key.Scalar.
Import ListNotations.
Open Scope N_scope.
Ltac Zify.zify_post_hook ::= Z.div_mod_to_equations.

Lemma lenN_zeros n : lenN (zeros n) = n.
Proof. unfold zeros, lenN. rewrite repeat_length. lia. Qed.

Lemma strip_split b : exists k, b = zeros k ++ strip b /\ lenN (strip b) + k = lenN b.
Proof.
  induction b as [|x r IH]; [exists 0; split; reflexivity|].
  cbn [strip]. destruct (b2n x =? 0) eqn:E.
  - destruct IH as [k [E1 E2]]. exists (k + 1). apply N.eqb_eq in E.
    assert (x = x00) by (apply b2n_inj; rewrite E; reflexivity). subst x.
    split.
    + unfold zeros. rewrite N.add_1_r, N2Nat.inj_succ. cbn [repeat app]. f_equal. exact E1.
    + rewrite lenN_cons. lia.
  - exists 0. split; [reflexivity|lia].
Qed.

(* the central fact: whatever the value - any number of leading zero octets - stripping for the
   wire and padding back to the fixed size restores the scalar exactly *)
Theorem pad_strip n b : lenN b = n -> pad_to n (strip b) = Some b.
Proof.
  intros L. destruct (strip_split b) as [k [E1 E2]]. unfold pad_to.
  assert (H : (lenN (strip b) <=? n) = true) by (apply N.leb_le; lia).
  rewrite H. f_equal. replace (n - lenN (strip b)) with k by lia. symmetry. exact E1.
Qed.

Lemma strip_no_leading_zero b : match strip b with x :: _ => b2n x <> 0 | [] => True end.
Proof.
  induction b as [|x r IH]; cbn [strip]; [exact I|].
  destruct (b2n x =? 0) eqn:E; [exact IH|]. apply N.eqb_neq in E. exact E.
Qed.

Lemma bits_of_byte_range x : b2n x <> 0 -> 1 <= bits_of_byte x <= 8.
Proof.
  intros H. unfold bits_of_byte.
  repeat match goal with |- context [if ?c then _ else _] => destruct c eqn:? end;
    repeat match goal with E : (_ <? _) = true |- _ => apply N.ltb_lt in E end; lia.
Qed.

Lemma mpi_octets s : match s with x :: _ => b2n x <> 0 | [] => True end ->
  (mpi_bits s + 7) / 8 = lenN s /\ (lenN s <= 8191 -> mpi_bits s < 65536).
Proof.
  destruct s as [|x r]; intros H; [split; [reflexivity|cbn; lia]|].
  pose proof (bits_of_byte_range x H) as R. cbn [mpi_bits]. rewrite lenN_cons. split; lia.
Qed.

(* MPI wire round trip of a stripped value, with anything after it *)
Theorem mpi_decode_encode b rest : lenN b <= 8191 ->
  mpi_decode (mpi_encode b ++ rest) = Some (strip b, rest).
Proof.
  intros L. unfold mpi_encode, mpi_decode.
  destruct (strip_split b) as [k [_ E2]].
  destruct (mpi_octets (strip b) (strip_no_leading_zero b)) as [O B].
  assert (B' : mpi_bits (strip b) < 65536) by (apply B; lia).
  unfold be16. cbn [app]. rewrite de16_be16 by exact B'. cbv zeta. rewrite O.
  assert (H : (lenN (strip b) <=? lenN (strip b ++ rest)) = true)
    by (apply N.leb_le; rewrite lenN_app; lia).
  rewrite H, takeN_app_len, dropN_app_len by reflexivity. reflexivity.
Qed.

(* so: write a fixed-size scalar as an MPI, read it, pad: the scalar, for every value *)
Corollary scalar_roundtrip n b rest : lenN b = n -> n <= 8191 ->
  match mpi_decode (mpi_encode b ++ rest) with
  | Some (s, r) => pad_to n s = Some b /\ r = rest
  | None => False
  end.
Proof.
  intros L Hn. rewrite mpi_decode_encode by lia. split; [apply pad_strip; exact L|reflexivity].
Qed.

(* non-vacuity: a scalar with two leading zero octets *)
Example scalar_with_leading_zeros :
  pad_to 4 (strip [x00; x00; x7f; x01]) = Some [x00; x00; x7f; x01] /\
  mpi_encode [x00; x00; x7f; x01] = [x00; x0f; x7f; x01].
Proof. split; reflexivity. Qed.
