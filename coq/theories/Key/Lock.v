(* Secret-key protection (RFC 9580 5.5.3 / 3.7.2): locking and unlocking of the
   secret key material, parametrised by the block cipher, SHA-1, and an AEAD. *)
From Coq Require Import List NArith Lia Bool.
From Rpgp Require Import Base.Octets Base.Res Sym.Cfb Kdf.Kdf.
Import ListNotations.
Open Scope N_scope.

Fixpoint bytes_eqb (a b : bytes) : bool :=
  match a, b with
  | [], [] => true
  | x :: a', y :: b' => beq x y && bytes_eqb a' b'
  | _, _ => false
  end.

Section Lock.
Variable E : bytes -> bytes.      (* one block under the S2K-derived key *)
Variable bs : N.
Variable sha1 : bytes -> bytes.

(* usage 254: CFB over material ++ SHA-1(material) *)
Definition lock_cfb (iv m : bytes) : bytes := cfb_enc E bs iv (m ++ sha1 m).

Definition unlock_cfb (iv c : bytes) : res bytes :=
  let p := cfb_dec E bs iv c in
  if lenN p <? 20 then Err
  else
    let m := takeN (lenN p - 20) p in
    let t := dropN (lenN p - 20) p in
    if bytes_eqb t (sha1 m) then Ok m else Err.

(* usage 255 and the legacy cipher-octet usages: CFB over material ++ 16-bit sum *)
Definition lock_sum (iv m : bytes) : bytes := cfb_enc E bs iv (m ++ be16 (sum16 m)).

Definition unlock_sum (iv c : bytes) : res bytes :=
  let p := cfb_dec E bs iv c in
  if lenN p <? 2 then Err
  else
    let m := takeN (lenN p - 2) p in
    let t := dropN (lenN p - 2) p in
    if bytes_eqb t (be16 (sum16 m)) then Ok m else Err.
End Lock.

Section Aead.
(* usage 253: HKDF-derived key, AEAD with the packet type and the public key fields
   as additional data *)
Variable seal : bytes -> bytes -> bytes -> bytes -> bytes.          (* key nonce ad pt *)
Variable open : bytes -> bytes -> bytes -> bytes -> option bytes.   (* key nonce ad ct *)
Variable okm : bytes -> bytes -> bytes.                             (* HKDF(ikm, info) *)

Definition aead_info (tag ver sym mode : N) : bytes := [n2b (192 + tag); n2b ver; n2b sym; n2b mode].
Definition aead_ad (tag : N) (pub : bytes) : bytes := n2b (192 + tag) :: pub.

Definition lock_aead (tag ver sym mode : N) (derived nonce pub m : bytes) : bytes :=
  seal (okm derived (aead_info tag ver sym mode)) nonce (aead_ad tag pub) m.

Definition unlock_aead (tag ver sym mode : N) (derived nonce pub c : bytes) : res bytes :=
  match open (okm derived (aead_info tag ver sym mode)) nonce (aead_ad tag pub) c with
  | Some m => Ok m
  | None => Err
  end.
End Aead.

(* S2K usage octet <-> protection variant (5.5.3) *)
Inductive variant := VUnprotected | VLegacy (sym : N) | VAead | VCfb | VMalleable.

Definition usage_of (v : variant) : N :=
  match v with VUnprotected => 0 | VLegacy s => s | VAead => 253 | VCfb => 254 | VMalleable => 255 end.

Definition variant_of (u : N) : variant :=
  if u =? 0 then VUnprotected else if u =? 253 then VAead else if u =? 254 then VCfb
  else if u =? 255 then VMalleable else VLegacy u.

Definition variant_ok (v : variant) : bool :=
  match v with VLegacy s => (0 <? s) && (s <? 253) | _ => true end.
