(* Key/LockRules.v -- which protection parameters the library locks with and which it unlocks
   (RFC 9580 3.7.2.1, 9.5), as decision functions (C08).

   Mirrors src/types/params/plain_secret.rs PlainSecretParams::encrypt (the checks in front of the
   encryption) and src/types/params/encrypted_secret.rs EncryptedSecretParams::unlock (the checks in
   front of the decryption). *)
From Rpgp Require Import Base.Octets.

Inductive pvariant := PCfb | PMalleable | PLegacy | PAead.          (* usage 254 / 255 / cipher octet / 253 *)
Inductive s2ktype := TSimple | TSalted | TIterated | TArgon2 | TOther.

(* [weak]: the S2K's hash is MD5, SHA-1 or RIPEMD-160 (Argon2 has no hash) *)
Record lparams := { l_ver : N; l_var : pvariant; l_s2k : s2ktype; l_weak : bool }.

Definition is_v6 (p : lparams) : bool := l_ver p =? 6.
Definition ver_ok (p : lparams) : bool := (l_ver p =? 4) || (l_ver p =? 6).

(* PlainSecretParams::encrypt *)
Definition lock_allowed (p : lparams) : bool :=
  ver_ok p &&
  match l_var p with
  | PCfb =>
      negb (l_weak p) &&
      (if is_v6 p then match l_s2k p with TIterated | TSalted => true | _ => false end else true) &&
      match l_s2k p with TArgon2 | TOther => false | _ => true end
  | PAead =>
      negb (l_weak p) && match l_s2k p with TArgon2 | TIterated => true | _ => false end
  | PMalleable | PLegacy => false       (* "not implemented": the library never writes these *)
  end.

(* EncryptedSecretParams::unlock *)
Definition unlock_allowed (p : lparams) : bool :=
  (* Argon2 only with AEAD *)
  negb (match l_var p, l_s2k p with (PCfb | PMalleable), TArgon2 => true | _, _ => false end) &&
  (* version 6: AEAD or CFB, no weak S2K type, no weak hash *)
  (if is_v6 p then
     match l_var p with
     | PAead | PCfb => match l_s2k p with TArgon2 | TIterated | TSalted => negb (l_weak p) | _ => false end
     | _ => false
     end
   else true) &&
  (* AEAD: only Argon2 and iterated S2K *)
  match l_var p with
  | PAead => match l_s2k p with TArgon2 | TIterated => true | _ => false end
  | PCfb | PMalleable => match l_s2k p with TOther => false | _ => true end
  | PLegacy => true
  end.
