(* Key/LockRulesProofs.v -- the library never locks a key with parameters it refuses to unlock. *)
From Rpgp Require Import Base.Octets Key.LockRules.

Theorem lock_implies_unlock p : lock_allowed p = true -> unlock_allowed p = true.
Proof.
  destruct p as [v var s w]. unfold lock_allowed, unlock_allowed, is_v6, ver_ok. cbn [l_ver l_var l_s2k l_weak].
  destruct (v =? 4) eqn:E4; destruct (v =? 6) eqn:E6; destruct var, s, w; cbn; try discriminate; try reflexivity.
Qed.

(* what a v6 key may be locked with: AEAD with Argon2 or iterated S2K, CFB with iterated or salted S2K, never a weak hash *)
Theorem v6_lock_shape v s w :
  lock_allowed {| l_ver := 6; l_var := v; l_s2k := s; l_weak := w |} = true ->
  w = false /\ ((v = PAead /\ (s = TArgon2 \/ s = TIterated)) \/ (v = PCfb /\ (s = TIterated \/ s = TSalted))).
Proof. destruct v, s, w; cbn; intros H; try discriminate; split; auto. Qed.

(* Argon2 never outside AEAD, in either direction *)
Theorem argon2_only_with_aead p :
  l_s2k p = TArgon2 -> (lock_allowed p = true \/ (unlock_allowed p = true /\ l_var p <> PLegacy)) -> l_var p = PAead.
Proof.
  destruct p as [v var s w]. cbn [l_s2k l_var]. intros -> H.
  unfold lock_allowed, unlock_allowed, is_v6, ver_ok in H. cbn [l_ver l_var l_s2k l_weak] in H.
  destruct var; try reflexivity; exfalso;
    destruct (v =? 4), (v =? 6), w; cbn in H; destruct H as [H|[H Hn]]; try discriminate; try congruence.
Qed.
