(* Sym/Seipd1MachineProofs.v -- the stream decryptor machine hands out, for every
   sequence of request sizes, exactly what Cfb.v's specifications say. *)
From Coq Require Import ZifyBool ZifyN ZifyNat.
From Rpgp Require Import Base.Octets Base.OctetsMore Base.Res Sym.Cfb Sym.CfbProofs Sym.Seipd1Machine.
Ltac Zify.zify_post_hook ::= Z.div_mod_to_equations.

(* ---------------------------------------------------------------- BufDecryptor *)

Section BufDecProofs.

Variable E : bytes -> bytes.
Variable bs : N.
Hypothesis bs_pos : 1 <= bs.
Hypothesis E_len : forall x, lenN (E x) = bs.

Lemma bd_run_app s a b :
  bd_run E bs s (a ++ b) =
  (fst (bd_run E bs (fst (bd_run E bs s a)) b), snd (bd_run E bs s a) ++ snd (bd_run E bs (fst (bd_run E bs s a)) b)).
Proof.
  revert s; induction a as [|x a IH]; intros s; cbn [bd_run app].
  - cbn. destruct (bd_run E bs s b); reflexivity.
  - destruct (bd_step E bs s x) as [s1 p]. rewrite IH.
    destruct (bd_run E bs s1 a) as [s2 o]. cbn [fst snd].
    destruct (bd_run E bs s2 b) as [s3 o2]. reflexivity.
Qed.

Lemma bd_run_length s c : lenN (snd (bd_run E bs s c)) = lenN c.
Proof.
  revert s; induction c as [|x c IH]; intros s; cbn [bd_run]; [reflexivity|].
  destruct (bd_step E bs s x) as [s1 p]. specialize (IH s1).
  destruct (bd_run E bs s1 c) as [s2 o]. cbn [snd] in *. rewrite !lenN_cons, IH. reflexivity.
Qed.

Lemma xor_bytes_cons x a y k : xor_bytes (x :: a) (y :: k) = n2b (N.lxor (b2n x) (b2n y)) :: xor_bytes a k.
Proof. reflexivity. Qed.

Lemma nth_skipn_hd (n : nat) (l : bytes) : nth n l x00 = hd x00 (skipn n l).
Proof.
  revert l; induction n as [|n IH]; intros l; destruct l; cbn; try reflexivity. apply IH.
Qed.

(* within one block: [kst] is the keystream block, [c0] the block's ciphertext seen so far *)
Lemma bd_run_block kst c0 b :
  lenN kst = bs -> lenN c0 + lenN b <= bs ->
  snd (bd_run E bs {| ks := kst; cur := c0 |} b) = xor_bytes b (skipn (length c0) kst) /\
  fst (bd_run E bs {| ks := kst; cur := c0 |} b) =
    (if lenN c0 + lenN b =? bs then (if is_nil b then {| ks := kst; cur := c0 |} else {| ks := E (c0 ++ b); cur := [] |})
     else {| ks := kst; cur := c0 ++ b |}).
Proof.
  intros Hk. revert c0; induction b as [|x b IH]; intros c0 Hl.
  - cbn [bd_run fst snd is_nil]. rewrite app_nil_r. split; [reflexivity|].
    destruct (_ =? _); reflexivity.
  - rewrite lenN_cons in Hl. cbn [bd_run]. unfold bd_step. cbn [ks cur].
    assert (Hsk : exists y kt, skipn (length c0) kst = y :: kt).
    { destruct (skipn (length c0) kst) as [|y kt] eqn:Es.
      - assert (Hlen : length (skipn (length c0) kst) = 0%nat) by (rewrite Es; reflexivity).
        rewrite skipn_length in Hlen. unfold lenN in *. lia.
      - eauto. }
    destruct Hsk as (y & kt & Es).
    assert (Hnth : nth (length c0) kst x00 = y) by (rewrite nth_skipn_hd, Es; reflexivity).
    assert (Hkt : skipn (length (c0 ++ [x])) kst = kt).
    { rewrite app_length. cbn [length]. replace (length c0 + 1)%nat with (S (length c0)) by lia.
      change (S (length c0)) with (1 + length c0)%nat. rewrite skipn_plus, Es. reflexivity. }
    rewrite Hnth, Es, xor_bytes_cons.
    assert (Hl1 : lenN (c0 ++ [x]) = lenN c0 + 1) by (rewrite lenN_app; reflexivity).
    destruct (N.eqb_spec (lenN (c0 ++ [x])) bs) as [Hfull|Hnf].
    + (* the block is complete with x: b must be empty *)
      assert (Hb : b = []) by (apply lenN_0_nil; lia). subst b.
      cbn [bd_run fst snd is_nil xor_bytes]. split; [destruct kt; reflexivity|].
      rewrite lenN_cons, lenN_nil.
      destruct (N.eqb_spec (lenN c0 + (1 + 0)) bs); [reflexivity|lia].
    + specialize (IH (c0 ++ [x])). rewrite Hl1 in IH. specialize (IH ltac:(lia)).
      destruct IH as [IHo IHs].
      destruct (bd_run E bs {| ks := kst; cur := c0 ++ [x] |} b) as [s2 o] eqn:Er.
      cbn [fst snd] in *. rewrite Hkt in IHo. subst o. split; [reflexivity|].
      rewrite IHs. rewrite lenN_cons. rewrite <- app_assoc. cbn [app].
      replace (lenN c0 + (1 + lenN b)) with (lenN c0 + 1 + lenN b) by lia.
      destruct (N.eqb_spec (lenN c0 + 1 + lenN b) bs) as [Hx|Hx]; [|reflexivity].
      destruct b; cbn [is_nil]; [|reflexivity].
      exfalso. rewrite lenN_nil in Hx. lia.
Qed.

(* whole blocks from a block boundary: the octet machine computes cfb_dec *)
Lemma bd_run_cfb_fuel f prev c :
  (length c <= f)%nat ->
  snd (bd_run E bs {| ks := E prev; cur := [] |} c) = cfb_dec_fuel E bs f prev c.
Proof.
  revert prev c; induction f as [|f IH]; intros prev c Hf.
  - destruct c; [reflexivity|cbn in Hf; lia].
  - destruct c as [|x t] eqn:Ec; [reflexivity|]. rewrite <- Ec in *.
    assert (Hp : 1 <= lenN c) by (subst c; rewrite lenN_cons; lia).
    rewrite cfb_dec_fuel_S by (apply ne_of_len1; exact Hp).
    rewrite <- (takeN_dropN bs c) at 1. rewrite bd_run_app. cbn [snd].
    pose proof (bd_run_block (E prev) [] (takeN bs c) (E_len prev)) as Hb.
    rewrite lenN_nil, lenN_takeN in Hb. specialize (Hb ltac:(lia)).
    destruct Hb as [Ho Hs]. cbn [length skipn] in Ho. rewrite Ho. f_equal.
    destruct (N.leb_spec bs (lenN c)) as [Hfull|Hshort].
    + rewrite Hs. replace (0 + N.min bs (lenN c) =? bs) with true by (symmetry; apply N.eqb_eq; lia).
      assert (Hne : is_nil (takeN bs c) = false).
      { destruct (takeN bs c) eqn:Et; [|reflexivity]. exfalso.
        assert (H0 : lenN (takeN bs c) = 0) by (rewrite Et; reflexivity). rewrite lenN_takeN in H0. lia. }
      rewrite Hne. cbn [app]. apply IH.
      assert (lenN (dropN bs c) < lenN c) by (rewrite lenN_dropN; lia). unfold lenN in *. lia.
    + rewrite (dropN_all bs c) by lia.
      replace (cfb_dec_fuel E bs f (takeN bs c) []) with (@nil byte) by (destruct f; reflexivity).
      reflexivity.
Qed.

Theorem bd_run_is_cfb_dec iv c : snd (bd_run E bs (bd_init E iv) c) = cfb_dec E bs iv c.
Proof. unfold bd_init, cfb_dec. apply bd_run_cfb_fuel. lia. Qed.

End BufDecProofs.

(* ---------------------------------------------------------------- the machine *)

Section MachineProofs.

Variable E : bytes -> bytes.
Variable bs : N.
Variable sha1 : bytes -> bytes.
Hypothesis bs_pos : 1 <= bs.
Hypothesis E_len : forall x, lenN (E x) = bs.

Notation fillM := (fill E bs sha1).
Notation takeM := (take E bs sha1).
Notation driveM := (drive E bs sha1).

(* the verdict of Cfb.seipd1_dec on the decrypted prefix P and the rest R *)
Definition okb (P R : bytes) : bool :=
  let body := takeN (lenN R - MDC_LEN) R in
  let mdc := dropN (lenN R - MDC_LEN) R in
  beq (hd x00 mdc) xd3 && beq (hd x00 (tl mdc)) x14
  && (if list_eq_dec Byte.byte_eq_dec (dropN 2 mdc) (sha1 (P ++ body ++ mdc_head)) then true else false).

Lemma mdc_ok_head h mdc :
  mdc_ok sha1 h mdc =
  beq (hd x00 mdc) xd3 && beq (hd x00 (tl mdc)) x14
  && (if list_eq_dec Byte.byte_eq_dec (dropN 2 mdc) (sha1 (h ++ mdc_head)) then true else false).
Proof.
  unfold mdc_ok. destruct mdc as [|a [|b t]]; cbn [hd tl].
  - reflexivity.
  - destruct (beq a xd3); reflexivity.
  - destruct (beq_spec a xd3) as [->|]; [|reflexivity].
    destruct (beq_spec b x14) as [->|]; [|reflexivity].
    replace (takeN 2 (xd3 :: x14 :: t)) with mdc_head by (rewrite takeN_firstn; reflexivity).
    reflexivity.
Qed.

Lemma take_fill mode n s :
  fillM mode (fillM mode s) = fillM mode s -> takeM mode n s = takeM mode n (fillM mode s).
Proof. intros H. unfold take. rewrite H. reflexivity. Qed.

Lemma drive_fill mode req fuel i s :
  fillM mode (fillM mode s) = fillM mode s -> driveM mode req fuel i s = driveM mode req fuel i (fillM mode s).
Proof. intros H. destruct fuel; [reflexivity|]. cbn [drive]. rewrite (take_fill mode _ s H). reflexivity. Qed.

Lemma fill_not_data mode s : ph s <> PData -> fillM mode s = s.
Proof. unfold fill. destruct (ph s); congruence. Qed.

(* draining the Done state *)
Lemma drive_done mode req fuel i s :
  ph s = PDone -> lenN (buf s) < N.of_nat fuel -> driveM mode req fuel i s = (buf s, Clean).
Proof.
  revert i s; induction fuel as [|f IH]; intros i s Hp Hf; [cbn in Hf; lia|].
  cbn [drive]. unfold take. rewrite (fill_not_data mode s) by congruence. rewrite Hp.
  set (k := N.min (lenN (buf s)) (N.max 1 (req i))).
  destruct (N.eqb_spec (lenN (buf s)) 0) as [H0|H0].
  - apply lenN_0_nil in H0. rewrite H0. destruct k; reflexivity.
  - assert (Hl : 1 <= lenN (buf s)) by lia.
    assert (Hk : 1 <= k) by (unfold k; lia).
    destruct (takeN k (buf s)) as [|o0 ot] eqn:Et.
    + exfalso. exact (takeN_pos_ne k (buf s) Hk Hl Et).
    + rewrite <- Et. rewrite IH.
      * cbn [buf]. rewrite takeN_dropN. reflexivity.
      * reflexivity.
      * cbn [buf]. rewrite lenN_dropN. lia.
Qed.

(* ---------------------------------------------------------------- streaming mode *)

Definition STEP : N := BUF - MDC_LEN.

(* the Data state after [rel] has been handed out, relative to the decrypted prefix P and rest R *)
Definition InvD (P R : bytes) (s : sd) (rel : bytes) : Prop :=
  ph s = PData /\
  exists todo,
    R = rel ++ buf s ++ todo /\
    snd (bd_run E bs (dec s) (src s)) = todo /\
    hin s = P ++ rel ++ takeN (avail s) (buf s) /\
    ((buf s = [] /\ avail s = 0 /\ rel = []) \/
     (lenN (buf s) = avail s + MDC_LEN /\ exists m, lenN rel + avail s = (m + 1) * STEP)).

Lemma InvD_src_len P R s rel : InvD P R s rel -> lenN R = lenN rel + lenN (buf s) + lenN (src s).
Proof.
  intros (_ & todo & HR & Ht & _). rewrite HR, !lenN_app. rewrite <- Ht, bd_run_length. lia.
Qed.

(* enough is buffered: nothing is read, octets are handed out *)
Lemma take_avail P R s rel n :
  InvD P R s rel -> 0 < avail s -> 1 <= n ->
  exists s' o, takeM None n s = (s', Ok o) /\ o <> [] /\ InvD P R s' (rel ++ o).
Proof.
  intros (Hp & todo & HR & Ht & Hh & Hst) Ha Hn.
  destruct Hst as [(_ & H0 & _)|(Hl & m & Hm)]; [lia|].
  assert (Hskip : fillM None s = s).
  { unfold fill. rewrite Hp. replace (MDC_LEN <? lenN (buf s)) with true by (symmetry; apply N.ltb_lt; lia). reflexivity. }
  unfold take. rewrite Hskip, Hp.
  set (k := N.min (avail s) n).
  assert (Hk1 : 1 <= k) by (unfold k; lia). assert (Hk2 : k <= avail s) by (unfold k; lia).
  eexists _, _. split; [reflexivity|]. split.
  - apply takeN_pos_ne; lia.
  - split; [reflexivity|]. cbn [buf avail hin src dec]. exists todo. repeat split.
    + rewrite <- app_assoc. rewrite (app_assoc (takeN k (buf s))), takeN_dropN. exact HR.
    + exact Ht.
    + rewrite Hh. rewrite (takeN_split k (avail s) (buf s)) by lia. rewrite <- !app_assoc. reflexivity.
    + right. split.
      * rewrite lenN_dropN. lia.
      * exists m. rewrite lenN_app, lenN_takeN. lia.
Qed.

(* the buffer is down to the held-back 22 octets (or still empty) and the source has a full refill *)
Lemma fill_full P R s rel :
  InvD P R s rel -> avail s = 0 -> BUF - lenN (buf s) <= lenN (src s) ->
  InvD P R (fillM None s) rel /\ 0 < avail (fillM None s).
Proof.
  intros (Hp & todo & HR & Ht & Hh & Hst) Ha Hfull.
  assert (Hbl : lenN (buf s) = 0 \/ lenN (buf s) = MDC_LEN).
  { destruct Hst as [(Hb & _)|(Hl & _)]; [left; rewrite Hb; reflexivity|right; lia]. }
  unfold fill. rewrite Hp.
  replace (MDC_LEN <? lenN (buf s)) with false by (symmetry; apply N.ltb_ge; unfold MDC_LEN in *; lia).
  set (want := BUF - lenN (buf s)).
  assert (Hpl : lenN (takeN want (src s)) = want) by (rewrite lenN_takeN; lia).
  replace (lenN (takeN want (src s)) <? want) with false by (symmetry; apply N.ltb_ge; lia).
  (* split the source *)
  pose proof (bd_run_app E bs (dec s) (takeN want (src s)) (dropN want (src s))) as Happ.
  rewrite takeN_dropN in Happ.
  destruct (bd_run E bs (dec s) (takeN want (src s))) as [d' out] eqn:Er. cbn [fst snd] in Happ.
  assert (Hol : lenN out = want).
  { pose proof (bd_run_length E bs (dec s) (takeN want (src s))) as Hx. rewrite Er in Hx. cbn [snd] in Hx. lia. }
  assert (Htodo : todo = out ++ snd (bd_run E bs d' (dropN want (src s)))).
  { rewrite <- Ht, Happ. reflexivity. }
  assert (Hbuf' : lenN (buf s ++ out) = BUF) by (rewrite lenN_app; unfold want, BUF, MDC_LEN in *; lia).
  rewrite Hbuf'. replace (BUF <? MDC_LEN) with false by reflexivity.
  rewrite Ha. replace (0 <? BUF - MDC_LEN) with true by reflexivity.
  cbn [avail]. split; [|unfold BUF, MDC_LEN; lia].
  split; [reflexivity|]. cbn [buf avail hin src dec].
  exists (snd (bd_run E bs d' (dropN want (src s)))). repeat split.
  - rewrite HR, Htodo, <- !app_assoc. reflexivity.
  - rewrite Hh, Ha, takeN_0, dropN_0, app_nil_r, <- app_assoc. reflexivity.
  - right. split; [unfold BUF, MDC_LEN in *; lia|].
    destruct Hst as [(_ & _ & Hr)|(_ & m & Hm)].
    + exists 0. rewrite Hr, lenN_nil. unfold STEP. lia.
    + exists (m + 1). unfold STEP in *. lia.
Qed.

(* what the streaming reader hands out and how it ends, in terms of P and R *)
Definition spec_stream (P R : bytes) : bytes * outcome :=
  if lenN R <? MDC_LEN then ([], Failed)
  else if okb P R then (takeN (lenN R - MDC_LEN) R, Clean)
  else (takeN (released_before_check (lenN R)) R, Failed).

(* the source ends inside this refill: the MDC decides *)
Lemma fill_last P R s rel :
  InvD P R s rel -> avail s = 0 -> lenN (src s) < BUF - lenN (buf s) ->
  (ph (fillM None s) = PFail /\ (rel, Failed) = spec_stream P R) \/
  (ph (fillM None s) = PDone /\ (rel ++ buf (fillM None s), Clean) = spec_stream P R).
Proof.
  intros HI Ha Hshort. pose proof (InvD_src_len _ _ _ _ HI) as HRl.
  destruct HI as (Hp & todo & HR & Ht & Hh & Hst).
  assert (Hbl : lenN (buf s) = 0 \/ lenN (buf s) = MDC_LEN).
  { destruct Hst as [(Hb & _)|(Hl & _)]; [left; rewrite Hb; reflexivity|right; lia]. }
  unfold fill. rewrite Hp.
  replace (MDC_LEN <? lenN (buf s)) with false by (symmetry; apply N.ltb_ge; unfold MDC_LEN in *; lia).
  set (want := BUF - lenN (buf s)).
  rewrite (takeN_all want (src s)) by lia. rewrite (dropN_all want (src s)) by lia.
  replace (lenN (src s) <? want) with true by (symmetry; apply N.ltb_lt; lia).
  destruct (bd_run E bs (dec s) (src s)) as [d' out] eqn:Er. cbn [snd] in Ht. subst out.
  assert (HRb : R = rel ++ (buf s ++ todo)) by exact HR.
  assert (Hl : lenN R = lenN rel + lenN (buf s ++ todo)) by (rewrite HRb at 1; rewrite lenN_app; reflexivity).
  destruct (N.ltb_spec (lenN (buf s ++ todo)) MDC_LEN) as [Hlt|Hge].
  - (* fewer than 22 octets in all: only possible at the very start *)
    left. split; [reflexivity|]. unfold spec_stream.
    destruct Hst as [(Hb & _ & Hr)|(Hl2 & _)].
    + subst rel. replace (lenN R <? MDC_LEN) with true by (symmetry; apply N.ltb_lt; rewrite Hl, lenN_nil; lia). reflexivity.
    + rewrite lenN_app in Hlt. lia.
  - set (e := lenN (buf s ++ todo) - MDC_LEN).
    assert (Hhin : (if avail s <? e then hin s ++ dropN (avail s) (takeN e (buf s ++ todo)) else hin s)
                   = P ++ takeN (lenN R - MDC_LEN) R).
    { rewrite Ha, Hh, Ha, takeN_0, app_nil_r, dropN_0.
      assert (Hbody : takeN (lenN R - MDC_LEN) R = rel ++ takeN e (buf s ++ todo)).
      { rewrite HRb at 2. rewrite (takeN_app_ge (lenN R - MDC_LEN) rel) by lia. f_equal. f_equal. unfold e. lia. }
      rewrite Hbody. destruct (N.ltb_spec 0 e) as [He|He].
      - rewrite <- app_assoc. reflexivity.
      - replace e with 0 by lia. rewrite takeN_0, !app_nil_r. reflexivity. }
    rewrite Hhin.
    assert (Hmdc : dropN e (buf s ++ todo) = dropN (lenN R - MDC_LEN) R).
    { rewrite HRb at 2. rewrite (dropN_app_ge (lenN R - MDC_LEN) rel) by lia. f_equal. unfold e. lia. }
    rewrite Hmdc.
    assert (Hok : mdc_ok sha1 (P ++ takeN (lenN R - MDC_LEN) R) (dropN (lenN R - MDC_LEN) R) = okb P R).
    { rewrite mdc_ok_head. unfold okb. rewrite <- !app_assoc. reflexivity. }
    rewrite Hok. unfold spec_stream.
    replace (lenN R <? MDC_LEN) with false by (symmetry; apply N.ltb_ge; lia).
    destruct (okb P R).
    + right. split; [reflexivity|]. cbn [buf]. f_equal.
      rewrite HRb at 2. rewrite (takeN_app_ge (lenN R - MDC_LEN) rel) by lia. f_equal. f_equal. unfold e. lia.
    + left. split; [reflexivity|]. f_equal.
      (* what has been handed out is exactly the whole refills before this one *)
      assert (Hrl : lenN rel = released_before_check (lenN R)).
      { unfold released_before_check. destruct Hst as [(Hb & _ & Hr)|(Hl2 & m & Hm)].
        - subst rel. rewrite Hb in *. cbn [app] in *. rewrite lenN_nil in *.
          replace (lenN R <? BUF) with true by (symmetry; apply N.ltb_lt; unfold want in Hshort; lia). reflexivity.
        - rewrite Ha in *. unfold STEP, want, BUF, MDC_LEN in *.
          replace (lenN R <? 8192) with false by (symmetry; apply N.ltb_ge; lia).
          assert (Hq : (lenN R - 8192) / (8192 - 22) = m).
          { symmetry. apply (N.div_unique _ _ m (lenN R - 8192 - m * 8170)); lia. }
          rewrite Hq. lia. }
      rewrite <- Hrl. rewrite HRb. symmetry. apply takeN_app.
Qed.

(* every sequence of requests: the machine hands out the rest of the specified output *)
Lemma drive_stream P R req fuel : forall i s rel,
  InvD P R s rel -> lenN R - lenN rel + 2 <= N.of_nat fuel ->
  exists suffix oc, driveM None req fuel i s = (suffix, oc) /\ (rel ++ suffix, oc) = spec_stream P R.
Proof.
  induction fuel as [|f IH]; intros i s rel HI Hf; [lia|].
  pose proof (InvD_src_len _ _ _ _ HI) as HRl.
  assert (Hn : 1 <= N.max 1 (req i)) by lia.
  destruct (N.ltb_spec 0 (avail s)) as [Hav|Hav].
  - (* hand out *)
    destruct (take_avail P R s rel _ HI Hav Hn) as (s' & o & Ht & Hne & HI').
    cbn [drive]. rewrite Ht.
    pose proof (InvD_src_len _ _ _ _ HI') as HRl'.
    assert (Hol : 1 <= lenN o) by (destruct o; [congruence|rewrite lenN_cons; lia]).
    destruct (IH (N.succ i) s' (rel ++ o) HI') as (suf & oc & Hd & Hs).
    { rewrite lenN_app in *. lia. }
    rewrite Hd. destruct o as [|o0 ot]; [congruence|].
    eexists _, _. split; [reflexivity|]. rewrite <- Hs, <- app_assoc. reflexivity.
  - assert (Ha : avail s = 0) by lia.
    destruct (N.leb_spec (BUF - lenN (buf s)) (lenN (src s))) as [Hfull|Hshort].
    + (* refill, then hand out *)
      destruct (fill_full P R s rel HI Ha Hfull) as (HI1 & Hav1).
      assert (Hidem : fillM None (fillM None s) = fillM None s).
      { destruct HI1 as (Hp1 & _ & _ & _ & _ & [(_ & H0 & _)|(Hl1 & _)]); [lia|].
        unfold fill at 1. rewrite Hp1.
        replace (MDC_LEN <? lenN (buf (fillM None s))) with true by (symmetry; apply N.ltb_lt; lia). reflexivity. }
      rewrite (drive_fill None req (S f) i s Hidem).
      destruct (take_avail P R _ rel _ HI1 Hav1 Hn) as (s' & o & Ht & Hne & HI').
      cbn [drive]. rewrite Ht.
      pose proof (InvD_src_len _ _ _ _ HI') as HRl'.
      assert (Hol : 1 <= lenN o) by (destruct o; [congruence|rewrite lenN_cons; lia]).
      destruct (IH (N.succ i) s' (rel ++ o) HI') as (suf & oc & Hd & Hs).
      { rewrite lenN_app in *. lia. }
      rewrite Hd. destruct o as [|o0 ot]; [congruence|].
      eexists _, _. split; [reflexivity|]. rewrite <- Hs, <- app_assoc. reflexivity.
    + (* the last refill *)
      destruct (fill_last P R s rel HI Ha Hshort) as [(Hpf & Hs)|(Hpd & Hs)].
      * cbn [drive]. unfold take. rewrite Hpf. eexists _, _. split; [reflexivity|].
        rewrite app_nil_r. exact Hs.
      * assert (Hidem : fillM None (fillM None s) = fillM None s) by (apply fill_not_data; congruence).
        rewrite (drive_fill None req (S f) i s Hidem).
        rewrite drive_done; [|exact Hpd|].
        -- eexists _, _. split; [reflexivity|]. exact Hs.
        -- (* what is left fits the fuel *)
           assert (Hle : lenN (rel ++ buf (fillM None s)) <= lenN R).
           { unfold spec_stream in Hs. destruct (lenN R <? MDC_LEN); [discriminate|].
             destruct (okb P R); [|discriminate]. injection Hs as Hs. rewrite Hs, lenN_takeN. lia. }
           rewrite lenN_app in Hle. lia.
Qed.

(* ---------------------------------------------------------------- against Cfb.v's specifications *)

Definition oc_of (b : bool) : outcome := if b then Clean else Failed.

(* the decrypted stream is the decrypted prefix followed by the decrypted rest *)
Lemma dec_split ct d P :
  bs + 2 <= lenN ct ->
  bd_run E bs (bd_init E (zeros_n bs)) (takeN (bs + 2) ct) = (d, P) ->
  cfb_dec E bs (zeros_n bs) ct = P ++ snd (bd_run E bs d (dropN (bs + 2) ct)) /\ lenN P = bs + 2.
Proof.
  intros Hl Er. split.
  - rewrite <- (bd_run_is_cfb_dec E bs bs_pos E_len). rewrite <- (takeN_dropN (bs + 2) ct) at 1.
    rewrite bd_run_app, Er. reflexivity.
  - pose proof (bd_run_length E bs (bd_init E (zeros_n bs)) (takeN (bs + 2) ct)) as Hx.
    rewrite Er in Hx. cbn [snd] in Hx. rewrite Hx, lenN_takeN. lia.
Qed.

Lemma seipd1_dec_PR ct P R :
  bs + 2 <= lenN ct -> cfb_dec E bs (zeros_n bs) ct = P ++ R -> lenN P = bs + 2 -> MDC_LEN <= lenN R ->
  seipd1_dec E bs sha1 ct = if okb P R then Ok (takeN (lenN R - MDC_LEN) R) else Err.
Proof.
  intros Hl Hd HP HR. unfold seipd1_dec.
  replace (lenN ct <? bs + 2) with false by (symmetry; apply N.ltb_ge; lia).
  rewrite Hd. rewrite (takeN_app_len (bs + 2) P R HP), (dropN_app_len (bs + 2) P R HP).
  replace (lenN R <? MDC_LEN) with false by (symmetry; apply N.ltb_ge; lia).
  unfold okb. reflexivity.
Qed.

(* Streaming mode: for every sequence of request sizes the consumer gets what
   seipd1_streaming says, and ends the way it says *)
Theorem machine_streaming req ct :
  run_machine E bs sha1 None req ct =
  (fst (seipd1_streaming E bs sha1 ct), oc_of (snd (seipd1_streaming E bs sha1 ct))).
Proof.
  unfold run_machine, start, seipd1_streaming.
  destruct (N.ltb_spec (lenN ct) (bs + 2)) as [Hs|Hl]; [reflexivity|].
  destruct (bd_run E bs (bd_init E (zeros_n bs)) (takeN (bs + 2) ct)) as [d P] eqn:Er.
  destruct (dec_split ct d P Hl Er) as (Hd & HP).
  set (R := snd (bd_run E bs d (dropN (bs + 2) ct))) in *.
  set (s0 := {| ph := PData; buf := []; avail := 0; hin := P; src := dropN (bs + 2) ct; dec := d |}).
  assert (HI : InvD P R s0 []).
  { split; [reflexivity|]. exists R. cbn [buf avail hin src dec]. repeat split.
    - rewrite takeN_0, !app_nil_r. reflexivity.
    - left. repeat split. }
  assert (HRl : lenN R = lenN ct - (bs + 2)) by (unfold R; rewrite bd_run_length, lenN_dropN; reflexivity).
  destruct (drive_stream P R req (S (S (length ct))) 0 s0 [] HI) as (suf & oc & Hdr & Hsp).
  { rewrite lenN_nil. unfold lenN in *. lia. }
  rewrite Hdr. cbn [app] in Hsp. transitivity (spec_stream P R); [exact Hsp|]. unfold spec_stream.
  rewrite Hd, (dropN_app_len (bs + 2) P R HP).
  destruct (N.ltb_spec (lenN R) MDC_LEN) as [Hlt|Hge]; [reflexivity|].
  rewrite (seipd1_dec_PR ct P R Hl Hd HP Hge).
  destruct (okb P R); reflexivity.
Qed.

(* CheckFirst mode: everything or nothing, whatever the requests *)
Theorem machine_checkfirst max req ct :
  run_machine E bs sha1 (Some max) req ct =
  (fst (seipd1_checkfirst E bs sha1 max ct), oc_of (snd (seipd1_checkfirst E bs sha1 max ct))).
Proof.
  unfold run_machine, start, seipd1_checkfirst.
  destruct (N.ltb_spec (lenN ct) (bs + 2)) as [Hs|Hl]; [reflexivity|].
  destruct (bd_run E bs (bd_init E (zeros_n bs)) (takeN (bs + 2) ct)) as [d P] eqn:Er.
  destruct (dec_split ct d P Hl Er) as (Hd & HP).
  destruct (bd_run E bs d (dropN (bs + 2) ct)) as [d2 R] eqn:Er2. cbn [snd] in Hd.
  set (s0 := {| ph := PData; buf := []; avail := 0; hin := P; src := dropN (bs + 2) ct; dec := d |}).
  assert (HRl : lenN R = lenN ct - (bs + 2)).
  { pose proof (bd_run_length E bs d (dropN (bs + 2) ct)) as Hx. rewrite Er2 in Hx. cbn [snd] in Hx.
    rewrite Hx, lenN_dropN. reflexivity. }
  (* the one refill of this mode *)
  assert (Hfill :
    (ph (fillM (Some max) s0) = PFail /\
     (max < lenN ct - (bs + 2) \/ lenN R < MDC_LEN \/ (MDC_LEN <= lenN R /\ okb P R = false))) \/
    (ph (fillM (Some max) s0) = PDone /\ lenN ct - (bs + 2) <= max /\ MDC_LEN <= lenN R /\ okb P R = true /\
     buf (fillM (Some max) s0) = takeN (lenN R - MDC_LEN) R)).
  { unfold fill, s0. cbn [ph buf avail hin src dec]. rewrite lenN_nil, N.sub_0_r.
    destruct (N.ltb_spec max (lenN ct - (bs + 2))) as [Hlong|Hfit].
    - left.
      assert (Hp1 : lenN (takeN max (dropN (bs + 2) ct)) = max) by (rewrite lenN_takeN, lenN_dropN; lia).
      rewrite Hp1, N.eqb_refl.
      destruct (dropN max (dropN (bs + 2) ct)) eqn:Edd.
      + exfalso. assert (H0 : lenN (dropN max (dropN (bs + 2) ct)) = 0) by (rewrite Edd; reflexivity).
        rewrite !lenN_dropN in H0. lia.
      + cbn [is_nil negb andb]. split; [reflexivity|]. left. exact Hlong.
    - rewrite (takeN_all max (dropN (bs + 2) ct)) by (rewrite lenN_dropN; lia).
      rewrite (dropN_all max (dropN (bs + 2) ct)) by (rewrite lenN_dropN; lia).
      cbn [is_nil negb]. rewrite andb_false_r.
      rewrite Er2. cbn [app].
      destruct (N.ltb_spec (lenN R) MDC_LEN) as [Hlt|Hge].
      + left. split; [reflexivity|]. right. left. exact Hlt.
      + assert (Hh : (if 0 <? lenN R - MDC_LEN then P ++ dropN 0 (takeN (lenN R - MDC_LEN) R) else P)
                     = P ++ takeN (lenN R - MDC_LEN) R).
        { destruct (N.ltb_spec 0 (lenN R - MDC_LEN)) as [He|He]; [rewrite dropN_0; reflexivity|].
          replace (lenN R - MDC_LEN) with 0 by lia. rewrite takeN_0, app_nil_r. reflexivity. }
        rewrite Hh.
        assert (Hok : mdc_ok sha1 (P ++ takeN (lenN R - MDC_LEN) R) (dropN (lenN R - MDC_LEN) R) = okb P R).
        { rewrite mdc_ok_head. unfold okb. rewrite <- !app_assoc. reflexivity. }
        rewrite Hok. destruct (okb P R) eqn:Eok.
        * right. repeat split; assumption || reflexivity.
        * left. split; [reflexivity|]. right. right. split; [exact Hge|reflexivity]. }
  assert (Hidem : fillM (Some max) (fillM (Some max) s0) = fillM (Some max) s0).
  { apply fill_not_data. destruct Hfill as [(Hp & _)|(Hp & _)]; congruence. }
  rewrite (drive_fill (Some max) req _ 0 s0 Hidem).
  destruct Hfill as [(Hp & Hwhy)|(Hp & Hfit & Hge & Hok & Hb)].
  - cbn [drive]. unfold take. rewrite (fill_not_data (Some max) _) by congruence. rewrite Hp.
    destruct Hwhy as [Hlong|[Hlt|(Hge & Hok)]].
    + replace (max <? lenN ct - (bs + 2)) with true by (symmetry; apply N.ltb_lt; exact Hlong). reflexivity.
    + destruct (max <? lenN ct - (bs + 2)); [reflexivity|].
      unfold seipd1_dec. replace (lenN ct <? bs + 2) with false by (symmetry; apply N.ltb_ge; lia).
      rewrite Hd, (dropN_app_len (bs + 2) P R HP).
      replace (lenN R <? MDC_LEN) with true by (symmetry; apply N.ltb_lt; exact Hlt). reflexivity.
    + destruct (max <? lenN ct - (bs + 2)); [reflexivity|].
      rewrite (seipd1_dec_PR ct P R Hl Hd HP Hge), Hok. reflexivity.
  - rewrite drive_done; [|exact Hp|].
    + replace (max <? lenN ct - (bs + 2)) with false by (symmetry; apply N.ltb_ge; exact Hfit).
      rewrite (seipd1_dec_PR ct P R Hl Hd HP Hge), Hok, Hb. reflexivity.
    + rewrite Hb, lenN_takeN. unfold lenN in *. lia.
Qed.

Theorem machine_clean_end mode req ct out :
  run_machine E bs sha1 mode req ct = (out, Clean) -> seipd1_dec E bs sha1 ct = Ok out.
Proof.
  destruct mode as [max|].
  - rewrite machine_checkfirst. intros H.
    destruct (seipd1_checkfirst E bs sha1 max ct) as [o b] eqn:Ec. cbn [fst snd] in H.
    destruct b; cbn [oc_of] in H; [|discriminate]. injection H as ->.
    unfold seipd1_checkfirst in Ec.
    destruct (lenN ct <? bs + 2); [discriminate|].
    destruct (max <? lenN ct - (bs + 2)); [discriminate|].
    destruct (seipd1_dec E bs sha1 ct); try discriminate. injection Ec as <-. reflexivity.
  - rewrite machine_streaming. intros H.
    destruct (seipd1_streaming E bs sha1 ct) as [o b] eqn:Ec. cbn [fst snd] in H.
    destruct b; cbn [oc_of] in H; [|discriminate]. injection H as ->.
    exact (streaming_clean_iff E bs sha1 ct out Ec).
Qed.

(* the consumer's request sizes do not matter *)
Theorem machine_request_independent mode req1 req2 ct :
  run_machine E bs sha1 mode req1 ct = run_machine E bs sha1 mode req2 ct.
Proof.
  destruct mode as [max|]; [rewrite !machine_checkfirst|rewrite !machine_streaming]; reflexivity.
Qed.

End MachineProofs.

(* ---------------------------------------------------------------- memory: the streaming reader's buffer *)

Section BufferBound.

Variable E : bytes -> bytes.
Variable bs : N.
Variable sha1 : bytes -> bytes.
Hypothesis bs_pos : 1 <= bs.
Hypothesis E_len : forall x, lenN (E x) = bs.

(* in Streaming mode the buffer never holds more than 8192 octets, however long the stream is *)
Lemma fill_buffer_bound s : lenN (buf s) <= BUF -> lenN (buf (fill E bs sha1 None s)) <= BUF.
Proof.
  intros Hb. unfold fill. destruct (ph s); try exact Hb.
  destruct (MDC_LEN <? lenN (buf s)); [exact Hb|].
  destruct (bd_run E bs (dec s) (takeN (BUF - lenN (buf s)) (src s))) as [d' out] eqn:Er.
  assert (Hol : lenN out <= BUF - lenN (buf s)).
  { pose proof (bd_run_length E bs (dec s) (takeN (BUF - lenN (buf s)) (src s))) as Hx. rewrite Er in Hx. cbn [snd] in Hx.
    rewrite Hx, lenN_takeN. lia. }
  cbn [andb]. destruct (lenN (buf s ++ out) <? MDC_LEN); [cbn; unfold BUF; lia|].
  destruct (lenN (takeN (BUF - lenN (buf s)) (src s)) <? BUF - lenN (buf s)).
  - destruct (mdc_ok _ _ _); cbn [buf failed]; [rewrite lenN_takeN, lenN_app; lia|cbn; unfold BUF; lia].
  - cbn [buf]. rewrite lenN_app. lia.
Qed.

Theorem take_buffer_bound n s :
  lenN (buf s) <= BUF -> lenN (buf (fst (take E bs sha1 None n s))) <= BUF.
Proof.
  intros Hb. pose proof (fill_buffer_bound s Hb) as Hf. unfold take.
  destruct (ph (fill E bs sha1 None s)); cbn [fst buf]; try exact Hf; rewrite lenN_dropN; lia.
Qed.

End BufferBound.
