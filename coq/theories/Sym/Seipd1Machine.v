(* Sym/Seipd1Machine.v -- the SEIPD v1 stream decryptor as the state machine the
   code is (C03, C09): cfb-mode's BufDecryptor octet by octet, the 8192-octet
   buffer with the 22-octet MDC hold-back, the consumer's requests.

   Mirrors src/crypto/sym/decryptor.rs:
     StreamDecryptorInner::{advance_prefix, fill_inner, fill_data, finalize_data},
     impl Read (read), impl BufRead (fill_buf + consume), read_to_end
   and util::fill_buffer_bytes (fills until the buffer holds the wanted number of
   octets or the source ends; its independence of the source's own chunking is
   Io/Fill.v's theorem).

   Seipd1MachineProofs.v proves that, for every sequence of request sizes, what
   the machine hands out and how it ends is Cfb.v's seipd1_streaming /
   seipd1_checkfirst. *)
From Rpgp Require Import Base.Octets Base.Res Sym.Cfb.

Section BufDec.

Variable E : bytes -> bytes.
Variable bs : N.

(* cfb_mode::BufDecryptor: the keystream block E(previous ciphertext block) and the
   ciphertext octets of the current block seen so far *)
Record bd := { ks : bytes; cur : bytes }.

Definition bd_init (iv : bytes) : bd := {| ks := E iv; cur := [] |}.

Definition bd_step (s : bd) (c : byte) : bd * byte :=
  let p := n2b (N.lxor (b2n c) (b2n (nth (length (cur s)) (ks s) x00))) in
  let cur' := cur s ++ [c] in
  if lenN cur' =? bs then ({| ks := E cur'; cur := [] |}, p)
  else ({| ks := ks s; cur := cur' |}, p).

Fixpoint bd_run (s : bd) (c : bytes) : bd * bytes :=
  match c with
  | [] => (s, [])
  | x :: r =>
      let '(s1, p) := bd_step s x in
      let '(s2, o) := bd_run s1 r in
      (s2, p :: o)
  end.

End BufDec.

Section Machine.

Variable E : bytes -> bytes.
Variable bs : N.
Variable sha1 : bytes -> bytes.

Inductive phase := PData | PDone | PFail.

Record sd := {
  ph : phase;
  buf : bytes;      (* decrypted, not yet handed out *)
  avail : N;        (* data_available: hashed octets of buf that may be handed out *)
  hin : bytes;      (* what the running SHA-1 has been fed *)
  src : bytes;      (* ciphertext not yet read *)
  dec : bd          (* the CFB decryptor's state *)
}.

Definition failed (s : sd) : sd :=
  {| ph := PFail; buf := []; avail := 0; hin := []; src := src s; dec := dec s |}.

(* finalize_data: the last two octets hashed are the ones found in the stream *)
Definition mdc_ok (h mdc : bytes) : bool :=
  beq (hd x00 mdc) xd3 && beq (hd x00 (tl mdc)) x14
  && (if list_eq_dec Byte.byte_eq_dec (dropN 2 mdc) (sha1 (h ++ takeN 2 mdc)) then true else false).

(* advance_prefix *)
Definition start (ct : bytes) : option sd :=
  if lenN ct <? bs + 2 then None
  else
    let '(d, p) := bd_run E bs (bd_init E (zeros_n bs)) (takeN (bs + 2) ct) in
    Some {| ph := PData; buf := []; avail := 0; hin := p; src := dropN (bs + 2) ct; dec := d |}.

Definition is_nil {A} (l : list A) : bool := match l with [] => true | _ => false end.

(* fill_inner; [mode]: None = Streaming, Some max = CheckFirst { max_message_size } *)
Definition fill (mode : option N) (s : sd) : sd :=
  match ph s with
  | PData =>
      let skip := match mode with None => MDC_LEN <? lenN (buf s) | Some _ => false end in
      if skip then s
      else
        let want := match mode with None => BUF - lenN (buf s) | Some max => max - lenN (buf s) end in
        let piece := takeN want (src s) in
        let rest := dropN want (src s) in
        let too_long := match mode with Some max => (lenN piece =? max) && negb (is_nil rest) | None => false end in
        if too_long then failed s
        else
          let is_last := match mode with Some _ => true | None => lenN piece <? want end in
          let '(d', out) := bd_run E bs (dec s) piece in
          let buf' := buf s ++ out in
          if lenN buf' <? MDC_LEN then failed s
          else
            let e := lenN buf' - MDC_LEN in
            let hin' := if avail s <? e then hin s ++ dropN (avail s) (takeN e buf') else hin s in
            if is_last then
              if mdc_ok hin' (dropN e buf')
              then {| ph := PDone; buf := takeN e buf'; avail := 0; hin := []; src := rest; dec := d' |}
              else failed s
            else {| ph := PData; buf := buf'; avail := (if avail s <? e then e else avail s);
                    hin := hin'; src := rest; dec := d' |}
  | _ => s
  end.

(* read(buf of n octets); fill_buf + consume(min n (what fill_buf showed)) hands out the same octets *)
Definition take (mode : option N) (n : N) (s : sd) : sd * res bytes :=
  let s1 := fill mode s in
  match ph s1 with
  | PFail => (s1, Err)
  | PData =>
      let k := N.min (avail s1) n in
      ({| ph := PData; buf := dropN k (buf s1); avail := avail s1 - k; hin := hin s1; src := src s1; dec := dec s1 |},
       Ok (takeN k (buf s1)))
  | PDone =>
      let k := N.min (lenN (buf s1)) n in
      ({| ph := PDone; buf := dropN k (buf s1); avail := 0; hin := []; src := src s1; dec := dec s1 |},
       Ok (takeN k (buf s1)))
  end.

Inductive outcome := Clean | Failed | OutOfFuel.

(* a consumer that reads until it is handed nothing (end of stream) or an error;
   its i-th request asks for max 1 (req i) octets *)
Fixpoint drive (mode : option N) (req : N -> N) (fuel : nat) (i : N) (s : sd) : bytes * outcome :=
  match fuel with
  | O => ([], OutOfFuel)
  | S f =>
      match take mode (N.max 1 (req i)) s with
      | (_, Ok []) => ([], Clean)
      | (s', Ok o) => let '(r, oc) := drive mode req f (N.succ i) s' in (o ++ r, oc)
      | (_, _) => ([], Failed)
      end
  end.

Definition run_machine (mode : option N) (req : N -> N) (ct : bytes) : bytes * outcome :=
  match start ct with
  | None => ([], Failed)
  | Some s => drive mode req (S (S (length ct))) 0 s
  end.

End Machine.
