(* Sym/Seipd1EncMachine.v -- the SEIPD v1 stream encryptor as the staged producer the code is
   (C01, C09, C12): cfb-mode's BufEncryptor octet by octet; the encrypted prefix, then 8192-octet
   buffers of the source hashed and encrypted, then the encrypted MDC packet, handed out through read().

   Mirrors src/crypto/sym/encryptor.rs: StreamEncryptorInner::{new, fill_inner, read, read_to_end}
   (util::fill_buffer fills each buffer completely unless the source ends: Io/Fill.v).

   Seipd1EncMachineProofs.v: for every sequence of request sizes the consumer receives exactly
   Cfb.seipd1_enc prefix data, and then a clean end. *)
From Rpgp Require Import Base.Octets Base.Res Sym.Cfb Io.Emitter.

Section BufEnc.

Variable E : bytes -> bytes.
Variable bs : N.

(* cfb_mode::BufEncryptor: keystream block E(previous ciphertext block), ciphertext of the current block so far *)
Record be := { eks : bytes; ecur : bytes }.

Definition be_init (iv : bytes) : be := {| eks := E iv; ecur := [] |}.

Definition be_step (s : be) (p : byte) : be * byte :=
  let c := n2b (N.lxor (b2n p) (b2n (nth (length (ecur s)) (eks s) x00))) in
  let cur' := ecur s ++ [c] in
  if lenN cur' =? bs then ({| eks := E cur'; ecur := [] |}, c)
  else ({| eks := eks s; ecur := cur' |}, c).

Fixpoint be_run (s : be) (p : bytes) : be * bytes :=
  match p with
  | [] => (s, [])
  | x :: r =>
      let '(s1, c) := be_step s x in
      let '(s2, o) := be_run s1 r in
      (s2, c :: o)
  end.

End BufEnc.

Section EncMachine.

Variable E : bytes -> bytes.
Variable bs : N.
Variable sha1 : bytes -> bytes.

Inductive estage :=
| SAfterPrefix (e : be) (hin : bytes) (src : bytes)            (* Prefix: the encrypted prefix is being handed out *)
| SData (e : be) (hin : bytes) (src : option bytes)            (* Data; None = the source was seen to end *)
| SAfterMdc.                                                   (* Mdc: the encrypted MDC packet is being handed out *)

Definition mdc_stage (e : be) (hin : bytes) : option (bytes * estage) :=
  let m := mdc_head ++ sha1 (hin ++ mdc_head) in
  Some (snd (be_run E bs e m), SAfterMdc).

Definition e_is_nil {A} (l : list A) : bool := match l with [] => true | _ => false end.

(* fill_inner when the current buffer is used up *)
Definition enc_advance (st : estage) : option (bytes * estage) :=
  match st with
  | SAfterPrefix e hin src =>
      let buf := takeN BUF src in
      let '(e', out) := be_run E bs e buf in
      Some (out, SData e' (hin ++ buf) (if lenN buf <? BUF then None else Some (dropN BUF src)))
  | SData e hin (Some src) =>
      let buf := takeN BUF src in
      if e_is_nil buf then mdc_stage e hin
      else let '(e', out) := be_run E bs e buf in Some (out, SData e' (hin ++ buf) (Some (dropN BUF src)))
  | SData e hin None => mdc_stage e hin
  | SAfterMdc => None
  end.

(* StreamEncryptorInner::new: the prefix is hashed and encrypted at once *)
Definition enc_start (prefix data : bytes) : bytes * estage :=
  let '(e, out) := be_run E bs (be_init E (zeros_n bs)) prefix in
  (out, SAfterPrefix e prefix data).

Definition enc_run (req : N -> N) (prefix data : bytes) : bytes * e_outcome :=
  let '(p, r) := enc_start prefix data in
  let sf := S (S (S (S (length data)))) in
  e_drive estage enc_advance sf req
    (length prefix + length data + length (mdc_head ++ sha1 (prefix ++ data ++ mdc_head)) + sf + 2) 0 p r.

End EncMachine.
