(* Sym/Cfb.v -- OpenPGP CFB mode over an abstract block cipher (RFC 9580 12.9),
   and SEIPD v1 / SED on top of it (C03, C12).

   Mirrors:
     src/crypto/sym/decryptor.rs StreamDecryptorInner::{advance_prefix, fill_data, finalize_data, read, read_to_end}
     src/crypto/sym/encryptor.rs StreamEncryptorInner
     cfb-mode BufEncryptor/BufDecryptor are modelled concretely (cfb_enc/cfb_dec) *)
From Rpgp Require Import Base.Octets Base.Res.

Fixpoint xor_bytes (a b : bytes) : bytes :=
  match a, b with
  | x :: a', y :: b' => n2b (N.lxor (b2n x) (b2n y)) :: xor_bytes a' b'
  | _, _ => []
  end.

Section Cfb.

(* block encryption under the (fixed) key; [bs] the block size *)
Variable E : bytes -> bytes.
Variable bs : N.

(* c_i = p_i xor E(c_{i-1}); the last block may be partial *)
Fixpoint cfb_enc_fuel (fuel : nat) (prev : bytes) (p : bytes) : bytes :=
  match fuel with
  | O => []
  | S f =>
      match p with
      | [] => []
      | _ =>
          let blk := xor_bytes (takeN bs p) (E prev) in
          blk ++ cfb_enc_fuel f blk (dropN bs p)
      end
  end.

Fixpoint cfb_dec_fuel (fuel : nat) (prev : bytes) (c : bytes) : bytes :=
  match fuel with
  | O => []
  | S f =>
      match c with
      | [] => []
      | _ =>
          let cb := takeN bs c in
          xor_bytes cb (E prev) ++ cfb_dec_fuel f cb (dropN bs c)
      end
  end.

Definition cfb_enc (iv p : bytes) : bytes := cfb_enc_fuel (length p) iv p.
Definition cfb_dec (iv c : bytes) : bytes := cfb_dec_fuel (length c) iv c.

End Cfb.

Definition zeros_n (n : N) : bytes := repeat x00 (N.to_nat n).

Section Seipd1.

Variable E : bytes -> bytes.          (* block encryption under the session key *)
Variable bs : N.
Variable sha1 : bytes -> bytes.

Definition MDC_LEN : N := 22.
Definition mdc_head : bytes := [xd3; x14].

(* the protected plaintext stream: prefix, data, MDC packet *)
Definition seipd1_plain (prefix data : bytes) : bytes :=
  prefix ++ data ++ mdc_head ++ sha1 (prefix ++ data ++ mdc_head).

Definition seipd1_enc (prefix data : bytes) : bytes :=
  cfb_enc E bs (zeros_n bs) (seipd1_plain prefix data).

(* L0: decrypt everything, split, check the MDC *)
Definition seipd1_dec (ct : bytes) : res bytes :=
  if lenN ct <? bs + 2 then Err
  else
    let d := cfb_dec E bs (zeros_n bs) ct in
    let prefix := takeN (bs + 2) d in
    let rest := dropN (bs + 2) d in
    if lenN rest <? MDC_LEN then Err
    else
      let body := takeN (lenN rest - MDC_LEN) rest in
      let mdc := dropN (lenN rest - MDC_LEN) rest in
      if (beq (hd x00 mdc) xd3) && (beq (hd x00 (tl mdc)) x14)
         && (if list_eq_dec Byte.byte_eq_dec (dropN 2 mdc) (sha1 (prefix ++ body ++ mdc_head)) then true else false)
      then Ok body else Err.

(* L1, default mode (CheckFirst max): everything or nothing; more than [max]
   octets after the prefix is refused *)
Definition seipd1_checkfirst (max : N) (ct : bytes) : bytes * bool :=
  if lenN ct <? bs + 2 then ([], false)
  else if max <? lenN ct - (bs + 2) then ([], false)
  else match seipd1_dec ct with Ok b => (b, true) | _ => ([], false) end.

(* L1, streaming mode: plaintext is released in units of 8192-22 octets while
   full buffers arrive; the remainder only after the MDC check *)
Definition BUF : N := 8192.
Definition released_before_check (l : N) : N :=
  if l <? BUF then 0 else (1 + (l - BUF) / (BUF - MDC_LEN)) * (BUF - MDC_LEN).

Definition seipd1_streaming (ct : bytes) : bytes * bool :=
  if lenN ct <? bs + 2 then ([], false)
  else
    let d := cfb_dec E bs (zeros_n bs) ct in
    let rest := dropN (bs + 2) d in
    if lenN rest <? MDC_LEN then ([], false)
    else match seipd1_dec ct with
         | Ok b => (b, true)
         | _ => (takeN (released_before_check (lenN rest)) rest, false)
         end.

End Seipd1.
