(* Sym/Seipd1EncMachineProofs.v -- the stream encryptor machine produces Cfb.seipd1_enc,
   whatever sizes the consumer reads with. *)
From Coq Require Import ZifyBool ZifyN ZifyNat.
From Rpgp Require Import Base.Octets Base.OctetsMore Base.Res Sym.Cfb Sym.CfbProofs Io.Emitter Io.EmitterProofs
  Sym.Seipd1MachineProofs Sym.Seipd1EncMachine.
Ltac Zify.zify_post_hook ::= Z.div_mod_to_equations.

Section BufEncProofs.

Variable E : bytes -> bytes.
Variable bs : N.
Hypothesis bs_pos : 1 <= bs.
Hypothesis E_len : forall x, lenN (E x) = bs.

Lemma be_run_app s a b :
  be_run E bs s (a ++ b) =
  (fst (be_run E bs (fst (be_run E bs s a)) b), snd (be_run E bs s a) ++ snd (be_run E bs (fst (be_run E bs s a)) b)).
Proof.
  revert s; induction a as [|x a IH]; intros s; cbn [be_run app].
  - cbn. destruct (be_run E bs s b); reflexivity.
  - destruct (be_step E bs s x) as [s1 p]. rewrite IH.
    destruct (be_run E bs s1 a) as [s2 o]. cbn [fst snd].
    destruct (be_run E bs s2 b) as [s3 o2]. reflexivity.
Qed.

Lemma be_run_length s p : lenN (snd (be_run E bs s p)) = lenN p.
Proof.
  revert s; induction p as [|x p IH]; intros s; cbn [be_run]; [reflexivity|].
  destruct (be_step E bs s x) as [s1 c]. specialize (IH s1).
  destruct (be_run E bs s1 p) as [s2 o]. cbn [snd] in *. rewrite !lenN_cons, IH. reflexivity.
Qed.

(* within one block *)
Lemma be_run_block kst c0 b :
  lenN kst = bs -> lenN c0 + lenN b <= bs ->
  snd (be_run E bs {| eks := kst; ecur := c0 |} b) = xor_bytes b (skipn (length c0) kst) /\
  fst (be_run E bs {| eks := kst; ecur := c0 |} b) =
    (if lenN c0 + lenN b =? bs
     then (if e_is_nil b then {| eks := kst; ecur := c0 |} else {| eks := E (c0 ++ xor_bytes b (skipn (length c0) kst)); ecur := [] |})
     else {| eks := kst; ecur := c0 ++ xor_bytes b (skipn (length c0) kst) |}).
Proof.
  intros Hk. revert c0; induction b as [|x b IH]; intros c0 Hl.
  - cbn [be_run fst snd e_is_nil xor_bytes]. rewrite app_nil_r. split; [reflexivity|].
    destruct (_ =? _); reflexivity.
  - rewrite lenN_cons in Hl. cbn [be_run]. unfold be_step. cbn [eks ecur].
    assert (Hsk : exists y kt, skipn (length c0) kst = y :: kt).
    { destruct (skipn (length c0) kst) as [|y kt] eqn:Es.
      - assert (Hlen : length (skipn (length c0) kst) = 0%nat) by (rewrite Es; reflexivity).
        rewrite skipn_length in Hlen. unfold lenN in *. lia.
      - eauto. }
    destruct Hsk as (y & kt & Es).
    assert (Hnth : nth (length c0) kst x00 = y) by (rewrite nth_skipn_hd, Es; reflexivity).
    rewrite Hnth, Es, xor_bytes_cons.
    set (cx := n2b (N.lxor (b2n x) (b2n y))).
    assert (Hkt : skipn (length (c0 ++ [cx])) kst = kt).
    { rewrite app_length. cbn [length]. replace (length c0 + 1)%nat with (S (length c0)) by lia.
      change (S (length c0)) with (1 + length c0)%nat. rewrite skipn_plus, Es. reflexivity. }
    assert (Hl1 : lenN (c0 ++ [cx]) = lenN c0 + 1) by (rewrite lenN_app; reflexivity).
    destruct (N.eqb_spec (lenN (c0 ++ [cx])) bs) as [Hfull|Hnf].
    + assert (Hb : b = []) by (apply lenN_0_nil; lia). subst b.
      cbn [be_run fst snd e_is_nil xor_bytes]. split; [destruct kt; reflexivity|].
      rewrite lenN_cons, lenN_nil.
      destruct (N.eqb_spec (lenN c0 + (1 + 0)) bs); [|lia].
      destruct kt; reflexivity.
    + specialize (IH (c0 ++ [cx])). rewrite Hl1 in IH. specialize (IH ltac:(lia)).
      destruct IH as [IHo IHs].
      destruct (be_run E bs {| eks := kst; ecur := c0 ++ [cx] |} b) as [s2 o] eqn:Er.
      cbn [fst snd] in *. rewrite Hkt in IHo, IHs. subst o. split; [reflexivity|].
      rewrite IHs. rewrite lenN_cons. rewrite <- !app_assoc. cbn [app].
      replace (lenN c0 + (1 + lenN b)) with (lenN c0 + 1 + lenN b) by lia.
      destruct (N.eqb_spec (lenN c0 + 1 + lenN b) bs) as [Hx|Hx]; [|reflexivity].
      destruct b; cbn [e_is_nil]; [|reflexivity].
      exfalso. rewrite lenN_nil in Hx. lia.
Qed.

Lemma be_run_cfb_fuel f prev p :
  (length p <= f)%nat ->
  snd (be_run E bs {| eks := E prev; ecur := [] |} p) = cfb_enc_fuel E bs f prev p.
Proof.
  revert prev p; induction f as [|f IH]; intros prev p Hf.
  - destruct p; [reflexivity|cbn in Hf; lia].
  - destruct p as [|x t] eqn:Ep; [reflexivity|]. rewrite <- Ep in *.
    assert (Hp : 1 <= lenN p) by (subst p; rewrite lenN_cons; lia).
    rewrite cfb_enc_fuel_S by (apply ne_of_len1; exact Hp).
    rewrite <- (takeN_dropN bs p) at 1. rewrite be_run_app. cbn [snd].
    pose proof (be_run_block (E prev) [] (takeN bs p) (E_len prev)) as Hb.
    rewrite lenN_nil, lenN_takeN in Hb. specialize (Hb ltac:(lia)).
    destruct Hb as [Ho Hs]. cbn [length skipn app] in Ho, Hs. rewrite Ho. f_equal.
    destruct (N.leb_spec bs (lenN p)) as [Hfull|Hshort].
    + rewrite Hs. replace (0 + N.min bs (lenN p) =? bs) with true by (symmetry; apply N.eqb_eq; lia).
      assert (Hne : e_is_nil (takeN bs p) = false).
      { destruct (takeN bs p) eqn:Et; [|reflexivity]. exfalso.
        assert (H0 : lenN (takeN bs p) = 0) by (rewrite Et; reflexivity). rewrite lenN_takeN in H0. lia. }
      rewrite Hne. apply IH.
      assert (lenN (dropN bs p) < lenN p) by (rewrite lenN_dropN; lia). unfold lenN in *. lia.
    + rewrite (dropN_all bs p) by lia.
      replace (cfb_enc_fuel E bs f (xor_bytes (takeN bs p) (E prev)) []) with (@nil byte) by (destruct f; reflexivity).
      reflexivity.
Qed.

Theorem be_run_is_cfb_enc iv p : snd (be_run E bs (be_init E iv) p) = cfb_enc E bs iv p.
Proof. unfold be_init, cfb_enc. apply be_run_cfb_fuel. lia. Qed.

End BufEncProofs.

Section EncMachineProofs.

Variable E : bytes -> bytes.
Variable bs : N.
Variable sha1 : bytes -> bytes.
Hypothesis bs_pos : 1 <= bs.
Hypothesis E_len : forall x, lenN (E x) = bs.

Notation advE := (enc_advance E bs sha1).
Notation wholeM := (whole estage advE).
Notation stagesM := (stages estage advE).

(* the MDC packet for what has been hashed *)
Definition mdc_of (h : bytes) : bytes := mdc_head ++ sha1 (h ++ mdc_head).

Lemma after_mdc f : stagesM (S f) SAfterMdc = Some 0%nat /\ wholeM (S f) SAfterMdc = [].
Proof. split; reflexivity. Qed.

Lemma mdc_whole f e hin src :
  (src = None \/ src = Some []) ->
  stagesM (S (S f)) (SData e hin src) = Some 1%nat /\
  wholeM (S (S f)) (SData e hin src) = snd (be_run E bs e (mdc_of hin)).
Proof.
  intros [->| ->]; cbn [stages whole enc_advance mdc_stage takeN e_is_nil]; rewrite ?takeN_nil_any;
    split; try reflexivity; rewrite app_nil_r; reflexivity.
Qed.

Lemma data_whole f : forall src e hin,
  (length src < f)%nat ->
  exists k, stagesM (S (S f)) (SData e hin (Some src)) = Some k /\
            wholeM (S (S f)) (SData e hin (Some src)) = snd (be_run E bs e (src ++ mdc_of (hin ++ src))).
Proof.
  induction f as [|f IH]; intros src e hin Hf; [lia|].
  destruct src as [|x t] eqn:Es.
  - destruct (mdc_whole (S f) e hin (Some []) (or_intror eq_refl)) as (Hs & Hw).
    exists 1%nat. split; [exact Hs|]. rewrite Hw, app_nil_r. reflexivity.
  - rewrite <- Es in *. assert (Hl : 1 <= lenN src) by (rewrite Es, lenN_cons; lia).
    set (buf := takeN BUF src). set (rest := dropN BUF src).
    assert (Hbn : e_is_nil buf = false).
    { destruct buf eqn:Eb; [|reflexivity]. exfalso. assert (H0 : lenN (takeN BUF src) = 0) by (fold buf; rewrite Eb; reflexivity).
      rewrite lenN_takeN in H0. unfold BUF in H0. lia. }
    assert (Hrl : (length rest < f)%nat).
    { assert (lenN rest < lenN src) by (unfold rest; rewrite lenN_dropN; unfold BUF; lia). unfold lenN in *. lia. }
    destruct (be_run E bs e buf) as [e' out] eqn:Er.
    destruct (IH rest e' (hin ++ buf) Hrl) as (k & Hs & Hw).
    assert (Hsplit : snd (be_run E bs e (src ++ mdc_of (hin ++ src))) =
                     out ++ snd (be_run E bs e' (rest ++ mdc_of ((hin ++ buf) ++ rest)))).
    { rewrite <- (takeN_dropN BUF src) at 1 2. fold buf rest.
      rewrite <- (app_assoc buf rest), be_run_app, Er. cbn [fst snd]. rewrite <- !app_assoc. reflexivity. }
    assert (Hadv : advE (SData e hin (Some src)) = Some (out, SData e' (hin ++ buf) (Some rest))).
    { cbn [enc_advance]. fold buf. rewrite Hbn, Er. reflexivity. }
    exists (S k). split.
    + change (stagesM (S (S (S f))) (SData e hin (Some src))) with
        (match advE (SData e hin (Some src)) with None => Some 0%nat
         | Some (_, r') => match stagesM (S (S f)) r' with Some k => Some (S k) | None => None end end).
      rewrite Hadv, Hs. reflexivity.
    + change (wholeM (S (S (S f))) (SData e hin (Some src))) with
        (match advE (SData e hin (Some src)) with None => [] | Some (b, r') => b ++ wholeM (S (S f)) r' end).
      rewrite Hadv, Hw, Hsplit. reflexivity.
Qed.

Lemma prefix_whole f src e hin :
  (length src < f)%nat ->
  exists k, stagesM (S (S (S f))) (SAfterPrefix e hin src) = Some k /\
            wholeM (S (S (S f))) (SAfterPrefix e hin src) = snd (be_run E bs e (src ++ mdc_of (hin ++ src))).
Proof.
  intros Hf. set (buf := takeN BUF src). set (rest := dropN BUF src).
  destruct (be_run E bs e buf) as [e' out] eqn:Er.
  assert (Hsplit : snd (be_run E bs e (src ++ mdc_of (hin ++ src))) =
                   out ++ snd (be_run E bs e' (rest ++ mdc_of ((hin ++ buf) ++ rest)))).
  { rewrite <- (takeN_dropN BUF src) at 1 2. fold buf rest.
    rewrite <- (app_assoc buf rest), be_run_app, Er. cbn [fst snd]. rewrite <- !app_assoc. reflexivity. }
  destruct (N.ltb_spec (lenN buf) BUF) as [Hshort|Hfull].
  - (* the source ended within the first buffer *)
    assert (Hr0 : rest = []).
    { unfold rest. apply dropN_all. unfold buf in Hshort. rewrite lenN_takeN in Hshort. lia. }
    assert (Hadv : advE (SAfterPrefix e hin src) = Some (out, SData e' (hin ++ buf) None)).
    { cbn [enc_advance]. fold buf. rewrite Er. replace (lenN buf <? BUF) with true by (symmetry; apply N.ltb_lt; exact Hshort). reflexivity. }
    destruct (mdc_whole f e' (hin ++ buf) (@None bytes) (or_introl (@eq_refl (option bytes) (@None bytes)))) as (Hs & Hw).
    exists 2%nat. split.
    + change (stagesM (S (S (S f))) (SAfterPrefix e hin src)) with
        (match advE (SAfterPrefix e hin src) with None => Some 0%nat
         | Some (_, r') => match stagesM (S (S f)) r' with Some k => Some (S k) | None => None end end).
      rewrite Hadv, Hs. reflexivity.
    + change (wholeM (S (S (S f))) (SAfterPrefix e hin src)) with
        (match advE (SAfterPrefix e hin src) with None => [] | Some (b, r') => b ++ wholeM (S (S f)) r' end).
      rewrite Hadv, Hw, Hsplit, Hr0. cbn [app]. rewrite app_nil_r. reflexivity.
  - assert (Hadv : advE (SAfterPrefix e hin src) = Some (out, SData e' (hin ++ buf) (Some rest))).
    { cbn [enc_advance]. fold buf rest. rewrite Er. replace (lenN buf <? BUF) with false by (symmetry; apply N.ltb_ge; exact Hfull). reflexivity. }
    assert (Hrl : (length rest < f)%nat).
    { assert (lenN rest <= lenN src) by (unfold rest; rewrite lenN_dropN; lia). unfold lenN in *. lia. }
    destruct (data_whole f rest e' (hin ++ buf) Hrl) as (k & Hs & Hw).
    exists (S k). split.
    + change (stagesM (S (S (S f))) (SAfterPrefix e hin src)) with
        (match advE (SAfterPrefix e hin src) with None => Some 0%nat
         | Some (_, r') => match stagesM (S (S f)) r' with Some k => Some (S k) | None => None end end).
      rewrite Hadv, Hs. reflexivity.
    + change (wholeM (S (S (S f))) (SAfterPrefix e hin src)) with
        (match advE (SAfterPrefix e hin src) with None => [] | Some (b, r') => b ++ wholeM (S (S f)) r' end).
      rewrite Hadv, Hw, Hsplit. reflexivity.
Qed.

(* for every sequence of request sizes: exactly the specified ciphertext, then a clean end *)
Theorem enc_machine_is_spec req prefix data :
  enc_run E bs sha1 req prefix data = (seipd1_enc E bs sha1 prefix data, EClean).
Proof.
  unfold enc_run, enc_start.
  destruct (be_run E bs (be_init E (zeros_n bs)) prefix) as [e out] eqn:Er.
  destruct (prefix_whole (S (length data)) data e prefix ltac:(lia)) as (k & Hs & Hw).
  assert (Hol : lenN out = lenN prefix).
  { pose proof (be_run_length E bs (be_init E (zeros_n bs)) prefix) as Hx. rewrite Er in Hx. exact Hx. }
  assert (Hwl : lenN (wholeM (S (S (S (S (length data))))) (SAfterPrefix e prefix data)) = lenN (data ++ mdc_of (prefix ++ data))).
  { rewrite Hw. apply be_run_length. }
  pose proof (stages_lt _ _ _ _ _ Hs) as Hk.
  rewrite (drive_whole estage advE _ req _ 0 out (SAfterPrefix e prefix data) k Hs).
  - f_equal. rewrite Hw. unfold seipd1_enc, seipd1_plain.
    rewrite <- (be_run_is_cfb_enc E bs bs_pos E_len). rewrite (be_run_app E bs (be_init E (zeros_n bs)) prefix), Er. cbn [fst snd].
    unfold mdc_of. rewrite <- !app_assoc. reflexivity.
  - rewrite lenN_app in Hwl. unfold mdc_of in *. rewrite <- !app_assoc in *. unfold lenN in *.
    rewrite !app_length in *. lia.
Qed.

Theorem enc_request_independent req1 req2 prefix data :
  enc_run E bs sha1 req1 prefix data = enc_run E bs sha1 req2 prefix data.
Proof. rewrite !enc_machine_is_spec. reflexivity. Qed.

End EncMachineProofs.
