(* Sym/CfbProofs.v -- CFB round trip and injectivity, SEIPD v1 round trip and
   the shape of whatever the v1 decryptor accepts (C03, C12). *)
From Rpgp Require Import Base.Octets Base.Res Sym.Cfb.
From Coq Require Import ZifyBool ZifyN ZifyNat.

(* ------------------------------------------------ xor on octets *)

Definition nr (k : nat) : list N := map N.of_nat (seq 0 k).
Lemma in_nr n k : n < N.of_nat k -> In n (nr k).
Proof.
  intros H. unfold nr. replace n with (N.of_nat (N.to_nat n)) by lia.
  apply in_map. apply in_seq. lia.
Qed.

Lemma xor_table :
  forallb (fun x => forallb (fun y => (N.lxor x y <? 256) && (N.lxor (N.lxor x y) y =? x)) (nr 256)) (nr 256) = true.
Proof. vm_compute. reflexivity. Qed.

Lemma lxor_octets x y : x < 256 -> y < 256 -> N.lxor x y < 256 /\ N.lxor (N.lxor x y) y = x.
Proof.
  intros Hx Hy. pose proof xor_table as T. rewrite forallb_forall in T.
  specialize (T x (in_nr x 256 Hx)). rewrite forallb_forall in T.
  specialize (T y (in_nr y 256 Hy)). apply andb_true_iff in T. destruct T as [T1 T2].
  split; lia.
Qed.

Lemma xor_byte_cancel a k : n2b (N.lxor (b2n (n2b (N.lxor (b2n a) (b2n k)))) (b2n k)) = a.
Proof.
  pose proof (b2n_lt a). pose proof (b2n_lt k).
  destruct (lxor_octets (b2n a) (b2n k)) as [H1 H2]; try assumption.
  rewrite b2n_n2b, N.mod_small by exact H1. rewrite H2. apply n2b_b2n.
Qed.

Lemma xor_bytes_length a k : lenN a <= lenN k -> lenN (xor_bytes a k) = lenN a.
Proof.
  revert k; induction a as [|x a IH]; intros k H; [reflexivity|].
  destruct k as [|y k]; [rewrite lenN_cons in H; cbn in H; lia|].
  cbn [xor_bytes]. rewrite !lenN_cons in *. rewrite IH by lia. reflexivity.
Qed.

Lemma xor_bytes_cancel a k : lenN a <= lenN k -> xor_bytes (xor_bytes a k) k = a.
Proof.
  revert k; induction a as [|x a IH]; intros k H; [reflexivity|].
  destruct k as [|y k]; [rewrite lenN_cons in H; cbn in H; lia|].
  cbn [xor_bytes]. rewrite !lenN_cons in H. rewrite xor_byte_cancel, IH by lia. reflexivity.
Qed.

Lemma xor_bytes_inj a b k :
  lenN a = lenN b -> lenN a <= lenN k -> xor_bytes a k = xor_bytes b k -> a = b.
Proof.
  intros Hl Hk H.
  rewrite <- (xor_bytes_cancel a k Hk), <- (xor_bytes_cancel b k) by lia. rewrite H. reflexivity.
Qed.

(* ------------------------------------------------ CFB *)

Section CfbProofs.

Variable E : bytes -> bytes.
Variable bs : N.
Hypothesis bs_pos : 1 <= bs.
Hypothesis E_len : forall x, lenN (E x) = bs.

Lemma cfb_enc_fuel_S f prev p :
  p <> [] ->
  cfb_enc_fuel E bs (S f) prev p =
  xor_bytes (takeN bs p) (E prev) ++ cfb_enc_fuel E bs f (xor_bytes (takeN bs p) (E prev)) (dropN bs p).
Proof. destruct p; [congruence|reflexivity]. Qed.

Lemma cfb_dec_fuel_S f prev c :
  c <> [] ->
  cfb_dec_fuel E bs (S f) prev c =
  xor_bytes (takeN bs c) (E prev) ++ cfb_dec_fuel E bs f (takeN bs c) (dropN bs c).
Proof. destruct c; [congruence|reflexivity]. Qed.

Lemma ne_of_len (l : bytes) : 1 <= lenN l -> l <> [].
Proof. intros H ->. cbn in H. lia. Qed.

Lemma cfb_dec_enc_fuel f1 f2 prev p :
  (length p <= f1)%nat -> (length p <= f2)%nat ->
  cfb_dec_fuel E bs f2 prev (cfb_enc_fuel E bs f1 prev p) = p.
Proof.
  revert f2 prev p; induction f1 as [|f1 IH]; intros f2 prev p H1 H2.
  - destruct p; [|cbn in H1; lia]. destruct f2; reflexivity.
  - destruct p as [|x t] eqn:Ep.
    + destruct f2; reflexivity.
    + rewrite <- Ep in *. assert (Hp : 1 <= lenN p) by (subst p; rewrite lenN_cons; lia).
      rewrite cfb_enc_fuel_S by (apply ne_of_len; exact Hp).
      set (blk := xor_bytes (takeN bs p) (E prev)).
      assert (Hbl : lenN blk = lenN (takeN bs p)).
      { unfold blk. apply xor_bytes_length. rewrite lenN_takeN, E_len. lia. }
      assert (Hbl1 : 1 <= lenN blk) by (rewrite Hbl, lenN_takeN; lia).
      destruct f2 as [|f2]; [unfold lenN in *; lia|].
      rewrite cfb_dec_fuel_S by (apply ne_of_len; rewrite lenN_app; lia).
      assert (Hdl : (length (dropN bs p) < length p)%nat).
      { assert (lenN (dropN bs p) < lenN p) by (rewrite lenN_dropN; lia). unfold lenN in *. lia. }
      destruct (N.leb_spec bs (lenN p)) as [Hfull|Hshort].
      * assert (Hb : lenN blk = bs) by (rewrite Hbl, lenN_takeN; lia).
        assert (Ht : takeN bs (blk ++ cfb_enc_fuel E bs f1 blk (dropN bs p)) = blk)
          by (rewrite <- Hb at 1; apply takeN_app).
        assert (Hd : dropN bs (blk ++ cfb_enc_fuel E bs f1 blk (dropN bs p)) = cfb_enc_fuel E bs f1 blk (dropN bs p))
          by (rewrite <- Hb at 1; apply dropN_app).
        rewrite Ht, Hd. unfold blk at 1.
        rewrite xor_bytes_cancel by (rewrite lenN_takeN, E_len; lia).
        rewrite IH by lia. apply takeN_dropN.
      * assert (Hd0 : dropN bs p = []) by (apply dropN_all; lia).
        rewrite Hd0. replace (cfb_enc_fuel E bs f1 blk []) with (@nil byte) by (destruct f1; reflexivity).
        rewrite app_nil_r.
        rewrite (takeN_all bs blk) by (rewrite Hbl, lenN_takeN; lia).
        rewrite (dropN_all bs blk) by (rewrite Hbl, lenN_takeN; lia).
        unfold blk. rewrite xor_bytes_cancel by (rewrite lenN_takeN, E_len; lia).
        replace (cfb_dec_fuel E bs f2 (xor_bytes (takeN bs p) (E prev)) []) with (@nil byte) by (destruct f2; reflexivity).
        rewrite app_nil_r. apply takeN_all. lia.
Qed.

Lemma cfb_enc_fuel_length f prev p : (length p <= f)%nat -> lenN (cfb_enc_fuel E bs f prev p) = lenN p.
Proof.
  revert prev p; induction f as [|f IH]; intros prev p H.
  - destruct p; [reflexivity|cbn in H; lia].
  - destruct p as [|x t] eqn:Ep; [reflexivity|]. rewrite <- Ep in *.
    assert (Hp : 1 <= lenN p) by (subst p; rewrite lenN_cons; lia).
    rewrite cfb_enc_fuel_S by (apply ne_of_len; exact Hp).
    rewrite lenN_app, xor_bytes_length by (rewrite lenN_takeN, E_len; lia).
    rewrite IH.
    + rewrite lenN_takeN, lenN_dropN. lia.
    + assert (lenN (dropN bs p) < lenN p) by (rewrite lenN_dropN; lia). unfold lenN in *. lia.
Qed.

Lemma cfb_dec_fuel_length f prev c : (length c <= f)%nat -> lenN (cfb_dec_fuel E bs f prev c) = lenN c.
Proof.
  revert prev c; induction f as [|f IH]; intros prev c H.
  - destruct c; [reflexivity|cbn in H; lia].
  - destruct c as [|x t] eqn:Ec; [reflexivity|]. rewrite <- Ec in *.
    assert (Hp : 1 <= lenN c) by (subst c; rewrite lenN_cons; lia).
    rewrite cfb_dec_fuel_S by (apply ne_of_len; exact Hp).
    rewrite lenN_app, xor_bytes_length by (rewrite lenN_takeN, E_len; lia).
    rewrite IH.
    + rewrite lenN_takeN, lenN_dropN. lia.
    + assert (lenN (dropN bs c) < lenN c) by (rewrite lenN_dropN; lia). unfold lenN in *. lia.
Qed.

Theorem cfb_dec_length iv c : lenN (cfb_dec E bs iv c) = lenN c.
Proof. unfold cfb_dec. apply cfb_dec_fuel_length. lia. Qed.

Theorem cfb_dec_enc iv p : cfb_dec E bs iv (cfb_enc E bs iv p) = p.
Proof.
  unfold cfb_dec, cfb_enc. apply cfb_dec_enc_fuel; [lia|].
  pose proof (cfb_enc_fuel_length (length p) iv p (le_n _)). unfold lenN in *. lia.
Qed.

Theorem cfb_enc_length iv p : lenN (cfb_enc E bs iv p) = lenN p.
Proof. unfold cfb_enc. apply cfb_enc_fuel_length. lia. Qed.

(* decryption is injective on ciphertexts of equal length: two different
   ciphertexts never decrypt to the same octets *)
Lemma cfb_dec_fuel_inj f1 f2 prev c1 c2 :
  (length c1 <= f1)%nat -> (length c2 <= f2)%nat -> lenN c1 = lenN c2 ->
  cfb_dec_fuel E bs f1 prev c1 = cfb_dec_fuel E bs f2 prev c2 -> c1 = c2.
Proof.
  revert f2 prev c1 c2; induction f1 as [|f1 IH]; intros f2 prev c1 c2 H1 H2 Hl H.
  - destruct c1; [|cbn in H1; lia]. destruct c2; [reflexivity|cbn in Hl; lia].
  - destruct c1 as [|x1 t1] eqn:E1.
    + destruct c2; [reflexivity|cbn in Hl; lia].
    + destruct c2 as [|x2 t2] eqn:E2; [cbn in Hl; lia|].
      rewrite <- E1, <- E2 in *.
      assert (Hp1 : 1 <= lenN c1) by (subst c1; rewrite lenN_cons; lia).
      destruct f2 as [|f2]; [unfold lenN in *; lia|].
      rewrite !cfb_dec_fuel_S in H by (apply ne_of_len; lia).
      assert (Hk1 : lenN (takeN bs c1) <= lenN (E prev)) by (rewrite lenN_takeN, E_len; lia).
      assert (Hk2 : lenN (takeN bs c2) <= lenN (E prev)) by (rewrite lenN_takeN, E_len; lia).
      assert (Hlt : lenN (takeN bs c1) = lenN (takeN bs c2)) by (rewrite !lenN_takeN; lia).
      assert (Hx : xor_bytes (takeN bs c1) (E prev) = xor_bytes (takeN bs c2) (E prev) /\
                   cfb_dec_fuel E bs f1 (takeN bs c1) (dropN bs c1) = cfb_dec_fuel E bs f2 (takeN bs c2) (dropN bs c2)).
      { apply app_inj_len; [|exact H].
        rewrite !xor_bytes_length by assumption. exact Hlt. }
      destruct Hx as [Hx1 Hx2].
      apply (xor_bytes_inj _ _ _ Hlt Hk1) in Hx1. rewrite <- Hx1 in Hx2.
      assert (Hd : dropN bs c1 = dropN bs c2).
      { apply (IH f2 (takeN bs c1)); [| |rewrite !lenN_dropN; lia|exact Hx2].
        - assert (lenN (dropN bs c1) < lenN c1) by (rewrite lenN_dropN; lia). unfold lenN in *. lia.
        - assert (lenN (dropN bs c2) < lenN c2) by (rewrite lenN_dropN; lia). unfold lenN in *. lia. }
      rewrite <- (takeN_dropN bs c1), <- (takeN_dropN bs c2), Hx1, Hd. reflexivity.
Qed.

Theorem cfb_dec_inj iv c1 c2 :
  lenN c1 = lenN c2 -> cfb_dec E bs iv c1 = cfb_dec E bs iv c2 -> c1 = c2.
Proof. intros Hl H. unfold cfb_dec in H. eapply cfb_dec_fuel_inj; eauto. Qed.

(* ------------------------------------------------ SEIPD v1 *)

Variable sha1 : bytes -> bytes.
Hypothesis sha1_len : forall x, lenN (sha1 x) = 20.

Theorem seipd1_roundtrip prefix data :
  lenN prefix = bs + 2 -> seipd1_dec E bs sha1 (seipd1_enc E bs sha1 prefix data) = Ok data.
Proof.
  intros Hp. unfold seipd1_dec, seipd1_enc.
  rewrite cfb_enc_length, cfb_dec_enc. unfold seipd1_plain.
  set (mdc := mdc_head ++ sha1 (prefix ++ data ++ mdc_head)).
  assert (Hm : lenN mdc = MDC_LEN) by (unfold mdc; rewrite lenN_app, sha1_len; reflexivity).
  fold mdc. rewrite !lenN_app, Hp, Hm.
  destruct (N.ltb_spec (bs + 2 + (lenN data + MDC_LEN)) (bs + 2)); [lia|].
  rewrite (takeN_app_len _ _ _ Hp), (dropN_app_len _ _ _ Hp), lenN_app, Hm.
  destruct (N.ltb_spec (lenN data + MDC_LEN) MDC_LEN); [lia|].
  replace (lenN data + MDC_LEN - MDC_LEN) with (lenN data) by lia.
  rewrite takeN_app, dropN_app. unfold mdc, mdc_head. cbn [app hd tl].
  rewrite !beq_refl. cbn [andb].
  assert (Hd2 : forall a b (l : bytes), dropN 2 (a :: b :: l) = l).
  { intros a b l. change (dropN 2 (a :: b :: l)) with (dropN 0 l). apply dropN_0. }
  rewrite Hd2.
  destruct (list_eq_dec byte_eq_dec _ _) as [_|Hn]; [reflexivity|].
  exfalso. apply Hn. reflexivity.
Qed.

(* whatever the v1 decryptor accepts has the shape of an MDC-consistent
   stream: a clean end on input c means c decrypts to prefix ++ body ++ D3 14 ++
   sha1 (prefix ++ body ++ D3 14) *)
Theorem seipd1_accepts_only_mdc_consistent ct body :
  seipd1_dec E bs sha1 ct = Ok body ->
  exists prefix, lenN prefix = bs + 2 /\
    cfb_dec E bs (zeros_n bs) ct = seipd1_plain sha1 prefix body.
Proof.
  unfold seipd1_dec. intros H.
  destruct (N.ltb_spec (lenN ct) (bs + 2)); [discriminate|].
  set (d := cfb_dec E bs (zeros_n bs) ct) in *.
  destruct (N.ltb_spec (lenN (dropN (bs + 2) d)) MDC_LEN); [discriminate|].
  set (rest := dropN (bs + 2) d) in *.
  set (mdc := dropN (lenN rest - MDC_LEN) rest) in *.
  destruct (beq (hd x00 mdc) xd3) eqn:E1; [|discriminate].
  destruct (beq (hd x00 (tl mdc)) x14) eqn:E2; [|discriminate].
  destruct (list_eq_dec byte_eq_dec (dropN 2 mdc) _) as [E3|]; [|discriminate].
  cbn [andb] in H. injection H as <-.
  exists (takeN (bs + 2) d). split.
  - rewrite lenN_takeN.
    assert (lenN d = lenN ct) by (unfold d; apply cfb_dec_length). lia.
  - unfold seipd1_plain. rewrite <- E3.
    assert (Hm : mdc = xd3 :: x14 :: dropN 2 mdc).
    { assert (Hml : lenN mdc = MDC_LEN) by (unfold mdc; rewrite lenN_dropN; unfold MDC_LEN in *; lia).
      destruct mdc as [|m0 [|m1 mt]]; try (cbn in Hml; unfold MDC_LEN in Hml; lia).
      cbn [hd tl] in E1, E2. apply beq_true in E1, E2. subst m0 m1.
      change (dropN 2 (xd3 :: x14 :: mt)) with (dropN 0 mt). rewrite dropN_0. reflexivity. }
    change (mdc_head ++ dropN 2 mdc) with (xd3 :: x14 :: dropN 2 mdc). rewrite <- Hm.
    unfold mdc. rewrite takeN_dropN. unfold rest. rewrite takeN_dropN. reflexivity.
Qed.

(* default mode: not one octet is released unless the whole stream checks *)
Theorem checkfirst_all_or_nothing max ct out :
  seipd1_checkfirst E bs sha1 max ct = (out, false) -> out = [].
Proof.
  unfold seipd1_checkfirst. intros H.
  destruct (lenN ct <? bs + 2); [injection H as <-; reflexivity|].
  destruct (max <? lenN ct - (bs + 2)); [injection H as <-; reflexivity|].
  destruct (seipd1_dec E bs sha1 ct); try discriminate; injection H as <-; reflexivity.
Qed.

Theorem checkfirst_clean_iff max ct out :
  seipd1_checkfirst E bs sha1 max ct = (out, true) ->
  seipd1_dec E bs sha1 ct = Ok out /\ lenN ct - (bs + 2) <= max.
Proof.
  unfold seipd1_checkfirst. intros H.
  destruct (lenN ct <? bs + 2); [discriminate|].
  destruct (N.ltb_spec max (lenN ct - (bs + 2))); [discriminate|].
  destruct (seipd1_dec E bs sha1 ct); try discriminate. injection H as <-. split; [reflexivity|lia].
Qed.

Theorem streaming_clean_iff ct out :
  seipd1_streaming E bs sha1 ct = (out, true) -> seipd1_dec E bs sha1 ct = Ok out.
Proof.
  unfold seipd1_streaming. intros H.
  destruct (lenN ct <? bs + 2); [discriminate|].
  destruct (lenN (dropN (bs + 2) (cfb_dec E bs (zeros_n bs) ct)) <? MDC_LEN); [discriminate|].
  destruct (seipd1_dec E bs sha1 ct); try discriminate. injection H as <-. reflexivity.
Qed.

End CfbProofs.
