(* Every packet grammar of Wire/Packets.v is a well-formed description, so the generic
   round-trip theorems of Wire/FmtProofs.v apply to it. *)
From Coq Require Import List NArith Lia Bool.
From Rpgp Require Import Base.Octets Wire.Fmt Wire.FmtProofs Wire.Packets.
Import ListNotations.
Open Scope N_scope.

Lemma sw_wf l d n : Forall (fun p => wf (snd p)) l -> wf d -> wf (sw l d n).
Proof.
  induction l as [|[k f] l IH]; cbn [sw]; intros H Hd; [exact Hd|].
  inversion H; subst. destruct (n =? k); [assumption|]. apply IH; assumption.
Qed.

Lemma sw_sd l d n : Forall (fun p => sd (snd p)) l -> sd d -> sd (sw l d n).
Proof.
  induction l as [|[k f] l IH]; cbn [sw]; intros H Hd; [exact Hd|].
  inversion H; subst. destruct (n =? k); [assumption|]. apply IH; assumption.
Qed.

Ltac fmt_step :=
  match goal with
  | |- forall _, _ => intro
  | |- Forall _ (_ :: _) => apply Forall_cons; cbn [snd]
  | |- Forall _ [] => apply Forall_nil
  | |- wf (sw _ _ _) => apply sw_wf
  | |- sd (sw _ _ _) => apply sw_sd
  | |- wf (FDep _ _) => apply wf_dep
  | |- sd (FDep _ _) => apply sd_dep
  | |- wf (FSeq _ _) => apply wf_dep
  | |- sd (FSeq _ _) => apply sd_dep
  | |- wf (FMany _) => apply wf_many
  | |- wf (FLen _ _) => apply wf_len
  | |- wf (if ?c then _ else _) => destruct c
  | |- sd (if ?c then _ else _) => destruct c
  | |- wf _ => assumption
  | |- sd _ => assumption
  | |- wf _ => constructor
  | |- sd _ => constructor
  end.
Ltac fmt_tac := repeat fmt_step.

Lemma s2k_then_wf k : wf k -> wf (s2k_then k).
Proof. intros H. unfold s2k_then. fmt_tac. Qed.
Lemma s2k_then_sd k : sd k -> sd (s2k_then k) -> True. Proof. auto. Qed.

Lemma iv_fmt_wf s : wf (iv_fmt s). Proof. unfold iv_fmt. fmt_tac. Qed.
Lemma nonce_fmt_wf s : wf (nonce_fmt s). Proof. unfold nonce_fmt. fmt_tac. Qed.

Lemma skesk_wf : wf skesk.
Proof. unfold skesk. fmt_tac; try apply s2k_then_wf; fmt_tac; try apply nonce_fmt_wf. Qed.

Lemma pkesk_fields_wf a : wf (pkesk_fields a).
Proof. unfold pkesk_fields. fmt_tac. Qed.

Lemma pkesk_wf : wf pkesk.
Proof. unfold pkesk. fmt_tac; try apply pkesk_fields_wf. Qed.

Lemma salt_wf h : wf (salt_fmt h). Proof. unfold salt_fmt. fmt_tac. Qed.
Lemma salt_sd_len h : sd (FLen L8 (salt_fmt h)). Proof. constructor. Qed.

Lemma ops_wf : wf ops.
Proof. unfold ops. fmt_tac; try apply salt_wf. Qed.

Lemma sig_value_wf a : wf (sig_value a).
Proof. unfold sig_value. fmt_tac. Qed.

Lemma fp_wf : wf fp_fmt. Proof. unfold fp_fmt. fmt_tac. Qed.

Lemma subpacket_body_wf emb t : wf emb -> wf (subpacket_body emb t).
Proof. intros H. unfold subpacket_body. fmt_tac; try apply fp_wf. Qed.

Lemma subpacket_wf emb : wf emb -> wf (subpacket emb).
Proof. intros H. unfold subpacket. fmt_tac. apply subpacket_body_wf; exact H. Qed.
Lemma subpacket_sd emb : sd (subpacket emb). Proof. constructor. Qed.

Lemma sig_body_wf d : wf (sig_body d).
Proof.
  induction d as [|d IH].
  - cbn [sig_body]. fmt_tac;
      try apply sig_value_wf; try apply salt_wf; try apply subpacket_sd;
      try (apply subpacket_wf; constructor); try (apply subpacket_body_wf; constructor).
  - cbn [sig_body]. fmt_tac;
      try apply sig_value_wf; try apply salt_wf; try apply subpacket_sd;
      try (apply subpacket_wf; exact IH); try (apply subpacket_body_wf; exact IH).
Qed.

Lemma signature_wf : wf signature. Proof. apply sig_body_wf. Qed.

Lemma pub_params_wf a k : wf k -> wf (pub_params a k).
Proof. intros H. unfold pub_params, oid. fmt_tac. Qed.

Lemma key_then_wf k : (forall v a, wf (k v a)) -> wf (key_then k).
Proof.
  intros H. unfold key_then. fmt_tac; try (apply pub_params_wf; try apply H; constructor); try apply H.
Qed.

Lemma public_key_wf : wf public_key.
Proof. apply key_then_wf. intros; constructor. Qed.

Lemma plain_secret_wf v a : wf (plain_secret v a).
Proof. unfold plain_secret. fmt_tac. Qed.

Lemma secret_part_wf v a : wf (secret_part v a).
Proof. unfold secret_part. fmt_tac; try apply s2k_then_wf; fmt_tac; try apply nonce_fmt_wf; try apply iv_fmt_wf; try apply plain_secret_wf. Qed.

Lemma secret_key_wf : wf secret_key.
Proof. apply key_then_wf. intros; apply secret_part_wf. Qed.

Lemma literal_wf : wf literal. Proof. unfold literal. fmt_tac. Qed.
Lemma user_attribute_wf : wf user_attribute. Proof. unfold user_attribute. fmt_tac. Qed.
Lemma compressed_wf : wf compressed. Proof. unfold compressed. fmt_tac. Qed.
Lemma seipd_wf : wf seipd. Proof. unfold seipd. fmt_tac. Qed.

Theorem body_fmt_wf tag : wf (body_fmt tag).
Proof.
  unfold body_fmt. apply sw_wf; [|constructor].
  repeat (apply Forall_cons; cbn [snd]); try apply Forall_nil.
  - apply pkesk_wf. - apply signature_wf. - apply skesk_wf. - apply ops_wf.
  - apply secret_key_wf. - apply public_key_wf. - apply secret_key_wf. - apply public_key_wf.
  - apply compressed_wf. - constructor. - apply literal_wf. - constructor. - constructor.
  - apply user_attribute_wf. - apply seipd_wf. - constructor.
Qed.
