From Coq Require Import List NArith ZArith Lia Bool.
From Rpgp Require Import Base.Octets Base.Res Frame.Framing Frame.FramingProofs
  Wire.Fmt Wire.FmtProofs Wire.Packets Wire.PacketsProofs Wire.Wire.
Import ListNotations.
Open Scope N_scope.

Lemma Wire_parse_serialize tag v b :
  enc (body_fmt tag) v = Some b -> parse_body tag b = Some v.
Proof.
  intros E. unfold parse_body.
  rewrite (decode_encode _ _ _ (body_fmt_wf tag) E). reflexivity.
Qed.

Lemma Wire_canonical_reserializes tag b v :
  parse_body tag b = Some v -> enc (body_fmt tag) v = Some b.
Proof.
  unfold parse_body. intros P.
  destruct (dec (body_fmt tag) b) as [[w [|x r]]|] eqn:D; try discriminate.
  injection P as <-. apply (encode_decode _ _ _ (body_fmt_wf tag) D).
Qed.

Lemma Wire_encoding_injective tag v w b :
  enc (body_fmt tag) v = Some b -> enc (body_fmt tag) w = Some b -> v = w.
Proof. apply enc_injective, body_fmt_wf. Qed.

Lemma Wire_lengths_truthful tag v p : tag < 64 ->
  packet tag v = Some p ->
  exists b, enc (body_fmt tag) v = Some b /\
            deframe p = Ok ({| hf := HNew; htag := tag; hlen := PFixed (lenN b) |}, b, []) /\
            announced_len tag v = Some (lenN p).
Proof.
  intros Ht P. unfold packet in P. unfold announced_len.
  destruct (enc (body_fmt tag) v) as [b|] eqn:E; [|discriminate].
  destruct (lenN b <? 4294967296) eqn:L; [|discriminate]. injection P as <-.
  apply N.ltb_lt in L.
  exists b. split; [reflexivity|]. split.
  - assert (F : enc_header_new tag (lenN b) ++ b = frame_new tag [] (class_of (lenN b)) b).
    { unfold enc_header_new, frame_new. cbn [frame_chunks app].
      rewrite enc_new_len_class. reflexivity. }
    change (n2b (192 + tag) :: enc_new_len (lenN b) ++ b) with (enc_header_new tag (lenN b) ++ b).
    rewrite F.
    pose proof (deframe_frame_new tag [] (class_of (lenN b)) b []) as D.
    rewrite app_nil_r in D. apply D.
    unfold legal_new. cbn [sum_pow forallb].
    rewrite N.sub_0_r, (cls_ok_class _ L).
    assert (T : (tag <? 64) = true) by (apply N.ltb_lt; exact Ht).
    assert (Z : (0 <=? lenN b) = true) by (apply N.leb_le; lia).
    rewrite T, Z. reflexivity.
  - change (n2b (192 + tag) :: enc_new_len (lenN b) ++ b) with (enc_header_new tag (lenN b) ++ b).
    rewrite lenN_app, length_enc_header_new. reflexivity.
Qed.
