(* Wire/KeyFlagsObjProofs.v -- whatever sequence of setters is applied to the default value or to a
   parsed field, what is written parses back to an equal value and the length query is truthful. *)
From Coq Require Import Lia ZifyBool ZifyN ZifyNat.
From Rpgp Require Import Base.Octets Base.Res Wire.KeyFlagsObj.

Definition kf_wf (f : kf) : Prop :=
  lo f < 256 /\ hi f < 256 /\ needed (lo f) (hi f) <= olen f /\
  match rest f with
  | Some r => r <> [] /\ olen f = 2 + lenN r
  | None => olen f <= 2
  end.

Lemma wf_default : kf_wf kf_default.
Proof. unfold kf_wf, kf_default; cbn [lo hi rest olen]. change (needed 0 0) with 0. repeat split; lia. Qed.

Lemma wf_parse b : kf_wf (kf_parse b).
Proof.
  destruct b as [|a [|c [|d r]]]; unfold kf_wf, kf_parse, needed; cbn [lo hi rest olen].
  - change (0 =? 0) with true. cbn [negb]. repeat split; lia.
  - pose proof (b2n_lt a). change (0 =? 0) with true. destruct (b2n a =? 0) eqn:E; cbn [negb]; repeat split; lia.
  - pose proof (b2n_lt a). pose proof (b2n_lt c). destruct (b2n c =? 0), (b2n a =? 0); cbn [negb]; repeat split; lia.
  - pose proof (b2n_lt a). pose proof (b2n_lt c). rewrite !lenN_cons.
    destruct (b2n c =? 0), (b2n a =? 0); cbn [negb]; repeat split; try lia; try discriminate.
Qed.

(* the finite fact about the masks: a known octet stays an octet *)
Definition octet_ops_ok : bool :=
  forallb (fun x => forallb (fun m => (N.lor x m <? 256) && (N.ldiff x m <? 256)) [1; 2; 4; 8; 16; 32; 64; 128])
          (map N.of_nat (seq 0 256)).
Lemma octet_ops_ok_true : octet_ops_ok = true.
Proof. vm_compute. reflexivity. Qed.

Lemma upd_octet x m : x < 256 -> In m [1; 2; 4; 8; 16; 32; 64; 128] -> N.lor x m < 256 /\ N.ldiff x m < 256.
Proof.
  intros Hx Hm. pose proof octet_ops_ok_true as H. unfold octet_ops_ok in H.
  rewrite forallb_forall in H. specialize (H x).
  assert (Hin : In x (map N.of_nat (seq 0 256))).
  { apply in_map_iff. exists (N.to_nat x). split; [lia|]. apply in_seq. lia. }
  specialize (H Hin). rewrite forallb_forall in H. specialize (H m Hm).
  apply andb_true_iff in H. destruct H as [H1 H2]. lia.
Qed.

Lemma setter_mask o : op_ok o = true -> In (o_mask o) [1; 2; 4; 8; 16; 32; 64; 128].
Proof.
  intros H. unfold op_ok, is_setter, setters in H. cbn [existsb fst snd] in H.
  repeat match type of H with
         | (_ || _) = true => apply orb_true_iff in H; destruct H as [H|H]
         end;
  try discriminate H;
  (apply andb_true_iff in H; destruct H as [_ H]; apply N.eqb_eq in H; rewrite H; cbn [In]; auto 12).
Qed.

(* every setter of the fixed code keeps the invariant *)
Lemma wf_apply f o : kf_wf f -> op_ok o = true -> kf_wf (apply true f o).
Proof.
  intros (Hl & Hh & Hn & Hr) Ho. pose proof (setter_mask o Ho) as Hm.
  unfold apply, kf_set, kf_wf. cbn [lo hi rest olen].
  assert (Hu : forall x, x < 256 -> (if o_val o then N.lor x (o_mask o) else N.ldiff x (o_mask o)) < 256).
  { intros x Hx. destruct (upd_octet x (o_mask o) Hx Hm). destruct (o_val o); assumption. }
  set (l := if o_second o then lo f else if o_val o then N.lor (lo f) (o_mask o) else N.ldiff (lo f) (o_mask o)).
  set (h := if o_second o then if o_val o then N.lor (hi f) (o_mask o) else N.ldiff (hi f) (o_mask o) else hi f).
  assert (l < 256) by (unfold l; destruct (o_second o); auto).
  assert (h < 256) by (unfold h; destruct (o_second o); auto).
  assert (needed l h <= 2) by (unfold needed; destruct (h =? 0), (l =? 0); cbn [negb]; lia).
  clearbody l h. clear Hu.
  split; [assumption|]. split; [assumption|]. split; [lia|].
  revert Hr. destruct (rest f) as [r|]; intros Hr; [destruct Hr as [Hr1 Hr2]; split; [exact Hr1|lia]|lia].
Qed.

(* for a value that meets the invariant: truthful length, and what is written parses back to it *)
Lemma write_len_truthful f : kf_write_len f = lenN (kf_ser f).
Proof.
  unfold kf_write_len, kf_ser. destruct (olen f =? 0); [reflexivity|].
  destruct (two_octets f), (rest f) as [r|]; cbn [app]; rewrite ?lenN_cons; try (change (@lenN byte []) with 0); lia.
Qed.

Lemma parse_ser f : kf_wf f -> kf_parse (kf_ser f) = f.
Proof.
  destruct f as [l h r n]. intros (Hl & Hh & Hn & Hr). cbn [lo hi rest olen] in *.
  unfold kf_ser, two_octets. cbn [lo hi rest olen].
  destruct r as [r|].
  - destruct Hr as [Hne ->]. destruct (N.eqb_spec (2 + lenN r) 0) as [E|_]; [lia|].
    destruct (N.ltb_spec 1 (2 + lenN r)) as [_|E]; [|lia]. cbn [orb app].
    destruct r as [|r0 rs]; [congruence|]. cbn [kf_parse].
    rewrite !b2n_n2b, !N.mod_small by assumption. rewrite !lenN_cons. f_equal. lia.
  - unfold needed in Hn.
    destruct (N.eqb_spec n 0) as [->|Hn0].
    + destruct (N.eqb_spec h 0) as [->|]; [|cbn in Hn; lia]. destruct (N.eqb_spec l 0) as [->|]; [|cbn in Hn; lia]. reflexivity.
    + destruct (N.ltb_spec 1 n) as [H1|H1]; cbn [orb app].
      * assert (n = 2) as -> by lia. cbn [kf_parse]. rewrite !b2n_n2b, !N.mod_small by assumption. reflexivity.
      * assert (n = 1) as -> by lia. destruct (N.eqb_spec h 0) as [->|Hh0]; [|cbn in Hn; lia]. cbn [negb app kf_parse].
        rewrite b2n_n2b, N.mod_small by assumption. reflexivity.
Qed.

(* any sequence of setters, from the default value or from any parsed field *)
Lemma wf_fold ops : forall f, kf_wf f -> forallb op_ok ops = true -> kf_wf (fold_left (apply true) ops f).
Proof.
  induction ops as [|o ops IH]; intros f Hf Ho; cbn [fold_left]; [exact Hf|].
  cbn [forallb] in Ho. apply andb_true_iff in Ho. destruct Ho as [Ho1 Ho2].
  apply IH; [apply wf_apply; assumption|exact Ho2].
Qed.

Theorem api_roundtrip : forall (start : kf) (ops : list op),
  (start = kf_default \/ exists b, start = kf_parse b) -> forallb op_ok ops = true ->
  let f := fold_left (apply true) ops start in
  kf_parse (kf_ser f) = f /\ kf_write_len f = lenN (kf_ser f).
Proof.
  intros start ops Hs Ho f. split; [|apply write_len_truthful].
  apply parse_ser. apply wf_fold; [|exact Ho].
  destruct Hs as [->|[b ->]]; [apply wf_default|apply wf_parse].
Qed.

(* the code before the fix: a flag of the second octet set on the default value is written, but
   what is written parses back to a different value; a flag set on an empty parsed field is not written *)
Lemma unfixed_refuted :
  (let f := apply false kf_default {| o_second := true; o_mask := 4; o_val := true |} in kf_parse (kf_ser f) <> f) /\
  (let f := apply false (kf_parse []) {| o_second := false; o_mask := 2; o_val := true |} in kf_ser f = [] /\ lo f = 2).
Proof. split; [cbn; discriminate|split; reflexivity]. Qed.
