(* Generic round-trip theorems for the format universe of Wire/Fmt.v. *)
From Coq Require Import List NArith ZArith Lia Bool.
From Rpgp Require Import Base.Octets Wire.Fmt.
Import ListNotations.
Open Scope N_scope.
Ltac Zify.zify_post_hook ::= Z.div_mod_to_equations.
Arguments N.add : simpl never.
Arguments N.sub : simpl never.
Arguments N.mul : simpl never.
Arguments N.div : simpl never.
Arguments N.modulo : simpl never.
Arguments N.ltb : simpl never.
Arguments N.leb : simpl never.
Arguments N.eqb : simpl never.
Arguments takeN : simpl never.
Arguments dropN : simpl never.
Arguments be16 : simpl never.
Arguments be32 : simpl never.

Lemma b2n_n2b_small n : n < 256 -> b2n (n2b n) = n.
Proof. intros H. rewrite b2n_n2b. apply N.mod_small; exact H. Qed.

Lemma n2b_inj_small n a : n < 256 -> n = b2n a -> n2b n = a.
Proof. intros H E. subst n. apply n2b_b2n. Qed.

(* ---------- MPI ---------- *)

Lemma bitlen_byte_range x : b2n x <> 0 -> 1 <= bitlen_byte x <= 8.
Proof.
  intros H. unfold bitlen_byte. destruct x; cbn in *; try lia; congruence.
Qed.

Lemma mpi_len m : mpi_ok m = true -> (mpi_bits m + 7) / 8 = lenN m /\ mpi_bits m < 65536.
Proof.
  unfold mpi_ok. intros H. apply andb_true_iff in H. destruct H as [H1 H2].
  apply N.ltb_lt in H2. split; [|exact H2].
  destruct m as [|x r]; [reflexivity|].
  apply negb_true_iff, N.eqb_neq in H1.
  pose proof (bitlen_byte_range x H1) as R.
  cbn [mpi_bits]. rewrite lenN_cons. lia.
Qed.

(* ---------- length prefixes ---------- *)

Lemma lenpfx_dec_enc k c n h r :
  enc_lenpfx k c n = Some h -> dec_lenpfx k (h ++ r) = Some (c, n, r).
Proof.
  destruct k; cbn [enc_lenpfx dec_lenpfx]; intros H.
  - destruct (c =? 0) eqn:Ec; [|discriminate]. destruct (n <? 256) eqn:En; [|discriminate].
    cbn in H. injection H as <-. apply N.eqb_eq in Ec. apply N.ltb_lt in En. subst c.
    cbn [app]. rewrite b2n_n2b_small by exact En. reflexivity.
  - destruct (c =? 0) eqn:Ec; [|discriminate]. destruct (n <? 65536) eqn:En; [|discriminate].
    cbn in H. injection H as <-. apply N.eqb_eq in Ec. apply N.ltb_lt in En. subst c.
    unfold be16. cbn [app]. rewrite de16_be16 by exact En. reflexivity.
  - destruct (c =? 0) eqn:Ec; [|discriminate]. destruct (n <? 4294967296) eqn:En; [|discriminate].
    cbn in H. injection H as <-. apply N.eqb_eq in Ec. apply N.ltb_lt in En. subst c.
    unfold be32. cbn [app]. rewrite de32_be32 by exact En. reflexivity.
  - destruct (c =? 0) eqn:E0.
    { destruct (n <? 192) eqn:En; [|discriminate]. injection H as <-.
      apply N.eqb_eq in E0. apply N.ltb_lt in En. subst c. cbn [app].
      rewrite b2n_n2b_small by lia. apply N.ltb_lt in En. rewrite En. reflexivity. }
    destruct (c =? 1) eqn:E1.
    { destruct ((192 <=? n) && (n <? 16320)) eqn:En; [|discriminate]. injection H as <-.
      apply andb_true_iff in En. destruct En as [Ea Eb].
      apply N.leb_le in Ea. apply N.ltb_lt in Eb. apply N.eqb_eq in E1. subst c.
      cbn [app].
      assert (A : b2n (n2b ((n - 192) / 256 + 192)) = (n - 192) / 256 + 192)
        by (apply b2n_n2b_small; lia).
      assert (B : b2n (n2b ((n - 192) mod 256)) = (n - 192) mod 256)
        by (apply b2n_n2b_small; lia).
      rewrite A, B.
      assert (L1 : ((n - 192) / 256 + 192 <? 192) = false) by (apply N.ltb_ge; lia).
      assert (L2 : ((n - 192) / 256 + 192 <? 255) = true) by (apply N.ltb_lt; lia).
      rewrite L1, L2. do 3 f_equal. lia. }
    destruct (c =? 2) eqn:E2; [|discriminate].
    destruct (n <? 4294967296) eqn:En; [|discriminate]. injection H as <-.
    apply N.eqb_eq in E2. apply N.ltb_lt in En. subst c.
    unfold be32. cbn [app].
    change (b2n xff) with 255.
    change (255 <? 192) with false. change (255 <? 255) with false. cbv iota.
    rewrite de32_be32 by exact En. reflexivity.
Qed.

Lemma lenpfx_enc_dec k b c n r h :
  dec_lenpfx k b = Some (c, n, r) -> enc_lenpfx k c n = Some h -> b = h ++ r.
Proof.
  destruct k; cbn [enc_lenpfx dec_lenpfx]; intros D E.
  - destruct b as [|a b]; [discriminate|]. injection D as <- <- <-.
    pose proof (b2n_lt a) as La. apply N.ltb_lt in La.
    change (0 =? 0) with true in E. rewrite La in E. cbn in E. injection E as <-.
    rewrite n2b_b2n. reflexivity.
  - destruct b as [|a [|a' b]]; try discriminate. injection D as <- <- <-.
    pose proof (de16_lt a a') as La. apply N.ltb_lt in La.
    change (0 =? 0) with true in E. rewrite La in E. cbn in E. injection E as <-.
    rewrite be16_de16. reflexivity.
  - destruct b as [|a [|a' [|a'' [|a''' b]]]]; try discriminate. injection D as <- <- <-.
    pose proof (de32_lt a a' a'' a''') as La. apply N.ltb_lt in La.
    change (0 =? 0) with true in E. rewrite La in E. cbn in E. injection E as <-.
    rewrite be32_de32. reflexivity.
  - destruct b as [|a b]; [discriminate|].
    pose proof (b2n_lt a) as La.
    destruct (b2n a <? 192) eqn:E1.
    { injection D as <- <- <-. change (0 =? 0) with true in E. cbv iota in E.
      rewrite E1 in E. injection E as <-. rewrite n2b_b2n. reflexivity. }
    destruct (b2n a <? 255) eqn:E2.
    { destruct b as [|a' b]; [discriminate|]. injection D as <- <- <-.
      change (1 =? 0) with false in E. change (1 =? 1) with true in E. cbv iota in E.
      apply N.ltb_ge in E1. apply N.ltb_lt in E2. pose proof (b2n_lt a') as La'.
      destruct ((192 <=? (b2n a - 192) * 256 + b2n a' + 192) &&
                ((b2n a - 192) * 256 + b2n a' + 192 <? 16320)); [|discriminate].
      injection E as <-.
      assert (A : n2b (((b2n a - 192) * 256 + b2n a' + 192 - 192) / 256 + 192) = a)
        by (apply n2b_inj_small; lia).
      assert (B : n2b (((b2n a - 192) * 256 + b2n a' + 192 - 192) mod 256) = a')
        by (apply n2b_inj_small; lia).
      rewrite A, B. reflexivity. }
    destruct b as [|a' [|a'' [|a''' [|a'''' b]]]]; try discriminate. injection D as <- <- <-.
    change (2 =? 0) with false in E. change (2 =? 1) with false in E.
    change (2 =? 2) with true in E. cbv iota in E.
    pose proof (de32_lt a' a'' a''' a'''') as L. apply N.ltb_lt in L. rewrite L in E.
    injection E as <-. rewrite be32_de32.
    apply N.ltb_ge in E1. apply N.ltb_ge in E2.
    assert (a = xff) by (apply b2n_inj; change (b2n xff) with 255; lia). subst a. reflexivity.
Qed.

(* ---------- constants ---------- *)

Lemma prefix_strip_app c r : prefix_strip c (c ++ r) = Some r.
Proof. induction c as [|x c IH]; cbn; [reflexivity|]. rewrite beq_refl. exact IH. Qed.

Lemma prefix_strip_inv c : forall b r, prefix_strip c b = Some r -> b = c ++ r.
Proof.
  induction c as [|x c IH]; cbn; intros b r H.
  - injection H as <-. reflexivity.
  - destruct b as [|y b]; [discriminate|]. destruct (beq x y) eqn:E; [|discriminate].
    apply beq_true in E. subst y. f_equal. apply IH. exact H.
Qed.

(* ---------- not self-delimiting ---------- *)

Lemma sd_rest : ~ sd FRest. Proof. intros H; inversion H. Qed.
Lemma sd_many f : ~ sd (FMany f). Proof. intros H; inversion H. Qed.

(* ---------- decode after encode ---------- *)

Lemma dec_enc_many (g : fmt)
  (IH : forall v b r, enc g v = Some b -> dec g (b ++ r) = Some (v, r)) :
  forall vs b fuel, enc_many (enc g) vs = Some b -> (length b <= fuel)%nat ->
    dec_many (dec g) fuel b = Some vs.
Proof.
  induction vs as [|v vs IHv]; intros b fuel E F; cbn [enc_many] in E.
  - injection E as <-. destruct fuel; reflexivity.
  - destruct (enc g v) as [[|x b1]|] eqn:Ev; try discriminate.
    destruct (enc_many (enc g) vs) as [br|] eqn:Er; [|discriminate].
    injection E as <-.
    destruct fuel as [|fu]; [cbn in F; lia|].
    cbn [dec_many app].
    change (x :: b1 ++ br) with ((x :: b1) ++ br).
    rewrite (IH v (x :: b1) br Ev).
    assert (L : (lenN br <? lenN ((x :: b1) ++ br)) = true).
    { apply N.ltb_lt. rewrite lenN_app, lenN_cons. lia. }
    rewrite L. rewrite (IHv br fu eq_refl); [reflexivity|].
    cbn in F. rewrite app_length in F. lia.
Qed.

Theorem dec_enc f : wf f -> forall v b r,
  enc f v = Some b -> (sd f \/ r = []) -> dec f (b ++ r) = Some (v, r).
Proof.
  induction 1 as [ | | | p | lim | n | | | c | | k g Hg IHg | a k Hsa Ha IHa Hk IHk | g Hsg Hg IHg];
    intros v b r E T.
  - (* U8 *) destruct v; try discriminate. cbn in E.
    destruct (n <? 256) eqn:L; [|discriminate]. injection E as <-. apply N.ltb_lt in L.
    cbn. rewrite b2n_n2b_small by exact L. reflexivity.
  - (* U16 *) destruct v; try discriminate. cbn in E.
    destruct (n <? 65536) eqn:L; [|discriminate]. injection E as <-. apply N.ltb_lt in L.
    unfold be16. cbn. rewrite de16_be16 by exact L. reflexivity.
  - (* U32 *) destruct v; try discriminate. cbn in E.
    destruct (n <? 4294967296) eqn:L; [|discriminate]. injection E as <-. apply N.ltb_lt in L.
    unfold be32. cbn. rewrite de32_be32 by exact L. reflexivity.
  - (* Enum *) destruct v; try discriminate. cbn in E.
    destruct (n <? 256) eqn:L; [|discriminate]. injection E as <-. apply N.ltb_lt in L.
    cbn. rewrite b2n_n2b_small by exact L. reflexivity.
  - (* OctLt *) destruct v; try discriminate. cbn in E.
    destruct ((n <? 256) && (n <? lim)) eqn:L; [|discriminate]. injection E as <-.
    apply andb_true_iff in L. destruct L as [L1 L2]. apply N.ltb_lt in L1.
    cbn. rewrite b2n_n2b_small by exact L1. rewrite L2. reflexivity.
  - (* Bytes *) destruct v as [|b0| | | |]; try discriminate. cbn in E.
    destruct (lenN b0 =? n) eqn:L; [|discriminate]. injection E as <-. apply N.eqb_eq in L.
    cbn [dec].
    assert (L2 : (n <=? lenN (b0 ++ r)) = true) by (apply N.leb_le; rewrite lenN_app; lia).
    rewrite L2. rewrite takeN_app_len, dropN_app_len by exact L. reflexivity.
  - (* Rest *) destruct T as [T|T]; [destruct (sd_rest T)|]. subst r.
    destruct v; try discriminate. cbn in E. injection E as <-. cbn. rewrite app_nil_r. reflexivity.
  - (* Mpi *) destruct v as [|m| | | |]; try discriminate. cbn in E.
    destruct (mpi_ok m) eqn:M; [|discriminate]. injection E as <-.
    destruct (mpi_len m M) as [Ln Lb].
    unfold be16. cbn [dec app]. rewrite de16_be16 by exact Lb. cbv zeta.
    rewrite Ln.
    assert (L2 : (lenN m <=? lenN (m ++ r)) = true) by (apply N.leb_le; rewrite lenN_app; lia).
    rewrite L2. rewrite takeN_app_len, dropN_app_len by reflexivity.
    rewrite M, N.eqb_refl. reflexivity.
  - (* Const *) destruct v; try discriminate. cbn in E. injection E as <-.
    cbn. rewrite prefix_strip_app. reflexivity.
  - (* Unit *) destruct v; try discriminate. cbn in E. injection E as <-. reflexivity.
  - (* Len *) destruct v as [| | | |cl w|]; try discriminate. cbn [enc] in E.
    destruct (enc g w) as [body|] eqn:Eb; [|discriminate].
    destruct (enc_lenpfx k cl (lenN body)) as [h|] eqn:Eh; [|discriminate].
    injection E as <-. cbn [dec]. rewrite <- app_assoc.
    rewrite (lenpfx_dec_enc _ _ _ _ _ Eh).
    assert (L2 : (lenN body <=? lenN (body ++ r)) = true)
      by (apply N.leb_le; rewrite lenN_app; lia).
    rewrite L2. rewrite takeN_app_len, dropN_app_len by reflexivity.
    pose proof (IHg w body [] Eb (or_intror eq_refl)) as D. rewrite app_nil_r in D.
    rewrite D, Eh. reflexivity.
  - (* Dep *) destruct v as [| |va vb| | |]; try discriminate. cbn [enc] in E.
    destruct (enc a va) as [ba|] eqn:Ea; [|discriminate].
    destruct (enc (k va) vb) as [bb|] eqn:Eb; [|discriminate].
    injection E as <-. cbn [dec]. rewrite <- app_assoc.
    rewrite (IHa va ba (bb ++ r) Ea (or_introl Hsa)).
    rewrite (IHk va vb bb r Eb); [reflexivity|].
    destruct T as [T|T]; [|right; exact T]. left. inversion T; subst. auto.
  - (* Many *) destruct T as [T|T]; [destruct (sd_many _ T)|]. subst r.
    destruct v as [| | |vs| |]; try discriminate. cbn [enc] in E. cbn [dec].
    rewrite app_nil_r.
    rewrite (dec_enc_many g (fun v b r E => IHg v b r E (or_introl Hsg)) vs b (length b) E (le_n _)).
    reflexivity.
Qed.

(* ---------- encode after decode ---------- *)

Lemma enc_dec_many (g : fmt)
  (IH : forall b v r, dec g b = Some (v, r) -> exists b', enc g v = Some b' /\ b = b' ++ r) :
  forall fuel b vs, dec_many (dec g) fuel b = Some vs -> enc_many (enc g) vs = Some b.
Proof.
  induction fuel as [|fu IHf]; intros b vs D.
  - destruct b; cbn in D; [|discriminate]. injection D as <-. reflexivity.
  - destruct b as [|x0 b0]; cbn [dec_many] in D; [injection D as <-; reflexivity|].
    destruct (dec g (x0 :: b0)) as [[v r]|] eqn:Dg; [|discriminate].
    destruct (lenN r <? lenN (x0 :: b0)) eqn:L; [|discriminate].
    destruct (dec_many (dec g) fu r) as [vs'|] eqn:Dr; [|discriminate].
    injection D as <-. cbn [enc_many].
    destruct (IH _ _ _ Dg) as [b' [Eb' Eq]].
    rewrite Eb', (IHf r vs' Dr).
    apply N.ltb_lt in L.
    destruct b' as [|x b']; [cbn in Eq; subst r; lia|].
    rewrite Eq. reflexivity.
Qed.

Theorem enc_dec f : wf f -> forall b v r,
  dec f b = Some (v, r) -> exists b', enc f v = Some b' /\ b = b' ++ r.
Proof.
  induction 1 as [ | | | p | lim | n | | | c | | k g Hg IHg | a k Hsa Ha IHa Hk IHk | g Hsg Hg IHg];
    intros b v r D.
  - destruct b as [|a b]; [discriminate|]. cbn in D. injection D as <- <-.
    pose proof (b2n_lt a) as L. apply N.ltb_lt in L. cbn. rewrite L, n2b_b2n.
    eexists; split; reflexivity.
  - destruct b as [|a [|a' b]]; try discriminate. cbn in D. injection D as <- <-.
    pose proof (de16_lt a a') as L. apply N.ltb_lt in L. cbn. rewrite L, be16_de16.
    eexists; split; reflexivity.
  - destruct b as [|a [|a' [|a'' [|a''' b]]]]; try discriminate. cbn in D. injection D as <- <-.
    pose proof (de32_lt a a' a'' a''') as L. apply N.ltb_lt in L. cbn. rewrite L, be32_de32.
    eexists; split; reflexivity.
  - destruct b as [|a b]; [discriminate|]. cbn in D. injection D as <- <-.
    pose proof (b2n_lt a) as L. apply N.ltb_lt in L. cbn. rewrite L, n2b_b2n.
    eexists; split; reflexivity.
  - destruct b as [|a b]; [discriminate|]. cbn in D.
    destruct (b2n a <? lim) eqn:L2; [|discriminate]. injection D as <- <-.
    pose proof (b2n_lt a) as L. apply N.ltb_lt in L. cbn. rewrite L, L2, n2b_b2n.
    eexists; split; reflexivity.
  - cbn in D. destruct (n <=? lenN b) eqn:L; [|discriminate]. injection D as <- <-.
    apply N.leb_le in L. cbn.
    assert (L2 : (lenN (takeN n b) =? n) = true) by (apply N.eqb_eq; rewrite lenN_takeN; lia).
    rewrite L2. eexists; split; [reflexivity|]. symmetry. apply takeN_dropN.
  - cbn in D. injection D as <- <-. cbn. eexists; split; [reflexivity|]. rewrite app_nil_r. reflexivity.
  - destruct b as [|a [|a' b]]; try discriminate. cbn [dec] in D. cbv zeta in D.
    destruct ((de16 a a' + 7) / 8 <=? lenN b) eqn:L; [|discriminate].
    destruct (mpi_ok (takeN ((de16 a a' + 7) / 8) b) &&
              (mpi_bits (takeN ((de16 a a' + 7) / 8) b) =? de16 a a')) eqn:M; [|discriminate].
    injection D as <- <-. apply andb_true_iff in M. destruct M as [M1 M2].
    apply N.eqb_eq in M2. cbn [enc]. rewrite M1, M2, be16_de16.
    eexists; split; [reflexivity|]. cbn [app]. do 2 f_equal. symmetry. apply takeN_dropN.
  - cbn in D. destruct (prefix_strip c b) as [r0|] eqn:P; [|discriminate]. injection D as <- <-.
    cbn. eexists; split; [reflexivity|]. apply prefix_strip_inv. exact P.
  - cbn in D. injection D as <- <-. cbn. eexists; split; reflexivity.
  - cbn [dec] in D.
    destruct (dec_lenpfx k b) as [[[cl n] r0]|] eqn:Dl; [|discriminate].
    destruct (n <=? lenN r0) eqn:L; [|discriminate].
    destruct (dec g (takeN n r0)) as [[w [|? ?]]|] eqn:Dg; try discriminate.
    destruct (enc_lenpfx k cl n) as [h|] eqn:Eh; [|discriminate].
    injection D as <- <-.
    destruct (IHg _ _ _ Dg) as [b' [Eb' Eq]]. rewrite app_nil_r in Eq.
    apply N.leb_le in L.
    assert (Ln : lenN b' = n) by (rewrite <- Eq, lenN_takeN; lia).
    cbn [enc]. rewrite Eb', Ln, Eh.
    eexists; split; [reflexivity|].
    rewrite (lenpfx_enc_dec _ _ _ _ _ _ Dl Eh), <- app_assoc. f_equal.
    rewrite <- Eq. symmetry. apply takeN_dropN.
  - cbn [dec] in D.
    destruct (dec a b) as [[va r0]|] eqn:Da; [|discriminate].
    destruct (dec (k va) r0) as [[vb r1]|] eqn:Db; [|discriminate].
    injection D as <- <-.
    destruct (IHa _ _ _ Da) as [ba [Ea Eqa]].
    destruct (IHk va _ _ _ Db) as [bb [Eb Eqb]].
    cbn [enc]. rewrite Ea, Eb. eexists; split; [reflexivity|].
    rewrite Eqa, Eqb, app_assoc. reflexivity.
  - cbn [dec] in D.
    destruct (dec_many (dec g) (length b) b) as [vs|] eqn:Dm; [|discriminate].
    injection D as <- <-. cbn [enc].
    rewrite (enc_dec_many g IHg _ _ _ Dm). eexists; split; [reflexivity|].
    rewrite app_nil_r. reflexivity.
Qed.

(* ---------- corollaries used by the properties ---------- *)

(* whole-region versions *)
Corollary decode_encode f v b : wf f -> enc f v = Some b -> dec f b = Some (v, []).
Proof.
  intros W E. pose proof (dec_enc f W v b [] E (or_intror eq_refl)) as D.
  rewrite app_nil_r in D. exact D.
Qed.

Corollary encode_decode f b v : wf f -> dec f b = Some (v, []) -> enc f v = Some b.
Proof.
  intros W D. destruct (enc_dec f W b v [] D) as [b' [E Eq]].
  rewrite app_nil_r in Eq. subst b'. exact E.
Qed.

(* the encoder is injective on values: two values with the same bytes are equal *)
Corollary enc_injective f v w b : wf f -> enc f v = Some b -> enc f w = Some b -> v = w.
Proof.
  intros W E1 E2. pose proof (decode_encode f v b W E1) as D1.
  pose proof (decode_encode f w b W E2) as D2. congruence.
Qed.

(* the announced length: the length prefix of an [FLen] region is the number of octets
   that follow it *)
Corollary len_truthful k g c w b : wf g -> enc (FLen k g) (VLen c w) = Some b ->
  exists h body, b = h ++ body /\ enc g w = Some body /\
                 dec_lenpfx k b = Some (c, lenN body, body).
Proof.
  intros W E. cbn [enc] in E.
  destruct (enc g w) as [body|] eqn:Eb; [|discriminate].
  destruct (enc_lenpfx k c (lenN body)) as [h|] eqn:Eh; [|discriminate].
  injection E as <-. exists h, body. split; [reflexivity|]. split; [reflexivity|].
  apply lenpfx_dec_enc. exact Eh.
Qed.
