(* RFC 9580 packet bodies, transcribed as values of the format universe.
   Every grammar below is written from the RFC text (section numbers in the
   comments), not from the library.  Fields whose structure is irrelevant to
   re-serialisation (encrypted octets, opaque trailing data) are [FRest]. *)
From Coq Require Import List NArith Lia Bool.
From Rpgp Require Import Base.Octets Wire.Fmt.
Import ListNotations.
Open Scope N_scope.

Definition vfst (v : val) : val := match v with VP a _ => a | _ => VU end.
Definition vsnd (v : val) : val := match v with VP _ b => b | _ => VU end.

(* finite case table with a default *)
Fixpoint sw (l : list (N * fmt)) (d : fmt) (n : N) : fmt :=
  match l with
  | [] => d
  | (k, f) :: r => if n =? k then f else sw r d n
  end.

Notation "a ;; b" := (FSeq a b) (at level 61, right associativity).

(* ---- 3.7.1 string-to-key specifiers, followed by [k] ---- *)
Definition s2k_then (k : fmt) : fmt :=
  FDep (FEnum [0; 1; 3; 4])
    (fun t => sw [ (0, FEnum [2; 8; 10] ;; k);
                   (1, FEnum [2; 8; 10] ;; FBytes 8 ;; k);
                   (3, FEnum [2; 8; 10] ;; FBytes 8 ;; FU8 ;; k);
                   (4, FBytes 16 ;; FU8 ;; FU8 ;; FU8 ;; k) ]
                 FRest (val_n t)).

(* 9.3 cipher block sizes = IV sizes; 9.6 AEAD nonce sizes *)
Definition iv_fmt (sym : N) : fmt :=
  sw [ (1, FBytes 8); (2, FBytes 8); (3, FBytes 8); (4, FBytes 8);
       (7, FBytes 16); (8, FBytes 16); (9, FBytes 16); (10, FBytes 16);
       (11, FBytes 16); (12, FBytes 16); (13, FBytes 16) ] FRest sym.
Definition nonce_fmt (aead : N) : fmt :=
  sw [ (1, FBytes 16); (2, FBytes 15); (3, FBytes 12) ] FRest aead.

(* ---- 5.3 symmetric-key encrypted session key ---- *)
Definition skesk : fmt :=
  FDep (FEnum [4; 6; 5])
    (fun v => sw [ (4, FEnum [7; 8; 9] ;; s2k_then FRest);
                   (6, FLen L8 (FEnum [7; 8; 9] ;;
                                FDep (FEnum [1; 2; 3]) (fun a => FLen L8 (s2k_then FUnit) ;; nonce_fmt (val_n a)))
                       ;; FRest) ]
                 FRest (val_n v)).

(* ---- 5.1 public-key encrypted session key ---- *)
Definition pkesk_fields (alg : N) : fmt :=
  sw [ (1, FMpi ;; FUnit); (2, FMpi ;; FUnit); (3, FMpi ;; FUnit);
       (16, FMpi ;; FMpi ;; FUnit);
       (18, FMpi ;; FLen L8 FRest ;; FUnit);
       (25, FBytes 32 ;; FLen L8 FRest ;; FUnit);
       (26, FBytes 56 ;; FLen L8 FRest ;; FUnit) ]
     FRest alg.

Definition pk_algs : list N := [1; 16; 17; 18; 19; 22; 25; 26; 27; 28; 100].

Definition pkesk : fmt :=
  FDep (FEnum [3; 6])
    (fun v => sw [ (3, FBytes 8 ;; FDep (FEnum pk_algs) (fun a => pkesk_fields (val_n a)));
                   (6, FLen L8 FRest ;; FDep (FEnum pk_algs) (fun a => pkesk_fields (val_n a))) ]
                 FRest (val_n v)).

(* ---- 5.2.3 salt sizes of v6 signatures, by hash algorithm ---- *)
Definition salt_fmt (h : N) : fmt :=
  sw [ (8, FBytes 16); (9, FBytes 24); (10, FBytes 32); (11, FBytes 16);
       (12, FBytes 16); (14, FBytes 32) ] FRest h.

Definition hash_algs : list N := [8; 9; 10; 11; 12; 14; 2; 1; 3].

(* ---- 5.4 one-pass signature ---- *)
Definition ops : fmt :=
  FDep (FEnum [3; 6])
    (fun v => sw [ (3, FU8 ;; FEnum hash_algs ;; FEnum pk_algs ;; FBytes 8 ;; FEnum [0; 1]);
                   (6, FU8 ;; FDep (FEnum hash_algs)
                                (fun h => FEnum pk_algs ;; FLen L8 (salt_fmt (val_n h))
                                          ;; FBytes 32 ;; FEnum [0; 1])) ]
                 FRest (val_n v)).

(* ---- 5.2.3 algorithm-specific signature fields ---- *)
Definition sig_value (alg : N) : fmt :=
  sw [ (1, FMpi ;; FUnit); (3, FMpi ;; FUnit);
       (17, FMpi ;; FMpi ;; FUnit); (19, FMpi ;; FMpi ;; FUnit); (22, FMpi ;; FMpi ;; FUnit);
       (27, FBytes 64 ;; FUnit); (28, FBytes 114 ;; FUnit) ]
     FRest alg.

Definition fp_fmt : fmt :=
  FDep (FEnum [4; 6]) (fun v => sw [ (4, FBytes 20); (6, FBytes 32) ] FRest (val_n v)).

(* 5.2.3.7 .. 5.2.3.36 subpacket bodies; [emb] is the format of an embedded signature *)
Definition subpacket_body (emb : fmt) (t : N) : fmt :=
  sw [ (2, FU32); (3, FU32); (9, FU32);
       (4, FOctLt 2); (7, FOctLt 2); (25, FOctLt 2);
       (5, FBytes 2);
       (12, FU8 ;; FU8 ;; FBytes 20);
       (16, FBytes 8);
       (20, FBytes 4 ;; FDep (FU16 ;; FU16)
                          (fun l => FBytes (val_n (vfst l)) ;; FBytes (val_n (vsnd l))));
       (29, FU8 ;; FRest);
       (31, FU8 ;; FU8 ;; FRest);
       (32, emb);
       (33, fp_fmt); (35, fp_fmt) ]
     FRest t.

Definition subpacket_types : list N :=
  [2; 3; 4; 5; 7; 9; 11; 12; 16; 20; 21; 22; 23; 24; 25; 26; 27; 28; 29; 30; 31; 32; 33; 34; 35; 39;
   130; 155; 161; 100].

Definition subpacket (emb : fmt) : fmt :=
  FLen LSub (FDep (FEnum subpacket_types) (fun t => subpacket_body emb (val_n t mod 128))).

Definition sig_types : list N := [0; 1; 16; 19; 24; 25; 31; 32; 40; 48].

(* 5.2.2 / 5.2.3 signature packet bodies; [d] bounds the nesting of embedded signatures *)
Fixpoint sig_body (d : nat) : fmt :=
  let emb := match d with O => FRest | S d' => sig_body d' end in
  FDep (FEnum [4; 6; 3])
    (fun v => sw
       [ (3, FConst [x05] ;; FU8 ;; FU32 ;; FBytes 8 ;;
             FDep (FEnum pk_algs) (fun a => FEnum hash_algs ;; FBytes 2 ;; sig_value (val_n a)));
         (4, FEnum sig_types ;;
             FDep (FEnum pk_algs) (fun a =>
               FEnum hash_algs ;; FLen L16 (FMany (subpacket emb)) ;; FLen L16 (FMany (subpacket emb)) ;;
               FBytes 2 ;; sig_value (val_n a)));
         (6, FEnum sig_types ;;
             FDep (FEnum pk_algs) (fun a =>
               FDep (FEnum hash_algs) (fun h =>
                 FLen L32 (FMany (subpacket emb)) ;; FLen L32 (FMany (subpacket emb)) ;;
                 FBytes 2 ;; FLen L8 (salt_fmt (val_n h)) ;; sig_value (val_n a)))) ]
       FRest (val_n v)).

Definition signature : fmt := sig_body 2.

(* ---- 5.5.5 algorithm-specific public key fields, followed by [k] ---- *)
Definition oid : fmt := FLen L8 FRest.

Definition pub_params (alg : N) (k : fmt) : fmt :=
  sw [ (1, FMpi ;; FMpi ;; k); (2, FMpi ;; FMpi ;; k); (3, FMpi ;; FMpi ;; k);
       (16, FMpi ;; FMpi ;; FMpi ;; k);
       (17, FMpi ;; FMpi ;; FMpi ;; FMpi ;; k);
       (18, oid ;; FMpi ;; FLen L8 (FConst [x01] ;; FEnum hash_algs ;; FEnum [7; 8; 9]) ;; k);
       (19, oid ;; FMpi ;; k);
       (22, oid ;; FMpi ;; k);
       (25, FBytes 32 ;; k); (26, FBytes 56 ;; k);
       (27, FBytes 32 ;; k); (28, FBytes 57 ;; k) ]
     FRest alg.

(* 5.5.2 public key / subkey bodies, followed by [k a] (a = the algorithm id) *)
Definition key_then (k : N -> N -> fmt) : fmt :=
  FDep (FEnum [4; 6; 3])
    (fun v => sw
       [ (3, FU32 ;; FU16 ;; FDep (FEnum [1; 2; 3]) (fun a => pub_params (val_n a) (k 3 (val_n a))));
         (4, FU32 ;; FDep (FEnum pk_algs) (fun a => pub_params (val_n a) (k 4 (val_n a))));
         (6, FU32 ;; FDep (FEnum pk_algs)
                       (fun a => FLen L32 (pub_params (val_n a) FUnit) ;; k 6 (val_n a))) ]
       FRest (val_n v)).

Definition public_key : fmt := key_then (fun _ _ => FUnit).

(* 5.5.3 secret key: S2K usage octet and protection parameters; the (possibly encrypted)
   key material, its IV and its checksum are opaque trailing octets *)
Definition sym_algs : list N := [7; 8; 9; 1; 2; 3; 4; 10; 11; 12; 13].

(* 5.5.5 algorithm-specific secret key material (unprotected); a two-octet checksum follows
   in versions before 6 *)
Definition plain_secret (ver alg : N) : fmt :=
  let ck := if ver =? 6 then FUnit else FBytes 2 in
  sw [ (1, FMpi ;; FMpi ;; FMpi ;; FMpi ;; ck); (2, FMpi ;; FMpi ;; FMpi ;; FMpi ;; ck);
       (3, FMpi ;; FMpi ;; FMpi ;; FMpi ;; ck);
       (16, FMpi ;; ck); (17, FMpi ;; ck); (18, FMpi ;; ck); (19, FMpi ;; ck); (22, FMpi ;; ck);
       (25, FBytes 32 ;; ck); (26, FBytes 56 ;; ck); (27, FBytes 32 ;; ck); (28, FBytes 57 ;; ck) ]
     FRest alg.

Definition secret_part (ver alg : N) : fmt :=
  FDep (FEnum [0; 253; 254; 255; 7; 9])
    (fun u =>
       if ver =? 6 then
         sw [ (0, plain_secret ver alg);
              (253, FLen L8 (FEnum sym_algs ;;
                             FDep (FEnum [1; 2; 3]) (fun a => FLen L8 (s2k_then FUnit) ;; nonce_fmt (val_n a)))
                    ;; FRest);
              (254, FLen L8 (FDep (FEnum sym_algs) (fun s => FLen L8 (s2k_then FUnit) ;; iv_fmt (val_n s)))
                    ;; FRest);
              (255, FLen L8 (FDep (FEnum sym_algs) (fun s => s2k_then (iv_fmt (val_n s)))) ;; FRest) ]
            (FLen L8 (iv_fmt (val_n u)) ;; FRest) (val_n u)
       else
         sw [ (0, plain_secret ver alg);
              (253, FEnum sym_algs ;; FEnum [1; 2; 3] ;; s2k_then FRest);
              (254, FEnum sym_algs ;; s2k_then FRest);
              (255, FEnum sym_algs ;; s2k_then FRest) ]
            FRest (val_n u)).

Definition secret_key : fmt := key_then (fun ver alg => secret_part ver alg).

(* ---- the remaining packet bodies ---- *)
Definition literal : fmt := FEnum [98; 116; 117] ;; FLen L8 FRest ;; FU32 ;; FRest.   (* 5.9 *)
Definition user_id : fmt := FRest.                                                  (* 5.11 *)
(* 5.12 user attribute subpackets; 5.12.1: the image attribute (type 1) starts with a
   little-endian header length (16 for the only defined header version 1), the version, the
   encoding and 12 reserved octets *)
Definition user_attribute : fmt :=
  FMany (FLen LSub (FDep (FEnum [1; 100; 101])
    (fun t => sw [ (1, FConst [x10; x00; x01] ;; FU8 ;; FBytes 12 ;; FRest) ] FRest (val_n t)))).
Definition marker : fmt := FConst [x50; x47; x50].                                  (* 5.8 *)
Definition trust : fmt := FRest.                                                    (* 5.10 *)
Definition padding : fmt := FRest.                                                  (* 5.14 *)
Definition compressed : fmt := FEnum [0; 1; 2; 3] ;; FRest.                         (* 5.6 *)
Definition seipd : fmt :=                                                           (* 5.13 *)
  FDep (FEnum [1; 2])
    (fun v => sw [ (1, FRest);
                   (2, FEnum [7; 8; 9] ;; FEnum [1; 2; 3] ;; FU8 ;; FBytes 32 ;; FRest) ]
                 FRest (val_n v)).

(* packet type id -> body format (5: Table 3) *)
Definition body_fmt (tag : N) : fmt :=
  sw [ (1, pkesk); (2, signature); (3, skesk); (4, ops);
       (5, secret_key); (6, public_key); (7, secret_key); (14, public_key);
       (8, compressed); (10, marker); (11, literal); (12, trust); (13, user_id);
       (17, user_attribute); (18, seipd); (21, padding) ]
     FRest tag.

Definition tags : list N := [1; 2; 3; 4; 5; 6; 7; 14; 8; 10; 11; 12; 13; 17; 18; 21].
