(* A small universe of wire formats: one description, three derived functions
   (encoder, strict decoder, generator).  The packet grammars of RFC 9580 are
   written once as values of [fmt] (Wire/Packets.v); the round-trip theorems
   are proved once, generically, in Wire/FmtProofs.v.

   The decoder is strict: it accepts exactly the encoder's image.  "Canonical
   encoding" in property C05 is defined as "accepted by this decoder".  Choices
   the library preserves on re-serialisation although they are not canonical
   in the RFC sense (the length-of-length class of a signature subpacket) are
   part of the value ([VLen c v]). *)
From Coq Require Import List NArith Lia Bool.
From Rpgp Require Import Base.Octets.
Import ListNotations.
Open Scope N_scope.

Inductive lenkind := L8 | L16 | L32 | LSub.

Inductive val :=
| VN (n : N)
| VB (b : bytes)
| VP (a b : val)
| VL (l : list val)
| VLen (c : N) (v : val)
| VU.

Inductive fmt :=
| FU8 | FU16 | FU32
| FEnum (pref : list N)           (* one octet; the generator prefers [pref] *)
| FOctLt (lim : N)                (* one octet whose value is below [lim] (booleans: 2) *)
| FBytes (n : N)
| FRest
| FMpi
| FConst (b : bytes)
| FUnit
| FLen (k : lenkind) (f : fmt)    (* length prefix, then exactly that many octets of f *)
| FDep (a : fmt) (k : val -> fmt) (* a, then a format chosen from a's value *)
| FMany (f : fmt).                (* f repeated until the region ends *)

Definition FSeq (a b : fmt) : fmt := FDep a (fun _ => b).

Definition val_n (v : val) : N := match v with VN n => n | _ => 0 end.

(* -------- scalars and MPIs -------- *)

Fixpoint bitlen_pos (p : positive) : N :=
  match p with xH => 1 | xO q | xI q => 1 + bitlen_pos q end.
Definition bitlen_byte (b : byte) : N :=
  match b2n b with N0 => 0 | Npos p => bitlen_pos p end.

Definition mpi_bits (b : bytes) : N :=
  match b with [] => 0 | x :: r => bitlen_byte x + 8 * lenN r end.

Definition mpi_ok (b : bytes) : bool :=
  match b with [] => true | x :: _ => negb (b2n x =? 0) end && (mpi_bits b <? 65536).

(* -------- length prefixes -------- *)

Definition enc_lenpfx (k : lenkind) (c n : N) : option bytes :=
  match k with
  | L8 => if (c =? 0) && (n <? 256) then Some [n2b n] else None
  | L16 => if (c =? 0) && (n <? 65536) then Some (be16 n) else None
  | L32 => if (c =? 0) && (n <? 4294967296) then Some (be32 n) else None
  | LSub =>
      if c =? 0 then if n <? 192 then Some [n2b n] else None
      else if c =? 1 then
        if (192 <=? n) && (n <? 16320) then
          Some [n2b ((n - 192) / 256 + 192); n2b ((n - 192) mod 256)] else None
      else if c =? 2 then if n <? 4294967296 then Some (xff :: be32 n) else None
      else None
  end.

Definition dec_lenpfx (k : lenkind) (b : bytes) : option (N * N * bytes) :=
  match k with
  | L8 => match b with a :: r => Some (0, b2n a, r) | _ => None end
  | L16 => match b with a :: a' :: r => Some (0, de16 a a', r) | _ => None end
  | L32 => match b with a :: a' :: a'' :: a''' :: r => Some (0, de32 a a' a'' a''', r) | _ => None end
  | LSub =>
      match b with
      | a :: r =>
          if b2n a <? 192 then Some (0, b2n a, r)
          else if b2n a <? 255 then
            match r with
            | a' :: r' => Some (1, (b2n a - 192) * 256 + b2n a' + 192, r')
            | [] => None
            end
          else match r with
               | a' :: a'' :: a''' :: a'''' :: r' => Some (2, de32 a' a'' a''' a'''', r')
               | _ => None
               end
      | [] => None
      end
  end.

(* -------- encoder -------- *)

Fixpoint enc_many (e : val -> option bytes) (vs : list val) : option bytes :=
  match vs with
  | [] => Some []
  | v :: r =>
      match e v, enc_many e r with
      | Some (x :: b), Some br => Some ((x :: b) ++ br)
      | _, _ => None
      end
  end.

Fixpoint enc (f : fmt) (v : val) : option bytes :=
  match f, v with
  | FU8, VN n => if n <? 256 then Some [n2b n] else None
  | FEnum _, VN n => if n <? 256 then Some [n2b n] else None
  | FOctLt lim, VN n => if (n <? 256) && (n <? lim) then Some [n2b n] else None
  | FU16, VN n => if n <? 65536 then Some (be16 n) else None
  | FU32, VN n => if n <? 4294967296 then Some (be32 n) else None
  | FBytes n, VB b => if lenN b =? n then Some b else None
  | FRest, VB b => Some b
  | FMpi, VB b => if mpi_ok b then Some (be16 (mpi_bits b) ++ b) else None
  | FConst c, VU => Some c
  | FUnit, VU => Some []
  | FLen k g, VLen c w =>
      match enc g w with
      | Some body =>
          match enc_lenpfx k c (lenN body) with
          | Some h => Some (h ++ body)
          | None => None
          end
      | None => None
      end
  | FDep a k, VP va vb =>
      match enc a va, enc (k va) vb with
      | Some ba, Some bb => Some (ba ++ bb)
      | _, _ => None
      end
  | FMany g, VL vs => enc_many (enc g) vs
  | _, _ => None
  end.

(* -------- strict decoder -------- *)

Fixpoint prefix_strip (c b : bytes) : option bytes :=
  match c, b with
  | [], _ => Some b
  | x :: c', y :: b' => if beq x y then prefix_strip c' b' else None
  | _ :: _, [] => None
  end.

Fixpoint dec_many (d : bytes -> option (val * bytes)) (fuel : nat) (b : bytes)
  : option (list val) :=
  match b with
  | [] => Some []
  | _ :: _ =>
      match fuel with
      | O => None
      | S fu =>
          match d b with
          | Some (v, r) =>
              if lenN r <? lenN b then
                match dec_many d fu r with
                | Some vs => Some (v :: vs)
                | None => None
                end
              else None
          | None => None
          end
      end
  end.

Fixpoint dec (f : fmt) (b : bytes) : option (val * bytes) :=
  match f with
  | FU8 | FEnum _ => match b with a :: r => Some (VN (b2n a), r) | [] => None end
  | FOctLt lim => match b with a :: r => if b2n a <? lim then Some (VN (b2n a), r) else None | [] => None end
  | FU16 => match b with a :: a' :: r => Some (VN (de16 a a'), r) | _ => None end
  | FU32 => match b with a :: a' :: a'' :: a''' :: r => Some (VN (de32 a a' a'' a'''), r)
                    | _ => None end
  | FBytes n => if n <=? lenN b then Some (VB (takeN n b), dropN n b) else None
  | FRest => Some (VB b, [])
  | FMpi =>
      match b with
      | a :: a' :: r =>
          let bits := de16 a a' in
          let n := (bits + 7) / 8 in
          if n <=? lenN r then
            let m := takeN n r in
            if mpi_ok m && (mpi_bits m =? bits) then Some (VB m, dropN n r) else None
          else None
      | _ => None
      end
  | FConst c => match prefix_strip c b with Some r => Some (VU, r) | None => None end
  | FUnit => Some (VU, b)
  | FLen k g =>
      match dec_lenpfx k b with
      | Some (c, n, r) =>
          if n <=? lenN r then
            match dec g (takeN n r) with
            | Some (w, []) =>
                (* the class must be able to carry the length (rejects e.g. a two-octet
                   prefix whose arithmetic value is below 192 - impossible - and keeps
                   the decoder the exact inverse of the encoder) *)
                match enc_lenpfx k c n with
                | Some _ => Some (VLen c w, dropN n r)
                | None => None
                end
            | _ => None
            end
          else None
      | None => None
      end
  | FDep a k =>
      match dec a b with
      | Some (va, r) =>
          match dec (k va) r with
          | Some (vb, r') => Some (VP va vb, r')
          | None => None
          end
      | None => None
      end
  | FMany g =>
      match dec_many (dec g) (length b) b with
      | Some vs => Some (VL vs, [])
      | None => None
      end
  end.

(* -------- well-formed descriptions -------- *)

(* self-delimiting: decoding does not depend on where the enclosing region ends *)
Inductive sd : fmt -> Prop :=
| sd_u8 : sd FU8 | sd_u16 : sd FU16 | sd_u32 : sd FU32
| sd_enum p : sd (FEnum p)
| sd_octlt l : sd (FOctLt l)
| sd_bytes n : sd (FBytes n)
| sd_mpi : sd FMpi
| sd_const c : sd (FConst c)
| sd_unit : sd FUnit
| sd_len k f : sd (FLen k f)
| sd_dep a k : sd a -> (forall v, sd (k v)) -> sd (FDep a k).

Inductive wf : fmt -> Prop :=
| wf_u8 : wf FU8 | wf_u16 : wf FU16 | wf_u32 : wf FU32
| wf_enum p : wf (FEnum p)
| wf_octlt l : wf (FOctLt l)
| wf_bytes n : wf (FBytes n)
| wf_rest : wf FRest
| wf_mpi : wf FMpi
| wf_const c : wf (FConst c)
| wf_unit : wf FUnit
| wf_len k f : wf f -> wf (FLen k f)
| wf_dep a k : sd a -> wf a -> (forall v, wf (k v)) -> wf (FDep a k)
| wf_many f : sd f -> wf f -> wf (FMany f).

(* -------- generator (not verified: only its outputs matter) -------- *)

Definition rnd := list N.
Definition next (r : rnd) : N * rnd := match r with [] => (0, []) | x :: t => (x, t) end.

Fixpoint gen_bytes (n : nat) (r : rnd) : bytes * rnd :=
  match n with
  | O => ([], r)
  | S m => let '(x, r1) := next r in let '(b, r2) := gen_bytes m r1 in (n2b x :: b, r2)
  end.

Definition pick_len (x : N) : N :=
  (* sizes biased to small, with the length-class edges represented *)
  match x mod 16 with
  | 0 => 0 | 1 => 1 | 2 => 2 | 3 => 3 | 4 => 8 | 5 => 16 | 6 => 20 | 7 => 32
  | 8 => 191 | 9 => 192 | 10 => 193 | 11 => 255 | 12 => 256 | 13 => 5 | 14 => 12 | _ => (x / 16) mod 600
  end.

Fixpoint gen_many (g : rnd -> val * rnd) (n : nat) (r : rnd) : list val * rnd :=
  match n with
  | O => ([], r)
  | S m => let '(v, r1) := g r in let '(vs, r2) := gen_many g m r1 in (v :: vs, r2)
  end.

Definition gen_mpi (r : rnd) : bytes * rnd :=
  let '(x, r1) := next r in
  let n := match x mod 8 with 0 => 0 | 1 => 1 | 2 => 2 | 3 => 32 | 4 => 33 | 5 => 48 | 6 => 65 | _ => 128 end in
  let '(b, r2) := gen_bytes (N.to_nat n) r1 in
  match b with
  | [] => ([], r2)
  | h :: t =>
      let '(y, r3) := next r2 in
      (* leading octet non-zero, with every bit length 1..8 represented *)
      let top := 2 ^ (y mod 8) in
      (n2b (top + b2n h mod top) :: t, r3)
  end.

Fixpoint gen (f : fmt) (r : rnd) : val * rnd :=
  match f with
  | FU8 => let '(x, r1) := next r in (VN (x mod 256), r1)
  | FU16 => let '(x, r1) := next r in (VN (x mod 65536), r1)
  | FU32 => let '(x, r1) := next r in (VN (x mod 4294967296), r1)
  | FEnum pref =>
      let '(x, r1) := next r in
      let '(y, r2) := next r1 in
      if (x mod 4 =? 0) || (lenN pref =? 0) then (VN (y mod 256), r2)
      else (VN (nth (N.to_nat (y mod lenN pref)) pref 0 mod 256), r2)
  | FOctLt lim => let '(x, r1) := next r in (VN (if lim =? 0 then 0 else x mod lim), r1)
  | FBytes n => let '(b, r1) := gen_bytes (N.to_nat n) r in (VB b, r1)
  | FRest => let '(x, r1) := next r in
             let '(b, r2) := gen_bytes (N.to_nat (pick_len x)) r1 in (VB b, r2)
  | FMpi => let '(b, r1) := gen_mpi r in (VB b, r1)
  | FConst _ | FUnit => (VU, r)
  | FLen k g =>
      let '(w, r1) := gen g r in
      let '(x, r2) := next r1 in
      let n := match enc g w with Some b => lenN b | None => 0 end in
      let c := match k with
               | LSub => if x mod 4 =? 0 then 2
                         else if n <? 192 then 0 else if n <? 16320 then 1 else 2
               | _ => 0
               end in
      (VLen c w, r2)
  | FDep a k =>
      let '(va, r1) := gen a r in
      let '(vb, r2) := gen (k va) r1 in (VP va vb, r2)
  | FMany g =>
      let '(x, r1) := next r in
      let '(vs, r2) := gen_many (gen g) (N.to_nat (x mod 5)) r1 in (VL vs, r2)
  end.
