(* Wire/KeyFlagsObj.v -- the Key Flags value as the object the library keeps (C05): the two known
   octets, any further octets, and the length the field had on the wire ("to fully roundtrip");
   parsing, the setters of the public API, serialising and the length query.

   Mirrors src/packet/signature/types.rs: KeyFlags {known, rest, original_len}, try_from_reader,
   set_* (with grow_to_fit, fix "key flags set through the API are written"), Serialize::to_writer /
   write_len.  [grow = false] is the code before that fix. *)
From Rpgp Require Import Base.Octets Base.Res.

Record kf := { lo : N; hi : N; rest : option bytes; olen : N }.

Definition kf_default : kf := {| lo := 0; hi := 0; rest := None; olen := 1 |}.

Definition kf_parse (b : bytes) : kf :=
  match b with
  | [] => {| lo := 0; hi := 0; rest := None; olen := 0 |}
  | [a] => {| lo := b2n a; hi := 0; rest := None; olen := 1 |}
  | [a; c] => {| lo := b2n a; hi := b2n c; rest := None; olen := 2 |}
  | a :: c :: r => {| lo := b2n a; hi := b2n c; rest := Some r; olen := lenN b |}
  end.

Definition needed (l h : N) : N := if negb (h =? 0) then 2 else if negb (l =? 0) then 1 else 0.

(* one setter: the flag [mask] of the first or the second octet, set or cleared *)
Definition kf_set (grow : bool) (second : bool) (mask : N) (val : bool) (f : kf) : kf :=
  let upd x := if val then N.lor x mask else N.ldiff x mask in
  let l := if second then lo f else upd (lo f) in
  let h := if second then upd (hi f) else hi f in
  {| lo := l; hi := h; rest := rest f; olen := if grow then N.max (olen f) (needed l h) else olen f |}.

Definition two_octets (f : kf) : bool := (1 <? olen f) || negb (hi f =? 0).

Definition kf_ser (f : kf) : bytes :=
  if olen f =? 0 then []
  else [n2b (lo f)] ++ (if two_octets f then [n2b (hi f)] else []) ++ match rest f with Some r => r | None => [] end.

Definition kf_write_len (f : kf) : N :=
  if olen f =? 0 then 0
  else (if two_octets f then 2 else 1) + match rest f with Some r => lenN r | None => 0 end.

(* the setters of the public API: (second octet?, mask) *)
Definition setters : list (bool * N) :=
  [(false, 1); (false, 2); (false, 4); (false, 8); (false, 16); (false, 32); (false, 64); (false, 128); (true, 4); (true, 8)].

Definition is_setter (s : bool * N) : bool := existsb (fun t => Bool.eqb (fst s) (fst t) && (snd s =? snd t)) setters.

Record op := { o_second : bool; o_mask : N; o_val : bool }.
Definition apply (grow : bool) (f : kf) (o : op) : kf := kf_set grow (o_second o) (o_mask o) (o_val o) f.
Definition op_ok (o : op) : bool := is_setter (o_second o, o_mask o).
