(* Whole packets: a body in the grammar of its packet type behind a new-format header that
   announces the body length (5.2 / 4.2.1). *)
From Coq Require Import List NArith Lia Bool.
From Rpgp Require Import Base.Octets Base.Res Frame.Framing Wire.Fmt Wire.Packets.
Import ListNotations.
Open Scope N_scope.

Definition packet (tag : N) (v : val) : option bytes :=
  match enc (body_fmt tag) v with
  | Some b => if lenN b <? 4294967296 then Some (enc_header_new tag (lenN b) ++ b) else None
  | None => None
  end.

(* strict decoder of a body: [Some v] iff the body is canonical for its packet type *)
Definition parse_body (tag : N) (b : bytes) : option val :=
  match dec (body_fmt tag) b with
  | Some (v, []) => Some v
  | _ => None
  end.

(* the length an object announces for itself: header octets + body octets *)
Definition announced_len (tag : N) (v : val) : option N :=
  match enc (body_fmt tag) v with
  | Some b => Some (header_len_new (lenN b) + lenN b)
  | None => None
  end.
