From Rpgp Require Import Base.Octets Io.CrLfCheck.

Lemma cr_is_not_lf : beq CR LF = false.
Proof. reflexivity. Qed.

Lemma ok_from_not_lf f b t : beq b LF = false -> ok_from f (b :: t) = ok_from (beq b CR) t.
Proof. intros H. cbn [ok_from]. rewrite H. reflexivity. Qed.

Lemma scan_is_rule_n n : forall l, (length l <= n)%nat -> scan l = ok_from false l.
Proof.
  induction n as [|n IH]; intros l Hl.
  - destruct l; [reflexivity | cbn [length] in Hl; lia].
  - destruct l as [|b t]; [reflexivity|]. cbn [length] in Hl.
    cbn [scan]. destruct (beq b LF) eqn:Eb.
    + cbn [ok_from]. rewrite Eb. reflexivity.
    + rewrite (ok_from_not_lf false b t Eb).
      destruct (beq b CR) eqn:Ec.
      * destruct t as [|c t']; [reflexivity|]. cbn [length] in Hl.
        destruct (beq c LF) eqn:El.
        -- cbn [ok_from]. rewrite El. cbn [negb andb].
           assert (Ecc : beq c CR = false).
           { apply beq_true in El. subst c. reflexivity. }
           rewrite Ecc. apply IH. lia.
        -- rewrite (ok_from_not_lf true c t' El), <- (ok_from_not_lf false c t' El). apply IH. cbn [length]. lia.
      * apply IH. lia.
Qed.

Lemma scan_is_rule l : scan l = ok_from false l.
Proof. apply (scan_is_rule_n (length l)). lia. Qed.

Lemma last_default_irrelevant (t : bytes) c d1 d2 : last (c :: t) d1 = last (c :: t) d2.
Proof.
  revert c. induction t as [|e t IH]; intros c; [reflexivity|].
  change (last (c :: e :: t) d1) with (last (e :: t) d1). change (last (c :: e :: t) d2) with (last (e :: t) d2). apply IH.
Qed.

Lemma flag_after_last f b t : flag_after f (b :: t) = beq (last (b :: t) b) CR.
Proof.
  revert f b. induction t as [|c t IH]; intros f b; [reflexivity|].
  change (flag_after f (b :: c :: t)) with (flag_after (beq b CR) (c :: t)).
  rewrite IH. change (last (b :: c :: t) b) with (last (c :: t) b).
  rewrite (last_default_irrelevant t c b c). reflexivity.
Qed.

(* one read is the rule *)
Theorem crlf_read_is_rule flag chunk :
  crlf_read flag chunk = if ok_from flag chunk then Some (flag_after flag chunk) else None.
Proof.
  destruct chunk as [|b t]; [reflexivity|].
  unfold crlf_read. rewrite <- (flag_after_last flag b t).
  assert (E : scan (if flag && beq b LF then t else b :: t) = ok_from flag (b :: t)).
  { destruct flag; cbn [andb].
    - destruct (beq b LF) eqn:Eb.
      + rewrite scan_is_rule. cbn [ok_from]. rewrite Eb. cbn [negb andb].
        assert (Ec : beq b CR = false) by (apply beq_true in Eb; subst b; reflexivity).
        rewrite Ec. reflexivity.
      + rewrite scan_is_rule. rewrite (ok_from_not_lf false b t Eb), (ok_from_not_lf true b t Eb). reflexivity.
    - apply scan_is_rule. }
  rewrite E. reflexivity.
Qed.

Lemma ok_from_app f a b : ok_from f (a ++ b) = ok_from f a && ok_from (flag_after f a) b.
Proof.
  revert f. induction a as [|x a IH]; intros f; [reflexivity|].
  cbn [app ok_from flag_after]. destruct (beq x LF && negb f); [reflexivity|]. apply IH.
Qed.

Lemma flag_after_app f a b : flag_after f (a ++ b) = flag_after (flag_after f a) b.
Proof. revert f. induction a as [|x a IH]; intros f; [reflexivity|]. cbn [app flag_after]. apply IH. Qed.

(* a run over any cutting is the rule over the uncut stream: same verdict, same flag *)
Theorem crlf_run_is_rule chunks : forall flag,
  crlf_run flag chunks = if ok_from flag (concat chunks) then Some (flag_after flag (concat chunks)) else None.
Proof.
  induction chunks as [|c cs IH]; intros flag; [reflexivity|].
  cbn [crlf_run concat]. rewrite crlf_read_is_rule, ok_from_app, flag_after_app.
  destruct (ok_from flag c); cbn [andb]; [apply IH | reflexivity].
Qed.

Theorem crlf_run_cutting_independent flag chunks1 chunks2 :
  concat chunks1 = concat chunks2 -> crlf_run flag chunks1 = crlf_run flag chunks2.
Proof. intros E. rewrite !crlf_run_is_rule, E. reflexivity. Qed.

(* what is accepted: exactly the streams in which every LF follows a CR *)
Theorem crlf_accepts_iff chunks :
  crlf_run false chunks <> None <-> ok_from false (concat chunks) = true.
Proof. rewrite crlf_run_is_rule. destruct (ok_from false (concat chunks)); split; congruence. Qed.

(* the reader that lets the flag go stale is cut-dependent: "a CR LF b LF" is refused in one read and accepted when the
   second read is "LF b" and the third "LF" *)
Theorem stale_reader_is_cut_dependent :
  exists chunks1 chunks2, concat chunks1 = concat chunks2 /\ stale_run false chunks1 <> stale_run false chunks2.
Proof.
  exists [[x61; CR; LF; x62; LF]], [[x61; CR]; [LF; x62]; [LF]].
  split; [reflexivity | vm_compute; discriminate].
Qed.
