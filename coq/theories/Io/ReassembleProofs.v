(* Io/ReassembleProofs.v -- read_from_buf returns the parser's value on the whole stream,
   however the stream is cut into pieces. *)
From Coq Require Import Lia ZifyBool ZifyN ZifyNat.
From Rpgp Require Import Base.Octets Base.OctetsMore Base.Res Io.Reassemble.

Section Proofs.

Variable T : Type.
Variable P : bytes -> pres T.
Variable limit : N.

(* the parser's contract *)
Hypothesis Hused : forall x n t, P x = PDone n t -> n <= lenN x.
Hypothesis Hdone : forall x y n t, P x = PDone n t -> exists n', P (x ++ y) = PDone n' t.
Hypothesis Hbad : forall x y, P x = PBad -> P (x ++ y) = PBad.
(* it never decides inside octets it had already seen without deciding *)
Hypothesis Hfresh : forall x y n t, P x = PMore -> P (x ++ y) = PDone n t -> lenN x <= n.

Lemma loop_value : forall cs back,
  P back = PMore -> Forall (fun c => c <> []) cs -> lenN (back ++ concat cs) < limit ->
  r_value T (rfb_loop T P limit back cs) = p_value T (P (back ++ concat cs)).
Proof.
  induction cs as [|b cs IH]; intros back Hm Hne Hl.
  - cbn [rfb_loop concat]. rewrite app_nil_r, Hm. destruct (limit <=? lenN back); reflexivity.
  - cbn [rfb_loop concat]. cbn [concat] in Hl. rewrite !lenN_app in Hl.
    destruct (N.leb_spec limit (lenN back)) as [Hx|_]; [lia|].
    inversion Hne as [|b' cs' Hb Hcs]; subst.
    destruct b as [|b0 bs]; [congruence|]. cbn [r_is_nil].
    rewrite app_assoc.
    destruct (P (back ++ b0 :: bs)) as [n t| |] eqn:Hp.
    + pose proof (Hfresh _ _ _ _ Hm Hp) as Hf. pose proof (Hused _ _ _ Hp) as Hu.
      rewrite lenN_app in Hu.
      destruct (N.ltb_spec (lenN (b0 :: bs)) (lenN (back ++ b0 :: bs) - n)) as [Hx|_].
      { rewrite lenN_app in Hx. lia. }
      destruct (Hdone _ (concat cs) _ _ Hp) as [n' Hn']. rewrite Hn'. reflexivity.
    + rewrite IH; [reflexivity|exact Hp|exact Hcs|]. rewrite !lenN_app. lia.
    + rewrite (Hbad _ (concat cs) Hp). reflexivity.
Qed.

(* the value: the parser's on the whole stream, for every cutting *)
Theorem rfb_value : forall cs,
  cs <> [] -> Forall (fun c => c <> []) cs -> lenN (concat cs) < limit ->
  r_value T (rfb T P limit cs) = p_value T (P (concat cs)).
Proof.
  intros [|c cs] Hn Hne Hl; [congruence|]. cbn [rfb concat]. cbn [concat] in Hl.
  inversion Hne as [|c' cs' Hc Hcs]; subst.
  destruct c as [|c0 c1]; [congruence|]. cbn [r_is_nil].
  destruct (P (c0 :: c1)) as [n t| |] eqn:Hp.
  - destruct (Hdone _ (concat cs) _ _ Hp) as [n' Hn']. rewrite Hn'. reflexivity.
  - apply loop_value; assumption.
  - rewrite (Hbad _ (concat cs) Hp). reflexivity.
Qed.

Corollary rfb_cutting_independent : forall cs1 cs2,
  concat cs1 = concat cs2 -> cs1 <> [] -> cs2 <> [] ->
  Forall (fun c => c <> []) cs1 -> Forall (fun c => c <> []) cs2 -> lenN (concat cs1) < limit ->
  r_value T (rfb T P limit cs1) = r_value T (rfb T P limit cs2).
Proof.
  intros cs1 cs2 He H1 H2 F1 F2 Hl. rewrite !rfb_value; try assumption; [rewrite He; reflexivity|].
  rewrite <- He. exact Hl.
Qed.

(* when the parser also uses the same octets whatever follows, the source is left exactly
   behind what the parser used *)
Hypothesis Hsame : forall x y n t, P x = PDone n t -> P (x ++ y) = PDone n t.

Lemma loop_rest : forall cs back,
  P back = PMore -> Forall (fun c => c <> []) cs -> lenN (back ++ concat cs) < limit ->
  r_rest T (rfb_loop T P limit back cs) = p_rest T (back ++ concat cs) (P (back ++ concat cs)).
Proof.
  induction cs as [|b cs IH]; intros back Hm Hne Hl.
  - cbn [rfb_loop concat]. rewrite app_nil_r, Hm. destruct (limit <=? lenN back); reflexivity.
  - cbn [rfb_loop concat]. cbn [concat] in Hl. rewrite !lenN_app in Hl.
    destruct (N.leb_spec limit (lenN back)) as [Hx|_]; [lia|].
    inversion Hne as [|b' cs' Hb Hcs]; subst.
    destruct b as [|b0 bs]; [congruence|]. cbn [r_is_nil].
    rewrite app_assoc.
    destruct (P (back ++ b0 :: bs)) as [n t| |] eqn:Hp.
    + pose proof (Hfresh _ _ _ _ Hm Hp) as Hf. pose proof (Hused _ _ _ Hp) as Hu.
      rewrite lenN_app in Hu.
      destruct (N.ltb_spec (lenN (b0 :: bs)) (lenN (back ++ b0 :: bs) - n)) as [Hx|_].
      { rewrite lenN_app in Hx. lia. }
      rewrite (Hsame _ (concat cs) _ _ Hp). cbn [r_rest p_rest concat].
      f_equal. rewrite lenN_app.
      replace (lenN (b0 :: bs) - (lenN back + lenN (b0 :: bs) - n)) with (n - lenN back) by lia.
      rewrite <- app_assoc.
      rewrite (dropN_app_ge n back) by lia.
      rewrite dropN_app_le by lia. reflexivity.
    + rewrite IH; [reflexivity|exact Hp|exact Hcs|]. rewrite !lenN_app. lia.
    + rewrite (Hbad _ (concat cs) Hp). reflexivity.
Qed.

Theorem rfb_rest : forall cs,
  cs <> [] -> Forall (fun c => c <> []) cs -> lenN (concat cs) < limit ->
  r_rest T (rfb T P limit cs) = p_rest T (concat cs) (P (concat cs)).
Proof.
  intros [|c cs] Hn Hne Hl; [congruence|]. cbn [rfb concat]. cbn [concat] in Hl.
  inversion Hne as [|c' cs' Hc Hcs]; subst.
  destruct c as [|c0 c1]; [congruence|]. cbn [r_is_nil].
  destruct (P (c0 :: c1)) as [n t| |] eqn:Hp.
  - rewrite (Hsame _ (concat cs) _ _ Hp). cbn [r_rest p_rest concat]. f_equal.
    rewrite dropN_app_le by (apply Hused in Hp; lia). reflexivity.
  - apply loop_rest; assumption.
  - rewrite (Hbad _ (concat cs) Hp). reflexivity.
Qed.

End Proofs.


(* ---- cost: whatever the source sends, no call of the parser is given [limit + piece] octets or more, and
   there is at most one call per piece ---- *)
Section Cost.
Variable T : Type.
Variable P : bytes -> pres T.
Variable limit : N.
Variable maxpiece : N.

Lemma loop_calls_bounded : forall cs back,
  Forall (fun c => lenN c <= maxpiece) cs ->
  Forall (fun n => n < limit + maxpiece) (rfb_loop_calls T P limit back cs) /\
  (length (rfb_loop_calls T P limit back cs) <= length cs)%nat.
Proof.
  induction cs as [|b cs IH]; intros back Hp; cbn [rfb_loop_calls].
  - destruct (limit <=? lenN back); split; constructor.
  - destruct (N.leb_spec limit (lenN back)) as [_|Hb]; [split; [constructor|cbn; lia]|].
    inversion Hp as [|b' cs' Hb1 Hcs]; subst.
    destruct (r_is_nil b); [split; [constructor|cbn; lia]|].
    destruct (IH (back ++ b) Hcs) as [IH1 IH2].
    split.
    + constructor; [rewrite lenN_app; lia|]. destruct (P (back ++ b)); [constructor|exact IH1|constructor].
    + cbn [length]. destruct (P (back ++ b)); cbn [length]; lia.
Qed.

Theorem rfb_calls_bounded : forall cs,
  Forall (fun c => lenN c <= maxpiece) cs ->
  Forall (fun n => n < limit + maxpiece \/ n <= maxpiece) (rfb_calls T P limit cs) /\
  (length (rfb_calls T P limit cs) <= length cs)%nat.
Proof.
  intros [|c cs] Hp; cbn [rfb_calls]; [split; constructor|].
  inversion Hp as [|c' cs' Hc Hcs]; subst.
  destruct (r_is_nil c); [split; [constructor|cbn; lia]|].
  destruct (loop_calls_bounded cs c Hcs) as [L1 L2].
  split.
  - constructor; [right; exact Hc|]. destruct (P c); [constructor| |constructor].
    eapply Forall_impl; [|exact L1]. intros n Hn. left. exact Hn.
  - cbn [length]. destruct (P c); cbn [length]; lia.
Qed.
End Cost.

(* ---- the one-line parser of the correspondence check meets the contract ---- *)
Lemma find_lf_lt x k : find_lf x = Some k -> k < lenN x.
Proof.
  revert k; induction x as [|b r IH]; intros k H; cbn [find_lf] in H; [discriminate|].
  rewrite lenN_cons. destruct (b2n b =? 10).
  - injection H as <-. lia.
  - destruct (find_lf r) as [j|]; cbn [option_map] in H; [|discriminate]. injection H as <-.
    specialize (IH j eq_refl). lia.
Qed.

Lemma find_lf_app_some x y k : find_lf x = Some k -> find_lf (x ++ y) = Some k.
Proof.
  revert k; induction x as [|b r IH]; intros k H; cbn [find_lf app] in *; [discriminate|].
  destruct (b2n b =? 10); [exact H|].
  destruct (find_lf r) as [j|]; cbn [option_map] in H; [|discriminate].
  rewrite (IH j eq_refl). exact H.
Qed.

Lemma find_lf_app_none x y k : find_lf x = None -> find_lf (x ++ y) = Some k -> lenN x <= k.
Proof.
  revert k; induction x as [|b r IH]; intros k H H2; cbn [find_lf app] in *; [rewrite lenN_nil; lia|].
  rewrite lenN_cons. destruct (b2n b =? 10); [discriminate|].
  destruct (find_lf r) as [j|]; cbn [option_map] in H; [discriminate|].
  destruct (find_lf (r ++ y)) as [j|]; cbn [option_map] in H2; [|discriminate]. injection H2 as <-.
  specialize (IH j eq_refl eq_refl). lia.
Qed.

Lemma starts_bang_app x y : x <> [] -> starts_bang (x ++ y) = starts_bang x.
Proof. destruct x; [congruence|reflexivity]. Qed.

Definition lp := line_parser 0.

Lemma lp_used : forall x n t, lp x = PDone n t -> n <= lenN x.
Proof.
  intros x n t H. unfold lp, line_parser in H. destruct (starts_bang x); [discriminate|].
  destruct (find_lf x) as [k|] eqn:Hk; [|discriminate].
  destruct (lenN x <? k + 1 + 0); [discriminate|].
  injection H as <- <-. apply find_lf_lt in Hk. lia.
Qed.

Lemma lp_same : forall x y n t, lp x = PDone n t -> lp (x ++ y) = PDone n t.
Proof.
  intros x y n t H. unfold lp, line_parser in *.
  destruct x as [|x0 xs]; [discriminate|]. rewrite starts_bang_app by discriminate.
  destruct (starts_bang (x0 :: xs)); [discriminate|].
  destruct (find_lf (x0 :: xs)) as [k|] eqn:Hk; [|discriminate].
  rewrite (find_lf_app_some _ y _ Hk). pose proof (find_lf_lt _ _ Hk) as Hlt.
  destruct (N.ltb_spec (lenN (x0 :: xs)) (k + 1 + 0)) as [Hx|_]; [lia|].
  destruct (N.ltb_spec (lenN ((x0 :: xs) ++ y)) (k + 1 + 0)) as [Hx|_]; [rewrite lenN_app in Hx; lia|].
  injection H as <- <-.
  rewrite takeN_app_le by lia. reflexivity.
Qed.

Lemma lp_bad : forall x y, lp x = PBad -> lp (x ++ y) = PBad.
Proof.
  intros x y H. unfold lp, line_parser in *.
  destruct x as [|x0 xs]; [discriminate|]. rewrite starts_bang_app by discriminate.
  destruct (starts_bang (x0 :: xs)); [reflexivity|].
  destruct (find_lf (x0 :: xs)) as [k|]; [|discriminate].
  destruct (lenN (x0 :: xs) <? k + 1 + 0); discriminate.
Qed.

Lemma lp_fresh : forall x y n t, lp x = PMore -> lp (x ++ y) = PDone n t -> lenN x <= n.
Proof.
  intros x y n t H H'. unfold lp, line_parser in *.
  destruct (starts_bang (x ++ y)); [discriminate|].
  destruct (starts_bang x); [discriminate|].
  destruct (find_lf x) as [j|] eqn:Hx.
  - pose proof (find_lf_lt _ _ Hx). destruct (N.ltb_spec (lenN x) (j + 1 + 0)); [lia|discriminate].
  - destruct (find_lf (x ++ y)) as [k|] eqn:Hk; [|discriminate].
    destruct (lenN (x ++ y) <? k + 1 + 0); [discriminate|]. injection H' as <- <-.
    pose proof (find_lf_app_none _ _ _ Hx Hk). lia.
Qed.

Theorem line_parser_cutting_independent : forall limit cs1 cs2,
  concat cs1 = concat cs2 -> cs1 <> [] -> cs2 <> [] ->
  Forall (fun c => c <> []) cs1 -> Forall (fun c => c <> []) cs2 -> lenN (concat cs1) < limit ->
  rfb bytes lp limit cs1 = RErr /\ rfb bytes lp limit cs2 = RErr \/
  exists t r1 r2, rfb bytes lp limit cs1 = RVal t r1 /\ rfb bytes lp limit cs2 = RVal t r2 /\ concat r1 = concat r2.
Proof.
  intros limit cs1 cs2 He H1 H2 F1 F2 Hl.
  assert (Hdone : forall x y n t, lp x = PDone n t -> exists n', lp (x ++ y) = PDone n' t).
  { intros x y n t H. exists n. apply lp_same, H. }
  pose proof (rfb_value bytes lp limit lp_used Hdone lp_bad lp_fresh cs1 H1 F1 Hl) as V1.
  pose proof (rfb_rest bytes lp limit lp_used Hdone lp_bad lp_fresh lp_same cs1 H1 F1 Hl) as R1.
  assert (Hl2 : lenN (concat cs2) < limit) by (rewrite <- He; exact Hl).
  pose proof (rfb_value bytes lp limit lp_used Hdone lp_bad lp_fresh cs2 H2 F2 Hl2) as V2.
  pose proof (rfb_rest bytes lp limit lp_used Hdone lp_bad lp_fresh lp_same cs2 H2 F2 Hl2) as R2.
  rewrite <- He in V2, R2.
  destruct (rfb bytes lp limit cs1) as [t1 r1|], (rfb bytes lp limit cs2) as [t2 r2|];
    cbn [r_value r_rest] in *.
  - right. exists t1, r1, r2. rewrite <- V2 in V1. injection V1 as ->. rewrite <- R2 in R1. injection R1 as R1. auto.
  - rewrite <- V2 in V1. discriminate.
  - rewrite <- V1 in V2. discriminate.
  - left; auto.
Qed.

(* the contract is needed: a parser that decides two octets late is cut-dependent
   (with one octet it still is "fresh") *)
Lemma late_parser_is_cut_dependent :
  rfb bytes (line_parser 2) 100 [[x61; LF; x62; x63]] = RVal [x61] [[x62; x63]] /\
  rfb bytes (line_parser 2) 100 [[x61; LF; x62]; [x63]] = RErr /\
  rfb bytes (line_parser 1) 100 [[x61; LF]; [x62]; [x63]] = RVal [x61] [[x62]; [x63]].
Proof. repeat split; reflexivity. Qed.

Example line_parser_ex :
  rfb bytes lp 100 [[x61]; [x62; LF; x63]; [x64]] = RVal [x61; x62] [[x63]; [x64]] /\
  rfb bytes lp 100 [[x61; x62; LF; x63; x64]] = RVal [x61; x62] [[x63; x64]] /\
  rfb bytes lp 100 [[x21; x62]; [LF]] = RErr.
Proof. repeat split; reflexivity. Qed.
