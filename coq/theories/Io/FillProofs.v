From Coq Require Import List NArith ZArith Lia Bool.
From Rpgp Require Import Base.Octets Base.Res Io.Fill.
Import ListNotations.
Open Scope N_scope.

Lemma takeN_app_ge {A} n (a b : list A) : lenN a <= n -> takeN n (a ++ b) = a ++ takeN (n - lenN a) b.
Proof.
  intros H. rewrite !takeN_firstn, firstn_app.
  rewrite (firstn_all2 a) by (unfold lenN in H; lia).
  f_equal. f_equal. unfold lenN in *. lia.
Qed.

Lemma dropN_app_ge {A} n (a b : list A) : lenN a <= n -> dropN n (a ++ b) = dropN (n - lenN a) b.
Proof.
  intros H. rewrite !dropN_skipn, skipn_app.
  rewrite (skipn_all2 a) by (unfold lenN in H; lia). cbn [app].
  f_equal. unfold lenN in *. lia.
Qed.

Lemma takeN_app_lt {A} n (a b : list A) : n <= lenN a -> takeN n (a ++ b) = takeN n a.
Proof.
  intros H. rewrite !takeN_firstn, firstn_app.
  replace (N.to_nat n - length a)%nat with 0%nat by (unfold lenN in H; lia).
  cbn [firstn]. apply app_nil_r.
Qed.

Lemma dropN_app_lt {A} n (a b : list A) : n <= lenN a -> dropN n (a ++ b) = dropN n a ++ b.
Proof.
  intros H. rewrite !dropN_skipn, skipn_app.
  replace (N.to_nat n - length a)%nat with 0%nat by (unfold lenN in H; lia). reflexivity.
Qed.

(* no empty chunk in the middle: a source that has not ended does not return 0 octets *)
Fixpoint proper (evs : list event) : bool :=
  match evs with
  | [] => true
  | Chunk c :: r => negb (lenN c =? 0) && proper r
  | Fault :: r => proper r
  end.

(* source transparency: whatever the short reads, fill returns the first [need] octets of the
   data (all of it if there is less), and leaves a source that still holds exactly the rest *)
Theorem fill_transparent : forall evs need acc, faultless evs = true -> proper evs = true ->
  let '(r, rest) := fill evs need acc in
  r = Ok (acc ++ takeN need (data_of evs)) /\ data_of rest = dropN need (data_of evs)
  /\ faultless rest = true /\ proper rest = true.
Proof.
  induction evs as [|e evs IH]; intros need acc F P; cbn [fill].
  - cbn [data_of]. rewrite takeN_all, dropN_all by (rewrite lenN_nil; lia). rewrite app_nil_r. auto.
  - destruct e as [c|]; [|discriminate]. cbn [faultless proper data_of] in *.
    apply andb_true_iff in P. destruct P as [Pc P]. apply negb_true_iff in Pc. rewrite Pc.
    apply N.eqb_neq in Pc.
    destruct (need =? 0) eqn:E0.
    + apply N.eqb_eq in E0. subst need. rewrite takeN_0, dropN_0, app_nil_r. cbn [data_of faultless proper].
      repeat split; auto. apply andb_true_iff. split; [apply negb_true_iff, N.eqb_neq; exact Pc|exact P].
    + destruct (lenN c <=? need) eqn:EL.
      * apply N.leb_le in EL. specialize (IH (need - lenN c) (acc ++ c) F P).
        destruct (fill evs (need - lenN c) (acc ++ c)) as [r rest]. destruct IH as [I1 [I2 [I3 I4]]].
        repeat split; auto.
        -- rewrite I1, <- app_assoc, (takeN_app_ge need c) by exact EL. reflexivity.
        -- rewrite I2, (dropN_app_ge need c) by exact EL. reflexivity.
      * apply N.leb_gt in EL. cbn [data_of faultless proper].
        assert (T : takeN need (c ++ data_of evs) = takeN need c) by (apply takeN_app_lt; lia).
        assert (D : dropN need (c ++ data_of evs) = dropN need c ++ data_of evs) by (apply dropN_app_lt; lia).
        rewrite T, D. repeat split; auto.
        apply andb_true_iff. split; [|exact P]. apply negb_true_iff, N.eqb_neq. rewrite lenN_dropN. lia.
Qed.

(* fault transparency: if the source faults before [need] octets were delivered, fill reports an
   error; it never turns the fault into a shorter clean result *)
Theorem fill_surfaces_fault : forall evs need acc, proper evs = true -> faultless evs = false ->
  lenN (before_fault evs) < need -> fst (fill evs need acc) = Err.
Proof.
  induction evs as [|e evs IH]; intros need acc P F L; cbn [fill faultless before_fault proper] in *; [discriminate|].
  destruct e as [c|].
  - apply andb_true_iff in P. destruct P as [Pc P]. apply negb_true_iff in Pc. rewrite Pc.
    rewrite lenN_app in L.
    destruct (need =? 0) eqn:E0; [apply N.eqb_eq in E0; lia|].
    destruct (lenN c <=? need) eqn:EL; [|apply N.leb_gt in EL; lia].
    apply IH; auto. lia.
  - destruct (need =? 0) eqn:E0; [apply N.eqb_eq in E0; cbn in L; lia|reflexivity].
Qed.

(* consumer transparency: whatever the request sizes, the answers concatenate to a prefix of the
   produced stream, of length min(sum of requests, length) *)
Fixpoint sumN (l : list N) : N := match l with [] => 0 | x :: r => x + sumN r end.

Theorem serve_transparent : forall reqs out, concat (serve out reqs) = takeN (sumN reqs) out.
Proof.
  induction reqs as [|q r IH]; intros out; cbn [serve concat sumN]; [rewrite takeN_0; reflexivity|].
  rewrite IH.
  rewrite <- (takeN_dropN q out) at 3.
  destruct (N.le_gt_cases q (lenN out)) as [H|H].
  - rewrite (takeN_app_ge (q + sumN r) (takeN q out)) by (rewrite lenN_takeN; lia).
    rewrite lenN_takeN. replace (q + sumN r - N.min q (lenN out)) with (sumN r) by lia. reflexivity.
  - rewrite (takeN_all q out), (dropN_all q out) by lia.
    rewrite takeN_all by (rewrite lenN_nil; lia). rewrite !app_nil_r.
    rewrite takeN_all by lia. reflexivity.
Qed.

(* a block transformer pumped through fill computes the same thing as cutting the whole input
   into blocks: no dependence on the read schedule *)
Theorem pump_schedule_independent b g : 1 <= b -> forall fuel evs,
  faultless evs = true -> proper evs = true ->
  pump fuel b g evs = Ok (concat (map g (blocks fuel b (data_of evs)))).
Proof.
  intros Hb. induction fuel as [|f IH]; intros evs F P; cbn [pump blocks map concat]; [reflexivity|].
  pose proof (fill_transparent evs b [] F P) as T.
  destruct (fill evs b []) as [r rest]. destruct T as [T1 [T2 [T3 T4]]]. subst r. cbn [app].
  rewrite lenN_takeN.
  destruct (lenN (data_of evs) =? 0) eqn:E.
  - apply N.eqb_eq in E. replace (N.min b (lenN (data_of evs)) =? 0) with true by (symmetry; apply N.eqb_eq; lia).
    reflexivity.
  - apply N.eqb_neq in E. replace (N.min b (lenN (data_of evs)) =? 0) with false by (symmetry; apply N.eqb_neq; lia).
    rewrite (IH rest T3 T4), T2. cbn [map concat]. reflexivity.
Qed.

Corollary pump_same_for_all_schedules b g fuel evs1 evs2 : 1 <= b ->
  faultless evs1 = true -> proper evs1 = true -> faultless evs2 = true -> proper evs2 = true ->
  data_of evs1 = data_of evs2 -> pump fuel b g evs1 = pump fuel b g evs2.
Proof.
  intros Hb F1 P1 F2 P2 E. rewrite !pump_schedule_independent by assumption. rewrite E. reflexivity.
Qed.
