(* Io/CrLfCheck.v -- packet::literal_data::CrLfCheckReader (C09, C14): the reader the message builder puts over the source of
   a utf8-mode literal.  It passes every read() of its source through unchanged and refuses the read in which a line feed
   without a carriage return before it shows.  One flag is carried from read to read: "the last octet shown was a CR".

   Mirrors src/packet/literal_data.rs: `impl io::Read for CrLfCheckReader` --
     len == 0                          -> Ok(0), flag untouched
     pos := 1 if flag and buf[0] = LF, else 0
     while pos < len - 1: buf[pos] = LF -> error; CR followed by LF -> pos += 2; else pos += 1
     pos < len and buf[pos] = LF       -> error
     flag := buf[len-1] = CR

   CrLfCheckProofs.v: one read is the octet-by-octet rule "no LF unless the octet before it (in this read or the one before)
   was a CR", and so a run over any cutting of a stream gives the verdict and the flag that the uncut stream gives. *)
From Rpgp Require Import Base.Octets.

(* the loop and the check of the last octet, from position `pos` on (the list is buf[pos..len]) *)
Fixpoint scan (l : bytes) : bool :=
  match l with
  | [] => true
  | b :: t =>
      if beq b LF then false
      else if beq b CR then
        match t with
        | c :: t' => if beq c LF then scan t' else scan t
        | [] => true
        end
      else scan t
  end.

(* one read() showing `chunk`; None = the read is refused *)
Definition crlf_read (flag : bool) (chunk : bytes) : option bool :=
  match chunk with
  | [] => Some flag
  | b :: t =>
      if scan (if flag && beq b LF then t else chunk)
      then Some (beq (last chunk b) CR) else None
  end.

(* a run of reads; the first refusal ends it *)
Fixpoint crlf_run (flag : bool) (chunks : list bytes) : option bool :=
  match chunks with
  | [] => Some flag
  | c :: cs => match crlf_read flag c with Some f => crlf_run f cs | None => None end
  end.

(* the rule, octet by octet *)
Fixpoint ok_from (prev_cr : bool) (l : bytes) : bool :=
  match l with
  | [] => true
  | b :: t => if beq b LF && negb prev_cr then false else ok_from (beq b CR) t
  end.

Fixpoint flag_after (prev_cr : bool) (l : bytes) : bool :=
  match l with
  | [] => prev_cr
  | b :: t => flag_after (beq b CR) t
  end.

(* a reader that forgets to clear the flag after a read that does not end in CR: not the code; used to show that the
   theorem tells the two apart *)
Definition stale_read (flag : bool) (chunk : bytes) : option bool :=
  match chunk with
  | [] => Some flag
  | b :: t =>
      if scan (if flag && beq b LF then t else chunk)
      then Some (flag || beq (last chunk b) CR) else None
  end.
Fixpoint stale_run (flag : bool) (chunks : list bytes) : option bool :=
  match chunks with
  | [] => Some flag
  | c :: cs => match stale_read flag c with Some f => stale_run f cs | None => None end
  end.
