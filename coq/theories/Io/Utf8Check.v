(* Io/Utf8Check.v -- packet::literal_data::Utf8CheckReader (C09): the reader under the line-ending check of a utf8-mode
   literal.  It passes every read() of its source through unchanged, checks the octets for UTF-8 well-formedness and carries
   from read to read the (at most three) octets that did not yet make up a character.

   Mirrors src/packet/literal_data.rs: `impl io::Read for Utf8CheckReader` --
     len == 0: overhang held -> error, else Ok(0)
     check := overhang ++ buf[..len];  rest := check[valid_up_to(check)..]
     |rest| = 0 -> no overhang;  1..3 -> overhang := rest;  4.. -> error
   `valid_up_to` is core::str::from_utf8's: the length of the longest prefix that is a sequence of well-formed characters
   (Unicode table 3-7: no overlong forms, no surrogates, nothing above U+10FFFF) -- written out here as `char_len`.

   Utf8CheckProofs.v: a run over any cutting of a stream into non-empty reads, followed by the end of input, is accepted
   exactly when the uncut stream is well-formed. *)
From Rpgp Require Import Base.Octets.

Definition cont (b : byte) : bool := (128 <=? b2n b) && (b2n b <=? 191).
Definition between (lo hi : N) (b : byte) : bool := (lo <=? b2n b) && (b2n b <=? hi).

(* the length of the well-formed character the octets begin with *)
Definition char_len (l : bytes) : option nat :=
  match l with
  | [] => None
  | b0 :: t =>
      if b2n b0 <? 128 then Some 1%nat
      else if between 194 223 b0 then
        match t with b1 :: _ => if cont b1 then Some 2%nat else None | _ => None end
      else if between 224 239 b0 then
        match t with
        | b1 :: b2 :: _ =>
            if (if b2n b0 =? 224 then between 160 191 b1 else if b2n b0 =? 237 then between 128 159 b1 else cont b1) && cont b2
            then Some 3%nat else None
        | _ => None
        end
      else if between 240 244 b0 then
        match t with
        | b1 :: b2 :: b3 :: _ =>
            if (if b2n b0 =? 240 then between 144 191 b1 else if b2n b0 =? 244 then between 128 143 b1 else cont b1) && cont b2 && cont b3
            then Some 4%nat else None
        | _ => None
        end
      else None
  end.

(* valid_up_to, on fuel (the length of the input is enough) *)
Fixpoint vut (fuel : nat) (l : bytes) : nat :=
  match fuel with
  | O => O
  | S f => match char_len l with Some k => (k + vut f (skipn k l))%nat | None => O end
  end.
Definition valid_up_to (l : bytes) : nat := vut (length l) l.
Definition well_formed (l : bytes) : bool := Nat.eqb (valid_up_to l) (length l).

(* one read() showing a non-empty `chunk`; None = refused *)
Definition utf8_read (rest chunk : bytes) : option bytes :=
  let check := rest ++ chunk in
  let r := skipn (valid_up_to check) check in
  if Nat.leb (length r) 3 then Some r else None.

(* reads, then the end of input *)
Fixpoint utf8_run (rest : bytes) (chunks : list bytes) : bool :=
  match chunks with
  | [] => match rest with [] => true | _ => false end
  | c :: cs => match utf8_read rest c with Some r => utf8_run r cs | None => false end
  end.
