(* Io/Reassemble.v -- armor::reader::read_from_buf as the loop the code is (C09, C10): an
   incremental parser run over whatever pieces `BufRead::fill_buf` shows.  First the piece
   in the buffer is parsed in place; when the parser asks for more, the piece is copied to
   a back buffer and consumed, and every further piece is appended and the whole back
   buffer parsed again, until the parser decides, the source ends, or the back buffer
   reaches the limit.  On success only the part of the last piece the parser used is
   consumed ("inconsistent state" when the parser used less than the back buffer held
   before the last piece).

   Mirrors src/armor/reader.rs: read_from_buf (used for the armor header, the armor
   footer and the cleartext header).  The source is the list of non-empty pieces fill_buf
   shows when everything shown is consumed; an empty piece is the end of the source.

   ReassembleProofs.v: for a parser whose decisions are stable under more input and that
   never decides inside octets it had already seen undecided, the value returned is the
   parser's value on the whole stream for every way of cutting the stream into pieces. *)
From Rpgp Require Import Base.Octets Base.Res.

Section Reassemble.

Variable T : Type.

Inductive pres := PDone (n : N) (t : T) | PMore | PBad.   (* n: octets used *)

Variable P : bytes -> pres.
Variable limit : N.

Inductive rres := RVal (t : T) (rest : list bytes) | RErr.

Definition r_is_nil {A} (l : list A) : bool := match l with [] => true | _ => false end.

Fixpoint rfb_loop (back : bytes) (cs : list bytes) : rres :=
  if limit <=? lenN back then RErr                      (* "input too large" *)
  else
    match cs with
    | [] => RErr                                        (* "not enough bytes in buffer" *)
    | b :: cs' =>
        if r_is_nil b then RErr
        else
          match P (back ++ b) with
          | PDone n t =>
              let remaining := lenN (back ++ b) - n in
              if lenN b <? remaining then RErr          (* "inconsistent state" *)
              else RVal t (dropN (lenN b - remaining) b :: cs')
          | PMore => rfb_loop (back ++ b) cs'
          | PBad => RErr
          end
    end.

Definition rfb (cs : list bytes) : rres :=
  match cs with
  | [] => RErr
  | c :: cs' =>
      if r_is_nil c then RErr
      else
        match P c with
        | PDone n t => RVal t (dropN n c :: cs')
        | PMore => rfb_loop c cs'
        | PBad => RErr
        end
  end.

(* the same loop, recording how many octets every call of the parser is given (C19: the work and
   the memory of the reassembly are bounded by the limit, not by what the source is willing to send) *)
Fixpoint rfb_loop_calls (back : bytes) (cs : list bytes) : list N :=
  if limit <=? lenN back then []
  else
    match cs with
    | [] => []
    | b :: cs' =>
        if r_is_nil b then []
        else lenN (back ++ b) ::
             match P (back ++ b) with
             | PMore => rfb_loop_calls (back ++ b) cs'
             | _ => []
             end
    end.

Definition rfb_calls (cs : list bytes) : list N :=
  match cs with
  | [] => []
  | c :: cs' =>
      if r_is_nil c then []
      else lenN c :: match P c with PMore => rfb_loop_calls c cs' | _ => [] end
  end.

Definition r_value (r : rres) : option T := match r with RVal t _ => Some t | RErr => None end.
Definition r_rest (r : rres) : option bytes := match r with RVal _ rest => Some (concat rest) | RErr => None end.
Definition p_value (p : pres) : option T := match p with PDone _ t => Some t | _ => None end.
Definition p_rest (s : bytes) (p : pres) : option bytes := match p with PDone n _ => Some (dropN n s) | _ => None end.

End Reassemble.

Arguments PDone {T}. Arguments PMore {T}. Arguments PBad {T}.
Arguments RVal {T}. Arguments RErr {T}.

(* ---- the parsers of the correspondence check (src/verif_hooks.rs armor_read_from_buf_line):
   "one line": the octets before the first LF, the LF used; refuses input that starts with '!'.
   It decides only once it has seen [ahead] octets behind the LF; with two or more it is
   not "fresh" and the inconsistent-state branch is reachable. *)
Fixpoint find_lf (l : bytes) : option N :=
  match l with
  | [] => None
  | b :: r => if b2n b =? 10 then Some 0 else option_map N.succ (find_lf r)
  end.

Definition starts_bang (x : bytes) : bool := match x with b :: _ => b2n b =? 33 | [] => false end.

Definition line_parser (ahead : N) (x : bytes) : pres bytes :=
  if starts_bang x then PBad
  else
    match find_lf x with
    | Some k => if lenN x <? k + 1 + ahead then PMore else PDone (k + 1) (takeN k x)
    | None => PMore
    end.

Definition rfb_line (ahead : N) (limit : N) (pieces : list bytes) : option bytes * bytes :=
  match rfb bytes (line_parser ahead) limit (filter (fun p => negb (r_is_nil p)) pieces) with
  | RVal t rest => (Some t, concat rest)
  | RErr => (None, [])
  end.
