(* Io/EmitterProofs.v -- whatever sizes the consumer asks for, it receives the concatenation of all stages. *)
From Coq Require Import ZifyBool ZifyN ZifyNat.
From Rpgp Require Import Base.Octets Base.OctetsMore Base.Res Io.Emitter.

Section EmitterProofs.

Variable R : Type.
Variable advance : R -> option (bytes * R).

Notation wholeE := (whole R advance).
Notation stagesE := (stages R advance).
Notation takeE := (e_take R advance).
Notation driveE := (e_drive R advance).

Lemma whole_fuel f1 : forall f2 r k, stagesE f1 r = Some k -> stagesE f2 r = Some k -> wholeE f1 r = wholeE f2 r.
Proof.
  induction f1 as [|f1 IH]; intros f2 r k H1 H2; [discriminate|].
  destruct f2 as [|f2]; [discriminate|]. cbn [whole stages] in *.
  destruct (advance r) as [[b r']|]; [|reflexivity].
  destruct (stagesE f1 r') as [k1|] eqn:E1; [|discriminate].
  destruct (stagesE f2 r') as [k2|] eqn:E2; [|discriminate].
  injection H1 as <-. injection H2 as H2. assert (k2 = k1) by lia. subst k2.
  rewrite (IH f2 r' k1 E1 E2). reflexivity.
Qed.

Lemma stages_more f1 : forall f2 r k, stagesE f1 r = Some k -> (f1 <= f2)%nat -> stagesE f2 r = Some k.
Proof.
  induction f1 as [|f1 IH]; intros f2 r k H Hle; [discriminate|].
  destruct f2 as [|f2]; [lia|]. cbn [stages] in *.
  destruct (advance r) as [[b r']|]; [|exact H].
  destruct (stagesE f1 r') as [k1|] eqn:E1; [|discriminate].
  rewrite (IH f2 r' k1 E1) by lia. exact H.
Qed.

Lemma stages_lt f r k : stagesE f r = Some k -> (k < f)%nat.
Proof.
  revert r k; induction f as [|f IH]; intros r k H; [discriminate|]. cbn [stages] in H.
  destruct (advance r) as [[b r']|]; [|injection H as <-; lia].
  destruct (stagesE f r') as [k1|] eqn:E1; [|discriminate]. injection H as <-. specialize (IH _ _ E1). lia.
Qed.

(* one read: either octets of the stream, or its end *)
Lemma take_spec sf : forall n p r k,
  1 <= n -> stagesE sf r = Some k ->
  exists p' r' o k', takeE sf n p r = Some (p', r', o) /\ stagesE sf r' = Some k' /\ (k' <= k)%nat /\
    p ++ wholeE sf r = o ++ p' ++ wholeE sf r' /\
    (o = [] -> p ++ wholeE sf r = []) /\
    (o <> [] -> (length p' + k' < length p + k)%nat \/ (k' < k)%nat \/ (k' = k /\ (length p' < length p)%nat)).
Proof.
  induction sf as [|sf IH]; intros n p r k Hn Hs; [discriminate|].
  destruct p as [|a p0] eqn:Ep.
  - cbn [e_take]. cbn [stages] in Hs.
    assert (HwS : wholeE (S sf) r = match advance r with None => [] | Some (b, r') => b ++ wholeE sf r' end) by reflexivity.
    rewrite HwS. clear HwS.
    destruct (advance r) as [[b r']|] eqn:Ea.
    + destruct (stagesE sf r') as [k1|] eqn:E1; [|discriminate]. injection Hs as <-.
      destruct (IH n b r' k1 Hn E1) as (p' & r2 & o & k' & Ht & Hs2 & Hle & Heq & He & Hm).
      exists p', r2, o, k'. split; [exact Ht|]. split; [exact (stages_more _ _ _ _ Hs2 (Nat.le_succ_diag_r sf))|].
      split; [lia|].
      assert (Hw2 : wholeE (S sf) r2 = wholeE sf r2).
      { symmetry. apply (whole_fuel sf (S sf) r2 k' Hs2). exact (stages_more _ _ _ _ Hs2 (Nat.le_succ_diag_r sf)). }
      rewrite Hw2. cbn [app]. split; [exact Heq|]. split; [exact He|].
      intros Ho. right. left. lia.
    + injection Hs as <-. exists [], r, [], 0%nat.
      assert (HwS : wholeE (S sf) r = []) by (cbn [whole]; rewrite Ea; reflexivity).
      assert (HsS : stagesE (S sf) r = Some 0%nat) by (cbn [stages]; rewrite Ea; reflexivity).
      rewrite HwS. repeat split; try reflexivity; try exact HsS; try lia.
      intros Hx. congruence.
  - rewrite <- Ep in *. assert (Hl : 1 <= lenN p) by (rewrite Ep, lenN_cons; lia).
    assert (Htk : takeE (S sf) n p r = Some (dropN (N.min (lenN p) n) p, r, takeN (N.min (lenN p) n) p)) by (rewrite Ep; reflexivity).
    set (kk := N.min (lenN p) n) in *. assert (Hkk : 1 <= kk) by (unfold kk; lia).
    exists (dropN kk p), r, (takeN kk p), k. split; [exact Htk|]. split; [exact Hs|]. split; [lia|].
    split; [rewrite app_assoc, takeN_dropN; reflexivity|].
    split.
    + intros Ho. exfalso. exact (takeN_pos_ne kk p Hkk Hl Ho).
    + intros _. right. right. split; [reflexivity|].
      pose proof (lenN_dropN kk p) as Hd. unfold lenN in *. lia.
Qed.

(* every sequence of requests: the whole stream, and a clean end *)
Theorem drive_whole sf req fuel : forall i p r k,
  stagesE sf r = Some k -> (length p + length (wholeE sf r) + k + 2 <= fuel)%nat ->
  driveE sf req fuel i p r = (p ++ wholeE sf r, EClean).
Proof.
  induction fuel as [|fuel IH]; intros i p r k Hs Hf; [lia|].
  cbn [e_drive].
  destruct (take_spec sf (N.max 1 (req i)) p r k ltac:(lia) Hs) as (p' & r' & o & k' & Ht & Hs' & Hle & Heq & He & Hm).
  rewrite Ht. destruct o as [|o0 ot].
  - rewrite (He eq_refl). reflexivity.
  - assert (Hlen : (length (p ++ wholeE sf r) = length (o0 :: ot) + length p' + length (wholeE sf r'))%nat).
    { rewrite Heq, !app_length. lia. }
    rewrite app_length in Hlen. cbn [length] in Hlen.
    rewrite (IH (N.succ i) p' r' k' Hs') by lia.
    rewrite Heq. reflexivity.
Qed.

End EmitterProofs.

(* ------------------------------------------------ sequential composition *)

Section SeqProofs.

Variables R1 R2 : Type.
Variable adv1 : R1 -> option (bytes * R1).
Variable adv2 : R2 -> option (bytes * R2).
Variable link : R1 -> R2.

Notation advS := (adv_seq R1 R2 adv1 adv2 link).

Lemma whole_in2 f : forall r, whole _ advS f (In2 R1 R2 r) = whole R2 adv2 f r.
Proof.
  induction f as [|f IH]; intros r; [reflexivity|]. cbn [whole adv_seq].
  destruct (adv2 r) as [[b r2]|]; [|reflexivity]. rewrite IH. reflexivity.
Qed.

Lemma stages_in2 f : forall r, stages _ advS f (In2 R1 R2 r) = stages R2 adv2 f r.
Proof.
  induction f as [|f IH]; intros r; [reflexivity|]. cbn [stages adv_seq].
  destruct (adv2 r) as [[b r2]|]; [|reflexivity]. rewrite IH. reflexivity.
Qed.

(* with enough fuel for both: first everything of the first producer, then everything of the second,
   started from where the first one ended *)
Theorem whole_seq f1 : forall r k1 f2 k2,
  stages R1 adv1 f1 r = Some k1 ->
  stages R2 adv2 f2 (link (final1 R1 adv1 f1 r)) = Some k2 ->
  whole _ advS (f1 + f2) (In1 R1 R2 r) =
    whole R1 adv1 f1 r ++ whole R2 adv2 f2 (link (final1 R1 adv1 f1 r)) /\
  stages _ advS (f1 + f2) (In1 R1 R2 r) = Some (k1 + k2)%nat.
Proof.
  induction f1 as [|f1 IH]; intros r k1 f2 k2 H1 H2; [discriminate|].
  cbn [stages] in H1. cbn [final1] in H2 |- *.
  destruct (adv1 r) as [[b r']|] eqn:Ea.
  - destruct (stages R1 adv1 f1 r') as [k1'|] eqn:E1; [|discriminate]. injection H1 as <-.
    destruct (IH r' k1' f2 k2 E1 H2) as (Hw & Hs).
    assert (Hw1 : whole _ advS (S f1 + f2) (In1 R1 R2 r) = b ++ whole _ advS (f1 + f2) (In1 R1 R2 r'))
      by (cbn [plus whole adv_seq]; rewrite Ea; reflexivity).
    assert (Hs1 : stages _ advS (S f1 + f2) (In1 R1 R2 r) =
                  match stages _ advS (f1 + f2) (In1 R1 R2 r') with Some k => Some (S k) | None => None end)
      by (cbn [plus stages adv_seq]; rewrite Ea; reflexivity).
    rewrite Hw1, Hs1, Hw, Hs. cbn [whole]. rewrite Ea, <- app_assoc. split; reflexivity.
  - injection H1 as <-.
    assert (Hw0 : whole R1 adv1 (S f1) r = []) by (cbn [whole]; rewrite Ea; reflexivity).
    rewrite Hw0. cbn [app plus].
    destruct f2 as [|f2]; [discriminate|]. cbn [stages] in H2.
    destruct (adv2 (link r)) as [[b r2]|] eqn:E2.
    + destruct (stages R2 adv2 f2 r2) as [k2'|] eqn:Es2; [|discriminate]. injection H2 as <-.
      assert (Hm : stages R2 adv2 (f1 + S f2) r2 = Some k2') by (apply (stages_more R2 adv2 f2); [exact Es2|lia]).
      assert (Hw1 : whole _ advS (S (f1 + S f2)) (In1 R1 R2 r) = b ++ whole _ advS (f1 + S f2) (In2 R1 R2 r2))
        by (cbn [whole adv_seq]; rewrite Ea, E2; reflexivity).
      assert (Hs1 : stages _ advS (S (f1 + S f2)) (In1 R1 R2 r) =
                    match stages _ advS (f1 + S f2) (In2 R1 R2 r2) with Some k => Some (S k) | None => None end)
        by (cbn [stages adv_seq]; rewrite Ea, E2; reflexivity).
      rewrite Hw1, Hs1, whole_in2, stages_in2, Hm.
      rewrite (whole_fuel R2 adv2 (f1 + S f2) f2 r2 k2' Hm Es2).
      cbn [whole]. rewrite E2. split; reflexivity.
    + injection H2 as <-.
      assert (Hw1 : whole _ advS (S (f1 + S f2)) (In1 R1 R2 r) = []) by (cbn [whole adv_seq]; rewrite Ea, E2; reflexivity).
      assert (Hs1 : stages _ advS (S (f1 + S f2)) (In1 R1 R2 r) = Some 0%nat) by (cbn [stages adv_seq]; rewrite Ea, E2; reflexivity).
      rewrite Hw1, Hs1. cbn [whole]. rewrite E2. split; reflexivity.
Qed.

End SeqProofs.

Lemma whole_list_gen l : forall f, (length l < f)%nat ->
  whole (list bytes) adv_list f l = concat l /\ stages (list bytes) adv_list f l = Some (length l).
Proof.
  induction l as [|x l IH]; intros f Hf; (destruct f as [|f]; [cbn in Hf; lia|]).
  - split; reflexivity.
  - cbn [length] in Hf. destruct (IH f ltac:(lia)) as (IHw & IHs).
    cbn [whole stages adv_list concat length]. rewrite IHw, IHs. split; reflexivity.
Qed.

Lemma whole_list l : whole (list bytes) adv_list (S (length l)) l = concat l /\ stages (list bytes) adv_list (S (length l)) l = Some (length l).
Proof. apply whole_list_gen. lia. Qed.
