(* Io/EmitterProofs.v -- whatever sizes the consumer asks for, it receives the concatenation of all stages. *)
From Coq Require Import ZifyBool ZifyN ZifyNat.
From Rpgp Require Import Base.Octets Base.OctetsMore Base.Res Io.Emitter.

Section EmitterProofs.

Variable R : Type.
Variable advance : R -> option (bytes * R).

Notation wholeE := (whole R advance).
Notation stagesE := (stages R advance).
Notation takeE := (e_take R advance).
Notation driveE := (e_drive R advance).

Lemma whole_fuel f1 : forall f2 r k, stagesE f1 r = Some k -> stagesE f2 r = Some k -> wholeE f1 r = wholeE f2 r.
Proof.
  induction f1 as [|f1 IH]; intros f2 r k H1 H2; [discriminate|].
  destruct f2 as [|f2]; [discriminate|]. cbn [whole stages] in *.
  destruct (advance r) as [[b r']|]; [|reflexivity].
  destruct (stagesE f1 r') as [k1|] eqn:E1; [|discriminate].
  destruct (stagesE f2 r') as [k2|] eqn:E2; [|discriminate].
  injection H1 as <-. injection H2 as H2. assert (k2 = k1) by lia. subst k2.
  rewrite (IH f2 r' k1 E1 E2). reflexivity.
Qed.

Lemma stages_more f1 : forall f2 r k, stagesE f1 r = Some k -> (f1 <= f2)%nat -> stagesE f2 r = Some k.
Proof.
  induction f1 as [|f1 IH]; intros f2 r k H Hle; [discriminate|].
  destruct f2 as [|f2]; [lia|]. cbn [stages] in *.
  destruct (advance r) as [[b r']|]; [|exact H].
  destruct (stagesE f1 r') as [k1|] eqn:E1; [|discriminate].
  rewrite (IH f2 r' k1 E1) by lia. exact H.
Qed.

Lemma stages_lt f r k : stagesE f r = Some k -> (k < f)%nat.
Proof.
  revert r k; induction f as [|f IH]; intros r k H; [discriminate|]. cbn [stages] in H.
  destruct (advance r) as [[b r']|]; [|injection H as <-; lia].
  destruct (stagesE f r') as [k1|] eqn:E1; [|discriminate]. injection H as <-. specialize (IH _ _ E1). lia.
Qed.

(* one read: either octets of the stream, or its end *)
Lemma take_spec sf : forall n p r k,
  1 <= n -> stagesE sf r = Some k ->
  exists p' r' o k', takeE sf n p r = Some (p', r', o) /\ stagesE sf r' = Some k' /\ (k' <= k)%nat /\
    p ++ wholeE sf r = o ++ p' ++ wholeE sf r' /\
    (o = [] -> p ++ wholeE sf r = []) /\
    (o <> [] -> (length p' + k' < length p + k)%nat \/ (k' < k)%nat \/ (k' = k /\ (length p' < length p)%nat)).
Proof.
  induction sf as [|sf IH]; intros n p r k Hn Hs; [discriminate|].
  destruct p as [|a p0] eqn:Ep.
  - cbn [e_take]. cbn [stages] in Hs.
    assert (HwS : wholeE (S sf) r = match advance r with None => [] | Some (b, r') => b ++ wholeE sf r' end) by reflexivity.
    rewrite HwS. clear HwS.
    destruct (advance r) as [[b r']|] eqn:Ea.
    + destruct (stagesE sf r') as [k1|] eqn:E1; [|discriminate]. injection Hs as <-.
      destruct (IH n b r' k1 Hn E1) as (p' & r2 & o & k' & Ht & Hs2 & Hle & Heq & He & Hm).
      exists p', r2, o, k'. split; [exact Ht|]. split; [exact (stages_more _ _ _ _ Hs2 (Nat.le_succ_diag_r sf))|].
      split; [lia|].
      assert (Hw2 : wholeE (S sf) r2 = wholeE sf r2).
      { symmetry. apply (whole_fuel sf (S sf) r2 k' Hs2). exact (stages_more _ _ _ _ Hs2 (Nat.le_succ_diag_r sf)). }
      rewrite Hw2. cbn [app]. split; [exact Heq|]. split; [exact He|].
      intros Ho. right. left. lia.
    + injection Hs as <-. exists [], r, [], 0%nat.
      assert (HwS : wholeE (S sf) r = []) by (cbn [whole]; rewrite Ea; reflexivity).
      assert (HsS : stagesE (S sf) r = Some 0%nat) by (cbn [stages]; rewrite Ea; reflexivity).
      rewrite HwS. repeat split; try reflexivity; try exact HsS; try lia.
      intros Hx. congruence.
  - rewrite <- Ep in *. assert (Hl : 1 <= lenN p) by (rewrite Ep, lenN_cons; lia).
    assert (Htk : takeE (S sf) n p r = Some (dropN (N.min (lenN p) n) p, r, takeN (N.min (lenN p) n) p)) by (rewrite Ep; reflexivity).
    set (kk := N.min (lenN p) n) in *. assert (Hkk : 1 <= kk) by (unfold kk; lia).
    exists (dropN kk p), r, (takeN kk p), k. split; [exact Htk|]. split; [exact Hs|]. split; [lia|].
    split; [rewrite app_assoc, takeN_dropN; reflexivity|].
    split.
    + intros Ho. exfalso. exact (takeN_pos_ne kk p Hkk Hl Ho).
    + intros _. right. right. split; [reflexivity|].
      pose proof (lenN_dropN kk p) as Hd. unfold lenN in *. lia.
Qed.

(* every sequence of requests: the whole stream, and a clean end *)
Theorem drive_whole sf req fuel : forall i p r k,
  stagesE sf r = Some k -> (length p + length (wholeE sf r) + k + 2 <= fuel)%nat ->
  driveE sf req fuel i p r = (p ++ wholeE sf r, EClean).
Proof.
  induction fuel as [|fuel IH]; intros i p r k Hs Hf; [lia|].
  cbn [e_drive].
  destruct (take_spec sf (N.max 1 (req i)) p r k ltac:(lia) Hs) as (p' & r' & o & k' & Ht & Hs' & Hle & Heq & He & Hm).
  rewrite Ht. destruct o as [|o0 ot].
  - rewrite (He eq_refl). reflexivity.
  - assert (Hlen : (length (p ++ wholeE sf r) = length (o0 :: ot) + length p' + length (wholeE sf r'))%nat).
    { rewrite Heq, !app_length. lia. }
    rewrite app_length in Hlen. cbn [length] in Hlen.
    rewrite (IH (N.succ i) p' r' k' Hs') by lia.
    rewrite Heq. reflexivity.
Qed.

End EmitterProofs.
