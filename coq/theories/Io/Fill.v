(* I/O transparency (C09): a source is a sequence of events - short reads of any size, and at most
   faults; a consumer asks with any sequence of request sizes. *)
From Coq Require Import List NArith Lia Bool.
From Rpgp Require Import Base.Octets Base.Res.
Import ListNotations.
Open Scope N_scope.

Inductive event := Chunk (c : bytes) | Fault.

Fixpoint data_of (evs : list event) : bytes :=
  match evs with [] => [] | Chunk c :: r => c ++ data_of r | Fault :: r => data_of r end.
Fixpoint faultless (evs : list event) : bool :=
  match evs with [] => true | Chunk _ :: r => faultless r | Fault :: _ => false end.
(* octets delivered before the first fault *)
Fixpoint before_fault (evs : list event) : bytes :=
  match evs with [] => [] | Chunk c :: r => c ++ before_fault r | Fault :: _ => [] end.

(* util.rs fill_buffer: read until [need] octets are there or the source ends; an empty chunk is
   end of input (Read::read returning 0); what is left of a chunk stays in the source *)
Fixpoint fill (evs : list event) (need : N) (acc : bytes) : res bytes * list event :=
  match evs with
  | [] => (Ok acc, [])
  | Fault :: r => if need =? 0 then (Ok acc, evs) else (Err, r)
  | Chunk c :: r =>
      if need =? 0 then (Ok acc, evs)
      else if lenN c =? 0 then (Ok acc, r)
      else if lenN c <=? need then fill r (need - lenN c) (acc ++ c)
      else (Ok (acc ++ takeN need c), Chunk (dropN need c) :: r)
  end.

(* a consumer draining a produced stream [out] with request sizes [reqs]: each answer is at most
   the request and non-empty while data remains *)
Fixpoint serve (out : bytes) (reqs : list N) : list bytes :=
  match reqs with
  | [] => []
  | q :: r => takeN q out :: serve (dropN q out) r
  end.

(* a block transformer driven by fill: read blocks of [b] octets, apply [g] to each (the last may
   be short), until the source ends; fuel = an upper bound on the number of blocks *)
Fixpoint pump (fuel : nat) (b : N) (g : bytes -> bytes) (evs : list event) : res bytes :=
  match fuel with
  | O => Ok []
  | S f =>
      match fill evs b [] with
      | (Ok blk, rest) =>
          if lenN blk =? 0 then Ok []
          else match pump f b g rest with
               | Ok o => Ok (g blk ++ o)
               | Err => Err | Panic => Panic
               end
      | (Err, _) => Err
      | (Panic, _) => Panic
      end
  end.

Fixpoint blocks (fuel : nat) (b : N) (d : bytes) : list bytes :=
  match fuel with
  | O => []
  | S f => if lenN d =? 0 then [] else takeN b d :: blocks f b (dropN b d)
  end.
