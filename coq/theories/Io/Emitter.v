(* Io/Emitter.v -- a staged producer read through `Read::read` (C09, C01): the shape shared by the
   stream encryptors and generators of the message builder.  The state is what is buffered
   ([pending]) and the rest; when the buffer is empty the next stage is computed ([advance]);
   read(n) hands out min n (what is buffered) octets, moving through stages whose buffer is empty
   until it has something to hand out or there is no further stage.

   Mirrors the loops of StreamEncryptorInner::read (sym), StreamEncryptor::read (aead),
   and the generators in composed/message/builder.rs:
       loop { fill_inner()?; let written = copy min(buf.len(), buffer.remaining()); if written > 0 || done { return } }

   Theorem (EmitterProofs.v): for every sequence of request sizes the consumer receives the
   concatenation of all stages, [whole]. *)
From Rpgp Require Import Base.Octets Base.Res.

Section Emitter.

Variable R : Type.
Variable advance : R -> option (bytes * R).

(* everything still to come from [r] *)
Fixpoint whole (fuel : nat) (r : R) : bytes :=
  match fuel with
  | O => []
  | S f => match advance r with None => [] | Some (b, r') => b ++ whole f r' end
  end.

(* the number of stages left, if it is below the fuel *)
Fixpoint stages (fuel : nat) (r : R) : option nat :=
  match fuel with
  | O => None
  | S f => match advance r with
           | None => Some 0%nat
           | Some (_, r') => match stages f r' with Some k => Some (S k) | None => None end
           end
  end.

(* read(n): (new state, octets handed out); [] = end of stream.  None = out of fuel *)
Fixpoint e_take (fuel : nat) (n : N) (p : bytes) (r : R) : option (bytes * R * bytes) :=
  match p with
  | _ :: _ => let k := N.min (lenN p) n in Some (dropN k p, r, takeN k p)
  | [] =>
      match fuel with
      | O => None
      | S f => match advance r with
               | None => Some ([], r, [])
               | Some (b, r') => e_take f n b r'
               end
      end
  end.

Inductive e_outcome := EClean | EOutOfFuel.

(* a consumer that reads until it is handed nothing; its i-th request asks for max 1 (req i) octets;
   [sf] bounds the stages walked through by one read, [fuel] the number of reads *)
Fixpoint e_drive (sf : nat) (req : N -> N) (fuel : nat) (i : N) (p : bytes) (r : R) : bytes * e_outcome :=
  match fuel with
  | O => ([], EOutOfFuel)
  | S f =>
      match e_take sf (N.max 1 (req i)) p r with
      | None => ([], EOutOfFuel)
      | Some (_, _, []) => ([], EClean)
      | Some (p', r', o) => let '(x, oc) := e_drive sf req f (N.succ i) p' r' in (o ++ x, oc)
      end
  end.

End Emitter.

(* ------------------------------------------------ two producers one after the other *)

(* The first producer runs to its end; the state it ends in decides where the second starts
   ([link]: e.g. the signature packets computed from what the first one hashed). *)
Section Seq.

Variables R1 R2 : Type.
Variable adv1 : R1 -> option (bytes * R1).
Variable adv2 : R2 -> option (bytes * R2).
Variable link : R1 -> R2.

Inductive rseq := In1 (r : R1) | In2 (r : R2).

Definition adv_seq (s : rseq) : option (bytes * rseq) :=
  match s with
  | In1 r =>
      match adv1 r with
      | Some (b, r') => Some (b, In1 r')
      | None => match adv2 (link r) with Some (b, r2) => Some (b, In2 r2) | None => None end
      end
  | In2 r => match adv2 r with Some (b, r2) => Some (b, In2 r2) | None => None end
  end.

(* the state in which the first producer ends *)
Fixpoint final1 (fuel : nat) (r : R1) : R1 :=
  match fuel with
  | O => r
  | S f => match adv1 r with Some (_, r') => final1 f r' | None => r end
  end.

End Seq.

(* a list of ready-made pieces *)
Definition adv_list (l : list bytes) : option (bytes * list bytes) :=
  match l with [] => None | x :: r => Some (x, r) end.
