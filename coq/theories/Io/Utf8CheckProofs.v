From Rpgp Require Import Base.Octets Io.Utf8Check.
From Coq Require Import PeanoNat.

Ltac split_ifs := repeat match goal with |- context[if ?c then _ else _] => destruct c eqn:? end.

Lemma char_len_ext l y k : char_len l = Some k -> char_len (l ++ y) = Some k.
Proof.
  destruct l as [|b0 [|b1 [|b2 [|b3 t]]]]; cbv beta iota delta [char_len app]; split_ifs;
    intros H; try discriminate H; exact H.
Qed.

Lemma char_len_bound l k : char_len l = Some k -> (1 <= k /\ k <= 4 /\ k <= length l)%nat.
Proof.
  destruct l as [|b0 [|b1 [|b2 [|b3 t]]]]; cbv beta iota delta [char_len]; split_ifs;
    intros H; try discriminate H; inversion H; subst k; cbn [length]; lia.
Qed.

Lemma char_len_long l y : (4 <= length l)%nat -> char_len (l ++ y) = char_len l.
Proof.
  destruct l as [|b0 [|b1 [|b2 [|b3 t]]]]; cbn [length]; intros H; try lia. reflexivity.
Qed.

Lemma vut_fuel f1 : forall f2 l, (length l <= f1)%nat -> (length l <= f2)%nat -> vut f1 l = vut f2 l.
Proof.
  induction f1 as [|f1 IH]; intros f2 l H1 H2.
  - destruct l; [|cbn [length] in H1; lia]. destruct f2; reflexivity.
  - destruct f2 as [|f2].
    + destruct l; [reflexivity | cbn [length] in H2; lia].
    + cbn [vut]. destruct (char_len l) as [k|] eqn:E; [|reflexivity].
      apply char_len_bound in E. f_equal. apply IH; rewrite skipn_length; lia.
Qed.

Lemma valid_up_to_unfold l :
  valid_up_to l = match char_len l with Some k => (k + valid_up_to (skipn k l))%nat | None => O end.
Proof.
  unfold valid_up_to. destruct l as [|b t]; [reflexivity|].
  change (length (b :: t)) with (S (length t)). cbn [vut].
  destruct (char_len (b :: t)) as [k|] eqn:E; [|reflexivity].
  apply char_len_bound in E. f_equal. apply vut_fuel; rewrite skipn_length; cbn [length] in *; lia.
Qed.

Lemma valid_up_to_le l : (valid_up_to l <= length l)%nat.
Proof.
  remember (length l) as n eqn:En. revert l En.
  induction n as [n IH] using lt_wf_ind. intros l En.
  rewrite valid_up_to_unfold. destruct (char_len l) as [k|] eqn:E; [|lia].
  apply char_len_bound in E.
  assert (H := IH (length (skipn k l)) ltac:(rewrite skipn_length; lia) (skipn k l) eq_refl).
  rewrite skipn_length in H. lia.
Qed.

Definition rem (l : bytes) : bytes := skipn (valid_up_to l) l.

Lemma skipn_add {A} a b (l : list A) : skipn (a + b) l = skipn b (skipn a l).
Proof. revert l. induction a as [|a IH]; intros l; [reflexivity|]. destruct l; [destruct b; reflexivity|]. cbn [Nat.add skipn]. apply IH. Qed.

Lemma skipn_app_le {A} n (a b : list A) : (n <= length a)%nat -> skipn n (a ++ b) = skipn n a ++ b.
Proof. intros H. rewrite skipn_app. replace (n - length a)%nat with O by lia. reflexivity. Qed.

(* the prefix decomposition: the well-formed prefix of a ++ b is the one of a, then the one of what a left over and b *)
Lemma valid_up_to_app a b : valid_up_to (a ++ b) = (valid_up_to a + valid_up_to (rem a ++ b))%nat.
Proof.
  unfold rem. remember (length a) as n eqn:En. revert a En.
  induction n as [n IH] using lt_wf_ind. intros a En.
  rewrite (valid_up_to_unfold a). destruct (char_len a) as [k|] eqn:E.
  - rewrite (valid_up_to_unfold (a ++ b)), (char_len_ext a b k E).
    pose proof (char_len_bound a k E) as Hk.
    rewrite (skipn_app_le k a b) by lia.
    rewrite (IH (length (skipn k a)) ltac:(rewrite skipn_length; lia) (skipn k a) eq_refl).
    rewrite skipn_add. lia.
  - reflexivity.
Qed.

Lemma rem_stuck a : char_len (rem a) = None.
Proof.
  unfold rem. remember (length a) as n eqn:En. revert a En.
  induction n as [n IH] using lt_wf_ind. intros a En.
  rewrite (valid_up_to_unfold a). destruct (char_len a) as [k|] eqn:E.
  - pose proof (char_len_bound a k E) as Hk. rewrite skipn_add.
    apply (IH (length (skipn k a))); [rewrite skipn_length; lia | reflexivity].
  - exact E.
Qed.

Lemma rem_app a b : rem (a ++ b) = rem (rem a ++ b).
Proof.
  unfold rem at 1. rewrite valid_up_to_app, skipn_add, (skipn_app_le _ a b) by apply valid_up_to_le. reflexivity.
Qed.

Lemma rem_length a : length (rem a) = (length a - valid_up_to a)%nat.
Proof. unfold rem. apply skipn_length. Qed.

Lemma well_formed_iff_rem a : well_formed a = match rem a with [] => true | _ => false end.
Proof.
  unfold well_formed. pose proof (valid_up_to_le a) as H. pose proof (rem_length a) as L.
  destruct (rem a) as [|x r]; cbn [length] in L.
  - apply Nat.eqb_eq. lia.
  - apply Nat.eqb_neq. lia.
Qed.

(* four octets that do not begin with a character never will *)
Lemma long_leftover_is_final t z : (4 <= length (rem t))%nat -> well_formed (t ++ z) = false.
Proof.
  intros H. unfold well_formed. apply Nat.eqb_neq.
  rewrite valid_up_to_app, (valid_up_to_unfold (rem t ++ z)), (char_len_long (rem t) z H), rem_stuck.
  rewrite app_length. rewrite rem_length in H. pose proof (valid_up_to_le t). lia.
Qed.

(* a run over any cutting, then the end of input: accepted exactly when the uncut stream is well-formed *)
Theorem utf8_run_is_rule chunks : forall s, utf8_run (rem s) chunks = well_formed (s ++ concat chunks).
Proof.
  induction chunks as [|c cs IH]; intros s.
  - cbn [utf8_run concat]. rewrite app_nil_r, well_formed_iff_rem. reflexivity.
  - cbn [utf8_run concat]. unfold utf8_read.
    change (skipn (valid_up_to (rem s ++ c)) (rem s ++ c)) with (rem (rem s ++ c)).
    rewrite <- rem_app.
    destruct (Nat.leb (length (rem (s ++ c))) 3) eqn:E.
    + rewrite IH, app_assoc. reflexivity.
    + apply Nat.leb_gt in E. rewrite app_assoc. symmetry. apply long_leftover_is_final. lia.
Qed.

Theorem utf8_run_whole chunks : utf8_run [] chunks = well_formed (concat chunks).
Proof. exact (utf8_run_is_rule chunks []). Qed.

Theorem utf8_run_cutting_independent chunks1 chunks2 :
  concat chunks1 = concat chunks2 -> utf8_run [] chunks1 = utf8_run [] chunks2.
Proof. intros E. rewrite !utf8_run_whole, E. reflexivity. Qed.

(* the overhang never exceeds three octets in an accepted run *)
Theorem utf8_read_overhang_short rest c r : utf8_read rest c = Some r -> (length r <= 3)%nat.
Proof.
  unfold utf8_read. destruct (Nat.leb _ 3) eqn:E; intros H; [|discriminate H].
  inversion H; subst r. apply Nat.leb_le. exact E.
Qed.

(* non-vacuity: a four-octet character cut after each of its octets *)
Example utf8_run_examples :
  utf8_run [] [[xf0]; [x9d]; [x84]; [x9e; x78]] = true /\ utf8_run [] [[xf0; x9d]; [x84]] = false /\
  utf8_run [] [[xed]; [xa0; x80]] = false /\ utf8_run [] [[x61; xff]; [x62; x63; x64]] = false.
Proof. vm_compute. repeat split. Qed.
