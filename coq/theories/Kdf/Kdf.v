(* Kdf/Kdf.v -- key-derivation and key-wrapping constructions of RFC 9580,
   each written from the RFC text over abstract primitives (C12, C08, C18).

   Mirrors (as independent transcriptions, compared with the library):
     src/types/s2k.rs                 StringToKey::derive_key, decode_count
     hkdf / hmac crates               (HKDF-SHA256, RFC 5869 / RFC 2104)
     src/crypto/aes_kw.rs             wrap / unwrap (RFC 3394)
     src/crypto/ecdh.rs               build_ecdh_param, kdf, pad, derive_session_key
     src/crypto/x25519.rs, x448.rs    hkdf, derive_session_key
     src/packet/sym_key_encrypted_session_key.rs   encrypt_v4/v6, decrypt
     src/crypto/checksum.rs           16-bit additive checksum *)
From Rpgp Require Import Base.Octets Base.Res Sym.Cfb.

(* ------------------------------------------------ S2K (RFC 9580 3.7.1) *)

(* coded count -> octet count: (16 + (c & 15)) << ((c >> 4) + 6) *)
Definition decode_count (c : N) : N := (16 + c mod 16) * 2 ^ (c / 16 + 6).

(* the first [n] octets of the endless repetition of [d] (d non-empty) *)
Fixpoint take_cycle (fuel : nat) (n : N) (d : bytes) : bytes :=
  match fuel with
  | O => []
  | S f => if n <=? lenN d then takeN n d else d ++ take_cycle f (n - lenN d) d
  end.

Inductive s2k :=
| S2kSimple (h : N)
| S2kSalted (h : N) (salt : bytes)
| S2kIterated (h : N) (salt : bytes) (coded : N).

(* what context number [j] (0-based) hashes: j zero octets, then the data *)
Definition s2k_preimage (s : s2k) (pw : bytes) (j : N) : bytes :=
  zeros_n j ++
  match s with
  | S2kSimple _ => pw
  | S2kSalted _ salt => salt ++ pw
  | S2kIterated _ salt c =>
      let d := salt ++ pw in
      let n := N.max (decode_count c) (lenN d) in
      take_cycle (S (N.to_nat (n / N.max 1 (lenN d)))) n d
  end.

Definition s2k_hash (s : s2k) : N :=
  match s with S2kSimple h | S2kSalted h _ | S2kIterated h _ _ => h end.

Section S2k.
Variable hash : N -> bytes -> bytes.
Variable dlen : N -> N.      (* digest size of a hash id; 0 = unknown *)

Fixpoint s2k_contexts (fuel : nat) (s : s2k) (pw : bytes) (j : N) : bytes :=
  match fuel with
  | O => []
  | S f => hash (s2k_hash s) (s2k_preimage s pw j) ++ s2k_contexts f s pw (j + 1)
  end.

(* derive_key: as many contexts as needed, concatenated, cut to the key size *)
Definition s2k_derive (s : s2k) (pw : bytes) (ks : N) : res bytes :=
  let d := dlen (s2k_hash s) in
  if d =? 0 then Err
  else
    let rounds := (ks + d - 1) / d in
    Ok (takeN ks (s2k_contexts (N.to_nat rounds) s pw 0)).

(* the loop of the code for the iterated variant: whole copies while more than
   one copy's worth remains, then the salt (possibly cut) and a prefix of the
   password *)
Fixpoint s2k_loop (fuel : nat) (count : N) (salt pw : bytes) : bytes :=
  let ds := lenN salt + lenN pw in
  match fuel with
  | O => []
  | S f =>
      if ds <? count then salt ++ pw ++ s2k_loop f (count - ds) salt pw
      else if count <? lenN salt then takeN count salt
      else salt ++ takeN (count - lenN salt) pw
  end.

Definition s2k_iterated_code (coded : N) (salt pw : bytes) : bytes :=
  let ds := lenN salt + lenN pw in
  let count := N.max (decode_count coded) ds in
  s2k_loop (S (N.to_nat (count / N.max 1 ds))) count salt pw.

End S2k.

(* ------------------------------------------------ HMAC / HKDF (SHA-256) *)

Section Hkdf.
Variable H : bytes -> bytes.       (* the hash: SHA-256 (block 64, digest 32) or SHA-512 (128, 64) *)
Variable BLOCK HLEN : N.

Definition pad_to (n : N) (l : bytes) : bytes := l ++ zeros_n (n - lenN l).

Definition hmac (key msg : bytes) : bytes :=
  let k0 := pad_to BLOCK (if BLOCK <? lenN key then H key else key) in
  let ipad := xor_bytes k0 (repeat x36 (N.to_nat BLOCK)) in
  let opad := xor_bytes k0 (repeat x5c (N.to_nat BLOCK)) in
  H (opad ++ H (ipad ++ msg)).

Definition hkdf_extract (salt ikm : bytes) : bytes :=
  hmac (match salt with [] => zeros_n HLEN | _ => salt end) ikm.

Fixpoint hkdf_blocks (fuel : nat) (prk info prev : bytes) (i : N) : bytes :=
  match fuel with
  | O => []
  | S f => let t := hmac prk (prev ++ info ++ [n2b i]) in t ++ hkdf_blocks f prk info t (i + 1)
  end.

Definition hkdf_expand (prk info : bytes) (len : N) : bytes :=
  takeN len (hkdf_blocks (N.to_nat ((len + HLEN - 1) / HLEN)) prk info [] 1).

Definition hkdf (salt ikm info : bytes) (len : N) : bytes :=
  hkdf_expand (hkdf_extract salt ikm) info len.
End Hkdf.

(* ------------------------------------------------ HKDF info strings (RFC 9580 5.3.2, 3.7.2.1) *)

(* SKESK v6: packet type octet 0xC3, version 6, cipher, AEAD mode *)
Definition skesk6_info (sym aead : N) : bytes := [xc3; x06; n2b sym; n2b aead].

(* AEAD-locked secret key (S2K usage 253): the packet type octet of the key packet (0xC5 secret key,
   0xC7 secret subkey), the version of THAT key packet, cipher, AEAD mode *)
Definition keylock_info (tag ver sym aead : N) : bytes := [n2b (192 + tag); n2b ver; n2b sym; n2b aead].

(* ------------------------------------------------ AES key wrap (RFC 3394) *)

Section AesKw.
Variable E D : bytes -> bytes.     (* one 16-octet block under the KEK *)

Definition KW_IV : bytes := repeat xa6 8.

Fixpoint blocks8 (fuel : nat) (l : bytes) : list bytes :=
  match fuel with
  | O => []
  | S f => match l with [] => [] | _ => takeN 8 l :: blocks8 f (dropN 8 l) end
  end.

(* one pass over R[1..n]; t counts from the value given *)
Fixpoint kw_pass (a : bytes) (t : N) (rs : list bytes) : bytes * list bytes :=
  match rs with
  | [] => (a, [])
  | r :: rest =>
      let b := E (a ++ r) in
      let a' := xor_bytes (takeN 8 b) (be64 t) in
      let (a'', rest') := kw_pass a' (t + 1) rest in
      (a'', dropN 8 b :: rest')
  end.

Fixpoint kw_passes (j : nat) (a : bytes) (t : N) (rs : list bytes) : bytes * list bytes :=
  match j with
  | O => (a, rs)
  | S j' => let (a', rs') := kw_pass a t rs in kw_passes j' a' (t + N.of_nat (length rs)) rs'
  end.

Definition kw_wrap (data : bytes) : res bytes :=
  if (lenN data mod 8 =? 0) then
    let rs := blocks8 (length data) data in
    let (a, rs') := kw_passes 6 KW_IV 1 rs in
    Ok (a ++ concat rs')
  else Err.

(* one backward pass: rs given in REVERSE order (R[n] first); t counts down *)
Fixpoint kw_unpass (a : bytes) (t : N) (rs_rev : list bytes) : bytes * list bytes :=
  match rs_rev with
  | [] => (a, [])
  | r :: rest =>
      let b := D (xor_bytes a (be64 t) ++ r) in
      let (a', rest') := kw_unpass (takeN 8 b) (t - 1) rest in
      (a', dropN 8 b :: rest')
  end.

Fixpoint kw_unpasses (j : nat) (a : bytes) (t : N) (rs : list bytes) : bytes * list bytes :=
  match j with
  | O => (a, rs)
  | S j' =>
      let (a', rs_rev') := kw_unpass a t (rev rs) in
      kw_unpasses j' a' (t - N.of_nat (length rs)) (rev rs_rev')
  end.

Definition kw_unwrap (c : bytes) : res bytes :=
  if (lenN c mod 8 =? 0) && (8 <=? lenN c) then
    let a := takeN 8 c in
    let rs := blocks8 (length c) (dropN 8 c) in
    let n := N.of_nat (length rs) in
    let (a', rs') := kw_unpasses 6 a (6 * n) rs in
    if list_eq_dec Byte.byte_eq_dec a' KW_IV then Ok (concat rs') else Err
  else Err.
End AesKw.

(* ------------------------------------------------ ECDH (RFC 9580 5.1.6 / 11.5) *)

Definition anon_sender : bytes :=
  [x41;x6e;x6f;x6e;x79;x6d;x6f;x75;x73;x20;x53;x65;x6e;x64;x65;x72;x20;x20;x20;x20].

Definition ecdh_param (oid : bytes) (sym hash : N) (fp : bytes) : bytes :=
  [n2b (lenN oid)] ++ oid ++ [x12] ++ [x03; x01; n2b hash; n2b sym] ++ anon_sender ++ fp.

Definition ecdh_kdf (hashf : bytes -> bytes) (z : bytes) (ks : N) (param : bytes) : bytes :=
  takeN ks (hashf ([x00; x00; x00; x01] ++ z ++ param)).

(* PKCS5-style padding to a multiple of 8; always at least one octet *)
Definition ecdh_pad (p : bytes) : bytes :=
  let k := 8 - lenN p mod 8 in p ++ repeat (n2b k) (N.to_nat k).

Definition ecdh_unpad (d : bytes) : res bytes :=
  let len := lenN d in
  if negb (len mod 8 =? 0) then Err
  else if len =? 0 then Err
  else
    let padv := b2n (last d x00) in
    if len <? padv then Err
    else
      let body := takeN (len - padv) d in
      let tail := dropN (len - padv) d in
      if forallb (fun b => b2n b =? padv) tail then
        (if lenN body =? 0 then Err else Ok body)
      else Err.

(* ------------------------------------------------ checksum *)

Definition sum16 (l : bytes) : N := (fold_left (fun acc b => acc + b2n b) l 0) mod 65536.

(* ------------------------------------------------ session key ESK plaintext *)

(* v3 PKESK / v4 SKESK plaintext: cipher octet, key, (checksum for PKESK) *)
Definition pkesk_v3_plain (sym : N) (sk : bytes) : bytes := [n2b sym] ++ sk ++ be16 (sum16 sk).
