(* Kdf/KdfProofs.v -- proofs about the constructions of Kdf/Kdf.v (C12). *)
From Rpgp Require Import Base.Octets Base.Res Sym.Cfb Sym.CfbProofs Kdf.Kdf.
From Coq Require Import ZifyBool ZifyN ZifyNat.

(* ------------------------------------------------ S2K count *)

(* the shift form used by the code equals the arithmetic form, for all 256
   coded counts; the largest is 65011712 *)
Lemma decode_count_table :
  forallb (fun c => (decode_count c =? N.shiftl (16 + N.land c 15) (N.shiftr c 4 + 6))
                    && (decode_count c <=? 65011712) && (1024 <=? decode_count c)) (nr 256) = true.
Proof. vm_compute. reflexivity. Qed.

Theorem decode_count_spec c :
  c < 256 ->
  decode_count c = N.shiftl (16 + N.land c 15) (N.shiftr c 4 + 6) /\
  1024 <= decode_count c <= 65011712.
Proof.
  intros H. pose proof decode_count_table as T. rewrite forallb_forall in T.
  specialize (T c (in_nr c 256 H)). lia.
Qed.

(* ------------------------------------------------ the iterated loop hashes take_cycle *)

Lemma takeN_app_split (a b : bytes) n :
  takeN n (a ++ b) = if n <? lenN a then takeN n a else a ++ takeN (n - lenN a) b.
Proof.
  rewrite !takeN_firstn, firstn_app. unfold lenN.
  destruct (N.ltb_spec n (N.of_nat (length a))).
  - replace (N.to_nat n - length a)%nat with 0%nat by lia. rewrite firstn_O, app_nil_r. reflexivity.
  - rewrite firstn_all2 by lia. f_equal. f_equal. lia.
Qed.

Lemma s2k_loop_take_cycle fuel count salt pw :
  s2k_loop fuel count salt pw = take_cycle fuel count (salt ++ pw).
Proof.
  revert count; induction fuel as [|f IH]; intros count; [reflexivity|].
  cbn [s2k_loop take_cycle]. rewrite lenN_app.
  destruct (N.ltb_spec (lenN salt + lenN pw) count) as [H|H].
  - destruct (N.leb_spec count (lenN salt + lenN pw)); [lia|].
    rewrite IH, <- app_assoc. reflexivity.
  - destruct (N.leb_spec count (lenN salt + lenN pw)); [|lia].
    rewrite takeN_app_split. reflexivity.
Qed.

(* what the code hashes in one context of the iterated S2K is what the RFC
   says: max(count, |salt+pw|) octets of the repeated salt+password *)
Theorem s2k_iterated_code_is_spec h coded salt pw j :
  zeros_n j ++ s2k_iterated_code coded salt pw = s2k_preimage (S2kIterated h salt coded) pw j.
Proof.
  unfold s2k_iterated_code, s2k_preimage. rewrite s2k_loop_take_cycle, lenN_app. reflexivity.
Qed.

(* take_cycle returns exactly n octets when the fuel suffices *)
Lemma take_cycle_length fuel n d :
  1 <= lenN d -> n / lenN d < N.of_nat fuel -> lenN (take_cycle fuel n d) = n.
Proof.
  intros Hd. revert n; induction fuel as [|f IH]; intros n Hf.
  { exfalso. pose proof (N.le_0_l (n / lenN d)) as Q. revert Hf Q. generalize (n / lenN d). intros q. lia. }
  cbn [take_cycle]. destruct (N.leb_spec n (lenN d)).
  - rewrite lenN_takeN. lia.
  - rewrite lenN_app, IH; [lia|].
    assert (Hq : n / lenN d = (n - lenN d) / lenN d + 1).
    { replace n with ((n - lenN d) + 1 * lenN d) at 1 by lia. apply N.div_add. lia. }
    revert Hf Hq. generalize (n / lenN d) ((n - lenN d) / lenN d). intros q1 q2. lia.
Qed.

(* ------------------------------------------------ AES key wrap *)

Section AesKwProofs.
Variable E D : bytes -> bytes.
Hypothesis DE : forall b, lenN b = 16 -> D (E b) = b.
Hypothesis E_len : forall b, lenN (E b) = 16.

Definition blocks_ok (rs : list bytes) : Prop := Forall (fun r => lenN r = 8) rs.

Lemma kw_pass_shape a t rs a' rs' :
  lenN a = 8 -> blocks_ok rs -> kw_pass E a t rs = (a', rs') ->
  lenN a' = 8 /\ blocks_ok rs' /\ length rs' = length rs.
Proof.
  revert a t a' rs'; induction rs as [|r rest IH]; intros a t a' rs' Ha Hrs H.
  - cbn in H. injection H as <- <-. repeat split; [exact Ha|constructor].
  - cbn [kw_pass] in H. inversion Hrs as [|? ? Hr Hrest]; subst.
    set (b := E (a ++ r)) in *.
    destruct (kw_pass E (xor_bytes (takeN 8 b) (be64 t)) (t + 1) rest) as [a2 rest'] eqn:Ep.
    injection H as <- <-.
    assert (Hb : lenN b = 16) by apply E_len.
    assert (Ha1 : lenN (xor_bytes (takeN 8 b) (be64 t)) = 8).
    { rewrite xor_bytes_length; rewrite lenN_takeN; [lia|]. change (lenN (be64 t)) with 8. lia. }
    destruct (IH _ _ _ _ Ha1 Hrest Ep) as [H1 [H2 H3]].
    repeat split; [exact H1| |cbn; lia].
    constructor; [rewrite lenN_dropN; lia|exact H2].
Qed.

Lemma kw_unpass_snoc a t l x :
  kw_unpass D a t (l ++ [x]) =
  let (a1, l') := kw_unpass D a t l in
  let b := D (xor_bytes a1 (be64 (t - N.of_nat (length l))) ++ x) in
  (takeN 8 b, l' ++ [dropN 8 b]).
Proof.
  revert a t; induction l as [|r rest IH]; intros a t.
  - cbn. rewrite N.sub_0_r. reflexivity.
  - cbn [app kw_unpass length]. rewrite IH.
    destruct (kw_unpass D (takeN 8 (D (xor_bytes a (be64 t) ++ r))) (t - 1) rest) as [a1 l'].
    cbn. replace (t - 1 - N.of_nat (length rest)) with (t - N.pos (Pos.of_succ_nat (length rest))) by lia.
    reflexivity.
Qed.

Lemma kw_unpass_pass rs a t a' rs' :
  lenN a = 8 -> blocks_ok rs -> 1 <= t ->
  kw_pass E a t rs = (a', rs') ->
  kw_unpass D a' (t + N.of_nat (length rs) - 1) (rev rs') = (a, rev rs).
Proof.
  revert a t a' rs'; induction rs as [|r rest IH]; intros a t a' rs' Ha Hrs Ht H.
  - cbn in H. injection H as <- <-. reflexivity.
  - cbn [kw_pass] in H. inversion Hrs as [|? ? Hr Hrest]; subst.
    set (b := E (a ++ r)) in *.
    destruct (kw_pass E (xor_bytes (takeN 8 b) (be64 t)) (t + 1) rest) as [a2 rest'] eqn:Ep.
    injection H as <- <-.
    assert (Hb : lenN b = 16) by apply E_len.
    assert (Ha1 : lenN (xor_bytes (takeN 8 b) (be64 t)) = 8).
    { rewrite xor_bytes_length; rewrite lenN_takeN; [lia|]. change (lenN (be64 t)) with 8. lia. }
    destruct (kw_pass_shape _ _ _ _ _ Ha1 Hrest Ep) as [_ [_ Hlen]].
    cbn [rev length]. rewrite kw_unpass_snoc.
    replace (t + N.of_nat (S (length rest)) - 1) with (t + 1 + N.of_nat (length rest) - 1) by lia.
    assert (Ht1 : 1 <= t + 1) by lia.
    rewrite (IH _ (t + 1) _ _ Ha1 Hrest Ht1 Ep).
    rewrite rev_length, Hlen.
    replace (t + 1 + N.of_nat (length rest) - 1 - N.of_nat (length rest)) with t by lia.
    rewrite xor_bytes_cancel by (rewrite lenN_takeN; change (lenN (be64 t)) with 8; lia).
    rewrite takeN_dropN. unfold b. rewrite DE by (rewrite lenN_app; lia).
    rewrite (takeN_app_len _ _ _ Ha), (dropN_app_len _ _ _ Ha). reflexivity.
Qed.

Lemma kw_passes_shape j a t rs a' rs' :
  lenN a = 8 -> blocks_ok rs -> kw_passes E j a t rs = (a', rs') ->
  lenN a' = 8 /\ blocks_ok rs' /\ length rs' = length rs.
Proof.
  revert a t rs a' rs'; induction j as [|j IH]; intros a t rs a' rs' Ha Hrs H.
  - cbn in H. injection H as <- <-. auto.
  - cbn [kw_passes] in H. destruct (kw_pass E a t rs) as [a1 rs1] eqn:Ep.
    destruct (kw_pass_shape _ _ _ _ _ Ha Hrs Ep) as [H1 [H2 H3]].
    destruct (IH _ _ _ _ _ H1 H2 H) as [H4 [H5 H6]]. repeat split; [exact H4|exact H5|lia].
Qed.

Lemma kw_passes_snoc j a t rs :
  lenN a = 8 -> blocks_ok rs ->
  kw_passes E (S j) a t rs =
  let (a1, rs1) := kw_passes E j a t rs in
  kw_pass E a1 (t + N.of_nat j * N.of_nat (length rs)) rs1.
Proof.
  revert a t rs; induction j as [|j IH]; intros a t rs Ha Hrs.
  - cbn [kw_passes]. destruct (kw_pass E a t rs) as [a' rs'] eqn:Ep.
    replace (t + N.of_nat 0 * N.of_nat (length rs)) with t by lia. rewrite Ep. reflexivity.
  - change (kw_passes E (S (S j)) a t rs) with
      (let (a', rs') := kw_pass E a t rs in kw_passes E (S j) a' (t + N.of_nat (length rs)) rs').
    destruct (kw_pass E a t rs) as [a' rs'] eqn:Ep.
    destruct (kw_pass_shape _ _ _ _ _ Ha Hrs Ep) as [H1 [H2 H3]].
    rewrite (IH _ _ _ H1 H2). cbn [kw_passes]. rewrite Ep.
    destruct (kw_passes E j a' (t + N.of_nat (length rs)) rs') as [a1 rs1].
    rewrite H3. f_equal. lia.
Qed.

Lemma kw_unpasses_passes j a t rs af rsf :
  lenN a = 8 -> blocks_ok rs -> 1 <= t ->
  kw_passes E j a t rs = (af, rsf) ->
  kw_unpasses D j af (t + N.of_nat j * N.of_nat (length rs) - 1) rsf = (a, rs).
Proof.
  revert af rsf; induction j as [|j IH]; intros af rsf Ha Hrs Ht H.
  - cbn in H. injection H as <- <-. reflexivity.
  - rewrite (kw_passes_snoc j a t rs Ha Hrs) in H.
    destruct (kw_passes E j a t rs) as [a1 rs1] eqn:E1.
    destruct (kw_passes_shape _ _ _ _ _ _ Ha Hrs E1) as [H1 [H2 H3]].
    destruct (kw_pass_shape _ _ _ _ _ H1 H2 H) as [_ [_ H4]].
    cbn [kw_unpasses].
    assert (Ht' : 1 <= t + N.of_nat j * N.of_nat (length rs)) by lia.
    pose proof (kw_unpass_pass rs1 a1 _ af rsf H1 H2 Ht' H) as Hu.
    replace (t + N.of_nat (S j) * N.of_nat (length rs) - 1)
      with (t + N.of_nat j * N.of_nat (length rs) + N.of_nat (length rs1) - 1) by lia.
    rewrite Hu, rev_involutive, H4, H3.
    replace (t + N.of_nat j * N.of_nat (length rs) + N.of_nat (length rs) - 1 - N.of_nat (length rs))
      with (t + N.of_nat j * N.of_nat (length rs) - 1) by lia.
    apply IH; auto.
Qed.

Lemma blocks8_spec fuel data :
  lenN data mod 8 = 0 -> (length data <= fuel)%nat ->
  blocks_ok (blocks8 fuel data) /\ concat (blocks8 fuel data) = data.
Proof.
  revert data; induction fuel as [|f IH]; intros data Hm Hf.
  - destruct data; [split; [constructor|reflexivity]|cbn in Hf; lia].
  - cbn [blocks8]. destruct data as [|x t] eqn:Ed; [split; [constructor|reflexivity]|]. rewrite <- Ed in *.
    assert (Hl : 8 <= lenN data).
    { assert (1 <= lenN data) by (subst data; rewrite lenN_cons; lia). lia. }
    destruct (IH (dropN 8 data)) as [I1 I2].
    + rewrite lenN_dropN. lia.
    + assert (lenN (dropN 8 data) < lenN data) by (rewrite lenN_dropN; lia). unfold lenN in *. lia.
    + split; [constructor; [rewrite lenN_takeN; lia|exact I1]|].
      cbn [concat]. rewrite I2. apply takeN_dropN.
Qed.

Lemma blocks8_concat fuel bs :
  blocks_ok bs -> (length bs <= fuel)%nat -> blocks8 fuel (concat bs) = bs.
Proof.
  revert bs; induction fuel as [|f IH]; intros bs Hb Hf.
  - destruct bs; [reflexivity|cbn in Hf; lia].
  - destruct bs as [|b rest]; [reflexivity|]. inversion Hb as [|? ? Hb1 Hb2]; subst.
    cbn [concat blocks8]. destruct (b ++ concat rest) as [|y yt] eqn:Ey.
    { exfalso. apply (f_equal lenN) in Ey. rewrite lenN_app in Ey. cbn in Ey. lia. }
    rewrite <- Ey, (takeN_app_len _ _ _ Hb1), (dropN_app_len _ _ _ Hb1), IH; [reflexivity|exact Hb2|cbn in Hf; lia].
Qed.

Lemma lenN_concat_blocks bs : blocks_ok bs -> lenN (concat bs) = 8 * N.of_nat (length bs).
Proof.
  induction 1 as [|b rest Hb _ IH]; [reflexivity|]. cbn [concat length]. rewrite lenN_app, IH, Hb. lia.
Qed.

(* unwrapping what was wrapped returns the key data, for every length that is
   a multiple of 8 *)
Theorem kw_unwrap_wrap data c :
  kw_wrap E data = Ok c -> kw_unwrap D c = Ok data.
Proof.
  unfold kw_wrap, kw_unwrap. intros H.
  destruct (N.eqb_spec (lenN data mod 8) 0) as [Hm|]; [|discriminate].
  destruct (blocks8_spec (length data) data Hm (le_n _)) as [Hrs Hcat].
  set (rs := blocks8 (length data) data) in *.
  destruct (kw_passes E 6 KW_IV 1 rs) as [af rsf] eqn:Ep.
  injection H as <-.
  destruct (kw_passes_shape _ _ _ _ _ _ (eq_refl : lenN KW_IV = 8) Hrs Ep) as [Ha [Hb Hl]].
  rewrite lenN_app, Ha, (lenN_concat_blocks _ Hb).
  replace ((8 + 8 * N.of_nat (length rsf)) mod 8 =? 0) with true by lia.
  replace (8 <=? 8 + 8 * N.of_nat (length rsf)) with true by lia. cbn [andb].
  rewrite (takeN_app_len _ _ _ Ha), (dropN_app_len _ _ _ Ha).
  rewrite blocks8_concat; [|exact Hb|].
  2: { rewrite app_length. assert (lenN (concat rsf) = 8 * N.of_nat (length rsf)) by (apply lenN_concat_blocks; exact Hb).
       unfold lenN in *. lia. }
  pose proof (kw_unpasses_passes 6 KW_IV 1 rs af rsf eq_refl Hrs ltac:(lia) Ep) as Hu.
  replace (1 + N.of_nat 6 * N.of_nat (length rs) - 1) with (6 * N.of_nat (length rsf)) in Hu by lia.
  rewrite Hu.
  destruct (list_eq_dec byte_eq_dec KW_IV KW_IV) as [_|Hn]; [|congruence].
  rewrite Hcat. reflexivity.
Qed.

End AesKwProofs.

(* ------------------------------------------------ ECDH padding *)

Lemma forallb_repeat {A} (f : A -> bool) x n : f x = true -> forallb f (repeat x n) = true.
Proof. intros H. induction n as [|n IH]; [reflexivity|]. cbn [repeat forallb]. rewrite H, IH. reflexivity. Qed.

Theorem ecdh_unpad_pad p : 1 <= lenN p -> ecdh_unpad (ecdh_pad p) = Ok p.
Proof.
  intros Hp. unfold ecdh_pad, ecdh_unpad.
  set (k := 8 - lenN p mod 8).
  assert (Hk : 1 <= k <= 8) by (unfold k; lia).
  assert (Hrl : lenN (repeat (n2b k) (N.to_nat k)) = k) by (unfold lenN; rewrite repeat_length; lia).
  rewrite lenN_app, Hrl.
  replace ((lenN p + k) mod 8 =? 0) with true by (unfold k; lia). cbn [negb].
  replace (lenN p + k =? 0) with false by lia.
  assert (Hlast : last (p ++ repeat (n2b k) (N.to_nat k)) x00 = n2b k).
  { rewrite last_app_ne.
    - destruct (N.to_nat k) as [|m] eqn:Em; [lia|]. clear. induction m as [|m IH]; [reflexivity|].
      change (repeat (n2b k) (S (S m))) with (n2b k :: repeat (n2b k) (S m)). cbn [last].
      cbn [repeat] in *. exact IH.
    - destruct (N.to_nat k) eqn:Em; [lia|discriminate]. }
  rewrite Hlast, b2n_n2b. replace (k mod 256) with k by lia.
  replace (lenN p + k <? k) with false by lia.
  replace (lenN p + k - k) with (lenN p) by lia.
  rewrite takeN_app, dropN_app.
  rewrite forallb_repeat by (rewrite b2n_n2b; lia).
  replace (lenN p =? 0) with false by lia. reflexivity.
Qed.

(* ------------------------------------------------ lengths *)

Lemma zeros_n_len n : lenN (zeros_n n) = n.
Proof. unfold zeros_n, lenN. rewrite repeat_length. lia. Qed.

Theorem seipd1_enc_length E bs sha1 prefix data :
  1 <= bs -> (forall x, lenN (E x) = bs) -> (forall x, lenN (sha1 x) = 20) -> lenN prefix = bs + 2 ->
  lenN (seipd1_enc E bs sha1 prefix data) = lenN data + bs + 2 + 22.
Proof.
  intros Hb He Hs Hp. unfold seipd1_enc. rewrite (cfb_enc_length E bs Hb He).
  unfold seipd1_plain. rewrite !lenN_app, Hs, Hp. change (lenN mdc_head) with 2. lia.
Qed.
