"""C14: text canonicalisation is one function, however the text is delivered."""
import hashlib

BIN = "c14"
EXHAUSTIVE = True

def _unhex(s):
    return b"" if s == "-" else bytes.fromhex(s)

def expected(case, mout):
    """what the implementation must print, given the model's answer"""
    if case["op"] == "canon":
        # v4 text signature, EdDSA-legacy (22), SHA-256 (8), empty hashed area:
        # digest = SHA256(canon(doc) ++ 04 01 16 08 00 00 ++ 04 ff 00 00 00 06)
        pre = _unhex(mout) + bytes([4, 1, 22, 8, 0, 0]) + bytes([4, 0xFF, 0, 0, 0, 6])
        return "1 1 1 " + hashlib.sha256(pre).hexdigest()
    return mout

def nontrivial(case, mout):
    # a case is non-trivial when canonicalisation changes the text or the text
    # contains a CR or LF at all
    a = "".join(case["args"])
    return ("0a" in a) or ("0d" in a)

RULE = ("exhaustive: every string over {CR,LF,x} up to the tier's length x every chunking (hasher), "
        "every such string at the 512/1024 window edges (reader) under source and consumer schedules, "
        "builder UTF-8 acceptance under every chunking, end-to-end text signatures with a recording key; "
        "non-trivial = distinct (op,args,class) containing a CR or LF on which library = model and the direct predicate holds")
TRUSTED = [
    "model files: coq/theories/Text/Canon.v (canon, nh_*, nr_*, replace_newlines, crlf_*); theorems coq/theories/Props/C14.v",
    "hook pgp::verif_hooks::normalizing_hasher_run / normalize_lines (thin wrappers over the crate-private code)",
    "modelled rather than verified: NormalizingHasher, NormalizedReader, replace_newlines, CrLfCheckReader; Utf8CheckReader is not modelled (ASCII inputs only)",
]
ASSUMPTIONS = [
    "the end-to-end digest comparison assumes the v4 signature trailer of RFC 9580 5.2.4 for an empty hashed area (checked in full under C11)",
]
KNOWN = {}
