"""C10: ASCII armor round trip, checksum correctness and tolerant reading."""
BIN = "c10"

def _split(mout):
    if mout is None:
        return None, None
    if " | " in mout:
        a, b = mout.split(" | ", 1)
        return a, b
    return mout, None

def expected(case, mout):
    return _split(mout)[0]

def nontrivial(case, mout):
    return case.get("op") in ("armor", "dearmor") and len(case["args"][-1 if case["op"] == "dearmor" else 2]) > 2

def _crc_copy(case, mout):
    """Dearmor with enable_crc24_check rejects an armor whose checksum is correct:
    code result ERR, RFC-conformant checking accepts (ok:<crc>), data not empty."""
    if case.get("op") != "dearmor" or case["args"][0] != "1" or case.get("impl") != "ERR":
        return False
    code, spec = _split(mout)
    if code != "ERR" or spec is None or not spec.startswith("OK "):
        return False
    parts = spec.split(" ")
    return len(parts) == 5 and parts[3] != "-" and parts[4].startswith("ok:")

KNOWN = {"crc24-check-hashes-a-copy": _crc_copy}

RULE = ("library armor::write output = model armor for every data length 0..400 (4096 thorough), boundary lengths around 48/768/1024/..., "
        "all block types, header maps from a grammar (values with ': ', trailing ':', leading blank, UTF-8), checksum on/off; "
        "library Dearmor = model dearmor on writer output and on the tolerated variants (CRLF, leading text, missing final newline, "
        "whitespace on the blank line, empty lines in the body), CRC check on/off, wrong checksum, under source/consumer schedules; "
        "truncations and mutations only for absence of panics. non-trivial = distinct cases with non-empty data on which library = model")
TRUSTED = [
    "model files: coq/theories/Armor/Base64.v, Armor.v; theorems coq/theories/Props/C10.v",
    "modelled rather than verified: armor::write (as the function armor), LineWriter (as wrap 64), Base64Reader/Base64Decoder (as token filter + dec_quanta), header_parser/footer_parser/Dearmor (as dearmor); the buffer hand-off between decoder and footer parser is exercised through schedules only",
    "not modelled: UTF-8 validation of header keys/values, the cleartext 'Hash:' header grammar (C16), behaviour on malformed armor beyond Ok/Err (only absence of panics is checked there)",
]
ASSUMPTIONS = ["base64 and crc24 crates are compared against the concrete Coq definitions of RFC 4648 / RFC 9580 6.1.1 on every generated case"]
