"""C07: generated keys."""
BIN = "c07"
DISAGREEMENT_IS_FAILURE = True

def expected(case, mout):
    return mout

def nontrivial(case, mout):
    return case.get("pred") is True

RULE = ("for each of 14 key shapes (v4/v6; RSA, DSA, EdDSA legacy, Ed25519, Ed448, ECDSA P-256/P-384/P-521/secp256k1 primaries; ECDH cv25519/P-256/P-384/P-521, X25519, X448, RSA "
        "encryption subkeys; signing subkeys; 0..3 user ids; with and without passphrase) x seeds (quick 60, thorough 1500; RSA/DSA 1..6): SecretKeyParams::generate, then ~25 facts: "
        "secret and public verify_bindings, binary / armored export and re-import equal (secret and public), announced length, user id and subkey counts, flags and preference lists as "
        "requested on the right self-signature, back signature present on signing subkeys, primary and signing subkeys sign and verify (and reject other data), encryption subkeys "
        "encrypt/decrypt (SEIPD v1, and v2 for v6). Every MPI of fixed nominal size (signature halves of all self-signatures, bindings and test signatures; unprotected secret scalars) is "
        "compared with the model's encoding of the padded value; the evidence counts how many had leading zero octets. non-trivial = keys for which every fact holds + MPI cases. "
        "Added: the cheap shapes (v4 EdDSA-legacy + Curve25519-legacy, v6 Ed25519 + X25519 + signing subkey, v4 P-256) generated, written and read back for 1800 seeds each (thorough 8000; a third of that for P-256): secret and public form read back equal, announced length = written length -- the 1-in-256 octet events (a value beginning or ending in a zero octet) are met with probability > 99.9%.")
TRUSTED = [
    "model file: coq/theories/Key/Scalar.v (strip / pad / MPI codec); theorems coq/theories/Props/C07.v; the packet-level round trip of keys is C05's theorem",
    "the functional facts (bindings verify, keys usable, preferences as requested) are checked on the generated keys, seed by seed: testing over seeds, not proof; the theorem covers the value-dependent encoding hazard for every value",
]
ASSUMPTIONS = ["seeds are consecutive integers from VERIF_SEED x 100000"]
KNOWN = {}
