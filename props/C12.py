"""C12: symmetric and KDF constructions match RFC 9580."""
# the model is an independent transcription of the RFC: a disagreement is a failing input
DISAGREEMENT_IS_FAILURE = True
BIN = "c12"

def expected(case, mout):
    return mout

def nontrivial(case, mout):
    return bool(case.get("op"))

RULE = ("library = RFC-transcribed model, byte for byte: S2K simple/salted for 9 hashes x key sizes 16..64 (multi-context), iterated for ALL 256 coded counts "
        "(password lengths placing count <,=,> |salt+pw| and all remainders), Argon2 small parameters; AES key wrap/unwrap incl. corrupted input; ECDH parameter block, KDF, "
        "wrap + short and long padding for 5 curves x 3 KDF hashes x 3 KEK ciphers; X25519/X448 HKDF (HKDF and HMAC modelled concretely over the hash oracle); SKESK v4 (8 ciphers) and v6 "
        "(3 ciphers x 3 AEAD modes); SEIPDv1 ciphertext for 11 ciphers (prefix recovered by decryption) and SEIPDv2 ciphertext for 9 cipher/mode pairs x chunk sizes with the model's own HKDF; "
        "plus library decrypts its own output (direct predicate)")
TRUSTED = [
    "model files: coq/theories/Kdf/Kdf.v, Sym/Cfb.v, Aead/Seipd2.v (written from RFC 9580 / 3394 / 5869 / 2104 / 6637); theorems coq/theories/Props/C12.v",
    "both stream encryptors are also modelled as the staged producers they are (Sym/Seipd1EncMachine.v, Aead/Seipd2EncMachine.v over Io/Emitter.v) and proved to deliver seipd1_enc / seipd2_enc for every sequence of read sizes; "
    "the model driver runs machine and one-shot construction on every v1enc / v2enc case; the AEAD key-locking KDF info string is Kdf.keylock_info (compared with Lock.aead_info)",
    "primitives (hashes, block ciphers, AEAD modes, Argon2) come from the oracle `prims` = the RustCrypto crates the library itself uses: a bug inside one of them is invisible here",
    "for iterated S2K counts above 65536 octets the repetition salt+password is performed by the oracle (hashrep) with the count from the extracted decode_count",
    "not covered in this direction: library ECDH/X25519 *encrypt* -> model decrypt (needs curve arithmetic); covered: model-shaped input -> library decrypt, and the KDF/wrap pieces separately",
]
ASSUMPTIONS = ["secret-key protection constructions (usage 253/254/255) are compared under C08"]
KNOWN = {}
