"""C18: recipients."""
BIN = "c18"
DISAGREEMENT_IS_FAILURE = True

def expected(case, mout):
    if mout and mout.startswith("F"):
        return "F0" if mout == "F0" else "Fx"
    if mout == "C":
        # two packets opening to different session keys: the library refuses; the refusal is
        # observed as an error, its wording is not part of the verdict
        return "Fx"
    return mout

def nontrivial(case, mout):
    return bool(case.get("op")) or case.get("pred") is True

RULE = ("random messages: container SEIPD v1 / v2 (AES-128/256) with a known session key K0; 0..4 PKESKs (v3 to v4 keys, v6 to any key; ECDH cv25519 / P-256, RSA, X25519, X448; "
        "recipient field = the key, another pool key (decoy) or wildcard) and 0..3 SKESKs (v4 / v6), now and then one packet that opens to a different key K1; presented: a random "
        "subset of the 8 pool keys (two locked, with 0..3 candidate key passwords), of the 4 passwords, explicit session keys (K0, K1, both orders), abort_early on/off. "
        "The model's decision (found K0 / found another key / missing / conflict) over the oracle table of who opens what is compared with decrypt_the_ring: plaintext / decrypt error / "
        "MissingKey (a conflict is a decrypt error; the wording of errors is never part of a verdict). Unauthenticated SKESK v4 with a non-recipient password is judged in the error direction only (never other plaintext). "
        "non-trivial = distinct cases where library = model")
TRUSTED = [
    "model file: coq/theories/Rules/Recipients.v; theorems coq/theories/Props/C18.v",
    "the oracle table (which presented secret opens which packet) is known to the harness by construction of the message",
    "modelled rather than verified: TheRing::find_session_key / try_decrypt, match_identity, decrypt_session_key_with_password",
]
ASSUMPTIONS = ["'found another key' is observed as a decryption error of the container (the library does not expose the chosen session key)"]
def _skesk4(case, mout):
    # identified by the circumstance the harness established from the packets (a presented password opens an SKESK v4 made for
    # another password to a plausible key other than the message's), never by the wording of an error
    return str(case.get("impl", "")).startswith("SKESK4-PASSWORD-OPENS-OTHER-PACKET: ")

KNOWN = {"skesk4-other-password-plausible-key": _skesk4}
