"""C02: signature soundness."""
BIN = "c02"

def expected(case, mout):
    return mout

def nontrivial(case, mout):
    return True

RULE = ("for detached binary and text signatures of 5 key kinds (Ed25519Legacy v4, Ed25519 v6, ECDSA P-256, RSA-2048, Ed448 v6): every single-bit flip of the serialised signature "
        "packet (exhaustive for three keys, 200 sampled bits otherwise), classified by field from the packet layout (header, version, type, algorithms, hashed length/area, unhashed, prefix, salt, value, MPI bit counts); "
        "truncations; every bit of the content (exhaustive up to 64 octets), truncations, insertions, LF<->CRLF conversion (accept/reject expected from the model's subject octets); every other key; "
        "every bit of the verifying key packet. Inline one-pass messages: every bit of the message (small) with the payload read compared through the model. Certificates (v4, v6 with subkey): every bit, "
        "verify_bindings accepted => every certified component still present is an original one. Certificate-forming signatures built one by one (v4 EdDSA, v6 Ed25519; thorough also P-256, Ed448, RSA): "
        "direct-key, key revocation (self and third-party), the four certification levels and certification revocation (self and third-party), subkey binding, subkey revocation, primary-key binding -- "
        "each through every entry point that verifies its kind (verify_key, verify_key_third_party, verify_certification, verify_third_party_certification, verify_subkey_binding, verify_primary_key_binding): "
        "every bit of the signature packet, another signee / signer / user id, the wrong entry point; and direct-key + revocation signatures inside a certificate through verify_bindings. Direct predicate: a must-reject change is never accepted and an accepted change never alters a signed component")
TRUSTED = [
    "theorems coq/theories/Props/C02.v over Sig/Preimage.v, Sig/Verify.v: acceptance binds every signed component unless Collision or Forged (explicit events)",
    "field classification of signature-packet offsets is done by the harness from the RFC packet layout (src/bin/c02.rs layout/field_of); unhashed area and MPI bit counts are 'may accept'",
    "real signature primitives (ed25519-dalek, rsa, p256, cx448) through the library; the hash collision / forgery events are not searched for",
]
ASSUMPTIONS = ["cleartext signatures are perturbed under C16; certifications made by third parties are not generated"]
KNOWN = {}
