"""C03: ciphertext integrity."""
BIN = "c03"

def expected(case, mout):
    if case.get("op") == "gdec" and mout and mout.startswith("ERR"):
        # packet 20 is read through the message layer: what was released before the error is judged by the direct
        # predicate (a prefix of the payload), the correspondence compares clean end / error and the octets of a clean end
        return "ERR"
    return mout

def nontrivial(case, mout):
    return case.get("op") in ("v2dec", "v1dec", "v2enc", "gdec", "genc") or str(case.get("cls", "")).startswith("msg-")

RULE = ("SEIPDv2: every cipher x AEAD pair, small chunk sizes, plaintext lengths around 0..3 chunk boundaries: library encryptor output = model; "
        "library streaming decryptor vs model (clean end / octets released before the error) on the untampered stream and on every single-bit flip "
        "(exhaustive for the small messages of the first configuration per chunk size, sampled otherwise), every truncation offset near chunk edges, appended octets, "
        "dropped/duplicated/swapped chunks, altered cipher/mode/chunk-size/salt/key, under source schedules and three consumer kinds. "
        "SEIPDv1: 11 ciphers, lengths around the 22-octet MDC hold-back and the 8192 buffer, CheckFirst (incl. size limit at/below) and Streaming modes, bit flips, truncations, extensions, wrong key. "
        "Direct predicate: tampered => error, released octets a prefix of the plaintext (v2) / none at all (v1 default mode). "
        "Message level (Message::from_bytes -> decrypt_the_ring -> Read/BufRead to the end, both SEIPDv1 read modes; SEIPDv2 OCB 64-octet chunks): password-encrypted literal packets whose "
        "decrypted packet stream ends around 8170, 8192, 16340 and 16384 octets (the decryptor's buffer minus the 22-octet MDC), bit flips in the first 24 and last 48 octets of the container and sampled elsewhere, "
        "re-framed truncations / extensions of the container, the message cut off inside it: never a clean end. "
        "Packet 20 (GnuPG / LibrePGP OCB encrypted data, opt-in): containers built from the primitive and tied to the model's encryptor, chunk-size octets 0, 2 and 16 (GnuPG's default), "
        "OCB (the only mode the library reads there); every bit of version, cipher, mode, chunk-size octet, IV; bit flips, truncations, dropped / doubled / swapped chunks: never a clean end, clean ends equal the model's.")
TRUSTED = [
    "model files: coq/theories/Aead/Seipd2.v, Sym/Cfb.v; theorems coq/theories/Props/C03.v (proofs in Seipd2Proofs.v, Seipd2Integrity.v, CfbProofs.v)",
    "AEAD modes, block ciphers, SHA-1, HKDF are primitives: parameters of the theorems, and at run time the oracle `prims` (RustCrypto crates linked directly) -- the same crates the library uses",
    "the integrity theorems are reductions: v2 to 'an AEAD triple opened that was never sealed' (premise INT), v1 to 'a second SHA-1-self-consistent plaintext under the unknown key'",
    "modelled rather than verified: aead StreamDecryptor/StreamEncryptor (buffer mechanics abstracted to 'one chunk released while two chunks of input remain'); "
    "sym StreamDecryptorInner is modelled as the machine it is (Sym/Seipd1Machine.v: octet-wise BufDecryptor, 8192-octet buffer, 22 octets held back, consumer requests) and proved equal to the one-shot "
    "specification for every request sequence (C03_v1_stream_machine_is_spec, C03_v1_checkfirst_machine_is_spec, C03_v1_bufdecryptor_is_cfb); the correspondence run executes both the machine "
    "(under the harness's own consumer schedule) and the specification and compares each with the library",
]
ASSUMPTIONS = ["GnuPG-AEAD mode is not part of the statement", "behaviour of a caller that keeps reading after an error is not compared"]
KNOWN = {}
