"""C08: secret-key locking."""
BIN = "c08"
# the protected octets the library writes for given inputs must be the ones RFC 9580 (the model) prescribes: where they differ, the key the
# model locks is a key from the wire that the library no longer unlocks (and the reverse), so the disagreeing case is the failing input
DISAGREEMENT_IS_FAILURE = True

def expected(case, mout):
    return mout

def nontrivial(case, mout):
    return bool(case.get("op")) or case.get("pred") is True

RULE = ("keys of 7 algorithm/version combinations x {CFB (254), MalleableCFB (255), legacy cipher octet, AEAD (253)} x 11 ciphers x 3 AEAD modes x "
        "S2K {simple, salted, iterated (count octets 0,1,7,40,96,200,255), argon2 (t 1..3, p 1..4, m 10..12)} x passwords {ascii, empty, non-UTF-8, 300 octets}: "
        "locked through set_password_with_s2k (254/253) or built as a packet from the library's own S2K+CFB primitives (255/legacy, which the library only reads), "
        "written and parsed; the protected octets equal the model's lock function on the same inputs (S2K, CFB or HKDF+AEAD with info/AD, SHA-1 or 16-bit sum); "
        "remove_password with the right password restores the original octets; 3-4 wrong passwords are rejected; every bit of the protection parameters and of the "
        "last 24 octets plus a sample (thorough: every bit of packets up to 750 octets) flipped: parse+unlock fails, or (public fields of a non-AEAD key only) returns the same material. "
        "non-trivial = distinct cases where model = library and the predicate holds")
TRUSTED = [
    "model files: coq/theories/Key/Lock.v (+ Sym/Cfb.v, Kdf/Kdf.v); theorems coq/theories/Props/C08.v",
    "primitive oracle (RustCrypto crates linked directly): block ciphers, SHA-1/SHA-2/MD5, Argon2, AEAD seal/open",
    "modelled rather than verified: PlainSecretParams::encrypt, EncryptedSecretParams::unlock, s2k_usage_aead, the usage-octet mapping",
    "crypto premises are explicit in the theorems (AEAD integrity INT and AD binding); collision resistance of SHA-1 / unpredictability of CFB garbling are not assumed: the CFB theorems are unconditional reductions",
]
ASSUMPTIONS = ["usage 255 and legacy locked keys are produced by the harness from the library's own S2K and CFB functions (the library does not lock in these modes)"]

def _weak_sum(case, mout):
    c = case.get("cls", "")
    return ("-malleable-" in c or "-legacy-" in c) and "tamper" in c and "same-material=false" in str(case.get("impl"))

def _rsa_u(case, mout):
    c = case.get("cls", "")
    if not (("-malleable-" in c or "-legacy-" in c) and "tamper-protected-unlocked" in c and "same-material=true" in str(case.get("impl"))):
        return False
    w = bytes.fromhex(case["rp"][1]); hl = 2 if w[1] < 192 else (3 if w[1] < 224 else 6)
    return w[hl + 5] in (1, 2, 3)

KNOWN = {"sum16-accepts-different-material": _weak_sum, "sum16-rsa-u-not-covered": _rsa_u}
