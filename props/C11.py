"""C11: signed digests are exactly those RFC 9580 prescribes."""
# the model is an independent transcription of the RFC: a disagreement is a failing input
DISAGREEMENT_IS_FAILURE = True
BIN = "c11"

def expected(case, mout):
    return mout

def nontrivial(case, mout):
    return bool(case.get("op"))

RULE = ("for signature types 0x00, 0x01, 0x10-0x13, 0x30 (user id up to 70000 octets and image attribute), 0x18, 0x28, 0x19 (signed by the subkey), 0x1F, 0x20, "
        "x {v4 Ed25519Legacy, v6 Ed25519, v4 RSA-2048 (key body > 255 octets)} x 6 hash algorithms x hashed-subpacket sets (empty ... 60000-octet notation, critical flags, "
        "unknown non-critical types): the digest the library hands to the signing key and to the verifying key (recording key) = hash(preimage) of the RFC transcription; "
        "v3 signatures (verification only) with harness-built packets. Direct predicate: sign digest = verify digest and verification succeeds. "
        "Added: the public streaming hasher (SignatureConfig::into_hasher) fed the document in pieces with empty writes (at every CR, between single octets, before and after): the digest signed is the RFC digest of the document and the signature verifies over it.")
TRUSTED = [
    "model file: coq/theories/Sig/Preimage.v (from RFC 9580 5.2.4); theorems coq/theories/Props/C11.v, proofs Sig/PreimageProofs.v",
    "the hashed area is taken as opaque octets (library serialisation of the subpackets; their encoding is C05's subject)",
    "hash functions come from the oracle `prims` (same crates as the library)",
    "observation, not asserted as a defect: the library frames a key by the KEY's version (0x99/0x9B); RFC 9580 words it by the SIGNATURE's version; the two differ only for a v6 signature over a v4 key (third-party certification across versions), which the generator does not produce",
]
ASSUMPTIONS = ["types 0x02, 0x40, 0x50 are outside the quantifier"]
KNOWN = {}
