"""C17: packet framing."""
BIN = "c17"

def expected(case, mout):
    return mout

def nontrivial(case, mout):
    if case.get("op") == "deframe":
        return True
    return bool(case.get("op")) or case.get("pred") is True

RULE = ("model framer (proved legal) and harness framer agree (framer-tie); library header+body reader vs model deframe on: every tag 0..63 x both "
        "formats x every length class at the class edges, random partial-chunk sequences (exponents 0..16) on data tags, illegal framings "
        "(partial on each tag, first partial 2^0..2^8, declared-huge chunks, every truncation, every first octet x selected second octets, random), "
        "under random source/consumer schedules; library-written literal / uncompressed-compressed packets vs model emit_partial/emit_fixed at "
        "chunk-boundary lengths, read back by the library; PacketParser value equality across framings. "
        "non-trivial = distinct cases on which library = model and the direct predicate holds. "
        "Added: the packet parser over packets (marker, one-pass signature, MDC, trust, user id, padding, literal) declared 1..70000 octets longer than the stream, in every length form of both formats: never handed out as a packet, and not a silent end; the honest length is accepted.")
TRUSTED = [
    "model files: coq/theories/Frame/Framing.v; theorems coq/theories/Props/C17.v",
    "model files also Frame/BodyReader.v (PacketBodyReader as a state machine: 8 KiB buffer, Take-limited source, partial lengths) and Frame/PartialWriter.v (LiteralDataPartialGenerator as a staged producer), "
    "proved equal to deframe / emit_partial for every sequence of consumer request sizes; the model driver runs machine and specification and compares each with the library",
    "modelled rather than verified: PacketLength / PacketHeader parse+write, PacketBodyReader and LiteralDataPartialGenerator (Gallina transcriptions tied by the differential run), the compressed / encrypted partial-body emitters (as emit_partial only), LiteralDataFixedGenerator (emit_fixed)",
    "not modelled: malformed-artifact-compat feature; PacketParser's skipping of incomplete packets",
]
ASSUMPTIONS = ["bodies above 90000 octets and partial chunks above 2^16 are not materialised (declared-huge chunks over short input are)"]
KNOWN = {}
