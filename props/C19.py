"""C19: work and memory bounded by the input supplied."""
BIN = "c19"

def PREGEN(tier, seed):
    n = 60 if tier == "thorough" else 8
    return ["gen %d %d" % (t, seed * 7919 + i) for t in [1, 2, 3, 4, 5, 6, 7, 14, 11, 13, 17, 18, 8] for i in range(n)]

def expected(case, mout):
    op = case.get("op")
    if op == "take":
        # model: (octets held, capacity) of take_bytes for this declared size when the whole input arrives in one piece;
        # the parser's measured peak must stay within that capacity plus a fixed allowance for its own structures
        try:
            l, c = [int(x) for x in mout.split(" ")]
            peak = int(str(case.get("impl")).split("=")[1])
        except Exception:
            return "MODEL-ERROR " + str(mout)
        return case.get("impl") if peak <= c + 64 * int(case["args"][1]) + 192 * 1024 else "peak above model capacity %d" % c
    if op == "argon":
        t, p, m = [int(x) for x in case["args"]]
        runs = mout == "1" and t >= 1 and p >= 1 and (1 << m) >= 8 * p
        return "allow" if runs else "refuse"
    return mout

def nontrivial(case, mout):
    return case.get("pred") is True

RULE = ("counting global allocator (peak live octets, total) and wall clock around each call. 1: every position of the first 48 (thorough 120) octets of every small fixture "
        "overwritten with ff / fe / 7f, 1-2-4 octets wide, then all parsers: peak <= 192 KiB + 64 x input octets, < 5 s; packet headers claiming 2^16 .. 2^32-1 over 0..70000 "
        "supplied octets for 7 packet types: peak within the model's take_bytes capacity + allowance; 2: 3x10^4 / 6x10^4 (thorough 10^5 / 2x10^5) marker, padding, trust packets: "
        "peak flat and below 1 MiB, time ratio <= 3.5; certificate with 4000 / 8000 signatures: memory and time linear; 3: signed + SEIPDv2-encrypted messages of 4 and 24 MiB "
        "(thorough 8, 64, 256 MiB) written from a generator to a file and read back in 64 KiB steps with verification: peak <= 6 MiB and independent of size; 4: Argon2 (t, p, m) "
        "over the gate's edges x every m (refusals must be fast and allocation-free; model gate = library), every iterated-S2K count octet (bounded time, no allocation growth). "
        "non-trivial = cases within bounds")
TRUSTED = [
    "model file: coq/theories/Cost/Cost.v (allocation strategy of take_bytes, subpacket vector, MPI limit, AEAD buffer, Argon2 gate); theorems coq/theories/Props/C19.v",
    "the theorems bound the modelled strategies; that the whole parser allocates no more than these strategies imply is measured (counting allocator), not proved",
    "wall-clock linearity is judged by doubling the input (ratio <= 3.5), a measurement",
]
ASSUMPTIONS = ["parameter sets the gate accepts are only executed when cheap (m <= 2^13 KiB); the 2 GiB edge itself is not executed"]
KNOWN = {}
