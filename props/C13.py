"""C13: fingerprints and key IDs are the RFC-defined hashes and are stable."""
# the model is an independent transcription of the RFC: a disagreement is a failing input
DISAGREEMENT_IS_FAILURE = True
BIN = "c13"

def expected(case, mout):
    return mout

def nontrivial(case, mout):
    return bool(case.get("op")) or case.get("pred") is True

RULE = ("library fingerprint and key id = hash of the RFC pre-image (model) for: generated keys of 10 algorithm/version combinations x seeds, with subkeys; "
        "every key packet (public, secret, sub) of every fixture under /repo/tests that parses, on the WIRE octets of the packet (own packet splitter), incl. v3 RSA; "
        "stability: secret key = public half = re-parsed copy; embedding: OPS key id / fingerprint, issuer subpackets, PKESK v3 key id and v6 fingerprint equal the key's")
TRUSTED = [
    "model file: coq/theories/Sig/Fingerprint.v (from RFC 9580 5.5.4); theorems coq/theories/Props/C13.v",
    "hash functions from the oracle `prims`; harness packet splitter for fixed-length packets; rsa crate accessors for n, e of v3 keys",
    "not covered: public keys with non-canonical (leading-zero) MPIs: the library fingerprints its canonical re-serialisation, the RFC calls such MPIs malformed",
]
ASSUMPTIONS = []
KNOWN = {}
