"""C04: hostile input never panics."""
BIN = "c04"

def PREGEN(tier, seed):
    # model-generated packets of every type (signatures with every subpacket grammar most of all): seeds for the field-extremes sweep
    th = tier == "thorough"
    out = []
    for t, n in [(2, 60 if th else 16), (1, 8 if th else 3), (3, 8 if th else 3), (4, 6 if th else 2), (5, 8 if th else 2), (6, 8 if th else 2), (7, 6 if th else 2),
                 (14, 6 if th else 2), (13, 3 if th else 1), (17, 8 if th else 3), (8, 3 if th else 1), (11, 3 if th else 1), (18, 3 if th else 1)]:
        out += ["gen %d %d" % (t, seed * 104729 + i) for i in range(n)]
    return out

def expected(case, mout):
    op = case.get("op")
    if op in ("aeadsetup", "kwlen"):
        # the model covers one step (set-up / output length); whatever it says, the library call as a whole
        # ends in ok or err on random data; only a model PANIC would be a disagreement
        return "MODEL-PANIC" if mout == "PANIC" else case.get("impl")
    return mout

def nontrivial(case, mout):
    return case.get("pred") is True

RULE = ("every case = one call (or one sweep over all public entry points) on its own thread under catch_unwind with a 20-30 s wall-clock watchdog; outcome ok / err / PANIC / TIMEOUT. "
        "1: session-key plaintext of every length 0..40 x first octet (quick: 19 ids, thorough: all 256), with and without a correct checksum, encrypted through "
        "EncryptionKey::encrypt to a held key of each algorithm (RSA, ECDH cv25519 / P-256, X25519 v4+v6, X448), PKESK v3 and v6; for RSA the outcome class is compared with the model; "
        "wrapped keys of every length 0..24 that no honest sender produces; 2: SKESK v4 around chosen plaintext (vs the model), every value of every one-octet field of SKESK v4/v6, S2K "
        "(type, hash, count, Argon2 t/p/m) and SEIPD v2 headers as whole messages; 3: SEIPD v2 (cipher, AEAD mode 0..255, chunk size) with the session key in hand (vs the model's set-up); "
        "4: every value of the usage / cipher / S2K type / hash / count octets of a locked secret key, unlocked with its password; 5: byte-level mutations of fixtures through PacketParser, "
        "key / signature / message parsing, decrypt, decompress, read, verify, dearmor, cleartext; 6: every two- and four-octet window (ffff, 8000, fffe; ffffffff, 80000000, 00010000; "
        "pairs ffff 0001 / 8000 8000 / 0001 ffff) of signatures written by hand with one subpacket of every assigned type (hashed / unhashed, v4 / v6, embedded signature included) and of "
        "model-generated packets of every type (the C05 generator), through the packet-level entry points. non-trivial = cases that returned")
TRUSTED = [
    "model file: coq/theories/Safe/Checked.v (the post-decryption plausibility logic with Rust's panicking operations explicit); theorems coq/theories/Props/C04.v",
    "only that logic is modelled; for everything else (parsers, readers, decompression, the crypto crates) C04 rests on the generated artifacts and the watchdog, which is testing, not proof",
    "stack overflow and allocation failure abort the process: they would show up as a failed harness run (reported as a broken correspondence)",
]
ASSUMPTIONS = ["wall-clock limit 20-30 s per case stands in for 'loops forever'"]

def _errored(case, mout):
    # identified by the circumstance and the place the harness established (an accessor of a message reader called after a
    # read that returned Err; panic raised under src/composed/message/), never by the wording of the panic
    return str(case.get("impl", "")).startswith("PANIC-AFTER-READ-ERROR: ")

KNOWN = {"accessor-after-read-error-panics": _errored}
