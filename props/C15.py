"""C15: version-alignment and criticality rules."""
BIN = "c15"
DISAGREEMENT_IS_FAILURE = True

def expected(case, mout):
    return mout

def nontrivial(case, mout):
    return bool(case.get("op")) or case.get("pred") is True

RULE = ("decision functions of the model (Rules/Rules.v) vs the library on: every subset and two orders of {PKESK v3, PKESK v6, SKESK v4, SKESK v6} "
        "(each a correct encryption of the container's session key) x {SEIPD v1, SEIPD v2} x credential sets {keys+password, keys, password} x options; "
        "GnuPG-AEAD (SKESK v5 + packet 20, PKESK v3 + packet 20) and SED fixtures x all 4 option settings; session keys of the wrong kind handed in directly; "
        "key version x signature version for verification (signature forged to carry the right digest, so only the rule decides) and for signing; "
        "every subpacket id 0..127 (unassigned, experimental, structured known kinds) x critical bit in the hashed area of v4 and v6 signatures, direct and through the wire; "
        "issuer fingerprint version octet; every single-field mismatch of a one-pass header (type, hash, algorithm, issuer, salt) in v3 and v6 one-pass messages; "
        "v6 primary + v4 subkey and reverse on the public and the secret import path; signing subkeys with valid / missing / foreign back-signature on "
        "public, secret, public-wire, secret-wire paths. non-trivial = distinct cases where library = model")
TRUSTED = [
    "model file: coq/theories/Rules/Rules.v (decision functions transcribed from RFC 9580 10.3.2.1, 5.2.3.7, 5.2.3.35, 5.4, 10.1); theorems coq/theories/Props/C15.v",
    "modelled rather than verified: esk_filter, DecryptionOptions gating, find_session_key, check_signature_key_version_alignment, the critical / issuer-fingerprint checks in hash_signature_data, OnePassSignature::matches, key_parser, verify_bindings",
    "the recording key (harness/src/keys.rs) replaces the public-key primitive so that a signature can be given the digest the library computes",
]
ASSUMPTIONS = ["known subpacket types = the 27 kinds of RFC 9580 Table 5 that the library parses; 100..110 (experimental) count as unknown"]
KNOWN = {}
