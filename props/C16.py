"""C16: cleartext signature framework."""
BIN = "c16"

def expected(case, mout):
    return mout

def nontrivial(case, mout):
    return case.get("op") in ("escape", "signed", "readback") and case["args"][0] != "-" or (not case.get("op") and case.get("pred") is True)

def _ends_cr(case, mout):
    """text ends in a lone CR: `text ++ "\\n"` turns it into a CR LF line end, the text comes back without the CR
    and the signature (made over the text with the CR) does not verify on the re-read message"""
    if case.get("op") == "readback" and case["args"][0].endswith("0d"):
        return True
    rp = case.get("rp") or []
    # the several-signers constructor over the same texts: fresh message verifies, the re-read one does not
    if len(rp) >= 2 and rp[0] == "cycle-many" and rp[1].endswith("0d") and not case.get("op"):
        imp = str(case.get("impl", ""))
        return " v0=1 " in imp and "signers-handed-signed-form=1" in imp
    # the same texts in the tampering stream: the conversions that must keep the signature valid start from a document that already does not verify
    return len(rp) >= 3 and rp[0] == "tamper" and rp[1].endswith("0d") and rp[2] in ("crlf", "trailing-blanks")

KNOWN = {"csf-text-ends-with-cr": _ends_cr}

RULE = ("every text over {'-',SP,TAB,CR,LF,'a'} up to length 5 (6 thorough) and texts from a grammar of 0..8 lines (armor boundary strings, "
        "'- ', 'From ', UTF-8, trailing blanks, lone CR, with/without final newline): dash-escaped text, signed text and the text read back from "
        "the armored form vs the model; sign->verify directly and after re-parsing, digests at sign and verify equal (recording key; every 10th with a real Ed25519 key); "
        "tampering: CRLF conversion / added trailing blanks must still verify, content changes and an injected armor boundary must not. "
        "non-trivial = distinct non-empty texts on which library = model and the predicate holds")
TRUSTED = [
    "model files: coq/theories/Text/Cleartext.v (+Canon.v); theorems coq/theories/Props/C16.v",
    "modelled rather than verified: dash_escape, dash_unescape_and_trim, signed_text, the text section of to_armored_writer, read_cleartext_body",
    "not modelled: the 'Hash:' armor header grammar and validate_headers, the signature armor block (C10), UTF-8 validation by read_line",
]
ASSUMPTIONS = ["signed_form = RFC form (trailing blanks removed per line) is tied by correspondence and examples; the theorem proved is canonicity and sign/verify agreement"]
