"""C05: wire fidelity."""
BIN = "c05"
DISAGREEMENT_IS_FAILURE = True

TAGS = [1, 2, 3, 4, 5, 6, 7, 14, 8, 10, 11, 12, 13, 17, 18, 21, 60]

def PREGEN(tier, seed):
    n = 1200 if tier == "thorough" else 120
    heavy = {2: 4, 5: 3, 6: 2, 7: 2, 1: 2, 3: 2}
    qs = []
    for t in TAGS:
        for i in range(n * heavy.get(t, 1)):
            qs.append("gen %d %d" % (t, seed * 1000003 + i))
    return qs

def expected(case, mout):
    op = case.get("op")
    imp = case.get("impl")
    if op == "canon":
        # the model's own artifact must be canonical for the model (self-consistency of
        # generator / encoder / decoder); the library's verdict is judged by the predicate
        return imp if mout == "1" else "MODEL-INCONSISTENT " + str(mout)
    if op == "dec":
        kind = case["rp"][0]
        if kind == "fixture":
            # only canonical inputs (accepted by the strict decoder) must come back identical;
            # a packet the library does not accept is outside the property
            if mout == "REJ" or imp == "rejected":
                return imp
            return mout
        return mout    # library-built packet: must be in the grammar, identical re-encoding
    return mout

def nontrivial(case, mout):
    if case.get("op") == "canon":
        return str(case.get("impl", "")).startswith("same")
    if case.get("op") == "dec":
        return mout is not None and mout.startswith("OK")
    return case.get("pred") is True

RULE = ("A: packets generated field by field by the model (independent RFC 9580 grammars; every packet type, versions, random and preferred "
        "one-octet ids, all length-prefix classes, MPI bit lengths 1..8 in the leading octet) -> library parse -> write: identical octets, "
        "announced length = written length, parses back equal (a packet the library refuses is outside the property; acceptance is reported per type). "
        "B: keys of every algorithm/version, certificates, locked with every S2K usage/specifier/cipher through set_password_with_s2k, unlocked again, "
        "signatures with every subpacket kind and API insert/remove, message packets: write_len = octets written, parses back equal, every packet "
        "accepted by the model's strict decoder and re-encoded identically. C: every packet of every fixture: canonical ones (per the model) are "
        "re-serialised identically. non-trivial = accepted artifacts with identical re-serialisation + packets the model decodes")
TRUSTED = [
    "model files: coq/theories/Wire/{Fmt,Packets,Wire}.v; theorems coq/theories/Props/C05.v (generic over the format universe, instantiated at every packet type)",
    "the grammars in Wire/Packets.v are a hand transcription of RFC 9580 section 5; encrypted octets, key material of the secret part and opaque trailing data are FRest",
    "modelled rather than verified: the per-type try_from_reader / to_writer pairs, write_len, PacketTrait::to_writer_with_header, Subpacket length classes",
    "model generator (Fmt.gen) and the OCaml random stream are unverified: only their outputs matter",
]
ASSUMPTIONS = ["packets above 70000 octets are not generated", "old-format and partial-length headers are covered by C17; here headers are the minimal new-format ones"]

def _trust(case, mout):
    if case.get("op") == "canon" and case["args"][0] == "12":
        return case["args"][1] != "-" and str(case.get("impl", "")).startswith("DIFFERENT cc00 ")
    if case.get("op") == "dec" and case["args"][0] == "12" and case["rp"][0] == "fixture":
        return case.get("impl") == "OK -" and case["args"][1] != "-"
    return False

def _x448(case, mout):
    if case.get("op") != "canon" or case["args"][0] not in ("5", "7"):
        return False
    imp = str(case.get("impl", ""))
    if not imp.startswith("DIFFERENT "):
        return False
    a = bytes.fromhex(case["rp"][1]); b = bytes.fromhex(imp.split(" ")[1])
    if len(a) != len(b) or len(a) < 70:
        return False
    hl = 2 if a[1] < 192 else (3 if a[1] < 224 else 6)
    body = a[hl:]
    if body[5] != 26:
        return False
    diff = [i for i in range(len(a)) if a[i] != b[i]]
    # only the first / last octet of the 56-octet scalar, changed exactly as clamping changes them
    ok = len(diff) <= 2 and all((b[i] == (a[i] & 0xFC)) or (b[i] == (a[i] | 0x80)) for i in diff)
    return ok and "wl=ok" in imp


def _v6count(case, mout):
    if case.get("op") != "canon" or case["args"][0] not in ("5", "7"):
        return False
    imp = str(case.get("impl", ""))
    if not imp.startswith("DIFFERENT ") or "wl=ok" not in imp:
        return False
    a = bytes.fromhex(case["rp"][1]); b = bytes.fromhex(imp.split(" ")[1])
    if len(a) != len(b):
        return False
    hl = 2 if a[1] < 192 else (3 if a[1] < 224 else 6)
    if a[hl] != 6:
        return False
    diff = [i for i in range(len(a)) if a[i] != b[i]]
    if len(diff) != 1:
        return False
    i = diff[0]
    if a[i - 1] == 253:
        return i + 2 < len(a) and a[i + 2] not in (1, 2, 3)
    if a[i - 1] == 254:
        return i + 1 < len(a) and a[i + 1] not in (1, 2, 3, 4, 7, 8, 9, 10, 11, 12, 13)
    return False

KNOWN = {"trust-packet-body-dropped": _trust, "x448-secret-clamped": _x448, "v6-secret-count-with-unknown-algorithm": _v6count}
