"""C01: message round trip."""
BIN = "c01"

def expected(case, mout):
    return mout

def nontrivial(case, mout):
    return bool(case.get("op")) or case.get("pred") is True

RULE = ("random configurations (quick 260, thorough 900) over: source bytes / reader with a random read schedule; data mode b / u; three file names; partial chunk size 2^9..2^14 (thorough 2^20) "
        "or default; compression none / ZIP / ZLIB / BZip2 / uncompressed-packet; 0..3 signers of 5 keys (EdDSA legacy, Ed25519 v6, ECDSA P-256, RSA, Ed448 v6), binary or text; no encryption / "
        "SEIPD v1 x 11 ciphers / SEIPD v2 x {EAX, OCB, GCM} x AES-128/192/256 x chunk-size octets {0,1,2,4,6,7,8}; 1..2 passwords, 0..2 public keys, anonymous or not; armor on/off x checksum. "
        "For each: payload sizes 0, 1, 2, 511..513, 8191..8193, the partial-chunk boundaries P-h-2..P-h+1, P-2..P+1, 2P.., the AEAD chunk boundaries kC-1..kC+1 (k=1..3), two random sizes. "
        "Library: read back with EACH recipient secret alone, uneven read sizes: payload, file name, every signature. Model: the reader of Msg/Pipeline.v (the function the theorems are about) "
        "over the same octets with the stack described by the configuration and the session key recovered through a password. non-trivial = distinct cases where the library and the model return the payload")
TRUSTED = [
    "model files: coq/theories/Msg/Pipeline.v over Frame/Framing.v, Aead/Seipd2.v, Sym/Cfb.v, Armor/Armor.v; theorems coq/theories/Props/C01.v (stack theorem for any number of layers + each RFC layer + one full configuration spelled out)",
    "explicit premises of the theorems: the compressor's decomp(comp x) = x, the AEAD's open(seal x) = x and ciphertext length, the block cipher's block size, SHA-1's output size; answered at run time by the primitive oracle",
    "signature packets are opaque framed packets to this model (their verification is C06 / C02)",
    "modelled rather than verified: MessageBuilder layering, the partial-body emitters, the message parser and nested readers",
]
ASSUMPTIONS = ["messages above 40 KB are read by the library only (not sent through the model)", "file source kind is not exercised (reader and bytes are)"]

def _name(case, mout):
    return str(case.get("impl", "")).startswith("FILE-NAME-DROPPED")


def _skesk4(case, mout):
    # identified by the circumstance the harness established from the packets (one password opens another recipient's
    # SKESK v4 to a different plausible key) and by WHERE every failing secret failed (decryption refused), never by the
    # wording of an error
    imp = str(case.get("impl", ""))
    if not imp.startswith("SKESK4-PASSWORD-OPENS-OTHER-PACKET: "):
        return False
    parts = imp[len("SKESK4-PASSWORD-OPENS-OTHER-PACKET: "):].split(" | ")
    # (a secret that did get the payload and the signatures but not the file name is the other finding, builder-drops-file-name)
    def refused_or_name_only(p):
        return ": DECRYPT-REFUSED " in p or ("payload-equal=true" in p and "signatures-verify=true" in p)
    return any(": DECRYPT-REFUSED " in p for p in parts) and all(refused_or_name_only(p) for p in parts) and " enc=1 " in case["rp"][1] and " npw=2 " in case["rp"][1]

KNOWN = {"builder-drops-file-name": _name, "skesk4-other-password-plausible-key": _skesk4}
