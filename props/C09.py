"""C09: streaming transparency."""
BIN = "c09"

def expected(case, mout):
    return mout

def nontrivial(case, mout):
    return bool(case.get("op")) or case.get("pred") is True

RULE = ("1: util::fill_buffer against the model for every composition of inputs of 0..6 octets x requested sizes x no fault / a fault at every call. 2: MessageBuilder for 12 (thorough 24) "
        "configurations (no encryption / SEIPD v1 / SEIPD v2) x (compression) x (signature, text mode) x (armor) and payload sizes on the partial-chunk, AEAD-chunk and buffer edges: source "
        "schedules (1 octet at a time, straddling, random, every composition for tiny inputs) x sink schedules give identical octets; the reader under source schedules x {read_to_end, read with "
        "request sizes, BufRead} gives the identical payload and signature verdict; a fault injected at every call of the builder's source, the builder's sink and the reader's source is "
        "reported as an error (or was never reached and the result is complete and right) - never a clean shorter result. 3: the CFB and AEAD stream encryptors driven by read() with any "
        "request sizes equal read_to_end. 4: armor::write with a sink fault at every call including the final flush. non-trivial = cases whose verdict holds")
TRUSTED = [
    "model file: coq/theories/Io/Fill.v (fill loop, consumer, block pump); theorems coq/theories/Props/C09.v; the chunking theorems of the concrete stateful transformers are C14 (normalising hasher / reader for every chunking and window size), C10 (armor reader) and C03 (streaming decryptor refines one-shot)",
    "only util::fill_buffer is compared with the model octet for octet; for the composed readers and writers schedule independence and fault surfacing are checked by enumeration / adversarial schedules, not proved",
]
ASSUMPTIONS = ["one fault per run (single fault points)"]
KNOWN = {}
