"""C09: streaming transparency."""
BIN = "c09"

def expected(case, mout):
    return mout

def nontrivial(case, mout):
    return bool(case.get("op")) or case.get("pred") is True

RULE = ("1: util::fill_buffer against the model for every composition of inputs of 0..6 octets x requested sizes x no fault / a fault at every call. 1b: armor::read_from_buf (hook "
        "armor_read_from_buf_line) against the model's loop (Io/Reassemble.v): a one-line parser deciding 0 / 1 / 2 octets late over every cutting of 14 short streams, with and without the "
        "size limit in reach; for the parsers that meet the contract every cutting must give what one piece gives; the contract of theorem C09_reassembly_is_whole_parse is checked on the real "
        "armor::header_parser over every prefix of 420 (quick: 140) armor / cleartext openings. 2: MessageBuilder for 12 (thorough 24) "
        "configurations (no encryption / SEIPD v1 / SEIPD v2) x (compression) x (signature, text mode) x (armor) and payload sizes on the partial-chunk, AEAD-chunk and buffer edges: source "
        "schedules (1 octet at a time, straddling, random, every composition for tiny inputs) x sink schedules give identical octets; the reader under source schedules x {read_to_end, read with "
        "request sizes, BufRead} gives the identical payload and signature verdict; a fault injected at every call of the builder's source, the builder's sink and the reader's source is "
        "reported as an error (or was never reached and the result is complete and right) - never a clean shorter result. 2e: utf8-mode literals built from a reader over 18 short texts (legal, with bare LFs, multi-octet characters, ill-formed UTF-8) under every composition: accepted / refused and written as one read is, and the verdict is the one of the model readers Io/Utf8Check.v and Io/CrLfCheck.v run over the same cutting. 2b+: a consumer that reads into an empty buffer before every read (Ok(0), nothing changes; fix 63f292e), compared with the model's message reader Msg/ReadEnd.v over the same requests. 3: the CFB and AEAD stream encryptors driven by read() with any "
        "request sizes equal read_to_end. 4: armor::write with a sink fault at every call including the final flush. non-trivial = cases whose verdict holds")
TRUSTED = [
    "model file: coq/theories/Io/Fill.v (fill loop, consumer, block pump); theorems coq/theories/Props/C09.v; the chunking theorems of the concrete stateful transformers are C14 (normalising hasher / reader for every chunking and window size), C10 (armor reader) and C03 (streaming decryptor refines one-shot)",
    "state-machine models with request-/chunking-independence theorems: Armor/LineWriter.v, Armor/B64Reader.v, Sym/Seipd1Machine.v, Aead/Seipd2Machine.v, Frame/BodyReader.v (readers), Io/Emitter.v with "
    "Sym/Seipd1EncMachine.v, Aead/Seipd2EncMachine.v, Frame/PartialWriter.v (staged producers); their octet-for-octet comparison with the library runs under C03, C12, C17 and here (LineWriter)",
    "Io/Reassemble.v (armor::read_from_buf) is compared octet for octet through the hook; that armor::header_parser meets the theorem's contract is checked on prefixes, not proved (nom parser, not modelled); footer_parser is private and only exercised through Dearmor under schedules (C10)",
    "for the remaining composed readers and writers (compression, signature hashing readers, builder generators other than the literal one) schedule independence and fault surfacing are checked by enumeration / adversarial schedules, not proved",
]
ASSUMPTIONS = ["one fault per run (single fault points)", "Io/Utf8Check.v char_len is a transcription of the well-formedness table core::str::from_utf8 implements (Unicode table 3-7); compared through the builder on short texts only"]
KNOWN = {}
