"""C06: signature completeness."""
BIN = "c06"

def expected(case, mout):
    # the harness prints "<canonical text> <matrix result>"; every entry of the matrix must be ok
    if case.get("op") == "canon":
        n = case["impl"].split(" ", 1)
        return mout + " " + (n[1] if len(n) > 1 and n[1].startswith("all ") else "all ok")
    return mout

def nontrivial(case, mout):
    return True

RULE = ("sign interfaces {DetachedSignature::sign_{text,binary}_data, SignatureConfig::into_hasher over a random chunking, MessageBuilder from bytes / from a scheduled reader (one-pass), "
        "CleartextSignedMessage::sign} x verify interfaces {Signature::verify over a slice / a scheduled reader / the CRLF form, after bytes and armor round trips, Message read + verify (binary and armored), "
        "cleartext verify directly / after armor / as an ordinary text signature over signed_text()}: every applicable pair, for every payload over {CR,LF,x} up to length 5 (7 thorough) with v4 and v6 Ed25519 keys, "
        "random payloads over {CR,LF,TAB,SP,'-',multi-byte UTF-8,NUL,x} with Ed25519Legacy, Ed25519, ECDSA P-256, RSA-2048, Ed448; 2 and 3 signers (each key verifies exactly one signature)")
TRUSTED = [
    "theorems coq/theories/Props/C06.v (Sig/Complete.v) over the C14 / C16 / C11 models: every signing path and every verifying path hash the same subject octets; acceptance then follows from vrfy(sign d) = true",
    "real keys and signature primitives through the library; serialisation of the signature packet is C05's subject (exercised here by the bytes/armor round trips)",
]
ASSUMPTIONS = ["texts ending in a lone CR are excluded from the cleartext column (recorded finding csf-text-ends-with-cr, C16)"]
KNOWN = {}
