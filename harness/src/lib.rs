//! Shared pieces of the correspondence harness: PRNG, hex, scheduled readers
//! and writers, case output, panic capture.

use std::io::{self, BufRead, Read, Write};
use std::panic::{catch_unwind, AssertUnwindSafe};

pub mod keys;

/// SplitMix64: every random choice in the harness derives from one of these.
#[derive(Clone)]
pub struct Rng(pub u64);

impl Rng {
    pub fn new(seed: u64) -> Self {
        Rng(seed ^ 0x9E37_79B9_7F4A_7C15)
    }
    pub fn next(&mut self) -> u64 {
        self.0 = self.0.wrapping_add(0x9E37_79B9_7F4A_7C15);
        let mut z = self.0;
        z = (z ^ (z >> 30)).wrapping_mul(0xBF58_476D_1CE4_E5B9);
        z = (z ^ (z >> 27)).wrapping_mul(0x94D0_49BB_1331_11EB);
        z ^ (z >> 31)
    }
    /// uniform in 0..n (n > 0)
    pub fn below(&mut self, n: u64) -> u64 {
        self.next() % n
    }
    pub fn range(&mut self, lo: u64, hi_incl: u64) -> u64 {
        lo + self.below(hi_incl - lo + 1)
    }
    pub fn bytes(&mut self, n: usize) -> Vec<u8> {
        (0..n).map(|_| self.next() as u8).collect()
    }
    pub fn pick<'a, T>(&mut self, xs: &'a [T]) -> &'a T {
        &xs[self.below(xs.len() as u64) as usize]
    }
    pub fn chance(&mut self, num: u64, den: u64) -> bool {
        self.below(den) < num
    }
    /// a random composition of n into positive parts
    pub fn composition(&mut self, n: usize) -> Vec<usize> {
        let mut out = Vec::new();
        let mut left = n;
        while left > 0 {
            let k = self.range(1, left as u64) as usize;
            out.push(k);
            left -= k;
        }
        out
    }
}

impl rand::RngCore for Rng {
    fn next_u32(&mut self) -> u32 {
        self.next() as u32
    }
    fn next_u64(&mut self) -> u64 {
        self.next()
    }
    fn fill_bytes(&mut self, dest: &mut [u8]) {
        for b in dest.iter_mut() {
            *b = self.next() as u8;
        }
    }
    fn try_fill_bytes(&mut self, dest: &mut [u8]) -> Result<(), rand::Error> {
        self.fill_bytes(dest);
        Ok(())
    }
}
impl rand::CryptoRng for Rng {}

pub fn hx(b: &[u8]) -> String {
    if b.is_empty() {
        "-".to_string()
    } else {
        hex::encode(b)
    }
}

pub fn unhx(s: &str) -> Vec<u8> {
    if s == "-" {
        Vec::new()
    } else {
        hex::decode(s).expect("hex")
    }
}

pub fn hxs(chunks: &[Vec<u8>]) -> String {
    if chunks.is_empty() {
        "_".to_string()
    } else {
        chunks.iter().map(|c| hx(c)).collect::<Vec<_>>().join(",")
    }
}

pub fn nums(xs: &[usize]) -> String {
    if xs.is_empty() {
        "_".to_string()
    } else {
        xs.iter().map(|x| x.to_string()).collect::<Vec<_>>().join(",")
    }
}

/// Split `data` according to `sizes` (the last chunk takes the rest).
pub fn split_by(data: &[u8], sizes: &[usize]) -> Vec<Vec<u8>> {
    let mut out = Vec::new();
    let mut pos = 0;
    for &s in sizes {
        if pos >= data.len() {
            break;
        }
        let e = (pos + s).min(data.len());
        out.push(data[pos..e].to_vec());
        pos = e;
    }
    if pos < data.len() {
        out.push(data[pos..].to_vec());
    }
    out
}

/// All compositions of n (as lists of part sizes); 2^(n-1) of them.
pub fn all_compositions(n: usize) -> Vec<Vec<usize>> {
    if n == 0 {
        return vec![vec![]];
    }
    let mut out = Vec::new();
    for mask in 0u32..(1u32 << (n - 1)) {
        let mut parts = Vec::new();
        let mut cur = 1;
        for i in 0..n - 1 {
            if mask & (1 << i) != 0 {
                parts.push(cur);
                cur = 1;
            } else {
                cur += 1;
            }
        }
        parts.push(cur);
        out.push(parts);
    }
    out
}

/// A source that hands out at most `sched[i]` octets on its i-th call (cycling
/// through `sched`; 0 or an empty schedule means "as much as asked"), and fails
/// once, at call number `fault_at`.
#[derive(Debug)]
pub struct SchedReader {
    pub data: Vec<u8>,
    pub pos: usize,
    pub sched: Vec<usize>,
    pub calls: usize,
    pub fault_at: Option<usize>,
    pub faulted: bool,
    pub fault_kind: io::ErrorKind,
}

impl SchedReader {
    pub fn new(data: Vec<u8>, sched: Vec<usize>) -> Self {
        SchedReader { data, pos: 0, sched, calls: 0, fault_at: None, faulted: false, fault_kind: io::ErrorKind::Other }
    }
    pub fn with_fault(mut self, at: Option<usize>) -> Self {
        self.fault_at = at;
        self
    }
    pub fn with_fault_kind(mut self, k: io::ErrorKind) -> Self {
        self.fault_kind = k;
        self
    }
    fn quota(&mut self) -> io::Result<usize> {
        let k = self.calls;
        self.calls += 1;
        if self.fault_at == Some(k) {
            self.faulted = true;
            return Err(io::Error::new(self.fault_kind, "injected source fault"));
        }
        if self.sched.is_empty() {
            return Ok(usize::MAX);
        }
        let q = self.sched[k % self.sched.len()];
        Ok(if q == 0 { usize::MAX } else { q })
    }
}

impl Read for SchedReader {
    fn read(&mut self, buf: &mut [u8]) -> io::Result<usize> {
        if buf.is_empty() {
            return Ok(0);
        }
        let q = self.quota()?;
        let n = buf.len().min(q).min(self.data.len() - self.pos);
        buf[..n].copy_from_slice(&self.data[self.pos..self.pos + n]);
        self.pos += n;
        Ok(n)
    }
}

/// BufRead flavour: fill_buf exposes at most the scheduled number of octets.
#[derive(Debug)]
pub struct SchedBufReader {
    pub inner: SchedReader,
    window: usize,
}

impl SchedBufReader {
    pub fn new(data: Vec<u8>, sched: Vec<usize>) -> Self {
        SchedBufReader { inner: SchedReader::new(data, sched), window: 0 }
    }
    pub fn with_fault(mut self, at: Option<usize>) -> Self {
        self.inner.fault_at = at;
        self
    }
    pub fn with_fault_kind(mut self, k: io::ErrorKind) -> Self {
        self.inner.fault_kind = k;
        self
    }
}

impl Read for SchedBufReader {
    fn read(&mut self, buf: &mut [u8]) -> io::Result<usize> {
        let n = {
            let avail = self.fill_buf()?;
            let n = avail.len().min(buf.len());
            buf[..n].copy_from_slice(&avail[..n]);
            n
        };
        self.consume(n);
        Ok(n)
    }
}

impl BufRead for SchedBufReader {
    fn fill_buf(&mut self) -> io::Result<&[u8]> {
        if self.window == 0 {
            let q = self.inner.quota()?;
            self.window = q.min(self.inner.data.len() - self.inner.pos);
        }
        Ok(&self.inner.data[self.inner.pos..self.inner.pos + self.window])
    }
    fn consume(&mut self, amt: usize) {
        let amt = amt.min(self.window);
        self.inner.pos += amt;
        self.window -= amt;
    }
}

/// A sink that accepts at most `sched[i]` octets on its i-th write and fails
/// once at call `fault_at` (writes and flushes are both counted as calls).
pub struct SchedWriter {
    pub acc: Vec<u8>,
    pub sched: Vec<usize>,
    pub calls: usize,
    pub fault_at: Option<usize>,
    pub faulted: bool,
}

impl SchedWriter {
    pub fn new(sched: Vec<usize>, fault_at: Option<usize>) -> Self {
        SchedWriter { acc: Vec::new(), sched, calls: 0, fault_at, faulted: false }
    }
}

impl Write for SchedWriter {
    fn write(&mut self, buf: &[u8]) -> io::Result<usize> {
        let k = self.calls;
        self.calls += 1;
        if self.fault_at == Some(k) {
            self.faulted = true;
            return Err(io::Error::other("injected sink fault"));
        }
        if buf.is_empty() {
            return Ok(0);
        }
        let q = if self.sched.is_empty() { usize::MAX } else { self.sched[k % self.sched.len()] };
        let q = if q == 0 { usize::MAX } else { q };
        let n = buf.len().min(q);
        self.acc.extend_from_slice(&buf[..n]);
        Ok(n)
    }
    fn flush(&mut self) -> io::Result<()> {
        let k = self.calls;
        self.calls += 1;
        if self.fault_at == Some(k) {
            self.faulted = true;
            return Err(io::Error::other("injected sink fault"));
        }
        Ok(())
    }
}

/// Drive a reader with requested sizes `reqs` (cycling); stop at the first
/// error or at the first Ok(0). Returns (octets delivered, Ok/Err text).
pub fn consume_read<R: Read>(mut r: R, reqs: &[usize]) -> (Vec<u8>, Result<(), String>) {
    let mut out = Vec::new();
    let mut i = 0usize;
    let mut buf = vec![0u8; 1 << 16];
    loop {
        let want = if reqs.is_empty() { buf.len() } else { reqs[i % reqs.len()].clamp(1, buf.len()) };
        i += 1;
        match r.read(&mut buf[..want]) {
            Ok(0) => return (out, Ok(())),
            Ok(n) => out.extend_from_slice(&buf[..n]),
            Err(e) => return (out, Err(e.to_string())),
        }
        if i > 50_000_000 {
            return (out, Err("harness: too many reads".into()));
        }
    }
}

/// like `consume_read`, with a read into an empty buffer before every read: that asks for nothing, must give Ok(0) and must
/// leave the reader as it was
pub fn consume_read_with_empty<R: Read>(mut r: R, reqs: &[usize]) -> (Vec<u8>, Result<(), String>) {
    let mut out = Vec::new();
    let mut i = 0usize;
    let mut buf = vec![0u8; 1 << 16];
    loop {
        match r.read(&mut buf[..0]) {
            Ok(0) => {}
            Ok(n) => return (out, Err(format!("EMPTY-READ-GAVE-OCTETS: {n}"))),
            Err(e) => return (out, Err(format!("EMPTY-READ-FAILED: {e}"))),
        }
        let want = if reqs.is_empty() { buf.len() } else { reqs[i % reqs.len()].clamp(1, buf.len()) };
        i += 1;
        match r.read(&mut buf[..want]) {
            Ok(0) => return (out, Ok(())),
            Ok(n) => out.extend_from_slice(&buf[..n]),
            Err(e) => return (out, Err(e.to_string())),
        }
        if i > 50_000_000 {
            return (out, Err("harness: too many reads".into()));
        }
    }
}

pub fn consume_to_end<R: Read>(mut r: R) -> (Vec<u8>, Result<(), String>) {
    let mut out = Vec::new();
    match r.read_to_end(&mut out) {
        Ok(_) => (out, Ok(())),
        Err(e) => (out, Err(e.to_string())),
    }
}

pub fn consume_bufread<R: BufRead>(mut r: R, amts: &[usize]) -> (Vec<u8>, Result<(), String>) {
    let mut out = Vec::new();
    let mut i = 0usize;
    loop {
        let n = match r.fill_buf() {
            Ok(b) => {
                if b.is_empty() {
                    return (out, Ok(()));
                }
                let m = if amts.is_empty() { b.len() } else { amts[i % amts.len()].clamp(1, b.len()) };
                out.extend_from_slice(&b[..m]);
                m
            }
            Err(e) => return (out, Err(e.to_string())),
        };
        r.consume(n);
        i += 1;
        if i > 50_000_000 {
            return (out, Err("harness: too many reads".into()));
        }
    }
}

/// Run `f`, turning a panic into Err("PANIC: ...").
pub fn guarded<T>(f: impl FnOnce() -> T) -> Result<T, String> {
    match catch_unwind(AssertUnwindSafe(f)) {
        Ok(v) => Ok(v),
        Err(p) => {
            let msg = if let Some(s) = p.downcast_ref::<&str>() {
                s.to_string()
            } else if let Some(s) = p.downcast_ref::<String>() {
                s.clone()
            } else {
                "unknown panic".to_string()
            };
            Err(format!("PANIC: {msg}"))
        }
    }
}

thread_local! { static LAST_PANIC_FILE: std::cell::RefCell<String> = std::cell::RefCell::new(String::new()); }

/// The source file of the last panic caught on this thread (set by the hook of `quiet_panics`), cleared by reading.
pub fn take_panic_file() -> String { LAST_PANIC_FILE.with(|c| std::mem::take(&mut *c.borrow_mut())) }

pub fn quiet_panics() {
    let loud = std::env::var("VERIF_LOUD").is_ok();
    let default = std::panic::take_hook();
    std::panic::set_hook(Box::new(move |info| {
        let file = info.location().map(|l| l.file().to_string()).unwrap_or_default();
        LAST_PANIC_FILE.with(|c| *c.borrow_mut() = file);
        if loud { default(info); }
    }));
}

/// Output: one JSON object per line on stdout.
pub struct Out {
    pub n: u64,
    w: io::BufWriter<io::Stdout>,
}

impl Default for Out {
    fn default() -> Self {
        Self::new()
    }
}

impl Out {
    pub fn new() -> Self {
        Out { n: 0, w: io::BufWriter::new(io::stdout()) }
    }
    /// `op`/`args`: the model query (None: no model query for this case);
    /// `imp`: what the library did, canonicalised; `pred`: the property's
    /// direct predicate on the library alone (None: not applicable);
    /// `cls`: class label for distribution statistics.
    /// `rp`: argv for `<bin> replay ...` reproducing this case (empty: op + args).
    pub fn case(
        &mut self,
        op: &str,
        args: &[String],
        rp: &[String],
        imp: &str,
        pred: Option<bool>,
        cls: &str,
    ) {
        let v = serde_json::json!({
            "id": self.n, "op": op, "args": args, "rp": rp, "impl": imp, "pred": pred, "cls": cls
        });
        writeln!(self.w, "{}", v).expect("stdout");
        self.n += 1;
    }
    pub fn finish(mut self) {
        self.w.flush().expect("flush");
    }
}

/// Command-line convention of every harness binary:
///   <bin> gen <tier> <seed>          generate cases and run them
///   <bin> replay <op> <args...>      run one case
pub struct Cli {
    pub mode: String,
    pub tier: String,
    pub seed: u64,
    pub rest: Vec<String>,
}

pub fn cli() -> Cli {
    let a: Vec<String> = std::env::args().collect();
    let mode = a.get(1).cloned().unwrap_or_else(|| "gen".into());
    if mode == "gen" {
        Cli {
            mode,
            tier: a.get(2).cloned().unwrap_or_else(|| "quick".into()),
            seed: a.get(3).and_then(|s| s.parse().ok()).unwrap_or(1),
            rest: a.get(4..).map(|s| s.to_vec()).unwrap_or_default(),
        }
    } else {
        Cli { mode, tier: "quick".into(), seed: 0, rest: a[2..].to_vec() }
    }
}
