//! Keys for the harness: seeded generation and a recording key that exposes
//! the digest the library hands to the public-key primitive.

use std::cell::RefCell;

use pgp::composed::{KeyType, SecretKeyParamsBuilder, SignedSecretKey};
use pgp::crypto::hash::HashAlgorithm;
use pgp::crypto::public_key::PublicKeyAlgorithm;
use pgp::packet::PublicKey;
use pgp::types::{
    Fingerprint, KeyDetails, KeyId, KeyVersion, Mpi, Password, PublicParams, SignatureBytes,
    SigningKey, Timestamp, VerifyingKey,
};

use crate::Rng;

pub fn gen_key(version: KeyVersion, kt: KeyType, seed: u64) -> SignedSecretKey {
    let mut p = SecretKeyParamsBuilder::default();
    p.version(version)
        .key_type(kt)
        .can_certify(true)
        .can_sign(true)
        .primary_user_id("verif <verif@example.org>".into());
    let params = p.build().expect("key params");
    params.generate(Rng::new(seed)).expect("keygen")
}

/// A key whose "signature" over a digest is the digest itself and whose
/// verification succeeds iff the presented signature equals the digest it is
/// asked to check. Every digest seen is logged. It carries the identity
/// (version, fingerprint, algorithm, parameters, serialisation) of a real
/// primary key or subkey.
#[derive(Debug)]
pub enum KeyKind {
    Primary(PublicKey),
    Sub(pgp::packet::PublicSubkey),
}

#[derive(Debug)]
pub struct RecKey {
    pub inner: KeyKind,
    pub log: RefCell<Vec<Vec<u8>>>,
}

impl RecKey {
    pub fn new(inner: PublicKey) -> Self {
        RecKey { inner: KeyKind::Primary(inner), log: RefCell::new(Vec::new()) }
    }
    pub fn new_sub(sub: pgp::packet::PublicSubkey) -> Self {
        RecKey { inner: KeyKind::Sub(sub), log: RefCell::new(Vec::new()) }
    }
    pub fn sign_raw(&self, digest: &[u8]) -> Option<SignatureBytes> {
        Some(encode(self.algorithm(), digest))
    }
    pub fn last(&self) -> Option<Vec<u8>> {
        self.log.borrow().last().cloned()
    }
    pub fn clear(&self) {
        self.log.borrow_mut().clear();
    }
}

macro_rules! delegate {
    ($self:ident, $m:ident) => {
        match &$self.inner { KeyKind::Primary(k) => k.$m(), KeyKind::Sub(k) => k.$m() }
    };
}

impl KeyDetails for RecKey {
    fn version(&self) -> KeyVersion { delegate!(self, version) }
    fn legacy_key_id(&self) -> KeyId { delegate!(self, legacy_key_id) }
    fn fingerprint(&self) -> Fingerprint { delegate!(self, fingerprint) }
    fn algorithm(&self) -> PublicKeyAlgorithm { delegate!(self, algorithm) }
    fn created_at(&self) -> Timestamp { delegate!(self, created_at) }
    fn legacy_v3_expiration_days(&self) -> Option<u16> { delegate!(self, legacy_v3_expiration_days) }
    fn public_params(&self) -> &PublicParams { delegate!(self, public_params) }
}

/// shape of a parseable signature value per algorithm
enum Shape { Native(usize), TwoMpis, OneMpi }

fn shape(alg: PublicKeyAlgorithm) -> Shape {
    match alg {
        PublicKeyAlgorithm::Ed25519 => Shape::Native(64),
        PublicKeyAlgorithm::Ed448 => Shape::Native(114),
        PublicKeyAlgorithm::EdDSALegacy | PublicKeyAlgorithm::ECDSA | PublicKeyAlgorithm::DSA => Shape::TwoMpis,
        _ => Shape::OneMpi,
    }
}

/// the digest as the octets of a fake signature (fixed width, never starting with 0)
fn encode(alg: PublicKeyAlgorithm, data: &[u8]) -> SignatureBytes {
    match shape(alg) {
        Shape::Native(n) => {
            let mut v = data.to_vec();
            v.resize(n, 0xAA);
            SignatureBytes::Native(v.into())
        }
        Shape::TwoMpis => {
            let h = data.len() / 2;
            let mut r = vec![1u8]; r.extend_from_slice(&data[..h]);
            let mut s = vec![1u8]; s.extend_from_slice(&data[h..]);
            SignatureBytes::Mpis(vec![Mpi::from_slice(&r), Mpi::from_slice(&s)])
        }
        Shape::OneMpi => {
            let mut r = vec![1u8]; r.extend_from_slice(data);
            SignatureBytes::Mpis(vec![Mpi::from_slice(&r)])
        }
    }
}

impl SigningKey for RecKey {
    fn sign(&self, _pw: &Password, _hash: HashAlgorithm, data: &[u8]) -> pgp::errors::Result<SignatureBytes> {
        self.log.borrow_mut().push(data.to_vec());
        Ok(encode(self.algorithm(), data))
    }
    fn hash_alg(&self) -> HashAlgorithm {
        HashAlgorithm::Sha256
    }
}

impl VerifyingKey for RecKey {
    fn verify(&self, _hash: HashAlgorithm, data: &[u8], sig: &SignatureBytes) -> pgp::errors::Result<()> {
        self.log.borrow_mut().push(data.to_vec());
        let want = encode(self.algorithm(), data);
        let same = match (sig, &want) {
            (SignatureBytes::Native(a), SignatureBytes::Native(b)) => a == b,
            (SignatureBytes::Mpis(a), SignatureBytes::Mpis(b)) => {
                a.len() == b.len() && a.iter().zip(b.iter()).all(|(x, y)| x.as_ref() == y.as_ref())
            }
            _ => false,
        };
        if same {
            Ok(())
        } else {
            Err(pgp::errors::Error::from(std::io::Error::other("recording key: digest mismatch")))
        }
    }
}

impl pgp::ser::Serialize for RecKey {
    fn to_writer<W: std::io::Write>(&self, w: &mut W) -> pgp::errors::Result<()> {
        match &self.inner { KeyKind::Primary(k) => k.to_writer(w), KeyKind::Sub(k) => k.to_writer(w) }
    }
    fn write_len(&self) -> usize {
        match &self.inner { KeyKind::Primary(k) => k.write_len(), KeyKind::Sub(k) => k.write_len() }
    }
}

/// key with one encryption subkey (v4: Ed25519Legacy + ECDH Curve25519; v6: Ed25519 + X25519)
pub fn gen_key_with_subkey(version: KeyVersion, seed: u64) -> SignedSecretKey {
    use pgp::composed::{EncryptionCaps, SubkeyParamsBuilder};
    use pgp::crypto::ecc_curve::ECCCurve;
    let (pk, sk) = match version {
        KeyVersion::V6 => (KeyType::Ed25519, KeyType::X25519),
        _ => (KeyType::Ed25519Legacy, KeyType::ECDH(ECCCurve::Curve25519Legacy)),
    };
    let mut sub = SubkeyParamsBuilder::default();
    sub.version(version).key_type(sk).can_encrypt(EncryptionCaps::All);
    let mut p = SecretKeyParamsBuilder::default();
    p.version(version)
        .key_type(pk)
        .can_certify(true)
        .can_sign(true)
        .primary_user_id("verif <verif@example.org>".into())
        .subkeys(vec![sub.build().expect("subkey params")]);
    p.build().expect("key params").generate(Rng::new(seed)).expect("keygen")
}
