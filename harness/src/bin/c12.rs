//! C12: symmetric and KDF constructions match RFC 9580 (interoperable ciphertext).
use std::io::Read;

use pgp::crypto::aead::{AeadAlgorithm, ChunkSize, StreamDecryptor as AeadDecryptor};
use pgp::crypto::ecc_curve::ECCCurve;
use pgp::crypto::hash::HashAlgorithm;
use pgp::crypto::sym::SymmetricKeyAlgorithm;
use pgp::packet::SymKeyEncryptedSessionKey;
use pgp::composed::RawSessionKey;
use pgp::types::{Password, StringToKey};
use vh::*;

fn sym_of(n: u8) -> SymmetricKeyAlgorithm { SymmetricKeyAlgorithm::from(n) }
fn hash_of(n: u8) -> HashAlgorithm { HashAlgorithm::from(n) }
fn key_len(sym: u8) -> usize { match sym { 1 | 3 | 4 | 7 | 11 => 16, 2 | 8 | 12 => 24, _ => 32 } }
fn blk_len(sym: u8) -> usize { match sym { 7..=13 => 16, _ => 8 } }

struct Ctx { out: Out, rng: Rng }

fn res<T>(r: Result<Result<T, String>, String>, f: impl Fn(T) -> String) -> String {
    match r { Ok(Ok(v)) => f(v), Ok(Err(_)) => "ERR".into(), Err(p) => p }
}

impl Ctx {
    fn s2k(&mut self, typ: u8, hash: u8, salt: &[u8; 8], coded: u8, pw: &[u8], ks: usize, cls: &str) {
        let s = match typ {
            0 => StringToKey::Simple { hash_alg: hash_of(hash) },
            1 => StringToKey::Salted { hash_alg: hash_of(hash), salt: *salt },
            _ => StringToKey::IteratedAndSalted { hash_alg: hash_of(hash), salt: *salt, count: coded },
        };
        let imp = res(guarded(|| s.derive_key(pw, ks).map(|k| k.as_ref().to_vec()).map_err(|e| e.to_string())), |k| hx(&k));
        self.out.case("s2k", &[typ.to_string(), hash.to_string(), hx(salt), coded.to_string(), hx(pw), ks.to_string()], &[], &imp, None, cls);
    }
    fn argon2(&mut self, t: u8, p: u8, m: u8, salt: &[u8; 16], pw: &[u8], ks: usize, cls: &str) {
        let s = StringToKey::Argon2 { salt: *salt, t, p, m_enc: m };
        let imp = res(guarded(|| s.derive_key(pw, ks).map(|k| k.as_ref().to_vec()).map_err(|e| e.to_string())), |k| hx(&k));
        self.out.case("argon2", &[t.to_string(), p.to_string(), m.to_string(), hx(salt), hx(pw), ks.to_string()], &[], &imp, None, cls);
    }
    fn kw(&mut self, kek: &[u8], data: &[u8], cls: &str) {
        let w = guarded(|| pgp::crypto::aes_kw::wrap(kek, data).map_err(|e| e.to_string()));
        let imp = res(w.clone(), |v| hx(&v));
        let back = match &w { Ok(Ok(c)) => matches!(guarded(|| pgp::crypto::aes_kw::unwrap(kek, c).map(|v| v.to_vec())), Ok(Ok(ref d)) if d == data), _ => true };
        self.out.case("kwwrap", &[hx(kek), hx(data)], &[], &imp, Some(back), cls);
        if let Ok(Ok(c)) = w {
            // unwrap of the wrapped value and of a corrupted one
            let u = res(guarded(|| pgp::crypto::aes_kw::unwrap(kek, &c).map(|v| v.to_vec()).map_err(|e| e.to_string())), |v| format!("OK {}", hx(&v)));
            self.out.case("kwunwrap", &[hx(kek), hx(&c)], &[], &u, None, cls);
            let mut bad = c.clone(); let i = self.rng.below(bad.len() as u64) as usize; bad[i] ^= 1 << self.rng.below(8);
            let u = res(guarded(|| pgp::crypto::aes_kw::unwrap(kek, &bad).map(|v| v.to_vec()).map_err(|e| e.to_string())), |v| format!("OK {}", hx(&v)));
            self.out.case("kwunwrap", &[hx(kek), hx(&bad)], &[], &u, Some(u == "ERR"), &format!("{cls}-corrupt"));
        }
    }
    fn ecdh(&mut self, curve: ECCCurve, hash: u8, sym: u8, cls: &str) {
        let oid = curve.oid();
        let fpl = *self.rng.pick(&[20usize, 32]);
        let fp = self.rng.bytes(fpl);
        let zlen = match curve { ECCCurve::P384 => 48, ECCCurve::P521 => 66, _ => 32 };
        let mut z = self.rng.bytes(zlen);
        // shared secrets with leading zero octets (1 in 256 by chance): forced, so they do not wait for luck
        match self.rng.below(4) { 0 => z[0] = 0, 1 => { z[0] = 0; z[1] = 0; } _ => {} }
        let param = pgp::crypto::ecdh::build_ecdh_param(&oid, sym_of(sym), hash_of(hash), &fp);
        self.out.case("ecdhparam", &[hx(&oid), sym.to_string(), hash.to_string(), hx(&fp)], &[], &hx(&param), None, cls);
        let kek = res(guarded(|| pgp::crypto::ecdh::kdf(hash_of(hash), &z, key_len(sym), &param).map_err(|e| e.to_string())), |v| hx(&v));
        self.out.case("ecdhkdf", &[hash.to_string(), hx(&z), key_len(sym).to_string(), hx(&param)], &[], &kek, None, cls);
        if kek == "ERR" || kek.starts_with("PANIC") { return; }
        let kekb = unhx(&kek);
        // session key plaintext of a v3 PKESK: cipher octet, key, checksum; padded to 8 (short) or to 40 (long)
        let sklen = *self.rng.pick(&[16usize, 24, 32]);
        let mut plain = vec![*self.rng.pick(&[7u8, 8, 9])]; plain.extend(self.rng.bytes(sklen));
        let sum: u32 = plain[1..].iter().map(|&b| b as u32).sum(); plain.extend(((sum & 0xffff) as u16).to_be_bytes());
        for long in [false, true] {
            let mut padded = plain.clone();
            let padn = if long { 40 - plain.len() } else { 8 - plain.len() % 8 };
            padded.extend(std::iter::repeat(padn as u8).take(padn));
            let Ok(wrapped) = pgp::crypto::aes_kw::wrap(&kekb, &padded) else { continue; };
            let got = guarded(|| pgp::crypto::ecdh::derive_session_key(&z, &wrapped, wrapped.len(), curve.clone(), hash_of(hash), sym_of(sym), &fp).map(|v| v.to_vec()).map_err(|e| e.to_string()));
            let imp = res(got, |v| format!("OK {}", hx(&v)));
            // model: wraps (short padding: its own pad; long: given padded octets) and unwraps+unpads
            self.out.case("ecdhwrap", &[hx(&oid), hash.to_string(), sym.to_string(), hx(&fp), hx(&z), hx(&plain), (long as u8).to_string(), hx(&wrapped)],
                &[], &imp, Some(imp == format!("OK {}", hx(&plain))), &format!("{cls}-{}", if long { "longpad" } else { "shortpad" }));
        }
    }
    fn xkdf(&mut self, cls: &str) {
        let (e, r, z): ([u8; 32], [u8; 32], [u8; 32]) = (self.rng.bytes(32).try_into().unwrap(), self.rng.bytes(32).try_into().unwrap(), self.rng.bytes(32).try_into().unwrap());
        let k = res(guarded(|| pgp::crypto::x25519::hkdf(&e, &r, &z).map(|v| v.to_vec()).map_err(|e| e.to_string())), |v| hx(&v));
        self.out.case("x25519kdf", &[hx(&e), hx(&r), hx(&z)], &[], &k, None, cls);
        let (e, r, z): ([u8; 56], [u8; 56], [u8; 56]) = (self.rng.bytes(56).try_into().unwrap(), self.rng.bytes(56).try_into().unwrap(), self.rng.bytes(56).try_into().unwrap());
        let k = res(guarded(|| pgp::crypto::x448::hkdf(&e, &r, &z).map(|v| v.to_vec()).map_err(|e| e.to_string())), |v| hx(&v));
        self.out.case("x448kdf", &[hx(&e), hx(&r), hx(&z)], &[], &k, None, cls);
        // wrapped session key through derive_session_key
        let skl = *self.rng.pick(&[16usize, 24, 32]);
        let sk = self.rng.bytes(skl);
        if let Ok(kek) = pgp::crypto::x25519::hkdf(&[1u8; 32], &[2u8; 32], &[3u8; 32]) {
            if let Ok(w) = pgp::crypto::aes_kw::wrap(&*kek, &sk) {
                let got = res(guarded(|| pgp::crypto::x25519::derive_session_key([1u8; 32], [2u8; 32], [3u8; 32], &w).map(|v| v.to_vec()).map_err(|e| e.to_string())), |v| format!("OK {}", hx(&v)));
                self.out.case("x25519unwrap", &[hx(&[1u8; 32]), hx(&[2u8; 32]), hx(&[3u8; 32]), hx(&w)], &[], &got, Some(got == format!("OK {}", hx(&sk))), cls);
            }
        }
    }
    fn skesk(&mut self, sym: u8, aead: u8, s2k_typ: u8, cls: &str) {
        let pwl = self.rng.range(0, 20) as usize;
        let pw = self.rng.bytes(pwl);
        let sk = self.rng.bytes(key_len(sym));
        let salt: [u8; 8] = self.rng.bytes(8).try_into().unwrap();
        let coded = self.rng.range(0, 120) as u8;
        let mk = |typ: u8| match typ { 1 => StringToKey::Salted { hash_alg: HashAlgorithm::Sha256, salt }, _ => StringToKey::IteratedAndSalted { hash_alg: HashAlgorithm::Sha256, salt, count: coded } };
        let s2kargs = vec![s2k_typ.to_string(), "8".to_string(), hx(&salt), coded.to_string()];
        let password = Password::from(&pw[..]);
        // v4
        let r = guarded(|| SymKeyEncryptedSessionKey::encrypt_v4(&password, &RawSessionKey::from(&sk[..]), mk(s2k_typ), sym_of(sym)).map_err(|e| e.to_string()));
        if let Ok(Ok(esk)) = &r {
            let enc = esk.encrypted_key().map(|b| b.to_vec()).unwrap_or_default();
            let mut a = vec![sym.to_string()]; a.extend(s2kargs.clone()); a.push(hx(&pw)); a.push(hx(&sk));
            let key = mk(s2k_typ).derive_key(&pw, key_len(sym)).unwrap();
            let back = guarded(|| esk.decrypt(key.as_ref()).is_ok());
            self.out.case("skesk4", &a, &[], &hx(&enc), Some(matches!(back, Ok(true))), cls);
        } else {
            self.out.case("", &[], &["skesk4".into()], "ERR", Some(false), cls);
        }
        // v6
        if matches!(sym, 7 | 8 | 9) {
            let r = guarded(|| SymKeyEncryptedSessionKey::encrypt_v6(Rng::new(self.rng.0), &password, &RawSessionKey::from(&sk[..]), mk(s2k_typ), sym_of(sym), AeadAlgorithm::from(aead)).map_err(|e| e.to_string()));
            if let Ok(Ok(esk)) = &r {
                let enc = esk.encrypted_key().map(|b| b.to_vec()).unwrap_or_default();
                let iv = match esk { SymKeyEncryptedSessionKey::V6 { aead, .. } => { use pgp::ser::Serialize; let _ = aead; let mut v = Vec::new(); esk.to_writer(&mut v).unwrap(); let ivlen = match aead_id(esk) { 1 => 16, 2 => 15, _ => 12 }; v[v.len() - enc.len() - ivlen..v.len() - enc.len()].to_vec() } _ => vec![] };
                let mut a = vec![sym.to_string(), aead.to_string()]; a.extend(s2kargs.clone()); a.push(hx(&pw)); a.push(hx(&iv)); a.push(hx(&sk));
                let key = mk(s2k_typ).derive_key(&pw, key_len(sym)).unwrap();
                let back = guarded(|| esk.decrypt(key.as_ref()).is_ok());
                self.out.case("skesk6", &a, &[], &hx(&enc), Some(matches!(back, Ok(true))), cls);
            } else {
                self.out.case("", &[], &["skesk6".into()], "ERR", Some(false), cls);
            }
        }
    }
    /// SEIPDv1: library ciphertext = model ciphertext for the same random prefix (recovered by decrypting)
    fn v1(&mut self, sym: u8, n: usize, cls: &str) {
        let key = self.rng.bytes(key_len(sym));
        let plain = self.rng.bytes(n);
        let r = guarded(|| -> Result<Vec<u8>, String> {
            let mut e = sym_of(sym).stream_encryptor(Rng::new(self.rng.0 ^ 77), &key, &plain[..]).map_err(|e| e.to_string())?;
            let mut out = Vec::new(); e.read_to_end(&mut out).map_err(|e| e.to_string())?; Ok(out)
        });
        let Ok(Ok(ct)) = r else { self.out.case("", &[], &["v1enc".into()], "ERR", Some(false), cls); return; };
        // recover the prefix: CFB-decrypt the first bs+2 octets with a zero IV
        let bs = blk_len(sym);
        let mut head = ct[..bs + 2].to_vec();
        let iv = vec![0u8; bs];
        let ok = sym_of(sym).decrypt_with_iv_regular(&key, &iv, &mut head).is_ok();
        let len_ok = ct.len() == sym_of(sym).encrypted_protected_len(n);
        self.out.case("v1enc", &[sym.to_string(), hx(&key), hx(&head), hx(&plain)], &[], &hx(&ct), Some(ok && len_ok && head[bs - 2..bs] == head[bs..]), cls);
    }
    /// SEIPDv2 with the model's own HKDF (built from HMAC over the hash primitive)
    fn v2(&mut self, sym: u8, aead: u8, cs: u8, n: usize, cls: &str) {
        let sk = self.rng.bytes(key_len(sym));
        let salt: [u8; 32] = self.rng.bytes(32).try_into().unwrap();
        let plain = self.rng.bytes(n);
        let r = guarded(|| -> Result<Vec<u8>, String> {
            let mut e = pgp::verif_hooks::aead_stream_encryptor(sym_of(sym), AeadAlgorithm::from(aead), ChunkSize::try_from(cs).map_err(|_| "cs")?, &sk, &salt, &plain[..]).map_err(|e| e.to_string())?;
            let mut out = Vec::new(); e.read_to_end(&mut out).map_err(|e| e.to_string())?; Ok(out)
        });
        let Ok(Ok(ct)) = r else { self.out.case("", &[], &["v2enc".into()], "ERR", Some(false), cls); return; };
        let back = guarded(|| { let mut d = AeadDecryptor::new_rfc9580(sym_of(sym), AeadAlgorithm::from(aead), ChunkSize::try_from(cs).unwrap(), &salt, &sk, &ct[..]).unwrap(); let mut o = Vec::new(); d.read_to_end(&mut o).map(|_| o) });
        self.out.case("v2enc", &[sym.to_string(), aead.to_string(), cs.to_string(), hx(&sk), hx(&salt), hx(&plain)], &[], &hx(&ct), Some(matches!(back, Ok(Ok(ref o)) if *o == plain)), cls);
    }
}

fn aead_id(esk: &SymKeyEncryptedSessionKey) -> u8 {
    use pgp::ser::Serialize;
    let mut v = Vec::new(); esk.to_writer(&mut v).unwrap();
    // v6 layout: version, count, sym, aead, ...
    v[3]
}

/// secret-key locking with S2K usage 253 (RFC 9580 3.7.2.1 / 5.5.3): KEK = HKDF-SHA256(S2K key, info = packet type octet,
/// key version, cipher, AEAD mode), AEAD over the secret material with the packet type octet and the public fields as
/// associated data. Keys of both versions, primary and subkey packets.
fn keylock(cx: &mut Ctx, thorough: bool) {
    use pgp::packet::{Packet, PacketParser};
    use pgp::ser::Serialize;
    use pgp::types::{KeyDetails, KeyVersion, S2kParams, SecretParams};
    let spec_of = |s2k: &StringToKey| -> Option<String> { Some(match s2k {
        StringToKey::Simple { hash_alg } => format!("0:{}:-:0", u8::from(*hash_alg)),
        StringToKey::Salted { hash_alg, salt } => format!("1:{}:{}:0", u8::from(*hash_alg), hx(salt)),
        StringToKey::IteratedAndSalted { hash_alg, salt, count } => format!("3:{}:{}:{}", u8::from(*hash_alg), hx(salt), count),
        StringToKey::Argon2 { salt, t, p, m_enc } => format!("argon:{}:{}:{}:{}", t, p, m_enc, hx(salt)),
        _ => return None }) };
    for (ver, seed) in [(KeyVersion::V4, 1210u64), (KeyVersion::V6, 1211)] {
        let Ok(key) = guarded(|| vh::keys::gen_key_with_subkey(ver, seed)) else { continue; };
        let syms = if thorough { vec![SymmetricKeyAlgorithm::AES128, SymmetricKeyAlgorithm::AES192, SymmetricKeyAlgorithm::AES256, SymmetricKeyAlgorithm::Camellia128, SymmetricKeyAlgorithm::Twofish] } else { vec![SymmetricKeyAlgorithm::AES128, SymmetricKeyAlgorithm::AES256] };
        for sym in syms {
            for aead in [AeadAlgorithm::Eax, AeadAlgorithm::Ocb, AeadAlgorithm::Gcm] {
                let mut salt16 = [0u8; 16]; salt16.copy_from_slice(&cx.rng.bytes(16));
                let mut salt8 = [0u8; 8]; salt8.copy_from_slice(&cx.rng.bytes(8));
                let s2ks = vec![
                    StringToKey::IteratedAndSalted { hash_alg: HashAlgorithm::Sha256, salt: salt8, count: 40 },
                    StringToKey::Salted { hash_alg: HashAlgorithm::Sha512, salt: salt8 },
                    StringToKey::Argon2 { salt: salt16, t: 1, p: 2, m_enc: 10 },
                ];
                for s2k in s2ks {
                    let pwl = cx.rng.range(0, 20) as usize; let pw = cx.rng.bytes(pwl);
                    let nonce = cx.rng.bytes(aead.nonce_size());
                    let params = S2kParams::Aead { sym_alg: sym, aead_mode: aead, s2k: s2k.clone(), nonce: nonce.clone().into() };
                    // (packet type, packet octets of the unlocked key, public part, locked packet octets)
                    let mut objs: Vec<(u8, Vec<u8>, Vec<u8>, Option<Vec<u8>>)> = Vec::new();
                    { let mut k = key.primary_key.clone(); let plain = k.to_bytes().unwrap_or_default(); let pubb = k.public_key().to_bytes().unwrap_or_default();
                      let w = guarded(|| { k.set_password_with_s2k(&Password::from(&pw[..]), params.clone()).ok()?; Packet::from(k.clone()).to_bytes().ok() }).ok().flatten(); objs.push((5, plain, pubb, w)); }
                    if let Some(sub) = key.secret_subkeys.first() { let mut k = sub.key.clone(); let plain = k.to_bytes().unwrap_or_default(); let pubb = k.public_key().to_bytes().unwrap_or_default();
                      let w = guarded(|| { k.set_password_with_s2k(&Password::from(&pw[..]), params.clone()).ok()?; Packet::from(k.clone()).to_bytes().ok() }).ok().flatten(); objs.push((7, plain, pubb, w)); }
                    for (tag, plain, pubb, w) in objs {
                        let cls = format!("keylock-v{}-tag{}", u8::from(ver), tag);
                        let Some(w) = w else { cx.out.case("", &[], &["keylock".into(), cls.clone()], "lock refused (the library does not lock with this S2K)", Some(true), &format!("{cls}-refused")); continue; };
                        // raw secret material: behind the public fields and the usage octet 0; v4 keys carry a 2-octet checksum
                        if plain.len() < pubb.len() + 1 || plain[pubb.len()] != 0 { continue; }
                        let end = if ver == KeyVersion::V6 { plain.len() } else { plain.len() - 2 };
                        let raw = plain[pubb.len() + 1..end].to_vec();
                        let ct = match PacketParser::new(&w[..]).next() {
                            Some(Ok(Packet::SecretKey(k))) => match k.secret_params() { SecretParams::Encrypted(e) => Some(e.data().to_vec()), _ => None },
                            Some(Ok(Packet::SecretSubkey(k))) => match k.secret_params() { SecretParams::Encrypted(e) => Some(e.data().to_vec()), _ => None },
                            _ => None };
                        let Some(ct) = ct else { cx.out.case("", &[], &["keylock".into(), hx(&w)], "locked key does not parse back", Some(false), &cls); continue; };
                        let Some(sp) = spec_of(&s2k) else { continue; };
                        let args = vec![tag.to_string(), u8::from(ver).to_string(), u8::from(sym).to_string(), u8::from(aead).to_string(), sp, hx(&pw), hx(&nonce), hx(&pubb), hx(&raw)];
                        cx.out.case("lockaead", &args, &["keylock".into(), hx(&w), hx(&pw)], &hx(&ct), None, &cls);
                    }
                }
            }
        }
    }
}

fn main() {
    quiet_panics();
    let cli = cli();
    let mut cx = Ctx { out: Out::new(), rng: Rng::new(cli.seed) };
    if cli.mode == "replay" { cx.out.finish(); return; }
    let thorough = cli.tier == "thorough";
    // S2K: every type x hash x key size incl. multi-context; password lengths incl. 0
    let hashes = [1u8, 2, 3, 8, 9, 10, 11, 12, 14];
    for &h in &hashes {
        for ks in [16usize, 24, 32, 33, 48, 64] {
            let salt: [u8; 8] = cx.rng.bytes(8).try_into().unwrap();
            for typ in 0..=1u8 {
                let n = cx.rng.range(0, 200) as usize;
                let pw = cx.rng.bytes(n);
                cx.s2k(typ, h, &salt, 0, &pw, ks, "s2k-simple-salted");
            }
        }
    }
    // iterated: ALL 256 coded counts (the oracle hashes long repetitions; see DESIGN)
    let maxc: u16 = 256;
    for coded in 0..maxc {
        let h = hashes[(coded as usize) % hashes.len()];
        let salt: [u8; 8] = cx.rng.bytes(8).try_into().unwrap();
        // password lengths so that count <, =, > |salt+pw| and remainders 0..8 occur
        let count = (16u64 + (coded as u64 & 15)) << ((coded as u64 >> 4) + 6);
        if count > (if thorough { 1 << 26 } else { 1 << 22 }) { 
            let pw = cx.rng.bytes(13);
            if coded % 16 == 0 { cx.s2k(3, 8, &salt, coded as u8, &pw, 32, "s2k-iterated-large"); }
            continue;
        }
        let lens: Vec<usize> = if count <= 4096 { vec![0, 1, 5, (count as usize).saturating_sub(8), (count as usize).saturating_sub(9), count as usize, count as usize - 3, count as usize + 40] } else { vec![0, 7, 11, 200] };
        for n in lens {
            let pw = cx.rng.bytes(n);
            let ks = *cx.rng.pick(&[16usize, 32, 40]);
            cx.s2k(3, h, &salt, coded as u8, &pw, ks, "s2k-iterated");
        }
    }
    // remainder classes: |salt+pw| = 8..24, count = 1024: count mod data_size sweeps 0..
    for n in 0..=24usize {
        let salt: [u8; 8] = cx.rng.bytes(8).try_into().unwrap();
        let pw = cx.rng.bytes(n);
        cx.s2k(3, 8, &salt, 0, &pw, 32, "s2k-iterated-remainders");
    }
    // argon2, small parameters
    for (t, p, m) in [(1u8, 1u8, 3u8), (1, 1, 4), (2, 1, 5), (1, 2, 4), (3, 4, 6), (1, 4, 5)] {
        let salt: [u8; 16] = cx.rng.bytes(16).try_into().unwrap();
        let pw = cx.rng.bytes(9);
        for ks in [16usize, 32] { cx.argon2(t, p, m, &salt, &pw, ks, "argon2"); }
    }
    // AES key wrap
    for kl in [16usize, 24, 32] {
        for dl in [16usize, 24, 32, 40, 48, 64, 8, 0, 20] {
            let kek = cx.rng.bytes(kl); let d = cx.rng.bytes(dl);
            cx.kw(&kek, &d, "aeskw");
        }
    }
    // ECDH: curve x KDF hash x KEK cipher
    for curve in [ECCCurve::P256, ECCCurve::P384, ECCCurve::P521, ECCCurve::Curve25519Legacy, ECCCurve::Secp256k1] {
        for hash in [8u8, 9, 10] {
            for sym in [7u8, 8, 9] { cx.ecdh(curve.clone(), hash, sym, "ecdh"); }
        }
    }
    for _ in 0..(if thorough { 100 } else { 10 }) { cx.xkdf("xkdf"); }
    // SKESK v4 / v6
    for sym in [7u8, 8, 9, 10, 11, 13, 3, 2] {
        for aead in [1u8, 2, 3] {
            for typ in [1u8, 3] { cx.skesk(sym, aead, typ, "skesk"); }
        }
    }
    // SEIPD v1 (all ciphers) and v2 (cipher x mode x chunk size) encryption, byte for byte
    for sym in [1u8, 2, 3, 4, 7, 8, 9, 10, 11, 12, 13] {
        for n in [0usize, 1, 15, 16, 17, 100, 8192, 8193] { cx.v1(sym, n, "seipd1-enc"); }
    }
    let css: Vec<u8> = if thorough { (0..=12).collect() } else { vec![0, 1, 4, 6, 8] };
    for sym in [7u8, 8, 9] {
        for aead in [1u8, 2, 3] {
            for &cs in &css {
                let c = 1usize << (cs as usize + 6);
                for n in [0usize, 1, c - 1, c, c + 1, 2 * c + 3] {
                    if n > 70000 && !thorough { continue; }
                    cx.v2(sym, aead, cs, n, "seipd2-enc");
                }
            }
        }
    }
    keylock(&mut cx, thorough);
    ecdh_key_parameters(&mut cx);
    cx.out.finish();
}

/// ECDH recipients whose key announces KDF hash / key-wrap cipher other than the library's generation defaults (GnuPG's
/// nistp384 keys say SHA2-384 / AES-256): RFC 9580 11.5 takes both from the recipient's key, on the sending and on the
/// receiving side. The key material of a generated key is kept, the announced parameters are replaced.
fn ecdh_key_parameters(cx: &mut Ctx) {
    use pgp::composed::{KeyType, PlainSessionKey};
    use pgp::packet::{PubKeyInner, PublicKey, PublicKeyEncryptedSessionKey, SecretKey};
    use pgp::types::{DecryptionKey, EcdhPublicParams as E, EskType, KeyDetails, KeyVersion, PlainSecretParams, PublicParams, SecretParams, Timestamp};
    for (ci, curve) in [ECCCurve::P256, ECCCurve::P384, ECCCurve::P521, ECCCurve::Curve25519Legacy].into_iter().enumerate() {
        let Ok(Some(k)) = guarded(|| -> Option<pgp::composed::SignedSecretKey> {
            use pgp::composed::{EncryptionCaps, SecretKeyParamsBuilder, SubkeyParamsBuilder};
            let mut sb = SubkeyParamsBuilder::default(); sb.version(KeyVersion::V4).key_type(KeyType::ECDH(curve.clone())).can_encrypt(EncryptionCaps::All);
            let mut pb = SecretKeyParamsBuilder::default();
            pb.version(KeyVersion::V4).key_type(KeyType::Ed25519Legacy).can_certify(true).can_sign(true).primary_user_id("c12 <c12@example.org>".into()).subkeys(vec![sb.build().ok()?]);
            pb.build().ok()?.generate(Rng::new(1250 + ci as u64)).ok()
        }) else { cx.out.case("", &[], &["ecdh-key-parameters".into(), format!("{curve:?}")], "key generation failed", Some(false), "ecdh-key-parameters-unavailable"); continue; };
        let Some(sub) = k.secret_subkeys.first() else { continue; };
        let sp = sub.key.secret_params().clone();
        let SecretParams::Plain(PlainSecretParams::ECDH(ref secret)) = sp else { continue; };
        let PublicParams::ECDH(pp) = sub.key.public_key().public_params().clone() else { continue; };
        // the wrapped session key: RFC 9580 11.5 pads the plaintext to a multiple of 8 octets with at least one octet of padding
        // (a plaintext of 8k octets gets 8 more), RFC 3394 adds 8: for every plaintext length the primitive accepts
        if ci % 2 == 0 {
            let fp = sub.key.public_key().fingerprint();
            for len in (1usize..=80).chain([231, 232, 233, 239]) {
                let plain: Vec<u8> = (0..len).map(|i| (i * 7 + ci) as u8).collect();
                let r = guarded(|| pgp::crypto::ecdh::encrypt(Rng::new(len as u64), &pp, fp.as_bytes(), &plain).ok().and_then(|v| if let pgp::types::PkeskBytes::Ecdh { encrypted_session_key, .. } = v { Some(encrypted_session_key.len()) } else { None }));
                let want = (len / 8 + 1) * 8 + 8;
                let (imp, pred) = match r { Ok(Some(n)) => (format!("wrapped={n} rfc={want}"), n == want), Ok(None) => ("refused".to_string(), false), Err(p) => (p, false) };
                cx.out.case("", &[], &["ecdh-wrapped-length".into(), format!("{curve:?}"), len.to_string()], &imp, Some(pred), "ecdh-wrapped-length");
            }
        }
        for hash in [HashAlgorithm::Sha256, HashAlgorithm::Sha384, HashAlgorithm::Sha512] {
            for sym in [SymmetricKeyAlgorithm::AES128, SymmetricKeyAlgorithm::AES192, SymmetricKeyAlgorithm::AES256] {
                let params = match &pp {
                    E::P256 { p, .. } => E::P256 { p: p.clone(), hash, alg_sym: sym },
                    E::P384 { p, .. } => E::P384 { p: p.clone(), hash, alg_sym: sym },
                    E::P521 { p, .. } => E::P521 { p: p.clone(), hash, alg_sym: sym },
                    E::Curve25519Legacy { p, ecdh_kdf_type, .. } => E::Curve25519Legacy { p: p.clone(), hash, alg_sym: sym, ecdh_kdf_type: ecdh_kdf_type.clone() },
                    _ => continue,
                };
                let r = guarded(|| -> Option<bool> {
                    let inner = PubKeyInner::new(KeyVersion::V4, pgp::crypto::public_key::PublicKeyAlgorithm::ECDH, Timestamp::from_secs(1_700_000_000), None, PublicParams::ECDH(params.clone())).ok()?;
                    let key = SecretKey::new(PublicKey::from_inner(inner).ok()?, SecretParams::Plain(PlainSecretParams::ECDH(secret.clone()))).ok()?;
                    let sk: Vec<u8> = (0..32u8).map(|i| i.wrapping_mul(7).wrapping_add(ci as u8)).collect();
                    let raw: RawSessionKey = sk.clone().into();
                    let pkesk = PublicKeyEncryptedSessionKey::from_session_key_v3(Rng::new(5), &raw, SymmetricKeyAlgorithm::AES256, key.public_key()).ok()?;
                    let values = pkesk.values().ok()?;
                    Some(matches!(key.decrypt(&Password::empty(), values, EskType::V3_4), Ok(Ok(PlainSessionKey::V3_4 { key: ref got, sym_alg })) if sym_alg == SymmetricKeyAlgorithm::AES256 && got.as_ref() == &sk[..]))
                });
                let (imp, pred) = match r { Ok(Some(ok)) => (if ok { "session key recovered" } else { "session key NOT recovered" }.to_string(), ok), Ok(None) => ("not constructible".to_string(), true), Err(p) => (p, false) };
                cx.out.case("", &[], &["ecdh-key-parameters".into(), format!("{curve:?}"), format!("{hash:?}"), format!("{sym:?}")], &imp, Some(pred), &format!("ecdh-key-parameters-{}", if imp.starts_with("not") { "unavailable" } else { "announced" }));
            }
        }
    }
}
