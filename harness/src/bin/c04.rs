//! C04: hostile input never panics. Structure-aware artifacts behind valid crypto, plus byte-level mutation.
use std::io::Read;
use std::sync::mpsc;
use std::time::Duration;

use pgp::composed::{CleartextSignedMessage, Deserializable, DecryptionOptions, DetachedSignature, EncryptionCaps, KeyType, Message, PlainSessionKey, SecretKeyParamsBuilder, SignedPublicKey, SignedSecretKey, SubkeyParamsBuilder, TheRing};
use pgp::crypto::aead::{AeadAlgorithm, ChunkSize};
use pgp::crypto::ecc_curve::ECCCurve;
use pgp::crypto::hash::HashAlgorithm;
use pgp::crypto::sym::SymmetricKeyAlgorithm;
use pgp::packet::{Packet, PacketHeader, PacketParser, PublicKeyEncryptedSessionKey as Pk, SymKeyEncryptedSessionKey as Sk};
use pgp::ser::Serialize;
use pgp::types::{EncryptionKey, EskType, KeyDetails, KeyVersion, Password, PkeskBytes, StringToKey, Tag};
use vh::*;

struct Ctx { out: Out, rng: Rng }

fn enc_key(ver: KeyVersion, primary: KeyType, sub: KeyType, seed: u64) -> SignedSecretKey {
    let mut s = SubkeyParamsBuilder::default();
    s.version(ver).key_type(sub).can_encrypt(EncryptionCaps::All);
    let mut p = SecretKeyParamsBuilder::default();
    p.version(ver).key_type(primary).can_certify(true).can_sign(true).primary_user_id(format!("c04-{seed} <c04@example.org>")).subkeys(vec![s.build().expect("sub")]);
    p.build().expect("params").generate(Rng::new(seed)).expect("keygen")
}

/// run `f` on its own thread with a wall-clock limit; "TIMEOUT" if it does not come back
fn watchdog<F: FnOnce() -> String + Send + 'static>(secs: u64, f: F) -> String {
    let (tx, rx) = mpsc::channel();
    std::thread::Builder::new().stack_size(8 << 20).spawn(move || { let r = guarded(f); let _ = tx.send(match r { Ok(s) => s, Err(p) => p }); }).ok();
    match rx.recv_timeout(Duration::from_secs(secs)) { Ok(s) => s, Err(_) => "TIMEOUT".into() }
}

fn new_header(tag: u8, body: &[u8]) -> Vec<u8> {
    let mut h = vec![0xC0 | tag]; let n = body.len();
    if n < 192 { h.push(n as u8); } else if n < 8384 { h.push(((n - 192) >> 8) as u8 + 192); h.push(((n - 192) & 0xff) as u8); } else { h.push(255); h.extend((n as u32).to_be_bytes()); }
    h.extend_from_slice(body); h
}

/// every public entry point over a blob; returns "ok"/"err" summary or a PANIC / TIMEOUT marker
fn all_entry_points(data: Vec<u8>, keys: std::sync::Arc<Vec<SignedSecretKey>>) -> String {
    watchdog(30, move || {
        let mut n_ok = 0;
        for p in PacketParser::new(&data[..]).take(2000) { if let Ok(p) = p { n_ok += 1; let _ = p.to_bytes(); } }
        if let Ok(k) = SignedPublicKey::from_bytes(&data[..]) { let _ = k.verify_bindings(); let _ = k.to_bytes(); n_ok += 1; }
        if let Ok(k) = SignedSecretKey::from_bytes(&data[..]) { let _ = k.verify_bindings(); let _ = k.to_bytes(); n_ok += 1; }
        if let Ok(s) = DetachedSignature::from_bytes(&data[..]) { for k in keys.iter() { let _ = s.verify(&SignedPublicKey::from(k.clone()), &b"x"[..]); } n_ok += 1; }
        if let Ok(mut m) = Message::from_bytes(&data[..]) {
            n_ok += 1;
            if m.is_encrypted() {
                let pw = Password::from("pw"); let e = Password::empty();
                let ring = TheRing { secret_keys: keys.iter().collect(), key_passwords: vec![&e], message_password: vec![&pw], session_keys: vec![], decrypt_options: DecryptionOptions::new().enable_legacy().enable_gnupg_aead() };
                if let Ok((mut d, _)) = m.decrypt_the_ring(ring, false) { let mut o = Vec::new(); let _ = d.read_to_end(&mut o); if let Ok(mut d2) = Message::from_bytes(&o[..]) { let mut o2 = Vec::new(); let _ = d2.read_to_end(&mut o2); }; }
            } else {
                if m.is_compressed() { if let Ok(mut d) = m.decompress() { let mut o = Vec::new(); let failed = d.read_to_end(&mut o).is_err();
                    if failed { if let Err(p) = guarded(|| { let mut b = [0u8; 16]; let _ = d.read(&mut b); }) { return format!("{p} (Message::read after a read_to_end of the decompressed message that returned Err)"); } } } }
                else {
                    let mut o = Vec::new(); let read_failed = m.read_to_end(&mut o).is_err();
                    // an accessor called after a failed read: told apart from every other panic by the circumstance (the read
                    // returned Err just before) and by where the panic is raised, never by its wording
                    // reading again after a failed read must report an error (fix 0d12430), never panic
                    if read_failed { if let Err(p) = guarded(|| { let mut b = [0u8; 16]; let _ = m.read(&mut b); }) { return format!("{p} (Message::read after a read_to_end that returned Err)"); } }
                    let _ = take_panic_file();
                    let r = guarded(|| { for k in keys.iter().take(2) { let _ = m.verify(&SignedPublicKey::from(k.clone())); } });
                    if let Err(p) = r {
                        let file = take_panic_file();
                        let f = file.rsplit("/src/").next().unwrap_or("").to_string();
                        if read_failed && f.starts_with("composed/message/") { return format!("PANIC-AFTER-READ-ERROR: Message::verify after a read_to_end that returned Err panicked in src/{f}"); }
                        return p;
                    }
                }
            }
        }
        // armored / cleartext views of the same octets
        if let Ok(s) = std::str::from_utf8(&data) {
            if let Ok((c, _)) = CleartextSignedMessage::from_string(s) { let _ = c.signed_text(); for k in keys.iter().take(1) { let _ = c.verify(&SignedPublicKey::from(k.clone())); } n_ok += 1; }
        }
        {
            let mut d = pgp::armor::Dearmor::new(&data[..]); let mut o = Vec::new();
            if d.read_to_end(&mut o).is_ok() { n_ok += 1; }
            // a caller may ask again after an error (iterators over several armored blocks do)
            let mut b = [0u8; 16]; let _ = d.read(&mut b); let _ = d.read(&mut b);
        }
        if let Ok((it, _)) = SignedPublicKey::from_armor_many(&data[..]) { for k in it.take(50) { if k.is_ok() { n_ok += 1; } } }
        if let Ok((it, _)) = SignedSecretKey::from_armor_many(&data[..]) { for k in it.take(50) { if k.is_ok() { n_ok += 1; } } }
        if let Ok((mut m, _)) = Message::from_armor(&data[..]) {
            let mut o = Vec::new(); let read_failed = m.read_to_end(&mut o).is_err();
            let _ = take_panic_file();
            if let Err(p) = guarded(|| { let _ = m.read_to_end(&mut o); }) {
                let file = take_panic_file();
                let f = file.rsplit("/src/").next().unwrap_or("").to_string();
                let _ = (read_failed, f);
                return format!("{p} (Message::read_to_end after a read_to_end that returned Err)");
            }
        }
        format!("returned ({n_ok} accepted)")
    })
}

/// a signature packet written by hand from the RFC layout, with one well-formed subpacket of every assigned type
/// (the sweep then makes their inner fields hostile while the outer framing stays consistent)
fn handmade_signature(v6: bool, in_hashed: bool) -> Vec<u8> {
    let sp = |t: u8, body: &[u8]| -> Vec<u8> { let mut o = vec![(body.len() + 1) as u8, t]; o.extend_from_slice(body); o };
    let fp4 = [0x11u8; 20]; let fp6 = [0x22u8; 32];
    // an embedded signature (type 0x19) body, v4, Ed25519 (algorithm 27: 64 raw octets)
    let mut emb = vec![4u8, 0x19, 27, 8, 0, 6, 5, 2, 0x65, 0, 0, 0, 0, 0, 0xab, 0xcd]; emb.extend_from_slice(&[0x33u8; 64]);
    let mut area: Vec<u8> = Vec::new();
    area.extend(sp(2, &[0x65, 0x53, 0xf1, 0x00])); area.extend(sp(3, &[0, 1, 0, 0])); area.extend(sp(4, &[1])); area.extend(sp(5, &[1, 60]));
    area.extend(sp(6, b"<[^>]+[@.]example\\.org>$\0")); area.extend(sp(7, &[0])); area.extend(sp(9, &[0, 2, 0, 0])); area.extend(sp(11, &[9, 8, 7]));
    area.extend(sp(12, &[&[0x80u8, 27][..], &fp4[..]].concat())); area.extend(sp(16, &[1, 2, 3, 4, 5, 6, 7, 8]));
    area.extend(sp(20, &[&[0x80u8, 0, 0, 0, 0, 11, 0, 5][..], b"n@example.o", b"value"].concat()));
    area.extend(sp(20, &[&[0u8, 0, 0, 0, 0, 3, 0, 2][..], b"a@b", &[0xff, 0x00]].concat()));
    area.extend(sp(21, &[10, 8])); area.extend(sp(22, &[2, 1])); area.extend(sp(23, &[0x80])); area.extend(sp(24, b"hkps://keys.example")); area.extend(sp(25, &[1]));
    area.extend(sp(26, b"https://example.org/policy")); area.extend(sp(27, &[3, 0])); area.extend(sp(28, b"signer@example.org")); area.extend(sp(29, &[&[3u8][..], b"superseded"].concat()));
    area.extend(sp(30, &[0x09])); area.extend(sp(31, &[&[27u8, 8][..], &[0x44u8; 32][..]].concat())); area.extend(sp(32, &emb));
    area.extend(sp(33, &[&[4u8][..], &fp4[..]].concat())); area.extend(sp(33, &[&[6u8][..], &fp6[..]].concat())); area.extend(sp(34, &[2, 1]));
    area.extend(sp(35, &[&[4u8][..], &fp4[..]].concat())); area.extend(sp(35, &[&[6u8][..], &fp6[..]].concat())); area.extend(sp(37, &[0x55u8; 64])); area.extend(sp(39, &[9, 2, 7, 1]));
    area.extend(sp(10, &[1, 2, 3])); area.extend(sp(101, &[9, 9])); area.extend(sp(0x80 | 2, &[0x65, 0x53, 0xf1, 0x01]));
    let (h, u): (Vec<u8>, Vec<u8>) = if in_hashed { (area, sp(16, &[1, 2, 3, 4, 5, 6, 7, 8])) } else { (sp(2, &[0x65, 0x53, 0xf1, 0x00]), area) };
    let mut b = vec![if v6 { 6u8 } else { 4 }, 0x13, 27, 8];
    if v6 { b.extend((h.len() as u32).to_be_bytes()); } else { b.extend((h.len() as u16).to_be_bytes()); }
    b.extend_from_slice(&h);
    if v6 { b.extend((u.len() as u32).to_be_bytes()); } else { b.extend((u.len() as u16).to_be_bytes()); }
    b.extend_from_slice(&u);
    b.extend_from_slice(&[0xab, 0xcd]);
    if v6 { b.push(16); b.extend_from_slice(&[0x66u8; 16]); }
    b.extend_from_slice(&[0x77u8; 64]);
    new_header(2, &b)
}

/// the packet-level entry points over one artifact (cheap: used for the systematic field sweeps)
fn packet_entry_points(data: Vec<u8>, keys: std::sync::Arc<Vec<SignedSecretKey>>) -> String {
    watchdog(20, move || {
        let mut n_ok = 0;
        for p in PacketParser::new(&data[..]).take(50) { if let Ok(p) = p { n_ok += 1; let _ = p.to_bytes(); let _ = pgp::ser::Serialize::write_len(&p); } }
        if let Ok(s) = DetachedSignature::from_bytes(&data[..]) { if let Some(k) = keys.get(1) { let _ = s.verify(&SignedPublicKey::from(k.clone()), &b"x"[..]); } let _ = s.to_bytes(); n_ok += 1; }
        if let Ok(k) = SignedPublicKey::from_bytes(&data[..]) { let _ = k.verify_bindings(); let _ = k.to_bytes(); n_ok += 1; }
        if let Ok(k) = SignedSecretKey::from_bytes(&data[..]) { let _ = k.to_bytes(); n_ok += 1; }
        if let Ok(mut m) = Message::from_bytes(&data[..]) { let mut o = Vec::new(); let _ = m.read_to_end(&mut o); n_ok += 1; }
        format!("returned ({n_ok} accepted)")
    })
}

fn main() {
    quiet_panics();
    let cli = cli();
    let mut cx = Ctx { out: Out::new(), rng: Rng::new(cli.seed) };
    let keys = std::sync::Arc::new(vec![
        enc_key(KeyVersion::V4, KeyType::Rsa(2048), KeyType::Rsa(2048), 401),
        enc_key(KeyVersion::V4, KeyType::Ed25519Legacy, KeyType::ECDH(ECCCurve::Curve25519Legacy), 402),
        enc_key(KeyVersion::V4, KeyType::ECDSA(ECCCurve::P256), KeyType::ECDH(ECCCurve::P256), 403),
        enc_key(KeyVersion::V6, KeyType::Ed25519, KeyType::X25519, 404),
        enc_key(KeyVersion::V6, KeyType::Ed448, KeyType::X448, 405),
        enc_key(KeyVersion::V4, KeyType::Ed25519, KeyType::X25519, 406),
    ]);
    if cli.mode == "replay" {
        if cli.rest.len() >= 2 && cli.rest[0] == "blob" { let r = all_entry_points(unhx(&cli.rest[1]), keys.clone()); let ok = !(r.starts_with("PANIC") || r == "TIMEOUT"); cx.out.case("", &[], &cli.rest, &r, Some(ok), "replay"); }
        cx.out.finish(); std::process::exit(0);
    }
    let thorough = cli.tier == "thorough";
    let blob = |cx: &mut Ctx, data: Vec<u8>, cls: &str| {
        let r = all_entry_points(data.clone(), keys.clone());
        let ok = !(r.starts_with("PANIC") || r == "TIMEOUT");
        cx.out.case("", &[], &["blob".into(), hx(&data[..data.len().min(6000)])], &r, Some(ok), cls);
    };
    let algs: Vec<u8> = if thorough { (0..=255).collect() } else { vec![0, 1, 2, 3, 4, 5, 7, 8, 9, 10, 11, 12, 13, 14, 99, 100, 110, 253, 255] };
    // a container to put behind the session-key packets
    let cont_v1 = new_header(18, &[&[1u8][..], &cx.rng.bytes(60)[..]].concat());
    let cont_v2 = new_header(18, &[&[2u8, 9, 2, 0][..], &cx.rng.bytes(32 + 60)[..]].concat());

    // ---- 0. messages that end too early, of every container kind: the first read fails, and a caller that reads again
    //         gets an error again (never a panic)
    {
        let lit_body = |n: usize| -> Vec<u8> { let mut b = vec![b'b', 0, 0, 0, 0, 0]; b.extend(std::iter::repeat(0x61).take(n)); b };
        let mut short: Vec<(String, Vec<u8>)> = Vec::new();
        // fixed length announced, fewer octets present
        for (ann, have) in [(20usize, 3usize), (200, 100), (9000, 10), (9000, 8500)] { let mut p = new_header(11, &lit_body(ann - 6)); p.truncate(p.len() - (ann - 6 - have.min(ann - 6))); short.push((format!("literal-fixed-{ann}-{have}"), p)); }
        // partial body: a 512-octet part announced, the stream ends inside it / right behind it (no final part)
        for have in [100usize, 511, 512] { let mut p = vec![0xC0 | 11, 0xE9]; let mut b = lit_body(600); b.truncate(have); p.extend(b); short.push((format!("literal-partial-{have}"), p)); }
        // legacy header, two-octet length
        { let mut p = vec![0x80 | (11 << 2) | 1, 0x01, 0x00]; p.extend(lit_body(20)); short.push(("literal-legacy-short".into(), p)); }
        // the same inside an uncompressed "compressed data" packet, and behind a one-pass signature packet
        let inner: Vec<(String, Vec<u8>)> = short.clone();
        for (n, p) in &inner { let mut c = vec![0u8]; c.extend_from_slice(p); short.push((format!("compressed-{n}"), new_header(8, &c))); }
        for (n, p) in &inner { let ops = new_header(4, &[3u8, 0, 8, 27, 1, 2, 3, 4, 5, 6, 7, 8, 1]); short.push((format!("onepass-{n}"), [ops, p.clone()].concat())); }
        for (n, p) in short { blob(&mut cx, p, &format!("ends-early-{}", n.split('-').take(2).collect::<Vec<_>>().join("-"))); }
    }

    // ---- 0a'. armored artifacts that end too early: every prefix of a cleartext signed message, of an armored message and of
    //          an armored key, through every armored entry point
    {
        use pgp::composed::ArmorOptions;
        let mut arts: Vec<(&str, Vec<u8>)> = Vec::new();
        if let Ok(Ok(c)) = guarded(|| CleartextSignedMessage::sign(Rng::new(31), "hello\n- dash\nworld\n", &keys[1].primary_key, &Password::empty())) { if let Ok(a) = c.to_armored_string(ArmorOptions::default()) { arts.push(("cleartext", a.into_bytes())); } }
        if let Ok(Ok(a)) = guarded(|| SignedPublicKey::from(keys[3].clone()).to_armored_string(ArmorOptions::default())) { arts.push(("public-key", a.into_bytes())); }
        if let Ok(Some(a)) = guarded(|| { let mut b = pgp::composed::MessageBuilder::from_bytes("", b"payload".to_vec()); b.sign(&keys[1].primary_key, Password::empty(), pgp::crypto::hash::HashAlgorithm::Sha256); b.to_armored_string(Rng::new(32), ArmorOptions::default()).ok() }) { arts.push(("message", a.into_bytes())); }
        for (name, a) in arts {
            let step = if thorough || a.len() < 900 { 1 } else { 2 };
            for cut in (0..a.len()).step_by(step) { blob(&mut cx, a[..cut].to_vec(), &format!("armored-prefix-{name}")); }
        }
    }

    // ---- 0b. key packets of every algorithm (public and secret certificates): at every offset inside a key packet, a two-octet
    //          field of 0000 / 0001 / 0008 / ffff (MPI bit counts of zero and of one octet, curve-OID lengths, ...), and the 33
    //          octets behind a two-octet field zeroed (an MPI that is empty once its leading zeros are stripped)
    {
        use pgp::ser::Serialize;
        let mut certs: Vec<(String, Vec<u8>)> = Vec::new();
        let mut all: Vec<SignedSecretKey> = keys.iter().cloned().collect();
        for (i, (p, sub)) in [(KeyType::ECDSA(ECCCurve::P384), KeyType::ECDH(ECCCurve::P384)), (KeyType::ECDSA(ECCCurve::P521), KeyType::ECDH(ECCCurve::P521)), (KeyType::ECDSA(ECCCurve::Secp256k1), KeyType::ECDH(ECCCurve::P256))].into_iter().enumerate() {
            if let Ok(k) = guarded(|| enc_key(KeyVersion::V4, p.clone(), sub.clone(), 420 + i as u64)) { all.push(k); }
        }
        for (i, k) in all.iter().enumerate() {
            if let Ok(b) = SignedPublicKey::from(k.clone()).to_bytes() { certs.push((format!("public-{i}"), b)); }
            if let Ok(b) = k.to_bytes() { certs.push((format!("secret-{i}"), b)); }
        }
        for (name, cert) in &certs {
            // the key packets inside: (offset of body, length of body)
            let mut spans: Vec<(usize, usize)> = Vec::new(); let mut pos = 0usize;
            while pos + 2 <= cert.len() {
                let h = cert[pos]; let tag = if h & 0x40 != 0 { h & 0x3f } else { (h >> 2) & 0x0f };
                let (hl, bl) = if h & 0x40 != 0 { match cert[pos + 1] { x @ 0..=191 => (2, x as usize), x @ 192..=223 => if pos + 3 <= cert.len() { (3, ((x as usize - 192) << 8) + cert[pos + 2] as usize + 192) } else { break }, 255 => if pos + 6 <= cert.len() { (6, u32::from_be_bytes([cert[pos + 2], cert[pos + 3], cert[pos + 4], cert[pos + 5]]) as usize) } else { break }, _ => break } }
                               else { match h & 3 { 0 => (2, cert[pos + 1] as usize), 1 => if pos + 3 <= cert.len() { (3, u16::from_be_bytes([cert[pos + 1], cert[pos + 2]]) as usize) } else { break }, _ => break } };
                if pos + hl + bl > cert.len() { break; }
                if matches!(tag, 5 | 6 | 7 | 14) { spans.push((pos + hl, bl)); }
                pos += hl + bl;
            }
            for (start, len) in spans {
                let step = if thorough || len <= 120 { 1 } else { 3 };
                for o in (start..start + len.saturating_sub(1)).step_by(step) {
                    for v in [[0u8, 0], [0, 1], [0, 8], [0xff, 0xff]] { let mut d = cert.clone(); d[o] = v[0]; d[o + 1] = v[1]; blob(&mut cx, d, &format!("key-field-extremes-{}", &name[..6])); }
                    let mut d = cert.clone(); let end = (o + 2 + 33).min(start + len); for x in &mut d[(o + 2).min(end)..end] { *x = 0; } blob(&mut cx, d, &format!("key-field-zeroed-{}", &name[..6]));
                }
            }
        }
    }

    // ---- 1. attacker-chosen session-key plaintext behind valid public-key encryption
    for (ki, key) in keys.iter().enumerate() {
        let pk = SignedPublicKey::from(key.clone());
        let sub = pk.public_subkeys[0].key.clone();
        let ssub = key.secret_subkeys[0].key.clone();
        let is_rsa = ki == 0;
        for len in 0..=40usize {
            // (the X25519 / X448 session-key packets carry the cipher octet in the clear, next to a wrapped key of any length:
            //  every cipher octet for them as well)
            for &alg in algs.iter().take(if is_rsa || thorough || ki >= 3 { algs.len() } else { 4 }) {
                let mut plain = cx.rng.bytes(len);
                if len > 0 { plain[0] = alg; }
                // now and then a correct checksum, so that the length / algorithm checks are what decides
                if len >= 3 && cx.rng.chance(1, 2) { let s: u32 = plain[1..len - 2].iter().map(|&b| b as u32).sum(); plain[len - 2] = (s >> 8) as u8; plain[len - 1] = s as u8; }
                for (typ, tn) in [(EskType::V3_4, "3"), (EskType::V6, "6")] {
                    if key.version() == KeyVersion::V6 && tn == "3" { continue; }
                    let Ok(Ok(values)) = guarded(|| sub.encrypt(Rng::new(len as u64 * 7 + alg as u64), &plain, typ)) else { continue; };
                    // (a) the session key logic directly
                    let (v2, s2, p2, pl) = (values.clone(), ssub.clone(), sub.clone(), plain.clone());
                    let r = watchdog(20, move || match s2.unlock(&Password::empty(), |pubp, privp| privp.decrypt(pubp, &v2, typ, &p2)) { Ok(Ok(_)) => "ok".into(), _ => "err".into() });
                    let _ = pl;
                    let ok = !(r.starts_with("PANIC") || r == "TIMEOUT");
                    // the model describes what happens to the octets that come out of the public-key operation; for RSA these
                    // are the chosen plaintext itself
                    if is_rsa { cx.out.case(if tn == "3" { "skv3" } else { "skv6" }, &[hx(&plain)], &["sessionkey".into(), ki.to_string(), tn.into(), hx(&plain)], &r, Some(ok), &format!("pkesk-plain-rsa-v{tn}")); }
                    else { cx.out.case("", &[], &["sessionkey".into(), ki.to_string(), tn.into(), hx(&plain)], &r, Some(ok), &format!("pkesk-plain-key{ki}-v{tn}")); }
                    // (b) as a message
                    if len % 5 == 0 || r.starts_with("PANIC") {
                        let p = if tn == "3" { Pk::V3 { packet_header: PacketHeader::new_fixed(Tag::PublicKeyEncryptedSessionKey, 0), id: sub.legacy_key_id(), pk_algo: sub.algorithm(), values: values.clone() } } else { Pk::V6 { packet_header: PacketHeader::new_fixed(Tag::PublicKeyEncryptedSessionKey, 0), fingerprint: Some(sub.fingerprint()), pk_algo: sub.algorithm(), values: values.clone() } };
                        if let Ok(body) = p.to_bytes() {
                            let mut m = new_header(1, &body); m.extend(if tn == "3" { &cont_v1 } else { &cont_v2 }); blob(&mut cx, m, &format!("pkesk-message-key{ki}"));
                            // the containers a recipient may have opted into: GnuPG's OCB packet (20) naming this very cipher, and the
                            // unprotected legacy packet (9)
                            if tn == "3" {
                                let mut m = new_header(1, &body); m.extend(new_header(20, &[&[1u8, alg, 2, 6][..], &cx.rng.bytes(15 + 48)[..]].concat())); blob(&mut cx, m, &format!("pkesk-message-gnupg-aead-key{ki}"));
                                let mut m = new_header(1, &body); m.extend(new_header(9, &cx.rng.bytes(40))); blob(&mut cx, m, &format!("pkesk-message-sed-key{ki}"));
                            }
                        }
                    }
                }
            }
        }
        // wrapped keys of every short length, not produced by any honest sender
        if !is_rsa {
            for len in 0..=24usize {
                let esk = cx.rng.bytes(len);
                let values = match ki { 1 | 2 => PkeskBytes::Ecdh { public_point: match sub.encrypt(Rng::new(1), &[9u8; 19][..], EskType::V3_4) { Ok(PkeskBytes::Ecdh { public_point, .. }) => public_point, _ => continue }, encrypted_session_key: esk.clone().into() },
                    3 | 5 => PkeskBytes::X25519 { ephemeral: [9; 32], session_key: esk.clone().into(), sym_alg: if ki == 5 { Some(SymmetricKeyAlgorithm::AES128) } else { None } },
                    _ => PkeskBytes::X448 { ephemeral: [9; 56], session_key: esk.clone().into(), sym_alg: None } };
                let typ = if key.version() == KeyVersion::V6 { EskType::V6 } else { EskType::V3_4 };
                let (v2, s2, p2) = (values.clone(), ssub.clone(), sub.clone());
                let r = watchdog(20, move || match s2.unlock(&Password::empty(), |pubp, privp| privp.decrypt(pubp, &v2, typ, &p2)) { Ok(Ok(_)) => "ok".into(), _ => "err".into() });
                let ok = !(r.starts_with("PANIC") || r == "TIMEOUT");
                cx.out.case("kwlen", &[len.to_string()], &["wrapped".into(), ki.to_string(), hx(&esk)], &if r == "ok" { "ok".to_string() } else { r.clone() }, Some(ok && r != "ok"), &format!("short-wrapped-key{ki}"));
            }
        }
    }

    // ---- 1b. ECDH: attacker-chosen key-wrap plaintext (a sender controls it completely), unwrapped and unpadded
    {
        let (curve, hash, sym) = (ECCCurve::Curve25519Legacy, HashAlgorithm::Sha256, SymmetricKeyAlgorithm::AES128);
        let z = [7u8; 32]; let fp = [9u8; 20];
        let param = pgp::crypto::ecdh::build_ecdh_param(&curve.oid(), sym, hash, &fp);
        if let Ok(kek) = pgp::crypto::ecdh::kdf(hash, &z, 16, &param) {
            let mut shapes: Vec<Vec<u8>> = Vec::new();
            for n in [8usize, 16, 24, 32, 40] {
                for b in (0u8..=48).chain([127, 128, 255]) { shapes.push(vec![b; n]); }
                for pad in [0u8, 1, 7, 8, 9, n as u8 - 1, n as u8, n as u8 + 1, 200, 255] {
                    let mut v = cx.rng.bytes(n); let k = (pad as usize).min(n); for x in v[n - k..].iter_mut() { *x = pad; } if k == 0 { v[n - 1] = pad; }
                    shapes.push(v);
                }
                for _ in 0..(if thorough { 40 } else { 6 }) { shapes.push(cx.rng.bytes(n)); }
            }
            for padded in shapes {
                let Ok(wrapped) = pgp::crypto::aes_kw::wrap(&kek, &padded) else { continue; };
                let (w2, c2) = (wrapped.clone(), curve.clone());
                let r = watchdog(20, move || match pgp::crypto::ecdh::derive_session_key(&z, &w2, w2.len(), c2, hash, sym, &fp) { Ok(_) => "ok".into(), Err(_) => "err".into() });
                let ok = !(r.starts_with("PANIC") || r == "TIMEOUT");
                cx.out.case("unpad", &[hx(&padded)], &["ecdh-unpad".into(), hx(&padded)], &r, Some(ok), "ecdh-keywrap-plaintext");
            }
        }
    }

    // ---- 1c. text-mode verification hashes the (attacker-chosen) document before any cryptographic check:
    //         line endings at every edge of the 512-octet normalisation window
    {
        use pgp::types::SigningKey;
        let k = &keys[1];
        let pk = SignedPublicKey::from(k.clone());
        if let Ok(sig) = DetachedSignature::sign_text_data(Rng::new(5), &k.primary_key, &Password::empty(), k.primary_key.hash_alg(), &b"other"[..]) {
            let edge = [b'\r', b'\n', b'a'];
            for blocks in 1..=3usize {
                for delta in [-1i32, 0, 1] {
                    let n = (blocks * 512) as i32 + delta;
                    for first in edge { for last in edge { for pen in edge { for bstart in edge {
                        let mut d = vec![b'a'; n as usize];
                        d[0] = first; let l = d.len(); d[l - 1] = last; d[l - 2] = pen;
                        // the first octet of the last 512-octet block, and the last of the one before
                        let bs = ((l - 1) / 512) * 512; d[bs] = bstart; if bs > 0 { d[bs - 1] = pen; }
                        let (s2, p2, d2) = (sig.clone(), pk.clone(), d.clone());
                        let r = watchdog(20, move || match s2.verify(&p2, &d2[..]) { Ok(_) => "ok".into(), Err(_) => "err".into() });
                        let ok = !(r.starts_with("PANIC") || r == "TIMEOUT");
                        if !ok || (first == b'a' && pen == b'a') { cx.out.case("", &[], &["text-verify".into(), hx(&d)], &r, Some(ok), "text-verify-window-edges"); }
                        // the cleartext framework over the same text
                        if let Ok(t) = String::from_utf8(d.clone()) {
                            if blocks == 1 || !ok {
                                let kk = k.clone();
                                let r2 = watchdog(20, move || match CleartextSignedMessage::sign(Rng::new(6), &t, &kk.primary_key, &Password::empty()) { Ok(c) => { let _ = c.signed_text(); match c.verify(&SignedPublicKey::from(kk.clone())) { Ok(_) => "ok".into(), Err(_) => "err".into() } } Err(_) => "err".into() });
                                let ok2 = !(r2.starts_with("PANIC") || r2 == "TIMEOUT");
                                if !ok2 || (first == b'a' && pen == b'a' && bstart == b'a') { cx.out.case("", &[], &["cleartext-window".into(), hx(&d)], &r2, Some(ok2), "cleartext-window-edges"); }
                            }
                        }
                    } } } }
                }
            }
        }
    }

    // ---- 2. SKESK around attacker-chosen plaintext and parameter octets
    {
        let pw = Password::from("pw");
        let s2k = StringToKey::Salted { hash_alg: HashAlgorithm::Sha256, salt: [5; 8] };
        for &sym in &[SymmetricKeyAlgorithm::AES128, SymmetricKeyAlgorithm::AES256, SymmetricKeyAlgorithm::TripleDES] {
            let Ok(key) = s2k.derive_key(b"pw", sym.key_size()) else { continue; };
            for len in 0..=40usize {
                for &alg in algs.iter().take(if thorough { algs.len() } else { 6 }) {
                    let mut plain = cx.rng.bytes(len); if len > 0 { plain[0] = alg; }
                    let mut ct = plain.clone();
                    if sym.encrypt_with_iv_regular(key.as_ref(), &vec![0u8; sym.block_size()], &mut ct).is_err() { continue; }
                    let p = Sk::V4 { packet_header: PacketHeader::new_fixed(Tag::SymKeyEncryptedSessionKey, (2 + s2k.write_len() + ct.len()) as u32), sym_algorithm: sym, s2k: s2k.clone(), encrypted_key: ct.into() };
                    let (p2, k2) = (p.clone(), key.as_ref().to_vec());
                    let r = if len == 0 { watchdog(20, { let p3 = p.clone(); move || match pgp::composed::decrypt_session_key_with_password(&p3, &Password::from("pw")) { Ok(_) => "ok".into(), Err(_) => "err".into() } }) }
                            else { watchdog(20, move || match p2.decrypt(&k2) { Ok(_) => "ok".into(), Err(_) => "err".into() }) };
                    let ok = !(r.starts_with("PANIC") || r == "TIMEOUT");
                    if len == 0 { cx.out.case("", &[], &["skesk4-empty".into()], &r, Some(ok), "skesk4-plain"); }
                    else { cx.out.case("skesk4", &[hx(&plain)], &["skesk4".into(), hx(&plain)], &r, Some(ok), "skesk4-plain"); }
                    if len % 8 == 0 { if let Ok(b) = Packet::from(p).to_bytes() { let mut m = b; m.extend(&cont_v1); blob(&mut cx, m, "skesk4-message"); } }
                }
            }
        }
        // every value of every one-octet field of SKESK v4 / v6 / SEIPD v2 headers, as messages
        let skesk4 = |sym: u8, s2k: &[u8], ek: &[u8]| { let mut b = vec![4u8, sym]; b.extend(s2k); b.extend(ek); new_header(3, &b) };
        for v in 0..=255u8 {
            let mut cases: Vec<(Vec<u8>, &str)> = Vec::new();
            cases.push(([skesk4(v, &[1, 8, 1, 2, 3, 4, 5, 6, 7, 8], &[]), cont_v1.clone()].concat(), "field-skesk4-sym"));
            cases.push(([skesk4(7, &[v, 8, 1, 2, 3, 4, 5, 6, 7, 8, 96], &[]), cont_v1.clone()].concat(), "field-s2k-type"));
            cases.push(([skesk4(7, &[3, v, 1, 2, 3, 4, 5, 6, 7, 8, 0], &[]), cont_v1.clone()].concat(), "field-s2k-hash"));
            cases.push(([skesk4(7, &[3, 8, 1, 2, 3, 4, 5, 6, 7, 8, v], &[]), cont_v1.clone()].concat(), "field-s2k-count"));
            // argon2 parameters one at a time (t, p, m); the others small
            for (i, nm) in [(0usize, "field-argon2-t"), (1, "field-argon2-p"), (2, "field-argon2-m")] {
                if !thorough && nm == "field-argon2-m" && v > 24 && v % 16 != 0 { continue; }
                if !thorough && nm == "field-argon2-t" && v > 3 && v % 32 != 0 { continue; }
                let mut a = vec![4u8]; a.extend([7u8; 16]); let mut tpm = [1u8, 1, 10]; tpm[i] = v; a.extend(tpm);
                // v6 SKESK: count, sym, aead, s2k len, s2k, iv, key+tag
                let mut b = vec![6u8, (3 + a.len() + 15) as u8, 7, 2, a.len() as u8]; b.extend(&a); b.extend([3u8; 15]); b.extend(cx.rng.bytes(32));
                cases.push(([new_header(3, &b), cont_v2.clone()].concat(), nm));
            }
            // SEIPD v2 header octets behind an openable v6 SKESK are covered in part 3; here without a key: parse + decrypt attempt
            for (i, nm) in [(1usize, "field-seipd2-sym"), (2, "field-seipd2-aead"), (3, "field-seipd2-chunk")] {
                let mut h = vec![2u8, 9, 2, 0]; h[i] = v; h.extend(cx.rng.bytes(32 + 40));
                cases.push(([skesk4(7, &[1, 8, 1, 2, 3, 4, 5, 6, 7, 8], &[]), new_header(18, &h)].concat(), nm));
            }
            for (m, cls) in cases { blob(&mut cx, m, cls); }
        }
    }

    // ---- 3. SEIPD v2 parameter octets with the session key in hand; AEAD set-up vs the model
    for sym in [7u8, 8, 9, 0, 1, 100] {
        for aead in 0..=255u8 {
            if !thorough && aead > 5 && aead % 37 != 0 { continue; }
            for cs in [0u8, 6, 16, 17, 255] {
                let key = cx.rng.bytes(SymmetricKeyAlgorithm::from(sym).key_size().max(1));
                let mut h = vec![2u8, sym, aead, cs]; h.extend([1u8; 32]); h.extend(cx.rng.bytes(48));
                let m = new_header(18, &h);
                let k2 = key.clone();
                let r = watchdog(20, move || { let Ok(msg) = Message::from_bytes(&m[..]) else { return "err".into(); }; match msg.decrypt_with_session_key(PlainSessionKey::V6 { key: k2.into() }) { Ok(mut d) => { let mut o = Vec::new(); match d.read_to_end(&mut o) { Ok(_) => "ok".into(), Err(_) => "err".into() } } Err(_) => "err".into() } });
                let ok = !(r.starts_with("PANIC") || r == "TIMEOUT");
                if cs == 6 { cx.out.case("aeadsetup", &[sym.to_string(), aead.to_string()], &["seipd2-params".into(), sym.to_string(), aead.to_string(), cs.to_string()], &if r == "ok" { "err".to_string() } else { r.clone() }, Some(ok), "seipd2-params"); }
                else { cx.out.case("", &[], &["seipd2-params".into(), sym.to_string(), aead.to_string(), cs.to_string()], &r, Some(ok), "seipd2-params"); }
            }
        }
    }

    // ---- 4. locked secret keys with every value of every one-octet protection field
    {
        let sk = &keys[1];
        let mut k = sk.clone();
        let _ = k.primary_key.set_password_with_s2k(&Password::from("pw"), pgp::types::S2kParams::Cfb { sym_alg: SymmetricKeyAlgorithm::AES128, s2k: StringToKey::IteratedAndSalted { hash_alg: HashAlgorithm::Sha256, salt: [1; 8], count: 10 }, iv: vec![2u8; 16].into() });
        let w = Packet::from(k.primary_key.clone()).to_bytes().unwrap_or_default();
        let publen = sk.primary_key.public_key().to_bytes().map(|b| b.len()).unwrap_or(0);
        // usage, sym, s2k type, hash, (salt), count octets follow the public part
        for off in [0usize, 1, 2, 3, 12] {
            for v in 0..=255u8 {
                let mut x = w.clone(); let i = 2 + publen + off; if i >= x.len() { continue; } x[i] = v;
                let r = watchdog(30, move || { match PacketParser::new(&x[..]).next() { Some(Ok(Packet::SecretKey(mut k))) => { let _ = k.to_bytes(); match k.remove_password(&Password::from("pw")) { Ok(_) => "ok".into(), Err(_) => "err".into() } } _ => "err".into() } });
                let ok = !(r.starts_with("PANIC") || r == "TIMEOUT");
                cx.out.case("", &[], &["secret-field".into(), off.to_string(), v.to_string()], &r, Some(ok), &format!("secret-key-field-{off}"));
            }
        }
    }

    // ---- 5. byte-level mutation of fixtures and of our own artifacts, through every entry point
    {
        let mut files = Vec::new();
        fn walk(p: &std::path::Path, out: &mut Vec<std::path::PathBuf>) { if let Ok(rd) = std::fs::read_dir(p) { let mut v: Vec<_> = rd.flatten().map(|e| e.path()).collect(); v.sort(); for p in v { if p.is_dir() { walk(&p, out); } else { out.push(p); } } } }
        walk(std::path::Path::new("/repo/tests"), &mut files);
        let mut seeds: Vec<Vec<u8>> = Vec::new();
        for f in files { if let Ok(raw) = std::fs::read(&f) { if raw.len() > 20 && raw.len() < 6000 { seeds.push(raw); } } }
        let n = if thorough { 6000 } else { 500 };
        for i in 0..n {
            if seeds.is_empty() { break; }
            let mut d = seeds[cx.rng.below(seeds.len() as u64) as usize].clone();
            // dearmor now and then so that the binary layer is what gets mutated
            if d.starts_with(b"-----BEGIN") && i % 2 == 0 { let mut o = Vec::new(); let _ = pgp::armor::Dearmor::new(&d[..]).read_to_end(&mut o); if !o.is_empty() { d = o; } }
            for _ in 0..(1 + cx.rng.below(4)) {
                if d.is_empty() { break; }
                match cx.rng.below(5) {
                    0 => { let p = cx.rng.below(d.len() as u64) as usize; d[p] ^= 1 << cx.rng.below(8); }
                    1 => { let p = cx.rng.below(d.len() as u64) as usize; d[p] = *cx.rng.pick(&[0u8, 1, 0x7f, 0x80, 0xbf, 0xc0, 0xdf, 0xe0, 0xfe, 0xff]); }
                    2 => { let p = cx.rng.below(d.len() as u64) as usize; d.truncate(p); }
                    3 => { let p = cx.rng.below(d.len() as u64) as usize; let q = cx.rng.below(d.len() as u64) as usize; let (a, b) = (p.min(q), p.max(q)); let seg: Vec<u8> = d[a..b].to_vec(); d.splice(a..a, seg); }
                    _ => { let p = cx.rng.below(d.len() as u64) as usize; let ne = 1 + cx.rng.below(6) as usize; let e = cx.rng.bytes(ne); d.splice(p..p, e); }
                }
            }
            blob(&mut cx, d, "mutated-fixture");
        }
    }

    // ---- 6. every two- and four-octet window of model-generated packets (every packet grammar, signatures with every
    //         subpacket kind) at its extremes: inner length fields that claim far more than is there, alone and next to
    //         another length field (sums that wrap)
    if let Ok(path) = std::env::var("VERIF_PREGEN") {
        let mut packets: Vec<Vec<u8>> = Vec::new();
        if let Ok(t) = std::fs::read_to_string(&path) { for line in t.lines() { if let Some(o) = line.split('\t').nth(1) { if o.len() > 8 && !o.starts_with("NONE") && !o.starts_with("MODEL") { packets.push(unhx(o)); } } } }
        let sweep = |cx: &mut Ctx, data: Vec<u8>, cls: &str| {
            let r = packet_entry_points(data.clone(), keys.clone());
            let ok = !(r.starts_with("PANIC") || r == "TIMEOUT");
            // only failures carry the artifact: the sweep is systematic and replays by regeneration otherwise
            if ok { cx.out.case("", &[], &["sweep".into(), cls.into()], &r, Some(true), cls); } else { cx.out.case("", &[], &["blob".into(), hx(&data)], &r, Some(false), cls); }
        };
        // signatures written by hand with one subpacket of every assigned type, in the hashed and in the unhashed area, v4 and v6
        for (v6, hashed) in [(false, true), (false, false), (true, true)] {
            let p = handmade_signature(v6, hashed);
            let r = packet_entry_points(p.clone(), keys.clone());
            cx.out.case("", &[], &["blob".into(), hx(&p)], &r, Some(r.starts_with("returned") && !r.contains("(0 accepted)")), "handmade-signature-parses");
            packets.push(p);
        }
        // a signature with ONE subpacket of every type 0..=127 and a body of every length 0..=9 (and 20, 33), hashed or unhashed,
        // v4 / v6: parsers of fixed-shape subpackets meet bodies one octet short or long of their shape
        for v6 in [false, true] { for hashed in [true, false] { for typ in 0u8..128 { for n in (0usize..=9).chain([20, 33]) {
            if !thorough && typ > 40 && typ % 9 != 0 { continue; }
            let mut sp = vec![(n + 1) as u8, typ]; sp.extend((0..n).map(|i| (i as u8).wrapping_mul(37).wrapping_add(typ)));
            let (ha, ua): (&[u8], &[u8]) = if hashed { (&sp, &[]) } else { (&[], &sp) };
            let mut body = vec![if v6 { 6u8 } else { 4 }, 0x00, 22, 8];
            if v6 { body.extend((ha.len() as u32).to_be_bytes()); } else { body.extend((ha.len() as u16).to_be_bytes()); }
            body.extend_from_slice(ha);
            if v6 { body.extend((ua.len() as u32).to_be_bytes()); } else { body.extend((ua.len() as u16).to_be_bytes()); }
            body.extend_from_slice(ua);
            body.extend([0xab, 0xcd]);
            if v6 { body.push(16); body.extend([7u8; 16]); body.extend([9u8; 64]); } else { body.extend([0x00, 0x08, 0xff, 0x00, 0x08, 0xff]); }
            let p = new_header(2, &body);
            let r = packet_entry_points(p.clone(), keys.clone());
            let ok = !(r.starts_with("PANIC") || r == "TIMEOUT");
            if ok { cx.out.case("", &[], &["sweep".into(), "subpacket-body-lengths".into()], &r, Some(true), "subpacket-body-lengths"); } else { cx.out.case("", &[], &["blob".into(), hx(&p)], &r, Some(false), "subpacket-body-lengths"); }
        } } } }
        // user attribute packets as the library writes them (image attribute: little-endian header length, version, format) and
        // with an unknown subpacket type
        {
            use pgp::ser::Serialize;
            for n in [0usize, 1, 40] {
                if let Ok(ua) = pgp::packet::UserAttribute::new_image(cx.rng.bytes(n).into()) { if let Ok(b) = pgp::packet::Packet::from(ua).to_bytes() { packets.push(b); } }
            }
            packets.push(new_header(17, &[6u8, 100, 1, 2, 3, 4, 5]));
            packets.push(new_header(17, &[]));
        }
        for p in packets.iter().filter(|p| p.len() <= 1200) {
            let hl = if p.len() > 1 && p[1] < 192 { 2 } else if p.len() > 1 && p[1] < 224 { 3 } else { 6 };
            for o in hl..p.len().saturating_sub(1) {
                // (large values, and the small ones just below what a fixed-size header needs: little- and big-endian)
                let vals: &[[u8; 2]] = if thorough || p.len() <= 120 { &[[0xffu8, 0xff], [0x80, 0x00], [0xff, 0xfe], [0, 0], [1, 0], [2, 0], [3, 0], [4, 0], [5, 0], [0, 1], [0, 2], [0, 3], [0, 4], [0, 5]] } else { &[[0xffu8, 0xff], [0x80, 0x00], [0xff, 0xfe]] };
                for v in vals.iter().copied() {
                    let mut d = p.clone(); d[o] = v[0]; d[o + 1] = v[1];
                    sweep(&mut cx, d, "field-extremes-2");
                }
                if o + 4 <= p.len() {
                    for v in [[0xffu8, 0xff, 0xff, 0xff], [0x80, 0, 0, 0], [0, 1, 0, 0]] {
                        let mut d = p.clone(); d[o..o + 4].copy_from_slice(&v);
                        sweep(&mut cx, d, "field-extremes-4");
                    }
                    // two adjacent two-octet fields
                    for v in [[0xffu8, 0xff, 0x00, 0x01], [0x80, 0x00, 0x80, 0x00], [0x00, 0x01, 0xff, 0xff]] {
                        let mut d = p.clone(); d[o..o + 4].copy_from_slice(&v);
                        sweep(&mut cx, d, "field-extremes-2x2");
                    }
                }
            }
        }
    }
    cx.out.finish();
    std::process::exit(0);
}
