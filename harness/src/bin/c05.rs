//! C05: wire fidelity -- parse/serialise are mutually inverse, lengths are truthful.
//!
//! Three streams of cases:
//!  A. packets produced by the model's generator and encoder (independent RFC 9580
//!     transcription; canonical by construction) are given to the library;
//!  B. objects built or mutated through the library's API are serialised, measured, parsed
//!     back, and every packet they contain is given to the model's strict decoder;
//!  C. every packet of every fixture file is re-serialised by the library; the model decides
//!     which of them are canonical (those must come back identical).
use std::io::Read;

use pgp::composed::{Deserializable, KeyType, Message, MessageBuilder, SignedPublicKey, SignedSecretKey};
use pgp::crypto::aead::{AeadAlgorithm, ChunkSize};
use pgp::crypto::ecc_curve::ECCCurve;
use pgp::crypto::hash::HashAlgorithm;
use pgp::crypto::sym::SymmetricKeyAlgorithm;
use pgp::packet::{Notation, Packet, PacketParser, PacketTrait, SignatureConfig, SignatureType, Subpacket, SubpacketData};
use pgp::ser::Serialize;
use pgp::types::{KeyDetails, KeyVersion, Password, S2kParams, SigningKey, StringToKey, Timestamp};
use vh::keys::{gen_key, gen_key_with_subkey};
use vh::*;

struct Ctx { out: Out, rng: Rng }

/// (tag, header length, body) of every fixed-length packet in a blob; None if anything else is met
fn split_packets(mut d: &[u8]) -> Option<Vec<(u8, bool, Vec<u8>, Vec<u8>)>> {
    let mut out = Vec::new();
    while !d.is_empty() {
        if d.len() < 2 { return None; }
        let h = d[0];
        if h & 0x80 == 0 { return None; }
        let (tag, len, hl, newf) = if h & 0x40 != 0 {
            let tag = h & 0x3f;
            match d[1] { l @ 0..=191 => (tag, l as usize, 2, true), l @ 192..=223 => { if d.len() < 3 { return None; } (tag, ((l as usize - 192) << 8) + 192 + d[2] as usize, 3, true) } 255 => { if d.len() < 6 { return None; } (tag, u32::from_be_bytes([d[2], d[3], d[4], d[5]]) as usize, 6, true) } _ => return None }
        } else {
            let tag = (h >> 2) & 0x0f;
            match h & 3 { 0 => (tag, d[1] as usize, 2, false), 1 => { if d.len() < 3 { return None; } (tag, u16::from_be_bytes([d[1], d[2]]) as usize, 3, false) } 2 => { if d.len() < 5 { return None; } (tag, u32::from_be_bytes([d[1], d[2], d[3], d[4]]) as usize, 5, false) } _ => return None }
        };
        if d.len() < hl + len { return None; }
        out.push((tag, newf, d[..hl + len].to_vec(), d[hl..hl + len].to_vec()));
        d = &d[hl + len..];
    }
    Some(out)
}

fn minimal_new_header(tag: u8, len: usize) -> Vec<u8> {
    let mut h = vec![0xC0 | tag];
    if len < 192 { h.push(len as u8); } else if len < 8384 { h.push(((len - 192) >> 8) as u8 + 192); h.push(((len - 192) & 0xff) as u8); } else { h.push(255); h.extend_from_slice(&(len as u32).to_be_bytes()); }
    h
}

impl Ctx {
    /// one whole packet (header + body) through the library: parse, measure, write, parse again
    fn library_on_packet(&mut self, pkt: &[u8]) -> (String, bool, Option<Vec<u8>>) {
        let r = guarded(|| {
            let mut pp = PacketParser::new(pkt);
            let first = pp.next();
            let more = pp.next().is_some();
            match first {
                Some(Ok(p)) if !more => {
                    let mut w = Vec::new();
                    if p.to_writer(&mut w).is_err() { return ("write-error".to_string(), false, None); }
                    let announced = p.write_len();
                    let again = PacketParser::new(&w[..]).next();
                    let rt = matches!(&again, Some(Ok(q)) if *q == p);
                    (format!("wl={} rt={}", if announced == w.len() { "ok".to_string() } else { format!("{}!={}", announced, w.len()) }, if rt { "ok" } else { "BAD" }), announced == w.len() && rt, Some(w))
                }
                Some(Ok(_)) => ("trailing".to_string(), true, None),
                _ => ("rejected".to_string(), true, None),
            }
        });
        match r { Ok(x) => x, Err(p) => (p, false, None) }
    }

    /// A: a canonical packet from the model
    fn artifact(&mut self, pkt: &[u8], cls: &str) {
        let (s, ok, w) = self.library_on_packet(pkt);
        let tag = pkt[0] & 0x3f;
        let (imp, pred, c) = match &w {
            Some(w) if w == pkt => (format!("same {s}"), ok, "accepted"),
            Some(w) => (format!("DIFFERENT {} {s}", hx(w)), false, "accepted"),
            None => (s.clone(), ok, if s == "rejected" || s == "trailing" { "not-accepted" } else { "error" }),
        };
        let hl = if pkt[1] < 192 { 2 } else if pkt[1] < 224 { 3 } else { 6 };
        self.out.case("canon", &[tag.to_string(), hx(&pkt[hl..])], &["artifact".into(), hx(pkt)], &imp, Some(pred), &format!("{cls}-tag{tag}-{c}"));
    }

    /// B: an object of the library: announced length, write, parse back; then each packet to the model
    fn object<T: Serialize + PartialEq + std::fmt::Debug>(&mut self, name: &str, obj: &T, reparse: impl Fn(&[u8]) -> Option<T>, cls: &str) {
        let r = guarded(|| {
            let mut w = Vec::new();
            obj.to_writer(&mut w).map_err(|e| e.to_string())?;
            let announced = obj.write_len();
            let back = reparse(&w);
            let rt = back.as_ref().map(|o| o == obj);
            let mut why = String::new();
            if rt == Some(false) {
                let (a, b) = (format!("{:#?}", obj), format!("{:#?}", back.as_ref().unwrap()));
                for (x, y) in a.lines().zip(b.lines()) { if x != y { why = format!(" first difference: built `{}` parsed `{}`", &x.trim()[..x.trim().len().min(90)], &y.trim()[..y.trim().len().min(90)]); break; } }
            }
            Ok::<_, String>((w, announced, rt, why))
        });
        match r {
            Ok(Ok((w, announced, rt, why))) => {
                let okl = announced == w.len();
                // what the library wrote must be readable by the library, and equal
                let okr = rt == Some(true);
                self.out.case("", &[], &["object".into(), name.into(), hx(&w)], &format!("announced={} written={} parses-back={:?}{}", announced, w.len(), rt, why), Some(okl && okr), &format!("{cls}-object"));
                self.packets_to_model(&w, cls);
            }
            Ok(Err(e)) => self.out.case("", &[], &["object".into(), name.into()], &format!("write-error {e}"), Some(true), &format!("{cls}-unwritable")),
            Err(p) => self.out.case("", &[], &["object".into(), name.into()], &p, Some(false), &format!("{cls}-panic")),
        }
    }

    fn packets_to_model(&mut self, w: &[u8], cls: &str) {
        let Some(ps) = split_packets(w) else { return; };
        for (tag, newf, whole, body) in ps {
            // the header the library wrote is the minimal one for its format
            let hdr_ok = !newf || whole[..whole.len() - body.len()] == minimal_new_header(tag, body.len())[..];
            self.out.case("dec", &[tag.to_string(), hx(&body)], &["packet".into(), hx(&whole)], &format!("OK {}", hx(&body)), Some(hdr_ok), &format!("{cls}-tag{tag}"));
        }
    }

    /// B': a body behind a legal header other than the minimal new-format one
    fn framed(&mut self, tag: u8, n: usize, fname: &str) {
        let mut r = Rng::new(tag as u64 * 1_000_003 + n as u64);
        let body: Vec<u8> = match tag {
            11 => { let mut v = vec![b'b', 0, 0, 0, 0, 0]; v.extend(r.bytes(n)); v }
            18 => { let mut v = vec![1u8]; v.extend(r.bytes(n + 22)); v }
            9 => r.bytes(n + 18),
            8 => { let mut v = vec![0u8]; v.extend(minimal_new_header(11, n + 6)); v.extend([b'b', 0, 0, 0, 0, 0]); v.extend(r.bytes(n)); v }
            _ => r.bytes(n.min(5000)),
        };
        let len = body.len();
        let w: Vec<u8> = match fname {
            "old-lt0" if tag < 16 && len < 256 => { let mut w = vec![0x80 | (tag << 2), len as u8]; w.extend(&body); w }
            "old-lt1" if tag < 16 && len < 65536 => { let mut w = vec![0x80 | (tag << 2) | 1]; w.extend((len as u16).to_be_bytes()); w.extend(&body); w }
            "old-lt2" if tag < 16 => { let mut w = vec![0x80 | (tag << 2) | 2]; w.extend((len as u32).to_be_bytes()); w.extend(&body); w }
            "new-5-octet" => { let mut w = vec![0xC0 | tag, 255]; w.extend((len as u32).to_be_bytes()); w.extend(&body); w }
            f if f.starts_with("partial-2^") && matches!(tag, 8 | 9 | 11 | 18) => {
                let k: u8 = f[10..].parse().unwrap_or(9);
                let c = 1usize << k;
                if len < c { return; }
                let mut w = vec![0xC0 | tag]; let mut rest = &body[..]; let mut first = true;
                while rest.len() >= c && (first || r.chance(2, 3)) { w.push(224 + k); w.extend(&rest[..c]); rest = &rest[c..]; first = false; }
                w.extend(&minimal_new_header(0, rest.len())[1..]); w.extend(rest);
                w
            }
            _ => return,
        };
        let rp = vec!["framed".to_string(), tag.to_string(), n.to_string(), fname.to_string()];
        let res = guarded(|| {
            let p = match PacketParser::new(&w[..]).next() { Some(Ok(p)) => p, _ => return None };
            let mut o = Vec::new(); p.to_writer(&mut o).ok()?;
            let announced = p.write_len();
            let back = PacketParser::new(&o[..]).next().and_then(|r| r.ok());
            let body_same = split_packets(&o).map(|v| v.len() == 1 && v[0].3 == body);
            Some((announced, o.len(), back.is_some(), body_same))
        });
        match res {
            Ok(Some((a, l, back, body_same))) => self.out.case("", &[], &rp, &format!("announced={a} written={l} reparses={back} body-same={body_same:?}"), Some(a == l && back && body_same == Some(true)), &format!("framed-{fname}-tag{tag}")),
            Ok(None) => self.out.case("", &[], &rp, "rejected", Some(true), &format!("framed-{fname}-tag{tag}-not-accepted")),
            Err(p) => self.out.case("", &[], &rp, &p, Some(false), "framed-panic"),
        }
    }

    /// C: a packet met in a fixture: what does the library write for it?
    fn fixture_packet(&mut self, whole: &[u8], tag: u8, body: &[u8], cls: &str) {
        let r = guarded(|| {
            let p = match PacketParser::new(whole).next() { Some(Ok(p)) => p, _ => return None };
            let mut w = Vec::new();
            p.to_writer(&mut w).ok()?;
            let announced = p.write_len();
            Some((w, announced))
        });
        match r {
            Ok(Some((w, announced))) => {
                let hl = split_packets(&w).and_then(|v| v.first().map(|x| x.2.len() - x.3.len())).unwrap_or(0);
                let lb = &w[hl.min(w.len())..];
                self.out.case("dec", &[tag.to_string(), hx(body)], &["fixture".into(), hx(whole)], &format!("OK {}", hx(lb)), Some(announced == w.len()), &format!("{cls}-tag{tag}-accepted"));
            }
            Ok(None) => self.out.case("dec", &[tag.to_string(), hx(body)], &["fixture".into(), hx(whole)], "rejected", Some(true), &format!("{cls}-tag{tag}-not-accepted")),
            Err(p) => self.out.case("", &[], &["fixture".into(), hx(whole)], &p, Some(false), &format!("{cls}-panic")),
        }
    }
}

fn s2k_variants(rng: &mut Rng, v6: bool) -> Vec<(String, S2kParams)> {
    let mut v = Vec::new();
    let salt8 = |r: &mut Rng| { let mut s = [0u8; 8]; s.copy_from_slice(&r.bytes(8)); s };
    for (sn, sym) in [("aes128", SymmetricKeyAlgorithm::AES128), ("aes256", SymmetricKeyAlgorithm::AES256), ("3des", SymmetricKeyAlgorithm::TripleDES), ("cast5", SymmetricKeyAlgorithm::CAST5)] {
        let bs = sym.block_size();
        let specs: Vec<(&str, StringToKey)> = vec![
            ("iter", StringToKey::IteratedAndSalted { hash_alg: HashAlgorithm::Sha256, salt: salt8(rng), count: 96 }),
            ("salted", StringToKey::Salted { hash_alg: HashAlgorithm::Sha1, salt: salt8(rng) }),
            ("simple", StringToKey::Simple { hash_alg: HashAlgorithm::Sha256 }),
        ];
        for (kn, s2k) in specs {
            v.push((format!("cfb-{sn}-{kn}"), S2kParams::Cfb { sym_alg: sym, s2k: s2k.clone(), iv: rng.bytes(bs).into() }));
            if !v6 { v.push((format!("malleable-{sn}-{kn}"), S2kParams::MalleableCfb { sym_alg: sym, s2k, iv: rng.bytes(bs).into() })); }
        }
        if !v6 { v.push((format!("legacy-{sn}"), S2kParams::LegacyCfb { sym_alg: sym, iv: rng.bytes(bs).into() })); }
    }
    for (an, aead) in [("ocb", AeadAlgorithm::Ocb), ("eax", AeadAlgorithm::Eax), ("gcm", AeadAlgorithm::Gcm)] {
        let mut salt = [0u8; 16]; salt.copy_from_slice(&rng.bytes(16));
        v.push((format!("aead-{an}-argon2"), S2kParams::Aead { sym_alg: SymmetricKeyAlgorithm::AES128, aead_mode: aead, s2k: StringToKey::Argon2 { salt, t: 1, p: 1, m_enc: 10 }, nonce: rng.bytes(aead.nonce_size()).into() }));
        v.push((format!("aead-{an}-iter"), S2kParams::Aead { sym_alg: SymmetricKeyAlgorithm::AES256, aead_mode: aead, s2k: StringToKey::IteratedAndSalted { hash_alg: HashAlgorithm::Sha256, salt: salt8(rng), count: 96 }, nonce: rng.bytes(aead.nonce_size()).into() }));
    }
    v
}

fn subpacket_sets(rng: &mut Rng, key: &SignedSecretKey, which: u64) -> Vec<Subpacket> {
    let mk = |d| Subpacket::regular(d).unwrap();
    let mut v = vec![mk(SubpacketData::SignatureCreationTime(Timestamp::from_secs(1_700_000_000 + (which % 1000) as u32)))];
    let all: Vec<Box<dyn Fn(&mut Rng) -> Subpacket>> = vec![
        Box::new(|_| Subpacket::regular(SubpacketData::IsPrimary(true)).unwrap()),
        Box::new(|_| Subpacket::critical(SubpacketData::Revocable(false)).unwrap()),
        Box::new(|_| Subpacket::regular(SubpacketData::ExportableCertification(true)).unwrap()),
        Box::new(|_| Subpacket::regular(SubpacketData::TrustSignature(2, 120)).unwrap()),
        Box::new(|_| Subpacket::regular(SubpacketData::RegularExpression(b"<[^>]+[@.]example\\.org>$\0"[..].into())).unwrap()),
        Box::new(|_| Subpacket::regular(SubpacketData::PolicyURI("https://example.org/p".into())).unwrap()),
        Box::new(|_| Subpacket::regular(SubpacketData::PreferredKeyServer("hkps://keys.example.org".into())).unwrap()),
        Box::new(|_| Subpacket::regular(SubpacketData::SignersUserID(b"signer <s@example.org>"[..].into())).unwrap()),
        // text values outside ASCII: lengths are in octets, not characters
        Box::new(|_| Subpacket::regular(SubpacketData::PolicyURI("https://b\u{fc}cher.example/signierrichtlinie".into())).unwrap()),
        Box::new(|_| Subpacket::regular(SubpacketData::PreferredKeyServer("hkps://schl\u{fc}ssel.example/\u{65e5}\u{672c}".into())).unwrap()),
        Box::new(|_| Subpacket::regular(SubpacketData::SignersUserID("J\u{fc}rgen \u{1F600} <j@example.org>".as_bytes().into())).unwrap()),
        Box::new(|_| Subpacket::regular(SubpacketData::Notation(Notation { readable: true, name: "n\u{e4}me@example.org".into(), value: "w\u{e9}rt \u{2603}".as_bytes().into() })).unwrap()),
        Box::new(|r| Subpacket::regular(SubpacketData::Notation(Notation { readable: true, name: "a@example.org".into(), value: r.bytes(10).into() })).unwrap()),
        Box::new(|r| Subpacket::regular(SubpacketData::Notation(Notation { readable: false, name: "b@example.org".into(), value: r.bytes(200).into() })).unwrap()),
        Box::new(|r| Subpacket::regular(SubpacketData::Notation(Notation { readable: false, name: "c@example.org".into(), value: r.bytes(17000).into() })).unwrap()),
        Box::new(|r| Subpacket::regular(SubpacketData::Experimental(100, r.bytes(5).into())).unwrap()),
        Box::new(|r| Subpacket::critical(SubpacketData::Other(61, r.bytes(191).into())).unwrap()),
        Box::new(|r| Subpacket::regular(SubpacketData::Experimental(110, r.bytes(16318).into())).unwrap()),
        Box::new(|r| Subpacket::regular(SubpacketData::Other(62, r.bytes(16319).into())).unwrap()),
        Box::new(|_| Subpacket::regular(SubpacketData::PreferredSymmetricAlgorithms([SymmetricKeyAlgorithm::AES256, SymmetricKeyAlgorithm::AES128][..].into())).unwrap()),
        Box::new(|_| Subpacket::regular(SubpacketData::PreferredHashAlgorithms([HashAlgorithm::Sha512, HashAlgorithm::Sha256][..].into())).unwrap()),
        Box::new(|_| Subpacket::regular(SubpacketData::PreferredAeadAlgorithms([(SymmetricKeyAlgorithm::AES256, AeadAlgorithm::Ocb)][..].into())).unwrap()),
        Box::new(|_| Subpacket::regular(SubpacketData::SignatureExpirationTime(pgp::types::Duration::from_secs(86400))).unwrap()),
        Box::new(|_| Subpacket::regular(SubpacketData::KeyExpirationTime(pgp::types::Duration::from_secs(86400 * 365))).unwrap()),
    ];
    for (i, f) in all.iter().enumerate() { if (which >> (i % 20)) & 1 == 1 || which % 7 == (i as u64 % 7) { v.push(f(rng)); } }
    v.push(mk(SubpacketData::IssuerFingerprint(key.fingerprint())));
    v
}

fn main() {
    quiet_panics();
    let cli = cli();
    let mut cx = Ctx { out: Out::new(), rng: Rng::new(cli.seed) };
    if cli.mode == "replay" {
        match cli.rest.first().map(|s| s.as_str()) {
            Some("artifact") => { let p = unhx(&cli.rest[1]); cx.artifact(&p, "replay"); }
            Some("framed") if cli.rest.len() > 3 => { cx.framed(cli.rest[1].parse().unwrap_or(11), cli.rest[2].parse().unwrap_or(0), &cli.rest[3].clone()); }
            Some("packet") => { let p = unhx(&cli.rest[1]); cx.packets_to_model(&p, "replay"); }
            Some("fixture") => { let p = unhx(&cli.rest[1]); if let Some(v) = split_packets(&p) { for (tag, _, whole, body) in v { cx.fixture_packet(&whole, tag, &body, "replay"); } } }
            Some("object") if cli.rest.len() > 2 => {
                // an object is replayed from its written form: parse as key/packets, measure and write again
                let w = unhx(&cli.rest[2]);
                if let Ok(k) = SignedSecretKey::from_bytes(&w[..]) { cx.object(&cli.rest[1], &k, |b| SignedSecretKey::from_bytes(b).ok(), "replay"); }
                else if let Ok(k) = SignedPublicKey::from_bytes(&w[..]) { cx.object(&cli.rest[1], &k, |b| SignedPublicKey::from_bytes(b).ok(), "replay"); }
                else { for p in PacketParser::new(&w[..]).flatten() { cx.object(&cli.rest[1], &p, |b| PacketParser::new(b).next().and_then(|r| r.ok()), "replay"); } }
            }
            _ => {}
        }
        cx.out.finish();
        return;
    }
    let thorough = cli.tier == "thorough";

    // ---- A. model artifacts
    if let Ok(path) = std::env::var("VERIF_PREGEN") {
        if let Ok(s) = std::fs::read_to_string(&path) {
            for line in s.lines() {
                let mut it = line.split('\t');
                let (Some(_q), Some(o)) = (it.next(), it.next()) else { continue; };
                if o == "NONE" || o.starts_with("MODEL") || o.len() < 4 { continue; }
                cx.artifact(&unhx(o), "model");
            }
        }
    }

    // ---- B. objects built through the API
    let pw = Password::from("pw");
    let mut kinds: Vec<(KeyVersion, KeyType, &str)> = vec![
        (KeyVersion::V4, KeyType::Ed25519Legacy, "v4-eddsa-legacy"), (KeyVersion::V4, KeyType::ECDSA(ECCCurve::P256), "v4-p256"),
        (KeyVersion::V4, KeyType::ECDSA(ECCCurve::P384), "v4-p384"), (KeyVersion::V4, KeyType::ECDSA(ECCCurve::P521), "v4-p521"),
        (KeyVersion::V4, KeyType::Ed25519, "v4-ed25519"), (KeyVersion::V6, KeyType::Ed25519, "v6-ed25519"), (KeyVersion::V6, KeyType::Ed448, "v6-ed448"),
        (KeyVersion::V6, KeyType::ECDSA(ECCCurve::P256), "v6-p256"), (KeyVersion::V4, KeyType::Rsa(2048), "v4-rsa2048"),
    ];
    if thorough { kinds.push((KeyVersion::V6, KeyType::Rsa(3072), "v6-rsa3072")); kinds.push((KeyVersion::V4, KeyType::ECDSA(ECCCurve::Secp256k1), "v4-k256")); }
    let mut keys: Vec<(String, SignedSecretKey)> = Vec::new();
    for (v, kt, name) in kinds {
        let n = if thorough && !matches!(kt, KeyType::Rsa(_)) { 4 } else { 1 };
        for s in 0..n { if let Ok(k) = guarded(|| gen_key(v, kt.clone(), 500 + s)) { keys.push((name.to_string(), k)); } }
    }
    for (v, s, name) in [(KeyVersion::V4, 1u64, "v4-with-subkey"), (KeyVersion::V6, 2, "v6-with-subkey")] { keys.push((name.to_string(), gen_key_with_subkey(v, s))); }

    // the same keys as read from the legacy (old-format) framing other implementations export
    let mut old_keys: Vec<(String, SignedSecretKey)> = Vec::new();
    for (name, sk) in &keys {
        let Ok(w) = sk.to_bytes() else { continue; };
        let Some(ps) = split_packets(&w) else { continue; };
        let mut o = Vec::new();
        for (tag, _, _, body) in ps {
            let n = body.len();
            if n < 256 { o.push(0x80 | (tag << 2)); o.push(n as u8); } else if n < 65536 { o.push(0x80 | (tag << 2) | 1); o.extend((n as u16).to_be_bytes()); } else { o.push(0x80 | (tag << 2) | 2); o.extend((n as u32).to_be_bytes()); }
            o.extend(body);
        }
        if let Ok(k) = SignedSecretKey::from_bytes(&o[..]) { old_keys.push((format!("{name}-oldfmt"), k)); }
    }
    keys.extend(old_keys);

    for (name, sk) in &keys {
        cx.object(&format!("{name} secret"), sk, |b| SignedSecretKey::from_bytes(b).ok(), &format!("key-{name}"));
        let pk = SignedPublicKey::from(sk.clone());
        cx.object(&format!("{name} public"), &pk, |b| SignedPublicKey::from_bytes(b).ok(), &format!("cert-{name}"));
        cx.object(&format!("{name} primary packet"), &Packet::from(sk.primary_key.clone()), |b| PacketParser::new(b).next().and_then(|r| r.ok()), &format!("key-{name}"));
        // lock / unlock through the API, every protection mode
        let v6 = sk.version() == KeyVersion::V6;
        let variants = s2k_variants(&mut cx.rng, v6);
        let take = if thorough { variants.len() } else { 8 };
        let off = cx.rng.below(variants.len() as u64) as usize;
        for i in 0..take {
            let (vn, params) = &variants[(off + i * 5) % variants.len()];
            let mut k2 = sk.clone();
            let r = guarded(|| k2.primary_key.set_password_with_s2k(&pw, params.clone()));
            if !matches!(r, Ok(Ok(()))) { cx.out.case("", &[], &["lock".into(), name.clone(), vn.clone()], "lock-refused", Some(true), &format!("lock-{vn}-refused")); continue; }
            for sub in k2.secret_subkeys.iter_mut() { let _ = guarded(|| sub.key.set_password_with_s2k(&pw, params.clone())); }
            cx.object(&format!("{name} locked {vn}"), &k2, |b| SignedSecretKey::from_bytes(b).ok(), &format!("locked-{vn}"));
            let pkt = Packet::from(k2.primary_key.clone());
            cx.object(&format!("{name} locked {vn} packet"), &pkt, |b| PacketParser::new(b).next().and_then(|r| r.ok()), &format!("locked-{vn}"));
            // unlock again: same octets as before locking
            let mut k3 = k2.clone();
            let r = guarded(|| k3.primary_key.remove_password(&pw));
            if matches!(r, Ok(Ok(()))) {
                for sub in k3.secret_subkeys.iter_mut() { let _ = guarded(|| sub.key.remove_password(&pw)); }
                let same = k3.to_bytes().ok() == sk.to_bytes().ok();
                cx.out.case("", &[], &["unlock".into(), name.clone(), vn.clone()], &format!("unlock restores octets: {same}"), Some(same), &format!("unlocked-{vn}"));
                cx.object(&format!("{name} unlocked {vn}"), &k3, |b| SignedSecretKey::from_bytes(b).ok(), &format!("unlocked-{vn}"));
            } else {
                // whether a key the library agreed to lock can be unlocked again is property C08's question
                cx.out.case("", &[], &["unlock".into(), name.clone(), vn.clone()], "unlock-failed", Some(true), &format!("unlock-{vn}-failed"));
            }
        }
        // default protection
        let mut k4 = sk.clone();
        if matches!(guarded(|| k4.primary_key.set_password(Rng::new(9), &pw)), Ok(Ok(()))) {
            cx.object(&format!("{name} set_password"), &k4, |b| SignedSecretKey::from_bytes(b).ok(), "locked-default");
            cx.object(&format!("{name} set_password packet"), &Packet::from(k4.primary_key.clone()), |b| PacketParser::new(b).next().and_then(|r| r.ok()), "locked-default");
        }
    }

    // signatures with every kind of subpacket; insert / remove before signing
    let nsig = if thorough { 400 } else { 60 };
    for i in 0..nsig {
        let (name, sk) = &keys[i % keys.len()];
        if matches!(sk.primary_key.algorithm(), pgp::crypto::public_key::PublicKeyAlgorithm::RSA) && i % 4 != 0 { continue; }
        let which = cx.rng.next();
        let hashed = subpacket_sets(&mut cx.rng, sk, which);
        let unhashed = if i % 3 == 0 { subpacket_sets(&mut cx.rng, sk, which >> 7) } else { vec![] };
        let typ = [SignatureType::Binary, SignatureType::Text, SignatureType::Standalone][i % 3];
        let hash = sk.primary_key.hash_alg();
        let cfg = guarded(|| -> Option<SignatureConfig> {
            let mut c = if sk.version() == KeyVersion::V6 { SignatureConfig::v6(Rng::new(which), typ, sk.primary_key.algorithm(), hash).ok()? } else { SignatureConfig::v4(typ, sk.primary_key.algorithm(), hash) };
            c.hashed_subpackets = hashed.clone();
            c.unhashed_subpackets = unhashed.clone();
            // API mutation: remove one, insert one
            if i % 2 == 0 && c.hashed_subpackets.len() > 2 { c.hashed_subpackets.remove(1); }
            if i % 5 == 0 { c.unhashed_subpackets.insert(0, Subpacket::regular(SubpacketData::IssuerKeyId(sk.legacy_key_id())).ok()?); }
            Some(c)
        });
        let Ok(Some(cfg)) = cfg else { continue; };
        let sig = guarded(|| cfg.sign(&sk.primary_key, &Password::empty(), &b"data"[..]));
        match sig {
            Ok(Ok(sig)) => {
                let p = Packet::from(sig.clone());
                cx.object(&format!("{name} signature {i}"), &p, |b| PacketParser::new(b).next().and_then(|r| r.ok()), "signature");
                // mutate the parsed signature through the public fields of its unhashed area, if exposed
                if let Packet::Signature(mut s2) = p.clone() {
                    // grow / shrink the unhashed area across the packet length classes
                    let n = [1usize, 100, 300, 9000][i % 4];
                    let _ = s2.unhashed_subpacket_push(Subpacket::regular(SubpacketData::Other(70, cx.rng.bytes(n).into())).unwrap());
                    if i % 2 == 1 { let _ = s2.unhashed_subpacket_insert(0, Subpacket::regular(SubpacketData::Other(71, cx.rng.bytes(190).into())).unwrap()); }
                    cx.object(&format!("{name} signature {i} +unhashed"), &Packet::from(s2.clone()), |b| PacketParser::new(b).next().and_then(|r| r.ok()), "signature-mutated");
                    let _ = s2.unhashed_subpacket_remove(0);
                    cx.object(&format!("{name} signature {i} -unhashed"), &Packet::from(s2), |b| PacketParser::new(b).next().and_then(|r| r.ok()), "signature-mutated");
                }
            }
            Ok(Err(_)) => cx.out.case("", &[], &["sign".into(), i.to_string()], "sign-refused", Some(true), "signature-refused"),
            Err(p) => cx.out.case("", &[], &["sign".into(), i.to_string()], &p, Some(false), "signature-panic"),
        }
    }

    // messages: every packet the builders emit
    {
        let sk = &keys.iter().find(|(n, _)| n == "v4-with-subkey").unwrap().1;
        let sk6 = &keys.iter().find(|(n, _)| n == "v6-with-subkey").unwrap().1;
        for (mi, (k, v1)) in [(sk, true), (sk, false), (sk6, false), (sk6, true)].into_iter().enumerate() {
            let pk = SignedPublicKey::from(k.clone());
            let sub = &pk.public_subkeys[0];
            let data = cx.rng.bytes(300);
            let r = guarded(|| -> Option<Vec<u8>> {
                if v1 {
                    let mut b = MessageBuilder::from_bytes("f.bin", data.clone()).seipd_v1(Rng::new(1), SymmetricKeyAlgorithm::AES128);
                    b.sign(&k.primary_key, Password::empty(), k.primary_key.hash_alg());
                    b.encrypt_to_key(Rng::new(2), &sub.key).ok()?;
                    b.encrypt_with_password(pgp::types::StringToKey::new_iterated(Rng::new(3), HashAlgorithm::Sha256, 96), &"pw".into()).ok()?;
                    b.to_vec(Rng::new(4)).ok()
                } else {
                    let mut b = MessageBuilder::from_bytes("f.bin", data.clone()).seipd_v2(Rng::new(1), SymmetricKeyAlgorithm::AES256, AeadAlgorithm::Ocb, ChunkSize::C64B);
                    b.sign(&k.primary_key, Password::empty(), k.primary_key.hash_alg());
                    b.encrypt_to_key(Rng::new(2), &sub.key).ok()?;
                    b.encrypt_with_password(Rng::new(5), pgp::types::StringToKey::new_iterated(Rng::new(3), HashAlgorithm::Sha256, 96), &"pw".into()).ok()?;
                    b.to_vec(Rng::new(4)).ok()
                }
            });
            if let Ok(Some(bytes)) = r {
                cx.packets_to_model(&bytes, &format!("message-{mi}"));
                for p in PacketParser::new(&bytes[..]).flatten() {
                    cx.object(&format!("message {mi} packet"), &p, |b| PacketParser::new(b).next().and_then(|r| r.ok()), &format!("message-{mi}"));
                }
            }
            // signed only: OPS, literal, signature
            let r = guarded(|| { let mut b = MessageBuilder::from_bytes("f.txt", data.clone()); b.sign(&k.primary_key, Password::empty(), k.primary_key.hash_alg()); b.to_vec(Rng::new(4)).ok() });
            if let Ok(Some(bytes)) = r {
                cx.packets_to_model(&bytes, &format!("signed-message-{mi}"));
                for p in PacketParser::new(&bytes[..]).flatten() {
                    cx.object(&format!("signed message {mi} packet"), &p, |b| PacketParser::new(b).next().and_then(|r| r.ok()), &format!("signed-message-{mi}"));
                }
                let _ = Message::from_bytes(&bytes[..]).map(|mut m| { let mut o = Vec::new(); let _ = m.read_to_end(&mut o); });
            }
        }
    }

    // ---- B+. key flags modified through the public API: from the default value and from parsed fields of 0, 1, 2 and 3
    //          octets, every combination of the nine setters; alone, as a subpacket, and (a sample) inside a signature
    {
        use pgp::packet::KeyFlags;
        let starts: Vec<(&str, Option<Vec<u8>>)> = vec![("default", None), ("parsed-0", Some(vec![])), ("parsed-1", Some(vec![0x01])), ("parsed-2", Some(vec![0x02, 0x00])), ("parsed-3", Some(vec![0x00, 0x00, 0x01]))];
        for (sname, start) in &starts {
            for combo in 0u32..512 {
                if !thorough && combo % 3 != 0 && combo.count_ones() > 2 { continue; }
                let mk = || -> Option<KeyFlags> {
                    let mut f = match start { None => KeyFlags::default(), Some(b) => KeyFlags::try_from_reader(&b[..]).ok()? };
                    if combo & 1 != 0 { f.set_certify(true); } if combo & 2 != 0 { f.set_sign(true); } if combo & 4 != 0 { f.set_encrypt_comms(true); }
                    if combo & 8 != 0 { f.set_encrypt_storage(true); } if combo & 16 != 0 { f.set_shared(true); } if combo & 32 != 0 { f.set_authentication(true); }
                    if combo & 64 != 0 { f.set_group(true); } if combo & 128 != 0 { f.set_adsk(true); } if combo & 256 != 0 { f.set_timestamping(true); }
                    Some(f)
                };
                let r = guarded(|| -> Option<(usize, Vec<u8>, bool, bool, usize, usize)> {
                    let f = mk()?;
                    let w = f.to_bytes().ok()?;
                    let back = KeyFlags::try_from_reader(&w[..]).ok()?;
                    let getters = |k: &KeyFlags| (k.certify(), k.sign(), k.encrypt_comms(), k.encrypt_storage(), k.shared(), k.authentication(), k.group(), k.adsk(), k.timestamping());
                    let sp = Subpacket::regular(SubpacketData::KeyFlags(f.clone())).ok()?;
                    let spw = sp.to_bytes().ok()?;
                    Some((f.write_len(), w, back == f, getters(&back) == getters(&f), sp.write_len(), spw.len()))
                });
                let r2 = r.clone();
                let (imp, ok) = match r {
                    Ok(Some((announced, w, eq, same_flags, sp_announced, sp_written))) => (format!("announced={announced} written={} parses-back-equal={eq} same-flags={same_flags} subpacket announced={sp_announced} written={sp_written}", w.len()), announced == w.len() && eq && same_flags && sp_announced == sp_written),
                    Ok(None) => ("not constructible".to_string(), true),
                    Err(p) => (p, false),
                };
                cx.out.case("", &[], &["keyflags".into(), sname.to_string(), combo.to_string()], &imp, Some(ok), &format!("api-keyflags-{sname}{}", if combo >= 128 { "-second-octet" } else { "" }));
                // the same value in the model of the object (Wire/KeyFlagsObj.v): octets written, announced length, parses back equal
                if let Ok(Some((announced, w, eq, _, _, _))) = &r2 {
                    cx.out.case("kflags", &[match start { None => "default".to_string(), Some(b) => if b.is_empty() { "-".to_string() } else { hx(b) } }, combo.to_string()], &["keyflags".into(), sname.to_string(), combo.to_string()],
                        &format!("{} {} {}", if w.is_empty() { "-".to_string() } else { hx(w) }, announced, *eq as u8), None, &format!("api-keyflags-model-{sname}"));
                }
                // inside a signature: the packet's announced length and the parse back
                if combo % 37 == 5 || combo == 128 || combo == 256 || combo == 384 {
                    let (name, sk) = &keys[(combo as usize) % keys.len()];
                    if let Ok(Some(f)) = guarded(mk) {
                        let sig = guarded(|| -> Option<pgp::packet::Signature> {
                            let mut c = if sk.version() == KeyVersion::V6 { SignatureConfig::v6(Rng::new(combo as u64), SignatureType::Binary, sk.primary_key.algorithm(), sk.primary_key.hash_alg()).ok()? } else { SignatureConfig::v4(SignatureType::Binary, sk.primary_key.algorithm(), sk.primary_key.hash_alg()) };
                            c.hashed_subpackets = vec![Subpacket::regular(SubpacketData::SignatureCreationTime(Timestamp::from_secs(1_700_000_000))).ok()?, Subpacket::regular(SubpacketData::KeyFlags(f.clone())).ok()?, Subpacket::regular(SubpacketData::IssuerFingerprint(sk.fingerprint())).ok()?];
                            c.sign(&sk.primary_key, &Password::empty(), &b"data"[..]).ok()
                        });
                        if let Ok(Some(sig)) = sig { cx.object(&format!("{name} signature with api-built key flags {sname} {combo}"), &Packet::from(sig), |b| PacketParser::new(b).next().and_then(|r| r.ok()), "api-keyflags-signature"); }
                    }
                }
            }
        }
    }

    // ---- B''. session-key packets built as plain values of the public enums, every S2K specifier
    // kind (including reserved / private / unassigned type octets) and every AEAD mode
    {
        use pgp::packet::{AeadProps, PacketHeader, PublicKeyEncryptedSessionKey as Pk, SymKeyEncryptedSessionKey as Sk};
        use pgp::types::{Mpi, PkeskBytes, Tag};
        let mut s2ks: Vec<(String, StringToKey)> = vec![
            ("simple".into(), StringToKey::Simple { hash_alg: HashAlgorithm::Sha256 }),
            ("salted".into(), StringToKey::Salted { hash_alg: HashAlgorithm::Sha512, salt: [7; 8] }),
            ("iterated".into(), StringToKey::IteratedAndSalted { hash_alg: HashAlgorithm::Sha256, salt: [9; 8], count: 200 }),
            ("argon2".into(), StringToKey::Argon2 { salt: [3; 16], t: 1, p: 4, m_enc: 21 }),
            ("reserved".into(), StringToKey::Reserved { unknown: cx.rng.bytes(5).into() }),
        ];
        for typ in [100u8, 105, 110] { s2ks.push((format!("private{typ}"), StringToKey::Private { typ, unknown: cx.rng.bytes(3 + typ as usize % 7).into() })); }
        for typ in [5u8, 6, 42, 99, 111, 200, 255] { s2ks.push((format!("other{typ}"), StringToKey::Other { typ, unknown: cx.rng.bytes(typ as usize % 9).into() })); }
        let reparse = |b: &[u8]| PacketParser::new(b).next().and_then(|r| r.ok());
        for (sn, s2k) in &s2ks {
            for (an, aead) in [("eax", AeadProps::Eax { iv: [1; 16] }), ("ocb", AeadProps::Ocb { iv: [2; 15] }), ("gcm", AeadProps::Gcm { iv: [3; 12] })] {
                let ek: Vec<u8> = cx.rng.bytes(32 + 16);
                let iv_len = match &aead { AeadProps::Eax { .. } => 16, AeadProps::Ocb { .. } => 15, AeadProps::Gcm { .. } => 12 };
                let len = 1 + 1 + 1 + 1 + 1 + s2k.write_len() + iv_len + ek.len();
                let p = Sk::V6 { packet_header: PacketHeader::new_fixed(Tag::SymKeyEncryptedSessionKey, len as u32), sym_algorithm: SymmetricKeyAlgorithm::AES256, s2k: s2k.clone(), aead, encrypted_key: ek.into() };
                cx.object(&format!("skesk v6 {sn} {an}"), &Packet::from(p), reparse, &format!("literal-skesk6-{sn}"));
            }
            // v4: the specifier is not length-framed; only the self-delimiting kinds can be followed by a key
            let self_delimiting = matches!(s2k, StringToKey::Simple { .. } | StringToKey::Salted { .. } | StringToKey::IteratedAndSalted { .. } | StringToKey::Argon2 { .. });
            for ek in [vec![], cx.rng.bytes(17)] {
                if !self_delimiting && !ek.is_empty() { continue; }
                let len = 2 + s2k.write_len() + ek.len();
                let p = Sk::V4 { packet_header: PacketHeader::new_fixed(Tag::SymKeyEncryptedSessionKey, len as u32), sym_algorithm: SymmetricKeyAlgorithm::AES128, s2k: s2k.clone(), encrypted_key: ek.into() };
                cx.object(&format!("skesk v4 {sn}"), &Packet::from(p), reparse, &format!("literal-skesk4-{sn}"));
            }
        }
        // PKESK: every value shape, v3 and v6, with and without recipient
        let k4 = &keys.iter().find(|(n, _)| n == "v4-with-subkey").unwrap().1;
        let k6 = &keys.iter().find(|(n, _)| n == "v6-with-subkey").unwrap().1;
        let shapes: Vec<(&str, pgp::crypto::public_key::PublicKeyAlgorithm, PkeskBytes, PkeskBytes)> = vec![
            ("rsa", pgp::crypto::public_key::PublicKeyAlgorithm::RSA, PkeskBytes::Rsa { mpi: Mpi::from_slice(&cx.rng.bytes(256)) }, PkeskBytes::Rsa { mpi: Mpi::from_slice(&cx.rng.bytes(255)) }),
            ("ecdh", pgp::crypto::public_key::PublicKeyAlgorithm::ECDH, PkeskBytes::Ecdh { public_point: Mpi::from_slice(&[&[0x40u8][..], &cx.rng.bytes(32)[..]].concat()), encrypted_session_key: cx.rng.bytes(48).into() }, PkeskBytes::Ecdh { public_point: Mpi::from_slice(&[&[0x04u8][..], &cx.rng.bytes(64)[..]].concat()), encrypted_session_key: cx.rng.bytes(40).into() }),
            ("x25519", pgp::crypto::public_key::PublicKeyAlgorithm::X25519, PkeskBytes::X25519 { ephemeral: [5; 32], session_key: cx.rng.bytes(24).into(), sym_alg: Some(SymmetricKeyAlgorithm::AES128) }, PkeskBytes::X25519 { ephemeral: [6; 32], session_key: cx.rng.bytes(40).into(), sym_alg: None }),
            ("x448", pgp::crypto::public_key::PublicKeyAlgorithm::X448, PkeskBytes::X448 { ephemeral: [5; 56], session_key: cx.rng.bytes(24).into(), sym_alg: Some(SymmetricKeyAlgorithm::AES256) }, PkeskBytes::X448 { ephemeral: [6; 56], session_key: cx.rng.bytes(40).into(), sym_alg: None }),
        ];
        for (sn, alg, v3vals, v6vals) in shapes {
            for wild in [false, true] {
                let id = if wild { pgp::types::KeyId::from([0u8; 8]) } else { k4.legacy_key_id() };
                let p = Pk::V3 { packet_header: PacketHeader::new_fixed(Tag::PublicKeyEncryptedSessionKey, 0), id, pk_algo: alg, values: v3vals.clone() };
                let len = p.write_len();
                let Pk::V3 { id, pk_algo, values, .. } = p else { unreachable!() };
                let p = Pk::V3 { packet_header: PacketHeader::new_fixed(Tag::PublicKeyEncryptedSessionKey, len as u32), id, pk_algo, values };
                cx.object(&format!("pkesk v3 {sn} wild={wild}"), &Packet::from(p), reparse, &format!("literal-pkesk3-{sn}"));
                for fp in [None, Some(k4.fingerprint()), Some(k6.fingerprint())] {
                    if wild && fp.is_some() { continue; }
                    let p = Pk::V6 { packet_header: PacketHeader::new_fixed(Tag::PublicKeyEncryptedSessionKey, 0), fingerprint: fp.clone(), pk_algo: alg, values: v6vals.clone() };
                    let len = p.write_len();
                    let p = Pk::V6 { packet_header: PacketHeader::new_fixed(Tag::PublicKeyEncryptedSessionKey, len as u32), fingerprint: fp, pk_algo: alg, values: v6vals.clone() };
                    cx.object(&format!("pkesk v6 {sn}"), &Packet::from(p), reparse, &format!("literal-pkesk6-{sn}"));
                }
            }
        }
    }

    // ---- B'. the same bodies behind other legal headers (old format 1/2/4-octet lengths, partial
    // lengths on data packets): the announced length is the length written (the library writes a
    // fixed-length header of the original format)
    for n in [0usize, 1, 100, 191, 192, 255, 256, 1000, 8383, 8384, 65535, 65536, 70000] {
        for tag in [11u8, 18, 9, 13, 8] {
            for f in ["old-lt0", "old-lt1", "old-lt2", "new-5-octet", "partial-2^9", "partial-2^10", "partial-2^13"] { cx.framed(tag, n, f); }
        }
    }

    // ---- B+'. user attribute packets written by hand from RFC 9580 5.12: image attributes with the version 1 JPEG header, a
    //           version 1 header of an unknown format, a header of an unknown version (lengths 3, 4, 9), an unknown attribute
    //           type: what the library accepts it writes back octet for octet, with a truthful length
    {
        let sub = |typ: u8, body: &[u8]| -> Vec<u8> { let mut v = Vec::new(); let n = body.len() + 1; if n < 192 { v.push(n as u8); } else { v.push(((n - 192) >> 8) as u8 + 192); v.push(((n - 192) & 0xff) as u8); } v.push(typ); v.extend_from_slice(body); v };
        let mut cases: Vec<(&str, Vec<u8>)> = Vec::new();
        let img = [0xffu8, 0xd8, 0xff, 0xe0, 1, 2, 3];
        cases.push(("jpeg-v1", sub(1, &[&[0x10u8, 0x00, 0x01, 0x01][..], &[0u8; 12][..], &img[..]].concat())));
        cases.push(("v1-unknown-format", sub(1, &[&[0x08u8, 0x00, 0x01, 0x07, 9, 9, 9, 9][..], &img[..]].concat())));
        cases.push(("v1-unknown-format-bare", sub(1, &[&[0x04u8, 0x00, 0x01, 0x07][..], &img[..]].concat())));
        for (n, hl) in [("unknown-version-3", 3u8), ("unknown-version-4", 4), ("unknown-version-9", 9)] { let mut h = vec![hl, 0x00, 0x02]; h.extend((3..hl).map(|i| 0xa0 + i)); cases.push((n, sub(1, &[&h[..], &img[..]].concat()))); }
        cases.push(("unknown-attribute-type", sub(100, &[1, 2, 3, 4, 5])));
        for (name, body) in cases {
            let mut pkt = vec![0xC0 | 17]; pkt.push(body.len() as u8); pkt.extend_from_slice(&body);
            let r = guarded(|| match PacketParser::new(&pkt[..]).next() { Some(Ok(p)) => { let w = p.to_bytes().ok(); let wl = p.write_len(); Some((w, wl)) } _ => None });
            let (imp, pred) = match r { Ok(Some((Some(w), wl))) => (format!("written={} announced={} same-octets={}", hx(&w), wl, (w == pkt) as u8), w == pkt && wl == pkt.len()), Ok(Some((None, _))) => ("accepted but not writable".to_string(), false), Ok(None) => ("not accepted".to_string(), true), Err(p) => (p, false) };
            cx.out.case("", &[], &["handmade-attribute".into(), name.into(), hx(&pkt)], &imp, Some(pred), &format!("handmade-attribute-{}", if imp.starts_with("not accepted") { "not-accepted" } else { "accepted" }));
        }
    }

    // ---- C. fixtures
    let mut files = Vec::new();
    fn walk(p: &std::path::Path, out: &mut Vec<std::path::PathBuf>) { if let Ok(rd) = std::fs::read_dir(p) { let mut v: Vec<_> = rd.flatten().map(|e| e.path()).collect(); v.sort(); for p in v { if p.is_dir() { walk(&p, out); } else { out.push(p); } } } }
    walk(std::path::Path::new("/repo/tests"), &mut files);
    let mut seen = std::collections::HashSet::new();
    let mut nfix = 0usize;
    let cap = if thorough { 60000 } else { 6000 };
    for f in files {
        let Ok(raw) = std::fs::read(&f) else { continue; };
        if raw.len() > 400_000 { continue; }
        let bin: Vec<u8> = if raw.starts_with(b"-----BEGIN PGP") {
            let r = guarded(|| { let mut d = pgp::armor::Dearmor::new(&raw[..]); let mut o = Vec::new(); d.read_to_end(&mut o).ok().map(|_| o) });
            match r { Ok(Some(o)) => o, _ => continue }
        } else { raw };
        let Some(ps) = split_packets(&bin) else { continue; };
        for (tag, _newf, whole, body) in ps {
            if body.len() > 70000 || !seen.insert(whole.clone()) { continue; }
            if nfix >= cap { break; }
            nfix += 1;
            cx.fixture_packet(&whole, tag, &body, "fixture");
        }
    }
    cx.out.finish();
}
